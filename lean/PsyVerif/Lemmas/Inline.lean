import PsyVerif.Model.Inline
import PsyVerif.Lemmas.MiniFSem
/-! # C07 helper lemmas: the substitution lemma for by-reference binding

`execE_subst`: running a callee body through the environment that binds every formal to
what its actual denoted in the store `σ₀` of the call equals running the textually
substituted body, in every store that still agrees with `σ₀` on the key variables of the
actuals — provided the substituted body writes none of them. -/
namespace C07
open MiniF

theorem exprVars_eq (e : Expr) : exprVars e = evars e := by
  induction e with
  | lit n => rfl
  | var x => rfl
  | idx1 a i ih => simp [exprVars, evars, ih]
  | idx2 a i j ihi ihj => simp [exprVars, evars, ihi, ihj]
  | un op e ih => simp [exprVars, evars, ih]
  | bin op a b iha ihb => simp [exprVars, evars, iha, ihb]

theorem written_eq (s : Stmt) : written s = wvars s := by
  induction s with
  | skip => rfl
  | seq a b iha ihb => simp [written, wvars, iha, ihb]
  | assign x e => rfl
  | store1 a i e => rfl
  | store2 a i j e => rfl
  | ite c t f iht ihf => simp [written, wvars, iht, ihf]
  | loop v lo hi st b ih => simp [written, wvars, ih]

theorem runIters_eq_G (f : Store → Store) (v : Nat) (lo step : Int) (n : Nat) (k : Int) (σ : Store) :
    runIters f v lo step n k σ = runItersG (fun τ x => τ.set (v, 0, 0) x) f lo step n k σ := by
  induction n generalizing k σ with
  | zero => rfl
  | succ n ih => simp only [runIters, runItersG, ih]

/-- two loop bodies and two "set the loop variable" operations that coincide on the stores
satisfying an invariant which both preserve give the same iterations -/
theorem runItersG_congr (P : Store → Prop) {set₁ set₂ : Store → Int → Store} {f g : Store → Store}
    (hset : ∀ τ x, P τ → set₁ τ x = set₂ τ x) (hsetP : ∀ τ x, P τ → P (set₂ τ x))
    (hfg : ∀ τ, P τ → f τ = g τ) (hgP : ∀ τ, P τ → P (g τ)) (lo step : Int) :
    ∀ n k σ, P σ → runItersG set₁ f lo step n k σ = runItersG set₂ g lo step n k σ := by
  intro n
  induction n with
  | zero => intro k σ h; exact hset _ _ h
  | succ n ih =>
    intro k σ h
    simp only [runItersG]
    rw [hset _ _ h, hfg _ (hsetP _ _ h)]
    exact ih _ _ (hgP _ (hsetP _ _ h))

theorem eval_shiftIdx (lo : Int) (st e : Expr) (σ : Store) :
    eval (shiftIdx lo st e) σ = eval e σ + (eval st σ - lo) := by
  unfold shiftIdx
  split
  · rename_i h
    subst h
    simp only [eval]
    omega
  · simp only [eval, evalBin]
    omega

theorem findFormal_mem {ps : List Param} {as : List Actual} {x : Nat} {p : Param} {a : Actual}
    (h : findFormal ps as x = some (p, a)) : a ∈ as ∧ p ∈ ps ∧ p.name = x := by
  induction ps generalizing as with
  | nil => simp [findFormal] at h
  | cons q qs ih =>
    cases as with
    | nil => simp [findFormal] at h
    | cons b bs =>
      simp only [findFormal] at h
      split at h
      · rename_i hq
        cases h
        exact ⟨by simp, by simp, hq⟩
      · obtain ⟨h1, h2, h3⟩ := ih h
        exact ⟨List.mem_cons_of_mem _ h1, List.mem_cons_of_mem _ h2, h3⟩

theorem keyVars_mem {as : List Actual} {a : Actual} {v : Nat} (ha : a ∈ as) (hv : v ∈ actualKeyVars a) :
    v ∈ keyVars as := by
  induction as with
  | nil => cases ha
  | cons b bs ih =>
    simp only [keyVars, List.mem_append]
    rcases List.mem_cons.mp ha with h | h
    · subst h; exact Or.inl hv
    · exact Or.inr (ih h)

/-! ## the substitution lemma -/

section subst
variable (ρ : Nat → Role) (K : Nat → Prop) (σ₀ : Store)

/-- every key variable of an actual that some name is bound to lies in `K` -/
def KeysIn : Prop := ∀ x p a, ρ x = .formal p a → ∀ v ∈ actualKeyVars a, K v

/-- the environment of the call -/
def envR : Env := fun x => bindRole σ₀ x (ρ x)

variable {ρ K σ₀}

theorem key_eval (hK : KeysIn ρ K) {σ : Store} (hag : AgreeOn K σ₀ σ) {x : Nat} {p : Param} {a : Actual}
    (h : ρ x = .formal p a) (e : Expr) (he : ∀ v ∈ exprVars e, v ∈ actualKeyVars a) :
    eval e σ₀ = eval e σ :=
  eval_congr (V := K) (fun v hv => hK x p a h v (he v (by rw [exprVars_eq]; exact hv))) hag

theorem evalE_subst (hK : KeysIn ρ K) {σ : Store} (hag : AgreeOn K σ₀ σ) (e : Expr)
    (hok : okE ρ e = true) : evalE (envR ρ σ₀) e σ = eval (substE ρ e) σ := by
  induction e with
  | lit n => rfl
  | var x =>
    simp only [evalE, rd, envR, substE]
    cases h : ρ x with
    | loc y => simp [bindRole, substRef0, eval]
    | free => simp [bindRole, substRef0, eval]
    | formal p a =>
      cases a with
      | var y => simp [bindRole, bindActual, substRef0, eval]
      | elem1 a i =>
        simp only [bindRole, bindActual, substRef0, eval]
        rw [key_eval hK hag h i (by intro v hv; simpa [actualKeyVars] using hv)]
      | elem2 a i j =>
        simp only [bindRole, bindActual, substRef0, eval]
        rw [key_eval hK hag h i (by intro v hv; simp [actualKeyVars, hv]),
          key_eval hK hag h j (by intro v hv; simp [actualKeyVars, hv])]
      | expr e =>
        simp only [bindRole, bindActual, substRef0]
        exact key_eval hK hag h e (by intro v hv; simpa [actualKeyVars] using hv)
      | sec1 a st u => simp [okE, scalarRole, h] at hok
      | sec2 a st1 st2 u => simp [okE, scalarRole, h] at hok
      | col a st j u => simp [okE, scalarRole, h] at hok
      | row a i st u => simp [okE, scalarRole, h] at hok
  | idx1 x i ih =>
    simp only [okE, Bool.and_eq_true] at hok
    simp only [evalE, rd, envR, substE, ih hok.2]
    cases h : ρ x with
    | loc y => simp [bindRole, substRef1, eval]
    | free => simp [bindRole, substRef1, eval]
    | formal p a =>
      cases a with
      | sec1 a st u =>
        simp only [bindRole, bindActual, substRef1, eval, eval_shiftIdx]
        rw [key_eval hK hag h st (by intro v hv; simpa [actualKeyVars] using hv)]
      | col a st j u =>
        simp only [bindRole, bindActual, substRef1, eval, eval_shiftIdx]
        rw [key_eval hK hag h st (by intro v hv; simp [actualKeyVars, hv]),
          key_eval hK hag h j (by intro v hv; simp [actualKeyVars, hv])]
      | row a i' st u =>
        simp only [bindRole, bindActual, substRef1, eval, eval_shiftIdx]
        rw [key_eval hK hag h st (by intro v hv; simp [actualKeyVars, hv]),
          key_eval hK hag h i' (by intro v hv; simp [actualKeyVars, hv])]
      | var y => simp [rank1Role, h] at hok
      | elem1 a i' => simp [rank1Role, h] at hok
      | elem2 a i' j' => simp [rank1Role, h] at hok
      | expr e => simp [rank1Role, h] at hok
      | sec2 a st1 st2 u => simp [rank1Role, h] at hok
  | idx2 x i j ihi ihj =>
    simp only [okE, Bool.and_eq_true] at hok
    simp only [evalE, rd, envR, substE, ihi hok.1.2, ihj hok.2]
    cases h : ρ x with
    | loc y => simp [bindRole, substRef2, eval]
    | free => simp [bindRole, substRef2, eval]
    | formal p a =>
      cases a with
      | sec2 a st1 st2 u =>
        simp only [bindRole, bindActual, substRef2, eval, eval_shiftIdx]
        rw [key_eval hK hag h st1 (by intro v hv; simp [actualKeyVars, hv]),
          key_eval hK hag h st2 (by intro v hv; simp [actualKeyVars, hv])]
      | var y => simp [rank2Role, h] at hok
      | elem1 a i' => simp [rank2Role, h] at hok
      | elem2 a i' j' => simp [rank2Role, h] at hok
      | expr e => simp [rank2Role, h] at hok
      | sec1 a st u => simp [rank2Role, h] at hok
      | col a st j' u => simp [rank2Role, h] at hok
      | row a i' st u => simp [rank2Role, h] at hok
  | un op e ih =>
    simp only [okE] at hok
    simp only [evalE, substE, eval, ih hok]
  | bin op a b iha ihb =>
    simp only [okE, Bool.and_eq_true] at hok
    simp only [evalE, substE, eval, iha hok.1, ihb hok.2]

/-- agreement on `K` survives a statement that writes no variable of `K` -/
theorem agree_after {s : Stmt} {σ : Store} (hag : AgreeOn K σ₀ σ) (hw : ∀ x ∈ wvars s, ¬ K x) :
    AgreeOn K σ₀ (exec s σ) := by
  intro x hx i j
  rw [exec_frame (fun hmem => hw x hmem hx)]
  exact hag x hx i j

/-- a scalar assignment through the environment is the substituted assignment -/
theorem wr0_subst (hK : KeysIn ρ K) {σ : Store} (hag : AgreeOn K σ₀ σ) (x : Nat) (rhs : Expr) (v : Int)
    (hv : eval rhs σ = v) (dflt : Stmt) (hok : definableScalarRole (ρ x) = true) :
    wr (envR ρ σ₀) σ x 0 0 v = exec (assignTo (substRef0 (ρ x) x) rhs dflt) σ := by
  subst hv
  simp only [wr, envR]
  cases h : ρ x with
  | loc y => simp [bindRole, substRef0, assignTo, exec]
  | free => simp [bindRole, substRef0, assignTo, exec]
  | formal p a =>
    cases a with
    | var y => simp [bindRole, bindActual, substRef0, assignTo, exec]
    | elem1 a i =>
      simp only [bindRole, bindActual, substRef0, assignTo, exec]
      rw [key_eval hK hag h i (by intro v hv; simpa [actualKeyVars] using hv)]
    | elem2 a i j =>
      simp only [bindRole, bindActual, substRef0, assignTo, exec]
      rw [key_eval hK hag h i (by intro v hv; simp [actualKeyVars, hv]),
        key_eval hK hag h j (by intro v hv; simp [actualKeyVars, hv])]
    | expr e => simp [definableScalarRole, h] at hok
    | sec1 a st u => simp [definableScalarRole, h] at hok
    | sec2 a st1 st2 u => simp [definableScalarRole, h] at hok
    | col a st j u => simp [definableScalarRole, h] at hok
    | row a i st u => simp [definableScalarRole, h] at hok

theorem wr1_subst (hK : KeysIn ρ K) {σ : Store} (hag : AgreeOn K σ₀ σ) (x : Nat) (i' rhs : Expr) (k v : Int)
    (hk : eval i' σ = k) (hv : eval rhs σ = v) (hok : rank1Role (ρ x) = true) :
    wr (envR ρ σ₀) σ x k 0 v = exec (assignTo (substRef1 (ρ x) x i') rhs .skip) σ := by
  subst hv hk
  simp only [wr, envR]
  cases h : ρ x with
  | loc y => simp [bindRole, substRef1, assignTo, exec]
  | free => simp [bindRole, substRef1, assignTo, exec]
  | formal p a =>
    cases a with
    | sec1 a st u =>
      simp only [bindRole, bindActual, substRef1, assignTo, exec, eval_shiftIdx]
      rw [key_eval hK hag h st (by intro v hv; simpa [actualKeyVars] using hv)]
    | col a st j u =>
      simp only [bindRole, bindActual, substRef1, assignTo, exec, eval_shiftIdx]
      rw [key_eval hK hag h st (by intro v hv; simp [actualKeyVars, hv]),
        key_eval hK hag h j (by intro v hv; simp [actualKeyVars, hv])]
    | row a i st u =>
      simp only [bindRole, bindActual, substRef1, assignTo, exec, eval_shiftIdx]
      rw [key_eval hK hag h st (by intro v hv; simp [actualKeyVars, hv]),
        key_eval hK hag h i (by intro v hv; simp [actualKeyVars, hv])]
    | var y => simp [rank1Role, h] at hok
    | elem1 a i => simp [rank1Role, h] at hok
    | elem2 a i j => simp [rank1Role, h] at hok
    | expr e => simp [rank1Role, h] at hok
    | sec2 a st1 st2 u => simp [rank1Role, h] at hok

theorem wr2_subst (hK : KeysIn ρ K) {σ : Store} (hag : AgreeOn K σ₀ σ) (x : Nat) (i' j' rhs : Expr)
    (k l v : Int) (hk : eval i' σ = k) (hl : eval j' σ = l) (hv : eval rhs σ = v)
    (hok : rank2Role (ρ x) = true) :
    wr (envR ρ σ₀) σ x k l v = exec (assignTo (substRef2 (ρ x) x i' j') rhs .skip) σ := by
  subst hv hk hl
  simp only [wr, envR]
  cases h : ρ x with
  | loc y => simp [bindRole, substRef2, assignTo, exec]
  | free => simp [bindRole, substRef2, assignTo, exec]
  | formal p a =>
    cases a with
    | sec2 a st1 st2 u =>
      simp only [bindRole, bindActual, substRef2, assignTo, exec, eval_shiftIdx]
      rw [key_eval hK hag h st1 (by intro v hv; simp [actualKeyVars, hv]),
        key_eval hK hag h st2 (by intro v hv; simp [actualKeyVars, hv])]
    | var y => simp [rank2Role, h] at hok
    | elem1 a i => simp [rank2Role, h] at hok
    | elem2 a i j => simp [rank2Role, h] at hok
    | expr e => simp [rank2Role, h] at hok
    | sec1 a st u => simp [rank2Role, h] at hok
    | col a st j u => simp [rank2Role, h] at hok
    | row a i st u => simp [rank2Role, h] at hok

/-- **Substitution lemma.** -/
theorem execE_subst (hK : KeysIn ρ K) (s : Stmt) :
    ∀ {σ : Store}, AgreeOn K σ₀ σ → okS ρ s = true → (∀ x ∈ wvars (substS ρ s), ¬ K x) →
      execE (envR ρ σ₀) s σ = exec (substS ρ s) σ := by
  induction s with
  | skip => intro σ _ _ _; rfl
  | seq a b iha ihb =>
    intro σ hag hok hw
    simp only [okS, Bool.and_eq_true] at hok
    simp only [substS, wvars, List.mem_append] at hw
    have hwa : ∀ x ∈ wvars (substS ρ a), ¬ K x := fun x hx => hw x (Or.inl hx)
    have hwb : ∀ x ∈ wvars (substS ρ b), ¬ K x := fun x hx => hw x (Or.inr hx)
    simp only [execE, substS, exec]
    rw [iha hag hok.1 hwa]
    exact ihb (agree_after hag hwa) hok.2 hwb
  | assign x e =>
    intro σ hag hok _
    simp only [okS, Bool.and_eq_true] at hok
    simp only [execE, substS]
    exact wr0_subst hK hag x _ _ (evalE_subst hK hag e hok.2).symm _ hok.1
  | store1 a i e =>
    intro σ hag hok _
    simp only [okS, Bool.and_eq_true] at hok
    simp only [execE, substS]
    exact wr1_subst hK hag a _ _ _ _ (evalE_subst hK hag i hok.1.2).symm
      (evalE_subst hK hag e hok.2).symm hok.1.1
  | store2 a i j e =>
    intro σ hag hok _
    simp only [okS, Bool.and_eq_true] at hok
    simp only [execE, substS]
    exact wr2_subst hK hag a _ _ _ _ _ _ (evalE_subst hK hag i hok.1.1.2).symm
      (evalE_subst hK hag j hok.1.2).symm (evalE_subst hK hag e hok.2).symm hok.1.1.1
  | ite c t f iht ihf =>
    intro σ hag hok hw
    simp only [okS, Bool.and_eq_true] at hok
    simp only [substS, wvars, List.mem_append] at hw
    simp only [execE, substS, exec, evalE_subst hK hag c hok.1.1]
    split
    · exact iht hag hok.1.2 (fun x hx => hw x (Or.inl hx))
    · exact ihf hag hok.2 (fun x hx => hw x (Or.inr hx))
  | loop v lo hi st b ih =>
    intro σ hag hok hw
    simp only [okS, Bool.and_eq_true] at hok
    obtain ⟨⟨⟨⟨hv, hlo⟩, hhi⟩, hst⟩, hb⟩ := hok
    simp only [substS, wvars, List.mem_cons] at hw
    have hwb : ∀ x ∈ wvars (substS ρ b), ¬ K x := fun x hx => hw x (Or.inr hx)
    have hwv : ¬ K (loopVar (ρ v) v) := hw _ (Or.inl rfl)
    simp only [execE, substS, exec, evalE_subst hK hag lo hlo, evalE_subst hK hag hi hhi,
      evalE_subst hK hag st hst, runIters_eq_G]
    apply runItersG_congr (fun τ => AgreeOn K σ₀ τ)
    · intro τ x _
      simp only [wr, envR]
      cases h : ρ v with
      | loc y => simp [bindRole, loopVar]
      | free => simp [bindRole, loopVar]
      | formal p a =>
        cases a with
        | var y => simp [bindRole, bindActual, loopVar]
        | elem1 a i => simp [loopRole, h] at hv
        | elem2 a i j => simp [loopRole, h] at hv
        | expr e => simp [loopRole, h] at hv
        | sec1 a st u => simp [loopRole, h] at hv
        | sec2 a st1 st2 u => simp [loopRole, h] at hv
        | col a st j u => simp [loopRole, h] at hv
        | row a i st u => simp [loopRole, h] at hv
    · intro τ x hτ y hy i j
      rw [Store.set_apply, if_neg]
      · exact hτ y hy i j
      · intro heq
        have : y = loopVar (ρ v) v := congrArg Prod.fst heq
        exact hwv (this ▸ hy)
    · intro τ hτ
      exact ih hτ hb hwb
    · intro τ hτ
      exact agree_after hτ hwb
    · exact hag

end subst

/-! ## instantiation at a call site -/

theorem keysIn_roleOf (fr : Nat → Nat) (c : Call) :
    KeysIn (roleOf fr c) (fun v => v ∈ keyVars c.actuals) := by
  intro x p a h v hv
  unfold roleOf at h
  split at h
  · rename_i p' a' hf
    cases h
    exact keyVars_mem (findFormal_mem hf).1 hv
  · split at h <;> cases h

theorem envR_roleOf (fr : Nat → Nat) (c : Call) (σ₀ : Store) :
    envR (roleOf fr c) σ₀ = envOf fr c σ₀ := rfl

/-- the inlined body (locals placed by `fr`) computes exactly the store of the call -/
theorem exec_subst_eq_execCall (fr : Nat → Nat) (c : Call)
    (hok : okS (roleOf fr c) c.body = true)
    (hst : ∀ x ∈ wvars (substS (roleOf fr c) c.body), x ∉ keyVars c.actuals) (σ : Store) :
    exec (substS (roleOf fr c) c.body) σ = execCall fr c σ := by
  unfold execCall
  rw [← envR_roleOf]
  exact (execE_subst (keysIn_roleOf fr c) c.body (AgreeOn.refl _ σ) hok hst).symm

/-! ## what the inlined body writes -/

theorem findFormal_isSome {ps : List Param} {as : List Actual} {x : Nat} (hlen : ps.length ≤ as.length)
    (hx : x ∈ ps.map Param.name) : (findFormal ps as x).isSome = true := by
  induction ps generalizing as with
  | nil => simp at hx
  | cons q qs ih =>
    cases as with
    | nil => simp at hlen
    | cons b bs =>
      simp only [findFormal]
      split
      · rfl
      · rename_i hne
        simp only [List.map_cons, List.mem_cons] at hx
        rcases hx with hx | hx
        · exact absurd hx.symm hne
        · exact ih (by simpa using hlen) hx

theorem wvars_subset_stmtVars (s : Stmt) : ∀ x ∈ wvars s, x ∈ stmtVars s := by
  induction s with
  | skip => intro x hx; cases hx
  | seq a b iha ihb =>
    intro x hx
    simp only [wvars, stmtVars, List.mem_append] at hx ⊢
    rcases hx with h | h
    · exact Or.inl (iha x h)
    · exact Or.inr (ihb x h)
  | assign y e => intro x hx; simp [wvars, stmtVars] at hx ⊢; exact Or.inl hx
  | store1 a i e => intro x hx; simp [wvars, stmtVars] at hx ⊢; exact Or.inl hx
  | store2 a i j e => intro x hx; simp [wvars, stmtVars] at hx ⊢; exact Or.inl hx
  | ite c t f iht ihf =>
    intro x hx
    simp only [wvars, stmtVars, List.mem_append] at hx ⊢
    rcases hx with h | h
    · exact Or.inl (Or.inr (iht x h))
    · exact Or.inr (ihf x h)
  | loop v lo hi st b ih =>
    intro x hx
    simp only [wvars, stmtVars, List.mem_cons, List.mem_append] at hx ⊢
    rcases hx with h | h
    · exact Or.inl h
    · exact Or.inr (Or.inr (ih x h))

/-- a name written by the callee is never a dummy associated with an expression -/
def NotExprRole : Role → Prop
  | .formal _ (.expr _) => False
  | _ => True

/-- every variable written by the substituted body is the `target` of a name the body writes -/
theorem wvars_substS (ρ : Nat → Role) (s : Stmt) (hok : okS ρ s = true) :
    ∀ x ∈ wvars (substS ρ s), ∃ y ∈ wvars s, x = target (ρ y) y ∧ NotExprRole (ρ y) := by
  induction s with
  | skip => intro x hx; simp [substS, wvars] at hx
  | seq a b iha ihb =>
    simp only [okS, Bool.and_eq_true] at hok
    intro x hx
    simp only [substS, wvars, List.mem_append] at hx
    rcases hx with h | h
    · obtain ⟨y, hy, e⟩ := iha hok.1 x h
      exact ⟨y, by simp [wvars, hy], e⟩
    · obtain ⟨y, hy, e⟩ := ihb hok.2 x h
      exact ⟨y, by simp [wvars, hy], e⟩
  | assign y e =>
    simp only [okS, Bool.and_eq_true] at hok
    intro x hx
    refine ⟨y, by simp [wvars], ?_⟩
    simp only [substS] at hx
    cases h : ρ y with
    | loc z => simp_all [substRef0, assignTo, wvars, target, NotExprRole]
    | free => simp_all [substRef0, assignTo, wvars, target, NotExprRole]
    | formal p a =>
      cases a <;> simp_all [substRef0, assignTo, wvars, target, actualBase, NotExprRole, definableScalarRole]
  | store1 y i e =>
    simp only [okS, Bool.and_eq_true] at hok
    intro x hx
    refine ⟨y, by simp [wvars], ?_⟩
    simp only [substS] at hx
    cases h : ρ y with
    | loc z => simp_all [substRef1, assignTo, wvars, target, NotExprRole]
    | free => simp_all [substRef1, assignTo, wvars, target, NotExprRole]
    | formal p a =>
      cases a <;> simp_all [substRef1, assignTo, wvars, target, actualBase, NotExprRole, rank1Role]
  | store2 y i j e =>
    simp only [okS, Bool.and_eq_true] at hok
    intro x hx
    refine ⟨y, by simp [wvars], ?_⟩
    simp only [substS] at hx
    cases h : ρ y with
    | loc z => simp_all [substRef2, assignTo, wvars, target, NotExprRole]
    | free => simp_all [substRef2, assignTo, wvars, target, NotExprRole]
    | formal p a =>
      cases a <;> simp_all [substRef2, assignTo, wvars, target, actualBase, NotExprRole, rank2Role]
  | ite c t f iht ihf =>
    simp only [okS, Bool.and_eq_true] at hok
    intro x hx
    simp only [substS, wvars, List.mem_append] at hx
    rcases hx with h | h
    · obtain ⟨y, hy, e⟩ := iht hok.1.2 x h
      exact ⟨y, by simp [wvars, hy], e⟩
    · obtain ⟨y, hy, e⟩ := ihf hok.2 x h
      exact ⟨y, by simp [wvars, hy], e⟩
  | loop v lo hi st b ih =>
    simp only [okS, Bool.and_eq_true] at hok
    intro x hx
    simp only [substS, wvars, List.mem_cons] at hx
    rcases hx with h | h
    · refine ⟨v, by simp [wvars], ?_⟩
      have hv := hok.1.1.1.1
      cases hr : ρ v with
      | loc z => simp_all [loopVar, target, NotExprRole]
      | free => simp_all [loopVar, target, NotExprRole]
      | formal p a => cases a <;> simp_all [loopVar, target, actualBase, NotExprRole, loopRole]
    · obtain ⟨y, hy, e⟩ := ih hok.2 x h
      exact ⟨y, by simp [wvars, hy], e⟩

/-! ## independence of the callee frame

Two runs of the same body, with the same bindings for the formals, the callee locals placed in
two different frames outside the variables `V`, on stores that agree on `V` and hold the same
contents in corresponding frame cells, stay related. -/

section frame
variable (V : Nat → Prop) (L : List Nat) (fr₁ fr₂ : Nat → Nat)

inductive BindRel : Bind → Bind → Prop
  | shared (f : Int → Int → Loc) (h : ∀ i j, V (f i j).1) : BindRel (.ref f) (.ref f)
  | val (v : Int) : BindRel (.val v) (.val v)
  | frame (l : Nat) (h : l ∈ L) : BindRel (.ref fun i j => (fr₁ l, i, j)) (.ref fun i j => (fr₂ l, i, j))

structure StoreRel (σ₁ σ₂ : Store) : Prop where
  vis : ∀ x, V x → ∀ i j, σ₁ (x, i, j) = σ₂ (x, i, j)
  frm : ∀ l ∈ L, ∀ i j, σ₁ (fr₁ l, i, j) = σ₂ (fr₂ l, i, j)

structure FrameOK : Prop where
  out₁ : ∀ l ∈ L, ¬ V (fr₁ l)
  out₂ : ∀ l ∈ L, ¬ V (fr₂ l)
  inj₁ : ∀ l ∈ L, ∀ l' ∈ L, fr₁ l = fr₁ l' → l = l'
  inj₂ : ∀ l ∈ L, ∀ l' ∈ L, fr₂ l = fr₂ l' → l = l'

variable {V L fr₁ fr₂}

theorem rd_rel {env₁ env₂ : Env} {σ₁ σ₂ : Store} {x : Nat} (hb : BindRel V L fr₁ fr₂ (env₁ x) (env₂ x))
    (hs : StoreRel V L fr₁ fr₂ σ₁ σ₂) (i j : Int) : rd env₁ σ₁ x i j = rd env₂ σ₂ x i j := by
  unfold rd
  generalize env₁ x = b₁ at hb
  generalize env₂ x = b₂ at hb
  cases hb with
  | shared f h => exact hs.vis _ (h i j) _ _
  | val v => rfl
  | frame l h => exact hs.frm l h i j

theorem wr_rel (hf : FrameOK V L fr₁ fr₂) {env₁ env₂ : Env} {σ₁ σ₂ : Store} {x : Nat}
    (hb : BindRel V L fr₁ fr₂ (env₁ x) (env₂ x)) (hs : StoreRel V L fr₁ fr₂ σ₁ σ₂) (i j v : Int) :
    StoreRel V L fr₁ fr₂ (wr env₁ σ₁ x i j v) (wr env₂ σ₂ x i j v) := by
  unfold wr
  generalize env₁ x = b₁ at hb
  generalize env₂ x = b₂ at hb
  cases hb with
  | shared f h =>
    constructor
    · intro y hy i' j'
      simp only [Store.set_apply]
      split
      · rfl
      · exact hs.vis y hy i' j'
    · intro l hl i' j'
      simp only [Store.set_apply]
      rw [if_neg, if_neg]
      · exact hs.frm l hl i' j'
      · intro heq
        exact hf.out₂ l hl (by have := h i j; rw [← heq] at this; exact this)
      · intro heq
        exact hf.out₁ l hl (by have := h i j; rw [← heq] at this; exact this)
  | val v' => exact hs
  | frame l hl =>
    constructor
    · intro y hy i' j'
      simp only [Store.set_apply]
      rw [if_neg, if_neg]
      · exact hs.vis y hy i' j'
      · intro heq
        exact hf.out₂ l hl (by have : y = fr₂ l := congrArg Prod.fst heq; rw [← this]; exact hy)
      · intro heq
        exact hf.out₁ l hl (by have : y = fr₁ l := congrArg Prod.fst heq; rw [← this]; exact hy)
    · intro l' hl' i' j'
      simp only [Store.set_apply]
      by_cases hll : l' = l
      · subst hll
        by_cases hij : (i', j') = (i, j)
        · have h1 : ((fr₁ l', i', j') : Loc) = (fr₁ l', i, j) := by rw [Prod.mk.injEq] at hij ⊢; simp [hij.1, hij.2]
          have h2 : ((fr₂ l', i', j') : Loc) = (fr₂ l', i, j) := by rw [Prod.mk.injEq] at hij ⊢; simp [hij.1, hij.2]
          rw [if_pos h1, if_pos h2]
        · rw [if_neg, if_neg]
          · exact hs.frm l' hl' i' j'
          · intro heq; apply hij; exact congrArg Prod.snd heq
          · intro heq; apply hij; exact congrArg Prod.snd heq
      · rw [if_neg, if_neg]
        · exact hs.frm l' hl' i' j'
        · intro heq; exact hll (hf.inj₂ l' hl' l hl (congrArg Prod.fst heq))
        · intro heq; exact hll (hf.inj₁ l' hl' l hl (congrArg Prod.fst heq))

theorem evalE_rel {env₁ env₂ : Env} {σ₁ σ₂ : Store} (hs : StoreRel V L fr₁ fr₂ σ₁ σ₂) (e : Expr)
    (hb : ∀ x ∈ exprVars e, BindRel V L fr₁ fr₂ (env₁ x) (env₂ x)) : evalE env₁ e σ₁ = evalE env₂ e σ₂ := by
  induction e with
  | lit n => rfl
  | var x => exact rd_rel (hb x (by simp [exprVars])) hs 0 0
  | idx1 a i ih =>
    simp only [evalE]
    rw [ih (fun x hx => hb x (by simp [exprVars, hx]))]
    exact rd_rel (hb a (by simp [exprVars])) hs _ _
  | idx2 a i j ihi ihj =>
    simp only [evalE]
    rw [ihi (fun x hx => hb x (by simp [exprVars, hx])), ihj (fun x hx => hb x (by simp [exprVars, hx]))]
    exact rd_rel (hb a (by simp [exprVars])) hs _ _
  | un op e ih => simp only [evalE, ih (fun x hx => hb x (by simpa [exprVars] using hx))]
  | bin op a b iha ihb =>
    simp only [evalE, iha (fun x hx => hb x (by simp [exprVars, hx])), ihb (fun x hx => hb x (by simp [exprVars, hx]))]

theorem runItersG_rel (R : Store → Store → Prop) {set₁ set₂ : Store → Int → Store} {f₁ f₂ : Store → Store}
    (hset : ∀ τ₁ τ₂ x, R τ₁ τ₂ → R (set₁ τ₁ x) (set₂ τ₂ x)) (hf : ∀ τ₁ τ₂, R τ₁ τ₂ → R (f₁ τ₁) (f₂ τ₂))
    (lo step : Int) : ∀ n k σ₁ σ₂, R σ₁ σ₂ →
      R (runItersG set₁ f₁ lo step n k σ₁) (runItersG set₂ f₂ lo step n k σ₂) := by
  intro n
  induction n with
  | zero => intro k σ₁ σ₂ h; exact hset _ _ _ h
  | succ n ih => intro k σ₁ σ₂ h; exact ih _ _ _ (hf _ _ (hset _ _ _ h))

theorem execE_rel (hf : FrameOK V L fr₁ fr₂) {env₁ env₂ : Env} (s : Stmt) :
    ∀ {σ₁ σ₂ : Store}, StoreRel V L fr₁ fr₂ σ₁ σ₂ →
      (∀ x ∈ stmtVars s, BindRel V L fr₁ fr₂ (env₁ x) (env₂ x)) →
      StoreRel V L fr₁ fr₂ (execE env₁ s σ₁) (execE env₂ s σ₂) := by
  induction s with
  | skip => intro σ₁ σ₂ hs _; exact hs
  | seq a b iha ihb =>
    intro σ₁ σ₂ hs hb
    simp only [execE]
    exact ihb (iha hs (fun x hx => hb x (by simp [stmtVars, hx]))) (fun x hx => hb x (by simp [stmtVars, hx]))
  | assign y e =>
    intro σ₁ σ₂ hs hb
    simp only [execE]
    rw [evalE_rel hs e (fun x hx => hb x (by simp [stmtVars, hx]))]
    exact wr_rel hf (hb y (by simp [stmtVars])) hs _ _ _
  | store1 a i e =>
    intro σ₁ σ₂ hs hb
    simp only [execE]
    rw [evalE_rel hs e (fun x hx => hb x (by simp [stmtVars, hx])),
      evalE_rel hs i (fun x hx => hb x (by simp [stmtVars, hx]))]
    exact wr_rel hf (hb a (by simp [stmtVars])) hs _ _ _
  | store2 a i j e =>
    intro σ₁ σ₂ hs hb
    simp only [execE]
    rw [evalE_rel hs e (fun x hx => hb x (by simp [stmtVars, hx])),
      evalE_rel hs i (fun x hx => hb x (by simp [stmtVars, hx])),
      evalE_rel hs j (fun x hx => hb x (by simp [stmtVars, hx]))]
    exact wr_rel hf (hb a (by simp [stmtVars])) hs _ _ _
  | ite c t f iht ihf =>
    intro σ₁ σ₂ hs hb
    simp only [execE]
    rw [evalE_rel hs c (fun x hx => hb x (by simp [stmtVars, hx]))]
    split
    · exact iht hs (fun x hx => hb x (by simp [stmtVars, hx]))
    · exact ihf hs (fun x hx => hb x (by simp [stmtVars, hx]))
  | loop v lo hi st b ih =>
    intro σ₁ σ₂ hs hb
    simp only [execE]
    rw [evalE_rel hs lo (fun x hx => hb x (by simp [stmtVars, hx])),
      evalE_rel hs hi (fun x hx => hb x (by simp [stmtVars, hx])),
      evalE_rel hs st (fun x hx => hb x (by simp [stmtVars, hx]))]
    apply runItersG_rel (StoreRel V L fr₁ fr₂)
    · intro τ₁ τ₂ x hτ
      exact wr_rel hf (hb v (by simp [stmtVars])) hτ _ _ _
    · intro τ₁ τ₂ hτ
      exact ih hτ (fun x hx => hb x (by simp [stmtVars, hx]))
    · exact hs

end frame

/-- the bindings of the formals of a well-scoped call do not depend on the frame, and agree for
two stores that agree on the visible variables -/
theorem bindActual_rel {c : Call} {fr₁ fr₂ : Nat → Nat} {σ₁ σ₂ : Store} (p : Param) (a : Actual)
    (hsc : ∀ v ∈ actualVars a, v ∈ visible c)
    (hvis : ∀ x, x ∈ visible c → ∀ i j, σ₁ (x, i, j) = σ₂ (x, i, j)) :
    BindRel (fun x => x ∈ visible c) c.locals fr₁ fr₂ (bindActual σ₁ p a) (bindActual σ₂ p a) := by
  have hev : ∀ e : Expr, (∀ v ∈ exprVars e, v ∈ actualKeyVars a) → eval e σ₁ = eval e σ₂ := by
    intro e he
    apply eval_congr (V := fun x => x ∈ visible c)
    · intro v hv
      exact hsc v (by simp only [actualVars, List.mem_append]; exact Or.inr (he v (by rw [exprVars_eq]; exact hv)))
    · exact hvis
  have hbase : ∀ b, actualBase a = some b → b ∈ visible c := by
    intro b hb
    exact hsc b (by simp [actualVars, hb])
  cases a with
  | var y => exact .shared _ (fun _ _ => hbase y rfl)
  | elem1 a i =>
    simp only [bindActual, hev i (by intro v hv; simpa [actualKeyVars] using hv)]
    exact .shared _ (fun _ _ => hbase a rfl)
  | elem2 a i j =>
    simp only [bindActual, hev i (by intro v hv; simp [actualKeyVars, hv]), hev j (by intro v hv; simp [actualKeyVars, hv])]
    exact .shared _ (fun _ _ => hbase a rfl)
  | expr e =>
    simp only [bindActual, hev e (by intro v hv; simpa [actualKeyVars] using hv)]
    exact .val _
  | sec1 a st u =>
    simp only [bindActual, hev st (by intro v hv; simpa [actualKeyVars] using hv)]
    exact .shared _ (fun _ _ => hbase a rfl)
  | sec2 a st1 st2 u =>
    simp only [bindActual, hev st1 (by intro v hv; simp [actualKeyVars, hv]), hev st2 (by intro v hv; simp [actualKeyVars, hv])]
    exact .shared _ (fun _ _ => hbase a rfl)
  | col a st j u =>
    simp only [bindActual, hev st (by intro v hv; simp [actualKeyVars, hv]), hev j (by intro v hv; simp [actualKeyVars, hv])]
    exact .shared _ (fun _ _ => hbase a rfl)
  | row a i st u =>
    simp only [bindActual, hev st (by intro v hv; simp [actualKeyVars, hv]), hev i (by intro v hv; simp [actualKeyVars, hv])]
    exact .shared _ (fun _ _ => hbase a rfl)

end C07
