import PsyVerif.Lemmas.DeclsOrder
import Mathlib.Data.List.Count
import Mathlib.Data.List.Perm.Lattice
/-! Lemmas about `Decls.genDecls` (model of `FortranWriter.gen_decls`): shape of the result,
every declarable symbol exactly once, positions of the declarations. -/
namespace Decls

/-- well-formed symbol table: distinct names (Python dict keys) -/
structure Wf (u : Unit) : Prop where
  nodup : (names u.syms).Nodup

instance (u : Unit) : Decidable (Wf u) :=
  if h : (names u.syms).Nodup then isTrue ⟨h⟩ else isFalse (fun w => h w.nodup)

theorem eq_of_name_eq {l : List Sym} (hnd : (names l).Nodup) {a b : Sym} (ha : a ∈ l) (hb : b ∈ l)
    (h : a.name = b.name) : a = b := by
  induction l with
  | nil => simp at ha
  | cons x r ih =>
    simp only [names, List.map_cons, List.nodup_cons] at hnd
    have hx : ∀ y ∈ r, y.name ≠ x.name := fun y hy hc => hnd.1 (List.mem_map.mpr ⟨y, hy, hc⟩)
    rcases List.mem_cons.mp ha with ha | ha <;> rcases List.mem_cons.mp hb with hb | hb
    · rw [ha, hb]
    · have : b.name = x.name := by rw [← ha]; exact h.symm
      exact absurd this (hx b hb)
    · have : a.name = x.name := by rw [← hb]; exact h
      exact absurd this (hx a ha)
    · exact ih hnd.2 ha hb

theorem names_filter_nodup {l : List Sym} (hnd : (names l).Nodup) (p : Sym → Bool) :
    (names (l.filter p)).Nodup :=
  hnd.sublist (List.filter_sublist.map _)

theorem findSym_some {l : List Sym} {n : Name} {s : Sym} (h : findSym l n = some s) :
    s ∈ l ∧ s.name = n := by
  unfold findSym at h
  exact ⟨List.mem_of_find?_eq_some h, by simpa using List.find?_some h⟩

theorem findSym_of_mem {l : List Sym} (hnd : (names l).Nodup) {s : Sym} (hs : s ∈ l) :
    findSym l s.name = some s := by
  cases h : findSym l s.name with
  | none =>
    unfold findSym at h
    have := List.find?_eq_none.mp h s hs
    simp at this
  | some s' =>
    obtain ⟨h1, h2⟩ := findSym_some h
    rw [eq_of_name_eq hnd h1 hs h2]

theorem names_filterMap_findSym {l : List Sym} : ∀ {order : List Name}, (∀ n ∈ order, n ∈ names l) →
    names (order.filterMap (findSym l)) = order := by
  intro order
  induction order with
  | nil => intro _; rfl
  | cons n r ih =>
    intro h
    have hn : n ∈ names l := h n (by simp)
    obtain ⟨s, hs, hsn⟩ := List.mem_map.mp hn
    cases hf : findSym l n with
    | none =>
      unfold findSym at hf
      have := List.find?_eq_none.mp hf s hs
      simp [hsn] at this
    | some s' =>
      rw [List.filterMap_cons_some hf]
      simp only [names, List.map_cons]
      rw [(findSym_some hf).2]
      congr 1
      exact ih (fun m hm => h m (List.mem_cons_of_mem _ hm))

theorem filterMap_findSym_perm {l : List Sym} (hnd : (names l).Nodup) {order : List Name}
    (hp : order.Perm (names l)) : (order.filterMap (findSym l)).Perm l := by
  have hsub : ∀ n ∈ order, n ∈ names l := fun n hn => hp.subset hn
  have hnames := names_filterMap_findSym hsub
  have hnd1 : (order.filterMap (findSym l)).Nodup := by
    have : (names (order.filterMap (findSym l))).Nodup := by rw [hnames]; exact hp.nodup_iff.mpr hnd
    exact List.Nodup.of_map _ this
  have hnd2 : l.Nodup := List.Nodup.of_map _ hnd
  rw [List.perm_ext_iff_of_nodup hnd1 hnd2]
  intro s
  constructor
  · intro h
    obtain ⟨n, _, hf⟩ := List.mem_filterMap.mp h
    exact (findSym_some hf).1
  · intro h
    refine List.mem_filterMap.mpr ⟨s.name, hp.symm.subset (List.mem_map.mpr ⟨s, h, rfl⟩), findSym_of_mem hnd h⟩

theorem count_ofCls (l : List Sym) (c : Cls) (s : Sym) :
    (ofCls l c).count s = if s.cls = c then l.count s else 0 := by
  unfold ofCls
  split
  · rename_i h; exact List.count_filter (by simpa using h)
  · rename_i h
    apply List.count_eq_zero_of_not_mem
    intro hm
    have := (List.mem_filter.mp hm).2
    exact h (by simpa using this)

theorem partition_perm (l : List Sym) :
    (ofCls l .iface ++ ofCls l .param ++ ofCls l .arg ++ ofCls l .dtype ++ ofCls l .other).Perm
      (l.filter (fun s => s.cls.declarable)) := by
  rw [List.perm_iff_count]
  intro s
  simp only [List.count_append, count_ofCls]
  by_cases hd : s.cls.declarable = true
  · rw [List.count_filter (by simpa using hd)]
    cases hc : s.cls <;> simp_all [Cls.declarable]
  · have hz : (l.filter (fun s => s.cls.declarable)).count s = 0 := by
      apply List.count_eq_zero_of_not_mem
      intro h
      exact hd (by simpa using (List.mem_filter.mp h).2)
    rw [hz]
    cases hc : s.cls <;> simp_all [Cls.declarable]

theorem pkeys_paramGraph (syms : List Sym) : pkeys (paramGraph syms) = names (syms.filter isParam) := by
  simp [pkeys, paramGraph, names, List.map_map]

/-- shape of a successful `gen_decls` -/
theorem genDecls_ok {u : Unit} {ds : List Sym} (h : genDecls u = .ok ds) :
    ∃ order, orderParams (paramGraph u.syms) = some order ∧
      ds = ofCls u.syms .iface ++ paramSyms u.syms order ++ ofCls u.syms .arg ++ ofCls u.syms .dtype
        ++ ofCls u.syms .other ∧
      ((∃ s ∈ u.syms, s.cls = .unresolved) → hasWildcard u = true) ∧
      (∀ s ∈ u.syms, s.cls ≠ .routineBad) ∧
      (u.isModule = true → ofCls u.syms .arg = []) := by
  unfold genDecls at h
  split at h
  · cases h
  · rename_i h1
    split at h
    · cases h
    · rename_i h2
      split at h
      · cases h
      · rename_i order ho
        split at h
        · cases h
        · rename_i h3
          cases h
          refine ⟨order, ho, rfl, ?_, ?_, ?_⟩
          · rintro ⟨s, hs, hc⟩
            by_contra hw
            apply h1
            simp only [Bool.and_eq_true, List.any_eq_true, Bool.not_eq_true']
            exact ⟨⟨s, hs, by simp [hc]⟩, by simpa using hw⟩
          · intro s hs hc
            apply h2
            simp only [List.any_eq_true]
            exact ⟨s, hs, by simp [hc]⟩
          · intro hm
            by_contra hne
            apply h3
            simp only [Bool.and_eq_true, Bool.not_eq_true', List.isEmpty_eq_false_iff]
            exact ⟨hm, hne⟩

theorem paramSyms_perm {u : Unit} (w : Wf u) {order : List Name}
    (ho : orderParams (paramGraph u.syms) = some order) :
    order.Perm (names (u.syms.filter isParam)) ∧ (paramSyms u.syms order).Perm (ofCls u.syms .param) ∧
      names (paramSyms u.syms order) = order := by
  have hnd := names_filter_nodup w.nodup isParam
  have hp : order.Perm (names (u.syms.filter isParam)) := by
    have := orderAux_perm _ _ _ _ (by rw [pkeys_paramGraph]; exact hnd) ho
    rwa [pkeys_paramGraph] at this
  refine ⟨hp, ?_, ?_⟩
  · exact filterMap_findSym_perm hnd hp
  · exact names_filterMap_findSym (fun n hn => hp.subset hn)

/-- every declarable symbol is declared exactly once -/
theorem genDecls_perm {u : Unit} (w : Wf u) {ds : List Sym} (h : genDecls u = .ok ds) :
    ds.Perm (u.syms.filter (fun s => s.cls.declarable)) := by
  obtain ⟨order, ho, rfl, _, _, _⟩ := genDecls_ok h
  refine List.Perm.trans ?_ (partition_perm u.syms)
  have hp := (paramSyms_perm w ho).2.1
  exact ((((List.Perm.refl _).append hp).append (List.Perm.refl _)).append (List.Perm.refl _)).append
    (List.Perm.refl _)

theorem genDecls_names_nodup {u : Unit} (w : Wf u) {ds : List Sym} (h : genDecls u = .ok ds) :
    (names ds).Nodup := by
  have hp := genDecls_perm w h
  have : (names ds).Perm (names (u.syms.filter (fun s => s.cls.declarable))) := hp.map _
  exact this.nodup_iff.mpr (names_filter_nodup w.nodup _)

/-! ### positions -/

theorem idxOf_filter_mono {l : List Sym} (hnd : (names l).Nodup) (p : Sym → Bool) {t s : Sym}
    (ht : t ∈ l) (hs : s ∈ l) (pt : p t = true) (_ps : p s = true)
    (h : (names l).idxOf t.name < (names l).idxOf s.name) :
    (names (l.filter p)).idxOf t.name < (names (l.filter p)).idxOf s.name := by
  induction l with
  | nil => simp at ht
  | cons x r ih =>
    have hnd' : (names r).Nodup := by
      simp only [names, List.map_cons, List.nodup_cons] at hnd; exact hnd.2
    simp only [names, List.map_cons] at h
    by_cases hxt : x.name = t.name
    · have hxt' : x = t := eq_of_name_eq hnd (by simp) ht hxt
      subst hxt'
      by_cases hxs : x.name = s.name
      · rw [hxs] at h; simp at h
      · rw [List.filter_cons_of_pos pt]
        simp only [names, List.map_cons]
        rw [List.idxOf_cons_self, List.idxOf_cons_ne _ hxs]; omega
    · by_cases hxs : x.name = s.name
      · rw [hxs, List.idxOf_cons_self] at h; omega
      · rw [List.idxOf_cons_ne _ hxt, List.idxOf_cons_ne _ hxs] at h
        have ht' : t ∈ r := by
          rcases List.mem_cons.mp ht with rfl | h1
          · exact absurd rfl hxt
          · exact h1
        have hs' : s ∈ r := by
          rcases List.mem_cons.mp hs with rfl | h1
          · exact absurd rfl hxs
          · exact h1
        have := ih hnd' ht' hs' (by simp only [names]; omega)
        by_cases hpx : p x = true
        · rw [List.filter_cons_of_pos hpx]
          simp only [names, List.map_cons]
          rw [List.idxOf_cons_ne _ hxt, List.idxOf_cons_ne _ hxs]
          simp only [names] at this; omega
        · rw [List.filter_cons_of_neg hpx]; exact this

end Decls
