import PsyVerif.Model.ExprIO
import PsyVerif.Lemmas.ExprIOMain
import PsyVerif.Lemmas.ExprIOFuel
import PsyVerif.Gen.DeclsOps
/-! # Expressions inside statements and initial values (C03)

The text of an executable statement / a declaration is, for C03, a fixed skeleton with expression holes.
Expression model: the shared `C02` model (`Model/ExprIO.lean`): `render .narrow` = the FortranWriter of
/repo HEAD (with `fix: C02-writer-parens-narrow`), `parse` = the Fortran 2008 expression grammar as the
reader applies it.  This file
* enumerates ALL two-operator trees / token strings and states what the model says about them in the
  table format of `Gen/DeclsOps.lean` (regenerated on every run by running the live writer / reader),
* derives write-read-write stability of expression text from the `C02` round-trip lemmas,
* lifts it to statements (`XStmt`) and to the conditions the reader builds for SELECT CASE. -/
namespace C03
open C02

/-! ## the enumerations of the generated tables -/

def binops15 : List BinOp :=
  [.add, .sub, .mul, .div, .pow, .eq, .ne, .gt, .lt, .ge, .le, .and, .or, .eqv, .neqv]
def unops3 : List UnOp := [.minus, .plus, .not]
def optoks16 : List OpTok :=
  [.plus, .minus, .star, .slash, .pow, .eq, .ne, .lt, .le, .gt, .ge, .not, .and, .or, .eqv, .neqv]
def signs2 : List UnOp := [.minus, .plus]

def b2n (b : Bool) : Nat := if b then 1 else 0

/-- position of a child: left / right operand of `p`; `eqR`: the right sibling is structurally equal -/
def cbin (p : BinOp) (right eqR : Bool) (gp : Option (BinOp × Bool)) : Ctx := ⟨.bin p right eqR, gp⟩

def mParenBinBin : List Nat :=
  binops15.flatMap fun p => binops15.flatMap fun c =>
    [b2n (parenBin true c (cbin p false false none)), b2n (parenBin true c (cbin p true true none)),
     b2n (parenBin true c (cbin p false true none))]

def mParenUnBin : List Nat :=
  binops15.flatMap fun p => unops3.flatMap fun u =>
    [b2n (parenSignM .narrow false u (cbin p false false none)),
     b2n (parenSignM .narrow false u (cbin p true true none))]

def mParenLitBin : List Nat :=
  binops15.flatMap fun p => signs2.flatMap fun u =>
    [b2n (parenSignM .narrow true u (cbin p false false none)),
     b2n (parenSignM .narrow true u (cbin p true true none))]

def mParenBinUn : List Nat :=
  unops3.flatMap fun u => binops15.map fun c => b2n (parenBin true c ⟨.un u, none⟩)

def mParenUnUn : List Nat :=
  unops3.flatMap fun u => unops3.map fun u2 => b2n (parenSignM .narrow false u2 ⟨.un u, none⟩)

def mParenSign3 : List Nat :=
  binops15.flatMap fun g => binops15.flatMap fun p =>
    (unops3.flatMap fun u =>
      [b2n (parenSignM .narrow false u (cbin p false false (some (g, false)))),
       b2n (parenSignM .narrow false u (cbin p false false (some (g, true))))]) ++
    (signs2.flatMap fun u =>
      [b2n (parenSignM .narrow true u (cbin p false false (some (g, false)))),
       b2n (parenSignM .narrow true u (cbin p false false (some (g, true))))])

def va : Expr := .ref 1
def vb : Expr := .ref 2
def vd : Expr := .ref 4

/-- what `parse` makes of `b C d P a` in the code of `readerNest` -/
def nestCode (c p : BinOp) : Nat :=
  match parse [.name 2, .op c.tok, .name 4, .op p.tok, .name 1] with
  | none => 0
  | some e =>
    if e = .bin p (.bin c vb vd) va then 1
    else if e = .bin c vb (.bin p vd va) then 2 else 9

def prefixCode (u : UnOp) (p : BinOp) : Nat :=
  match parse [.op u.tok, .name 2, .op p.tok, .name 1] with
  | none => 0
  | some e =>
    if e = .bin p (.un u vb) va then 1
    else if e = .un u (.bin p vb va) then 2 else 9

def mReaderNest : List Nat := binops15.flatMap fun c => binops15.map fun p => nestCode c p
def mReaderPrefix : List Nat := unops3.flatMap fun u => binops15.map fun p => prefixCode u p

/-- order comparison of two table entries: 0 `<`, 1 `=`, 2 `>` -/
def cmpCode (a b : Nat) : Nat := if a < b then 0 else if a = b then 1 else 2

/-- all pairwise comparisons of a precedence table -/
def orderOf (t : List Nat) : List Nat := t.flatMap fun a => t.map fun b => cmpCode a b

/-! ## all two-operator trees -/

def twoOpTrees : List Expr :=
  (binops15.flatMap fun p => binops15.flatMap fun c =>
    [.bin p (.bin c vb vd) va, .bin p va (.bin c vb vd), .bin p (.bin c vb vd) (.bin c vb vd)]) ++
  (binops15.flatMap fun p => unops3.flatMap fun u => [.bin p (.un u vb) va, .bin p va (.un u vb)]) ++
  (unops3.flatMap fun u => binops15.map fun c => .un u (.bin c vb vd)) ++
  (unops3.flatMap fun u => unops3.map fun u2 => .un u (.un u2 vb))

/-- second write = first write (as token lists); `false` also when the first text does not re-parse -/
def textStable (e : Expr) : Bool :=
  match parse (render .narrow .top e) with
  | none => false
  | some e' => render .narrow .top e' == render .narrow .top e

/-! ## stability of expression text from the round-trip lemmas -/

theorem norm_of_canonical' : ∀ e, litsCanonical e = true → norm e = some e := by
  intro e
  induction e with
  | lit l => intro h; simpa [litsCanonical, Lit.canonical, norm] using h
  | un u x ih => intro h; simp [litsCanonical] at h; simp [norm, ih h]
  | bin b l r ihl ihr => intro h; simp [litsCanonical] at h; simp [norm, ihl h.1, ihr h.2]
  | part n a nx iha ihn => intro h; simp [litsCanonical] at h; simp [norm, iha h.1, ihn h.2]
  | call f a ih => intro h; simp [litsCanonical] at h; simp [norm, ih h]
  | nil => intro _; rfl
  | cons k x r ihx ihr => intro h; simp [litsCanonical] at h; simp [norm, ihx h.1, ihr h.2]

/-- the writer's text of `e` is read back as `norm e` (all constructs, unbounded depth) -/
theorem reread_norm (e ne : Expr) (hw : wf .expr e = true) (hx : exposed .top e = false)
    (hn : norm e = some ne) : parse (render .narrow .top e) = some ne := by
  rw [render_narrow_eq_wide e .top hx]
  have g := good_render e hw ne hn .top trivial
  have h := g.1 0 [] (Nat.zero_le _) trivial
  simp only [List.append_nil] at h
  obtain ⟨f0, hf⟩ := h.all_fuel
  exact parse_complete (hf f0 (Nat.le_refl _))

/-- a tree as the reader produces it (canonical literals) is read back unchanged -/
theorem reread_exact (e : Expr) (hw : wf .expr e = true) (hx : exposed .top e = false)
    (hc : litsCanonical e = true) : parse (render .narrow .top e) = some e :=
  reread_norm e e hw hx (norm_of_canonical' e hc)

/-- the decidable side condition under which an expression is written stably -/
def ExprOK (e : Expr) : Bool := wf .expr e && !exposed .top e && litsCanonical e

theorem exprOK_stable (e : Expr) (h : ExprOK e = true) : textStable e = true := by
  simp only [ExprOK, Bool.and_eq_true, Bool.not_eq_true'] at h
  simp [textStable, reread_exact e h.1.1 h.1.2 h.2]

/-! ## statements: a skeleton with expression holes -/

/-- an executable statement / declaration as C03 sees it: an opaque skeleton id (statement kind, names,
keywords, nesting) and the expressions in its holes, in text order -/
structure XStmt where
  skel : Nat
  holes : List Expr
  deriving DecidableEq, Repr

/-- the written statement: the skeleton and the token lists of the holes -/
def XStmt.write (s : XStmt) : Nat × List (List Tok) := (s.skel, s.holes.map (render .narrow .top))

/-- reading a written statement: every hole is parsed (a hole that is not an expression: refusal) -/
def XStmt.read (w : Nat × List (List Tok)) : Option XStmt := (w.2.mapM parse).map fun hs => ⟨w.1, hs⟩

theorem mapM_parse_render : ∀ (hs : List Expr), (∀ e ∈ hs, ExprOK e = true) →
    (hs.map (render .narrow .top)).mapM parse = some hs := by
  intro hs
  induction hs with
  | nil => intro _; rfl
  | cons e r ih =>
    intro h
    have he := h e (by simp)
    simp only [ExprOK, Bool.and_eq_true, Bool.not_eq_true'] at he
    have hr := ih (fun x hx => h x (by simp [hx]))
    simp [List.mapM_cons, reread_exact e he.1.1 he.1.2 he.2, hr]

theorem xstmt_read_write (s : XStmt) (h : ∀ e ∈ s.holes, ExprOK e = true) : XStmt.read s.write = some s := by
  simp [XStmt.read, XStmt.write, mapM_parse_render s.holes h]

/-! ## SELECT CASE: the conditions `_process_case_value` builds -/

/-- a case value: a single value, or a range with optional bounds -/
inductive CaseItem
  | value (v : Expr)
  | range (lo hi : Option Expr)
  deriving DecidableEq, Repr

/-- `_process_case_value`: `sel == v` (`.EQV.` for a logical selector), `sel >= lo .AND. sel <= hi` -/
def caseCond (logical : Bool) (sel : Expr) : CaseItem → Option Expr
  | .value v => some (.bin (if logical then .eqv else .eq) sel v)
  | .range (some lo) (some hi) => some (.bin .and (.bin .ge sel lo) (.bin .le sel hi))
  | .range (some lo) none => some (.bin .ge sel lo)
  | .range none (some hi) => some (.bin .le sel hi)
  | .range none none => none

/-- `_process_case_value_list`: the conditions of a CASE joined by `.OR.`, RIGHT-nested:
`c1 .OR. (c2 .OR. (… .OR. cn))` -/
def caseList (logical : Bool) (sel : Expr) : List CaseItem → Option Expr
  | [] => none
  | [i] => caseCond logical sel i
  | i :: r => match caseCond logical sel i, caseList logical sel r with
    | some a, some b => some (.bin .or a b)
    | _, _ => none

/-- sign-free trees over scalar references and unsigned canonical literals: binary operators (no REM), `.NOT.` -/
def Plain : Expr → Bool
  | .lit l => l.sign.unop == none && l.canonical && l.writable
  | .un u e => u == .not && Plain e
  | .bin b l r => b != .rem && Plain l && Plain r
  | .part _ .nil .nil => true
  | _ => false

def PlainItem : CaseItem → Bool
  | .value v => Plain v
  | .range lo hi => (match lo with | some e => Plain e | none => true) &&
      (match hi with | some e => Plain e | none => true)

theorem not_same (c : Ctx) : parenSignM .narrow false .not c = parenSignM .wide false .not c := by
  obtain ⟨par, gp⟩ := c
  cases par <;> simp [parenSignM, parenSign]

theorem plain_wf : ∀ e, Plain e = true → wf .expr e = true := by
  intro e
  induction e with
  | lit l => intro h; simp [Plain] at h; simp [wf, h.2]
  | un u x ih => intro h; simp [Plain] at h; simp [wf, ih h.2]
  | bin b l r ihl ihr => intro h; simp [Plain] at h; simp [wf, h.1.1, ihl h.1.2, ihr h.2]
  | part n a nx _ _ =>
    intro h
    cases a <;> cases nx <;> simp [Plain] at h
    simp [wf]
  | call f a _ => intro h; simp [Plain] at h
  | nil => intro h; simp [Plain] at h
  | cons k x r _ _ => intro h; simp [Plain] at h

theorem plain_canonical : ∀ e, Plain e = true → litsCanonical e = true := by
  intro e
  induction e with
  | lit l => intro h; simp [Plain] at h; simp [litsCanonical, h.1.2]
  | un u x ih => intro h; simp [Plain] at h; simp [litsCanonical, ih h.2]
  | bin b l r ihl ihr => intro h; simp [Plain] at h; simp [litsCanonical, ihl h.1.2, ihr h.2]
  | part n a nx _ _ =>
    intro h
    cases a <;> cases nx <;> simp [Plain] at h
    simp [litsCanonical]
  | call f a _ => intro h; simp [Plain] at h
  | nil => intro h; simp [Plain] at h
  | cons k x r _ _ => intro h; simp [Plain] at h

theorem plain_not_exposed : ∀ e, Plain e = true → ∀ c, exposed c e = false := by
  intro e
  induction e with
  | lit l => intro h c; simp [Plain] at h; simp [exposed, h.1.1]
  | un u x ih =>
    intro h c; simp [Plain] at h
    obtain ⟨rfl, hx⟩ := h
    simp [exposed, not_same c, ih hx]
  | bin b l r ihl ihr => intro h c; simp [Plain] at h; simp [exposed, ihl h.1.2, ihr h.2]
  | part n a nx _ _ =>
    intro h c
    cases a <;> cases nx <;> simp [Plain] at h
    simp [exposed]
  | call f a _ => intro h; simp [Plain] at h
  | nil => intro h; simp [Plain] at h
  | cons k x r _ _ => intro h; simp [Plain] at h

theorem plain_exprOK (e : Expr) (h : Plain e = true) : ExprOK e = true := by
  simp [ExprOK, plain_wf e h, plain_not_exposed e h, plain_canonical e h]

theorem caseCond_plain (logical : Bool) (sel : Expr) (i : CaseItem) (c : Expr)
    (hs : Plain sel = true) (hi : PlainItem i = true) (hc : caseCond logical sel i = some c) :
    Plain c = true := by
  cases i with
  | value v =>
    simp [caseCond] at hc; subst hc
    simp [PlainItem] at hi
    cases logical <;> simp [Plain, hs, hi]
  | range lo hi' =>
    cases lo <;> cases hi' <;> simp [caseCond] at hc <;> subst hc <;> simp [PlainItem] at hi <;>
      simp_all [Plain]

theorem caseList_plain (logical : Bool) (sel : Expr) : ∀ (items : List CaseItem) (c : Expr),
    Plain sel = true → (∀ i ∈ items, PlainItem i = true) → caseList logical sel items = some c →
    Plain c = true := by
  intro items
  induction items with
  | nil => intro c _ _ h; simp [caseList] at h
  | cons i r ih =>
    intro c hs hi hc
    cases r with
    | nil => exact caseCond_plain logical sel i c hs (hi i (by simp)) (by simpa [caseList] using hc)
    | cons j r' =>
      simp only [caseList] at hc
      split at hc
      · rename_i a b ha hb
        simp at hc; subst hc
        have pa := caseCond_plain logical sel i a hs (hi i (by simp)) ha
        have pb := ih b hs (fun x hx => hi x (by simp [hx])) hb
        simp [Plain, pa, pb]
      · simp at hc

end C03
