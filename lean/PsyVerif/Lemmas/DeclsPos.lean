import PsyVerif.Lemmas.DeclsGen
/-! Positions of the declarations written by `Decls.genDecls`: the five segments
(interfaces, constants, arguments, derived types, the rest) and the order inside each. -/
namespace Decls

/-- names of the five segments of the written declarations -/
def seg (u : Unit) (order : List Name) : Cls → List Name
  | .iface => names (ofCls u.syms .iface)
  | .param => order
  | .arg => names (ofCls u.syms .arg)
  | .dtype => names (ofCls u.syms .dtype)
  | .other => names (ofCls u.syms .other)
  | _ => []

def offset (u : Unit) (order : List Name) : Cls → Nat
  | .iface => 0
  | .param => (seg u order .iface).length
  | .arg => (seg u order .iface).length + (seg u order .param).length
  | .dtype => (seg u order .iface).length + (seg u order .param).length + (seg u order .arg).length
  | .other => (seg u order .iface).length + (seg u order .param).length + (seg u order .arg).length
      + (seg u order .dtype).length
  | _ => 0

theorem declarable_cases {c : Cls} (h : c.declarable = true) :
    c = .iface ∨ c = .param ∨ c = .arg ∨ c = .dtype ∨ c = .other := by
  cases c <;> simp_all [Cls.declarable]

theorem mem_names_ofCls {l : List Sym} {c : Cls} {n : Name} :
    n ∈ names (ofCls l c) ↔ ∃ y ∈ l, y.name = n ∧ y.cls = c := by
  simp only [names, ofCls, List.mem_map, List.mem_filter]
  constructor
  · rintro ⟨y, ⟨h1, h2⟩, h3⟩; exact ⟨y, h1, h3, by simpa using h2⟩
  · rintro ⟨y, h1, h3, h2⟩; exact ⟨y, ⟨h1, by simpa using h2⟩, h3⟩

theorem mem_seg {u : Unit} (w : Wf u) {order : List Name}
    (ho : orderParams (paramGraph u.syms) = some order)
    {c : Cls} (hc : c.declarable = true) {n : Name} :
    n ∈ seg u order c ↔ ∃ y ∈ u.syms, y.name = n ∧ y.cls = c := by
  rcases declarable_cases hc with rfl | rfl | rfl | rfl | rfl
  · exact mem_names_ofCls
  · have hp := (paramSyms_perm w ho).1
    show n ∈ order ↔ _
    rw [hp.mem_iff]
    have : u.syms.filter isParam = ofCls u.syms .param := rfl
    rw [this]; exact mem_names_ofCls
  · exact mem_names_ofCls
  · exact mem_names_ofCls
  · exact mem_names_ofCls

theorem names_genDecls {u : Unit} (w : Wf u) {order : List Name}
    (ho : orderParams (paramGraph u.syms) = some order) :
    names (ofCls u.syms .iface ++ paramSyms u.syms order ++ ofCls u.syms .arg ++ ofCls u.syms .dtype ++ ofCls u.syms .other)
      = seg u order .iface ++ seg u order .param ++ seg u order .arg ++ seg u order .dtype ++ seg u order .other := by
  have h2 := (paramSyms_perm w ho).2.2
  simp only [names] at h2
  simp only [names, List.map_append, seg, h2]

theorem not_mem_seg_of_ne {u : Unit} (w : Wf u) {order : List Name}
    (ho : orderParams (paramGraph u.syms) = some order)
    {x : Sym} (hx : x ∈ u.syms) {c : Cls} (hc : c.declarable = true) (hne : x.cls ≠ c) :
    x.name ∉ seg u order c := by
  intro h
  obtain ⟨y, hy, hyn, hyc⟩ := (mem_seg w ho hc).mp h
  have := eq_of_name_eq w.nodup hy hx hyn
  subst this; exact hne hyc

/-- position of a declarable symbol in the written declarations -/
theorem pos_eq {u : Unit} (w : Wf u) {order : List Name}
    (ho : orderParams (paramGraph u.syms) = some order)
    {x : Sym} (hx : x ∈ u.syms) (hd : x.cls.declarable = true) :
    (seg u order .iface ++ seg u order .param ++ seg u order .arg ++ seg u order .dtype ++ seg u order .other).idxOf x.name
      = offset u order x.cls + (seg u order x.cls).idxOf x.name ∧
    (seg u order x.cls).idxOf x.name < (seg u order x.cls).length := by
  have hin : x.name ∈ seg u order x.cls := (mem_seg w ho hd).mpr ⟨x, hx, rfl, rfl⟩
  refine ⟨?_, List.idxOf_lt_length_iff.mpr hin⟩
  have hn := fun c (hc : c.declarable = true) (hne : x.cls ≠ c) => not_mem_seg_of_ne w ho hx hc hne
  rcases declarable_cases hd with h | h | h | h | h
  · rw [h] at hin ⊢
    simp [List.idxOf_append, hin, offset]
  · have n1 := hn .iface rfl (by rw [h]; decide)
    rw [h] at hin ⊢
    simp [List.idxOf_append, hin, n1, offset]; omega
  · have n1 := hn .iface rfl (by rw [h]; decide)
    have n2 := hn .param rfl (by rw [h]; decide)
    rw [h] at hin ⊢
    simp [List.idxOf_append, hin, n1, n2, offset]; omega
  · have n1 := hn .iface rfl (by rw [h]; decide)
    have n2 := hn .param rfl (by rw [h]; decide)
    have n3 := hn .arg rfl (by rw [h]; decide)
    rw [h] at hin ⊢
    simp [List.idxOf_append, hin, n1, n2, n3, offset]; omega
  · have n1 := hn .iface rfl (by rw [h]; decide)
    have n2 := hn .param rfl (by rw [h]; decide)
    have n3 := hn .arg rfl (by rw [h]; decide)
    have n4 := hn .dtype rfl (by rw [h]; decide)
    rw [h] at hin ⊢
    simp [List.idxOf_append, n1, n2, n3, n4, offset]; omega

/-- segments of earlier groups end before later groups start -/
theorem offset_mono (u : Unit) (order : List Name) {c c' : Cls} (hc : c.declarable = true)
    (hc' : c'.declarable = true) (h : c.group < c'.group) :
    offset u order c + (seg u order c).length ≤ offset u order c' := by
  rcases declarable_cases hc with rfl | rfl | rfl | rfl | rfl <;>
    rcases declarable_cases hc' with rfl | rfl | rfl | rfl | rfl <;>
    simp [Cls.group] at h <;> simp [offset] <;> omega

end Decls
