import PsyVerif.Model.LoopTrans
import PsyVerif.Lemmas.MiniFSem
/-! # C05 — lemmas for HoistTrans: an invariant assignment can be moved in front of a loop that
runs at least once -/
namespace C05
open MiniF

theorem exec_seqs_cons (s : Stmt) (l : List Stmt) (σ : Store) :
    exec (seqs (s :: l)) σ = exec (seqs l) (exec s σ) := by
  cases l with
  | nil => rfl
  | cons a l => rfl

theorem exec_seqs_append (l1 l2 : List Stmt) (σ : Store) :
    exec (seqs (l1 ++ l2)) σ = exec (seqs l2) (exec (seqs l1) σ) := by
  induction l1 generalizing σ with
  | nil => rfl
  | cons a l ih => rw [List.cons_append, exec_seqs_cons, ih, exec_seqs_cons]

/-- an assignment is a single store to a location computed from the variables it reads -/
theorem assign_form {s : Stmt} {x : Nat} (h : assignedVar s = some x) :
    ∃ I J E : Store → Int, (∀ τ, exec s τ = τ.set (x, I τ, J τ) (E τ)) ∧
      (∀ τ τ', AgreeOn (fun y => y ∈ rvars s) τ τ' → I τ = I τ' ∧ J τ = J τ' ∧ E τ = E τ') ∧
      wvars s = [x] := by
  cases s with
  | assign y e =>
    simp only [assignedVar, Option.some.injEq] at h; subst h
    exact ⟨fun _ => 0, fun _ => 0, eval e, fun τ => rfl,
      fun τ τ' ha => ⟨rfl, rfl, eval_congr (fun z hz => by simpa [rvars] using hz) ha⟩, rfl⟩
  | store1 a i e =>
    simp only [assignedVar, Option.some.injEq] at h; subst h
    exact ⟨eval i, fun _ => 0, eval e, fun τ => rfl,
      fun τ τ' ha => ⟨eval_congr (fun z hz => by simp [rvars, hz]) ha, rfl,
        eval_congr (fun z hz => by simp [rvars, hz]) ha⟩, rfl⟩
  | store2 a i j e =>
    simp only [assignedVar, Option.some.injEq] at h; subst h
    exact ⟨eval i, eval j, eval e, fun τ => rfl,
      fun τ τ' ha => ⟨eval_congr (fun z hz => by simp [rvars, hz]) ha,
        eval_congr (fun z hz => by simp [rvars, hz]) ha,
        eval_congr (fun z hz => by simp [rvars, hz]) ha⟩, rfl⟩
  | skip => simp [assignedVar] at h
  | seq a b => simp [assignedVar] at h
  | ite c t f => simp [assignedVar] at h
  | loop v lo hi st b => simp [assignedVar] at h

theorem hoist_sound_core (v x : Nat) (lo hi st : Expr) (p s q : Stmt) (hx : assignedVar s = some x)
    (hxr : x ∉ rvars s) (hxv : x ≠ v) (hxb : x ∉ evars lo ∧ x ∉ evars hi ∧ x ∉ evars st)
    (hxp : x ∉ rvars p ∧ x ∉ wvars p) (hxq : x ∉ wvars q)
    (hR : ∀ r ∈ rvars s, r ≠ v ∧ r ∉ wvars p ∧ r ∉ wvars q)
    (σ : Store) (hn : 0 < trip (eval lo σ) (eval hi σ) (eval st σ)) :
    exec (.loop v lo hi st (.seq p (.seq s q))) σ = exec (.seq s (.loop v lo hi st (.seq p q))) σ := by
  obtain ⟨I, J, E, hS, hIJE, hw⟩ := assign_form hx
  let Done : Store → Prop := fun τ => τ (x, I τ, J τ) = E τ
  -- a store that differs from τ only outside the read set of s and outside x
  have keep : ∀ τ τ' : Store, AgreeOn (fun y => y ∈ rvars s) τ' τ → (∀ i j, τ' (x, i, j) = τ (x, i, j)) →
      Done τ → Done τ' := by
    intro τ τ' ha hxx hd
    obtain ⟨h1, h2, h3⟩ := hIJE τ' τ ha
    show τ' (x, I τ', J τ') = E τ'
    rw [h1, h2, h3, hxx]
    exact hd
  have L1 : ∀ τ, Done τ → exec s τ = τ := by
    intro τ hd
    rw [hS]
    apply Store.ext
    funext l
    rw [Store.set_apply]
    split
    · rename_i h; rw [h]; exact hd.symm
    · rfl
  have agreeR_set : ∀ (τ : Store) (l : Loc) (val : Int), l.1 ∉ rvars s →
      AgreeOn (fun y => y ∈ rvars s) (τ.set l val) τ := by
    intro τ l val hl y hy i j
    rw [Store.set_apply, if_neg]
    intro h
    apply hl
    rw [← h]
    exact hy
  have L2 : ∀ τ, Done (exec s τ) := by
    intro τ
    rw [hS]
    obtain ⟨h1, h2, h3⟩ := hIJE (τ.set (x, I τ, J τ) (E τ)) τ (agreeR_set τ _ _ hxr)
    show (τ.set (x, I τ, J τ) (E τ)) (x, I (τ.set (x, I τ, J τ) (E τ)), J (τ.set (x, I τ, J τ) (E τ))) = E (τ.set (x, I τ, J τ) (E τ))
    rw [h1, h2, h3, Store.set_same]
  have L3 : ∀ (T : Stmt), x ∉ wvars T → (∀ r ∈ rvars s, r ∉ wvars T) → ∀ τ, Done τ → Done (exec T τ) := by
    intro T hxT hRT τ hd
    exact keep τ (exec T τ) (fun y hy i j => exec_frame (hRT y hy) i j) (fun i j => exec_frame hxT i j) hd
  have L3' : ∀ τ c, Done τ → Done (τ.set (v, 0, 0) c) := by
    intro τ c hd
    refine keep τ _ (agreeR_set τ _ _ (fun h => (hR v h).1 rfl)) (fun i j => ?_) hd
    rw [Store.set_apply, if_neg (fun h => hxv (congrArg Prod.fst h))]
  have L4 : ∀ τ, exec s (exec p τ) = exec p (exec s τ) := by
    intro τ
    have := exec_comm (s₁ := p) (s₂ := s)
      (fun y hy => ⟨fun h => (hR y h).2.1 hy, fun h => by rw [hw] at h; simp at h; subst h; exact hxp.2 hy⟩)
      (fun y hy => by rw [hw] at hy; simp at hy; subst hy; exact hxp) τ
    exact this
  have L5 : ∀ τ c, exec s (τ.set (v, 0, 0) c) = (exec s τ).set (v, 0, 0) c := by
    intro τ c
    obtain ⟨h1, h2, h3⟩ := hIJE (τ.set (v, 0, 0) c) τ (agreeR_set τ _ _ (fun h => (hR v h).1 rfl))
    rw [hS, hS, h1, h2, h3]
    apply Store.ext
    funext l
    simp only [Store.set_apply]
    by_cases ha : l = (x, I τ, J τ)
    · have hb : l ≠ (v, 0, 0) := fun h => hxv (by rw [ha] at h; exact congrArg Prod.fst h)
      simp [ha, hb]
      intro h; exact absurd h hxv
    · simp [ha]
  -- body with and without the statement
  have hf : ∀ τ, exec (.seq p (.seq s q)) τ = exec q (exec s (exec p τ)) := fun τ => rfl
  have hg : ∀ τ, exec (.seq p q) τ = exec q (exec p τ) := fun τ => rfl
  have A : ∀ τ c, Done τ → exec (.seq p (.seq s q)) (τ.set (v, 0, 0) c) = exec (.seq p q) (τ.set (v, 0, 0) c) ∧
      Done (exec (.seq p q) (τ.set (v, 0, 0) c)) := by
    intro τ c hd
    have d1 := L3 p hxp.2 (fun r hr => (hR r hr).2.1) _ (L3' τ c hd)
    rw [hf, hg, L1 _ d1]
    exact ⟨rfl, L3 q hxq (fun r hr => (hR r hr).2.2) _ d1⟩
  have B : ∀ (lo0 s0 : Int) (n : Nat) (k : Int) (τ : Store), Done τ →
      iters (exec (.seq p (.seq s q))) v lo0 s0 n k τ = iters (exec (.seq p q)) v lo0 s0 n k τ := by
    intro lo0 s0 n
    induction n with
    | zero => intro k τ _; rfl
    | succ n ih =>
      intro k τ hd
      simp only [iters]
      obtain ⟨a1, a2⟩ := A τ (lo0 + k * s0) hd
      rw [a1]
      exact ih _ _ a2
  -- bounds are the same after the hoisted statement
  have hbnd : ∀ e : Expr, x ∉ evars e → eval e (exec s σ) = eval e σ := by
    intro e he
    apply eval_congr (V := fun y => y ∈ evars e) (fun y hy => hy)
    intro y hy i j
    rw [hS, Store.set_apply, if_neg]
    intro h
    apply he
    have : y = x := congrArg Prod.fst h
    rw [← this]; exact hy
  show runIters (exec (.seq p (.seq s q))) v (eval lo σ) (eval st σ) (trip (eval lo σ) (eval hi σ) (eval st σ)) 0 σ
     = runIters (exec (.seq p q)) v (eval lo (exec s σ)) (eval st (exec s σ))
        (trip (eval lo (exec s σ)) (eval hi (exec s σ)) (eval st (exec s σ))) 0 (exec s σ)
  rw [hbnd lo hxb.1, hbnd hi hxb.2.1, hbnd st hxb.2.2, runIters_eq_iters, runIters_eq_iters]
  generalize eval lo σ = lo0 at hn ⊢
  generalize eval st σ = s0 at hn ⊢
  generalize trip lo0 (eval hi σ) s0 = n at hn ⊢
  cases n with
  | zero => exact absurd hn (by omega)
  | succ m =>
    congr 1
    simp only [iters]
    -- first iteration
    have C : exec (.seq p (.seq s q)) (σ.set (v, 0, 0) (lo0 + 0 * s0))
        = exec (.seq p q) ((exec s σ).set (v, 0, 0) (lo0 + 0 * s0)) := by
      rw [hf, hg, L4, L5]
    rw [C]
    exact B lo0 s0 m _ _ (A (exec s σ) _ (L2 σ)).2

end C05
