import PsyVerif.Model.Halo
/-! # C22 — helper definitions and lemmas (marks, single steps) -/
namespace C22

/-! ## Side conditions -/

/-- run-time stencil extents are at least 1 -/
def ExtOK (env : Nat → Nat) : Prop := ∀ v, 1 ≤ env v

/-- literal stencil extents are at least 1 -/
def Arg.extOK (a : Arg) : Prop :=
  match a.stencil with
  | some (.lit n) => 1 ≤ n
  | _ => True

/-- LFRic metadata rule (user guide, valid access modes): `GH_INC`/`GH_READINC` only for arguments
on continuous (or `ANY_SPACE`) function spaces -/
def Arg.accOK (a : Arg) : Prop := a.disc = true → a.access ≠ .inc ∧ a.access ≠ .readinc

/-- a literal halo depth is at least 1 (`set_upper_bound` refuses smaller indices) -/
def Level.wf : Level → Prop
  | .halo d => 1 ≤ d
  | _ => True

/-- executing a list of events for field `f` (no end-of-invoke observation) -/
def stepsF (H : Nat) (env : Nat → Nat) (cont : Bool) (f : Nat) :
    List LItem → RState → Except Failure RState
  | [], s => .ok s
  | x :: xs, s =>
    match stepF H env cont f s x with
    | .error e => .error e
    | .ok s' => stepsF H env cont f xs s'

/-- closed form of the recorded depth after `marksOf` -/
def recAfter (H : Nat) (w : WriteInfo) (r : Nat) : Nat :=
  let r0 := if !w.maxDepth || w.dirtyOuter then 0 else r
  if w.lit != 0 then max r0 (if w.dirtyOuter then w.lit - 1 else w.lit)
  else if w.maxDepth then max r0 (if w.dirtyOuter then H - 1 else H)
  else r0

theorem stepsF_marksOf (H : Nat) (env : Nat → Nat) (cont : Bool) (k : Kern) (b : Bound) (a : Arg)
    (s : RState) :
    stepsF H env cont a.field (marksOf k b a) s =
      .ok { s with recorded := recAfter H (writeInfo k b a) s.recorded } := by
  unfold marksOf recAfter
  generalize writeInfo k b a = w
  obtain ⟨l, m, d⟩ := w
  by_cases hl : l = 0 <;> cases m <;> cases d <;>
    simp [stepsF, stepF, hl, evalDepth] <;> (try omega)
  all_goals (split <;> simp [stepsF, stepF, evalDepth] <;> omega)

theorem recAfter_le_specAfter (H : Nat) (cont : Bool) (k : Kern) (b : Bound) (a : Arg)
    (r : Nat) (old : FState) (hH : 1 ≤ H) (hb : b.lvl.wf) (hd : a.disc = true → cont = false)
    (hacc : a.accOK) (hw : a.access.writes = true) (hr : r ≤ old.cd) :
    recAfter H (writeInfo k b a) r ≤ (specAfter H cont k b a old).cd ∧
    ((specAfter H cont k b a old).cd = 0 ∨ (specAfter H cont k b a old).ann = true) := by
  obtain ⟨lvl, col⟩ := b
  obtain ⟨f, acc, disc, st⟩ := a
  obtain ⟨dof, args⟩ := k
  obtain ⟨oa, ocd⟩ := old
  have hH0 : H ≠ 0 := by omega
  cases lvl
  case halo d =>
    have hd0 : d ≠ 0 := by simp [Level.wf] at hb; omega
    cases dof <;> cases disc <;> cases cont <;> cases acc <;>
      simp_all [recAfter, writeInfo, specAfter, lvlOf, Level.isHalo, Level.litDepth, Level.wf,
        Access.writes, Arg.accOK] <;> omega
  all_goals
    cases dof <;> cases disc <;> cases cont <;> cases acc <;>
      simp_all [recAfter, writeInfo, specAfter, lvlOf, Level.isHalo, Level.litDepth, Level.wf,
        Access.writes, Arg.accOK] <;> omega

/-- effect of a kernel loop on the state of a field it writes -/
theorem stepF_loop_writer (H : Nat) (env : Nat → Nat) (cont : Bool) (k : Kern) (b : Bound)
    (a : Arg) (s s1 : RState) (ha : argOf k a.field = some a) (hw : a.access.writes = true)
    (h1 : stepF H env cont a.field s (.loop k b) = .ok s1) :
    sat s.act (specNeed H env cont k b a) = true ∧
    s1 = { s with act := specAfter H cont k b a s.act } := by
  simp only [stepF, ha, hw] at h1
  by_cases hs : sat s.act (specNeed H env cont k b a) = true
  · simp [hs] at h1
    by_cases hi : s.inflight.isSome = true
    · simp [hi] at h1
    · simp [hi] at h1
      exact ⟨hs, h1.symm⟩
  · simp [hs] at h1

end C22
