import PsyVerif.Model.Halo
/-! # C22 — helper definitions and lemmas (marks, single steps) -/
namespace C22

/-! ## Side conditions -/

/-- run-time stencil extents are at least 1 -/
def ExtOK (env : Nat → Nat) : Prop := ∀ v, 1 ≤ env v

/-- literal stencil extents are at least 1 -/
def Arg.extOK (a : Arg) : Prop :=
  match a.stencil with
  | some (.lit n) => 1 ≤ n
  | _ => True

/-- LFRic metadata rule (user guide, valid access modes): `GH_INC`/`GH_READINC` only for arguments
on continuous (or `ANY_SPACE`) function spaces -/
def Arg.accOK (a : Arg) : Prop := a.disc = true → a.access ≠ .inc ∧ a.access ≠ .readinc

/-- a literal halo depth is at least 1 (`set_upper_bound` refuses smaller indices) -/
def Level.wf : Level → Prop
  | .halo d => 1 ≤ d
  | _ => True

/-- executing a list of events for field `f` (no end-of-invoke observation) -/
def stepsF (H : Nat) (env : Nat → Nat) (cont : Bool) (f : Nat) :
    List LItem → RState → Except Failure RState
  | [], s => .ok s
  | x :: xs, s =>
    match stepF H env cont f s x with
    | .error e => .error e
    | .ok s' => stepsF H env cont f xs s'

/-- closed form of the recorded depth after `marksOf` -/
def recAfter (H : Nat) (w : WriteInfo) (r : Nat) : Nat :=
  let r0 := if !w.maxDepth || w.dirtyOuter then 0 else r
  if w.lit != 0 then max r0 (if w.dirtyOuter then w.lit - 1 else w.lit)
  else if w.maxDepth then max r0 (if w.dirtyOuter then H - 1 else H)
  else r0

theorem stepsF_marksOf (H : Nat) (env : Nat → Nat) (cont : Bool) (k : Kern) (b : Bound) (a : Arg)
    (s : RState) :
    stepsF H env cont a.field (marksOf k b a) s =
      .ok { s with recorded := recAfter H (writeInfo k b a) s.recorded } := by
  unfold marksOf recAfter
  generalize writeInfo k b a = w
  obtain ⟨l, m, d⟩ := w
  by_cases hl : l = 0 <;> cases m <;> cases d <;>
    simp [stepsF, stepF, hl, evalDepth] <;> (try omega)
  all_goals (split <;> simp [stepsF, stepF, evalDepth] <;> omega)

theorem recAfter_le_specAfter (H : Nat) (cont : Bool) (k : Kern) (b : Bound) (a : Arg)
    (r : Nat) (old : FState) (hH : 1 ≤ H) (hb : b.lvl.wf) (hd : a.disc = true → cont = false)
    (hacc : a.accOK) (hw : a.access.writes = true) (hr : r ≤ old.cd) :
    recAfter H (writeInfo k b a) r ≤ (specAfter H cont k b a old).cd ∧
    ((specAfter H cont k b a old).cd = 0 ∨ (specAfter H cont k b a old).ann = true) := by
  obtain ⟨lvl, col⟩ := b
  obtain ⟨f, acc, disc, st⟩ := a
  obtain ⟨dof, args⟩ := k
  obtain ⟨oa, ocd⟩ := old
  have hH0 : H ≠ 0 := by omega
  cases lvl
  case halo d =>
    have hd0 : d ≠ 0 := by simp [Level.wf] at hb; omega
    cases dof <;> cases disc <;> cases cont <;> cases acc <;>
      simp_all [recAfter, writeInfo, specAfter, lvlOf, Level.isHalo, Level.litDepth, Level.wf,
        Access.writes, Arg.accOK] <;> omega
  all_goals
    cases dof <;> cases disc <;> cases cont <;> cases acc <;>
      simp_all [recAfter, writeInfo, specAfter, lvlOf, Level.isHalo, Level.litDepth, Level.wf,
        Access.writes, Arg.accOK] <;> omega

/-- effect of a kernel loop on the state of a field it writes -/
theorem stepF_loop_writer (H : Nat) (env : Nat → Nat) (cont : Bool) (k : Kern) (b : Bound)
    (a : Arg) (s s1 : RState) (ha : argOf k a.field = some a) (hw : a.access.writes = true)
    (h1 : stepF H env cont a.field s (.loop k b) = .ok s1) :
    sat s.act (specNeed H env cont k b a) = true ∧
    s1 = { s with act := specAfter H cont k b a s.act } := by
  simp only [stepF, ha, hw] at h1
  by_cases hs : sat s.act (specNeed H env cont k b a) = true
  · simp [hs] at h1
    by_cases hi : s.inflight.isSome = true
    · simp [hi] at h1
    · simp [hi] at h1
      exact ⟨hs, h1.symm⟩
  · simp [hs] at h1

/-! ## Aggregation of read depths (`_create_depth_list`) -/

def envv (env : Nat → Nat) : Option Nat → Nat
  | some v => env v
  | none => 0

theorem foldl_max_eq (H : Nat) (env : Nat → Nat) : ∀ (ds : List HaloDepth) (m : Nat),
    ds.foldl (fun m d => max m (evalDepth H env d)) m =
      max m (ds.foldl (fun m d => max m (evalDepth H env d)) 0)
  | [], m => by simp
  | x :: xs, m => by
    simp only [List.foldl_cons]
    rw [foldl_max_eq H env xs (max m _), foldl_max_eq H env xs (max 0 _)]
    omega

theorem evalDepths_cons (H : Nat) (env : Nat → Nat) (d : HaloDepth) (ds : List HaloDepth) :
    evalDepths H env (d :: ds) = max (evalDepth H env d) (evalDepths H env ds) := by
  unfold evalDepths
  simp only [List.foldl_cons]
  rw [foldl_max_eq]
  omega

theorem evalDepth_plain (H : Nat) (env : Nat → Nat) (l : Nat) (v : Option Nat) (a : Bool) :
    evalDepth H env ⟨l, v, false, false, a⟩ = l + envv env v := by
  cases v <;> simp [evalDepth, envv]

theorem mergeDepth_mono (H : Nat) (env : Nat → Nat) (v : Option Nat) (l : Nat) :
    ∀ acc, evalDepths H env acc ≤ evalDepths H env (mergeDepth acc v l)
  | [] => by simp [evalDepths]
  | d :: ds => by
    simp only [mergeDepth]
    split
    · rw [evalDepths_cons, evalDepths_cons]
      have : evalDepth H env d ≤ evalDepth H env { d with lit := max d.lit l } := by
        obtain ⟨dl, dv, dm, dm1, da⟩ := d
        cases dm <;> cases dm1 <;> simp [evalDepth] <;> omega
      omega
    · rw [evalDepths_cons, evalDepths_cons]
      have := mergeDepth_mono H env v l ds
      omega

/-- entries that are not the `max_depth-1` entry are plain (literal + variable) entries -/
def AccNorm (acc : List HaloDepth) : Prop := ∀ e ∈ acc, e.maxM1 = false → e.maxDepth = false

theorem mergeDepth_norm (v : Option Nat) (l : Nat) :
    ∀ acc, AccNorm acc → AccNorm (mergeDepth acc v l)
  | [], _ => by
    simp only [mergeDepth]
    split <;> simp [AccNorm]
  | d :: ds, h => by
    simp only [mergeDepth]
    split
    · intro e he hm
      simp at he
      rcases he with rfl | he
      · exact h d (by simp) hm
      · exact h e (by simp [he]) hm
    · intro e he hm
      simp at he
      rcases he with rfl | he
      · exact h e (by simp) hm
      · exact mergeDepth_norm v l ds (fun e he' => h e (by simp [he'])) e he hm

theorem mergeDepth_new (H : Nat) (env : Nat → Nat) (v : Option Nat) (l : Nat) :
    ∀ acc, AccNorm acc → l + envv env v ≤ evalDepths H env (mergeDepth acc v l)
  | [], _ => by
    simp only [mergeDepth]
    split
    · rw [evalDepths_cons, evalDepth_plain]; omega
    · rename_i hn
      cases v <;> simp_all [envv]
  | d :: ds, h => by
    simp only [mergeDepth]
    split
    · rename_i hc
      simp at hc
      have hm := h d (by simp) hc.1
      rw [evalDepths_cons]
      obtain ⟨dl, dv, dm, dm1, da⟩ := d
      simp at hm hc
      obtain ⟨rfl, rfl⟩ := hc
      subst hm
      dsimp only
      rw [evalDepth_plain]
      omega
    · rw [evalDepths_cons]
      have := mergeDepth_new H env v l ds (fun e he' => h e (by simp [he']))
      omega

/-- literal part of a read requirement after `needs_clean_outer` has been taken into account -/
def infoAdj (i : ReadInfo) : Nat := if i.lit != 0 && !i.needsCleanOuter then i.lit - 1 else i.lit

/-- the halo depth one reader requires, as PSyclone evaluates its `HaloReadAccess` -/
def infoNeed (H : Nat) (env : Nat → Nat) (i : ReadInfo) : Nat :=
  if i.maxDepth then (if i.needsCleanOuter then H else H - 1) else infoAdj i + envv env i.var

/-- one iteration of the main loop of `_create_depth_list` -/
def dstep (acc : List HaloDepth) (i : ReadInfo) : List HaloDepth :=
  if i.maxDepth && !i.needsCleanOuter then acc else mergeDepth acc i.var (infoAdj i)

theorem depthList_eq (infos : List ReadInfo) :
    depthList infos =
      if infos.all (fun i => i.annexedOnly || (i.lit == 1 && !i.needsCleanOuter)) then
        [⟨1, none, false, false, true⟩]
      else if infos.any (fun i => i.maxDepth && i.needsCleanOuter) then
        [⟨0, none, true, false, false⟩]
      else infos.foldl dstep
        (if infos.any (fun i => i.maxDepth) then [⟨0, none, false, true, false⟩] else []) := by
  rfl

theorem foldl_dstep (H : Nat) (env : Nat → Nat) : ∀ (infos : List ReadInfo) (acc : List HaloDepth),
    AccNorm acc →
    evalDepths H env acc ≤ evalDepths H env (infos.foldl dstep acc) ∧
    ∀ i ∈ infos, i.maxDepth = false →
      infoAdj i + envv env i.var ≤ evalDepths H env (infos.foldl dstep acc)
  | [], acc, _ => by simp
  | j :: js, acc, hn => by
    have hn' : AccNorm (dstep acc j) := by
      unfold dstep; split
      · exact hn
      · exact mergeDepth_norm _ _ _ hn
    have hmono : evalDepths H env acc ≤ evalDepths H env (dstep acc j) := by
      unfold dstep; split
      · exact Nat.le_refl _
      · exact mergeDepth_mono H env _ _ _
    obtain ⟨ih1, ih2⟩ := foldl_dstep H env js (dstep acc j) hn'
    simp only [List.foldl_cons]
    refine ⟨Nat.le_trans hmono ih1, ?_⟩
    intro i hi hmax
    simp at hi
    rcases hi with rfl | hi
    · have : infoAdj i + envv env i.var ≤ evalDepths H env (dstep acc i) := by
        unfold dstep
        simp [hmax]
        exact mergeDepth_new H env _ _ _ hn
      exact Nat.le_trans this ih1
    · exact ih2 i hi hmax

/-- shape of the information `HaloReadAccess` can produce -/
def InfoWF (i : ReadInfo) : Prop :=
  (i.annexedOnly = true → i.lit = 1 ∧ i.var = none ∧ i.maxDepth = false) ∧
  (i.needsCleanOuter = false → i.var = none) ∧ (i.maxDepth = true → i.lit = 0)

theorem depthList_covers (H : Nat) (env : Nat → Nat) (infos : List ReadInfo) (i : ReadInfo)
    (hi : i ∈ infos) (hwf : InfoWF i) (hdeep : infoNeed H env i ≤ H) :
    infoNeed H env i ≤ evalDepths H env (depthList infos) := by
  rw [depthList_eq]
  obtain ⟨w1, w2, w3⟩ := hwf
  split
  · rename_i hall
    have := List.all_eq_true.mp hall i hi
    rw [evalDepths_cons]
    simp [evalDepth, evalDepths]
    simp at this
    obtain ⟨il, iv, im, ia, inco⟩ := i
    simp at w1 w2 w3 this
    rcases this with ha | ⟨h1, h2⟩
    · obtain ⟨rfl, rfl, rfl⟩ := w1 ha
      simp [infoNeed, infoAdj, envv]; split <;> omega
    · subst h1 h2
      have hv := w2 rfl
      subst hv
      cases im
      · simp [infoNeed, infoAdj, envv]
      · simp at w3
  · split
    · rw [evalDepths_cons]
      simp [evalDepth, evalDepths]
      exact hdeep
    · rename_i hany
      by_cases hm : i.maxDepth = true
      · -- a `max_depth` reader that does not need its outer level: covered by the `max-1` entry
        have hnco : i.needsCleanOuter = false := by
          cases h : i.needsCleanOuter
          · rfl
          · exfalso; apply hany
            exact List.any_eq_true.mpr ⟨i, hi, by simp [hm, h]⟩
        have hanym : infos.any (fun i => i.maxDepth) = true :=
          List.any_eq_true.mpr ⟨i, hi, hm⟩
        simp only [hanym, if_true]
        have h0 := (foldl_dstep H env infos [⟨0, none, false, true, false⟩]
          (by intro e he hm1; simp at he; subst he; simp at hm1)).1
        rw [evalDepths_cons] at h0
        simp [evalDepth, evalDepths] at h0
        simp [infoNeed, hm, hnco]
        exact h0
      · have hm' : i.maxDepth = false := by cases h : i.maxDepth <;> simp_all
        have hn : AccNorm (if infos.any (fun i => i.maxDepth) then
            [(⟨0, none, false, true, false⟩ : HaloDepth)] else []) := by
          split
          · intro e he hm1; simp at he; subst he; simp at hm1
          · intro e he; simp at he
        have := (foldl_dstep H env infos _ hn).2 i hi hm'
        simp only [infoNeed, hm']
        exact this

/-- reader side conditions: stencils only on `GH_READ` arguments (LFRic metadata rule), a literal
halo depth is ≥ 1, and no stencil in a loop to the maximum halo depth (PSyclone refuses it) -/
def ReaderOK (b : Bound) (a : Arg) : Prop :=
  (a.stencil.isSome = true → a.access = .read) ∧ b.lvl.wf ∧
  (b.lvl = .haloMax → a.stencil = none)

theorem readInfo_need (H : Nat) (env : Nat → Nat) (cont : Bool) (k : Kern) (b : Bound) (a : Arg)
    (hok : ReaderOK b a) :
    (specNeed H env cont k b a).depth ≤ infoNeed H env (readInfo k b a) ∧
    InfoWF (readInfo k b a) := by
  obtain ⟨lvl, col⟩ := b
  obtain ⟨f, acc, disc, st⟩ := a
  obtain ⟨dof, args⟩ := k
  obtain ⟨h1, h2, h3⟩ := hok
  generalize haw : Kern.allWrites ⟨dof, args⟩ = aw
  cases lvl
  case halo d =>
    have hd0 : d ≠ 0 := by simp [Level.wf] at h2; omega
    rcases st with _ | ⟨n | v⟩ <;> cases dof <;> cases acc <;>
      simp_all [specNeed, readInfo, infoNeed, infoAdj, InfoWF, lvlOf, Level.isHalo, Level.litDepth,
        Access.reads, extentVal, envv] <;> omega
  all_goals
    rcases st with _ | ⟨n | v⟩ <;> cases dof <;> cases acc <;> cases col <;> cases disc <;> cases aw <;>
      simp_all [specNeed, readInfo, infoNeed, infoAdj, InfoWF, lvlOf, Level.isHalo, Level.litDepth,
        Access.reads, extentVal, envv] <;> omega

end C22
