import PsyVerif.Lemmas.AD
import PsyVerif.Lemmas.MiniFSem
/-! # C19: the Fortran reading `run` and the read-only reading `sem` coincide on programs
without passive assignments whose loop variables are read only inside their loops -/
namespace C19
open MiniF

theorem exprVars_eq_evars (e : Expr) : exprVars e = evars e := by
  induction e <;> simp_all [exprVars, evars]

/-- the passive stores of the two readings differ at most in the scalar location of loop
variables that are currently not bound -/
def PAgree (LV bound : List Nat) (ρ ρ' : Store) : Prop :=
  ∀ (x : Nat) (i j : Int), ((x ∉ LV ∨ x ∈ bound) ∨ (i, j) ≠ ((0 : Int), (0 : Int))) → ρ (x, i, j) = ρ' (x, i, j)

variable {LV bound : List Nat} {ρ ρ' : Store}

theorem PAgree.refl (LV bound : List Nat) (ρ : Store) : PAgree LV bound ρ ρ := fun _ _ _ _ => rfl

theorem eval_scoped {e : Expr} (hs : exprScoped LV bound e = true) (h : PAgree LV bound ρ ρ') :
    eval e ρ = eval e ρ' := by
  apply eval_congr (V := fun x => x ∉ LV ∨ x ∈ bound)
  · intro x hx
    rw [← exprVars_eq_evars] at hx
    simp only [exprScoped, List.all_eq_true] at hs
    have := hs x hx
    simp only [Bool.or_eq_true, Bool.not_eq_true', List.contains_eq_mem, decide_eq_false_iff_not,
      decide_eq_true_eq] at this
    exact this
  · intro x hx i j; exact h x i j (Or.inl hx)

theorem loc_scoped {r : ARef} (hs : refScoped LV bound r = true) (h : PAgree LV bound ρ ρ') :
    r.loc ρ = r.loc ρ' := by
  simp only [refScoped, Bool.and_eq_true] at hs
  simp only [ARef.loc, eval_scoped hs.1 h, eval_scoped hs.2 h]

theorem rhsVal_scoped {ts : List Term} (hs : ts.all (termScoped LV bound) = true) (h : PAgree LV bound ρ ρ')
    (a : Store) : rhsVal ts ρ a = rhsVal ts ρ' a := by
  induction ts with
  | nil => rfl
  | cons t ts ih =>
    simp only [List.all_cons, Bool.and_eq_true] at hs
    have ht := hs.1
    simp only [termScoped, Bool.and_eq_true] at ht
    simp only [rhsVal, Term.val, Term.k, loc_scoped ht.1 h, eval_scoped ht.2 h, ih hs.2]

theorem ne_of_cond {x v : Nat} {i j : Int} (hv : v ∈ LV) (hb : v ∉ bound)
    (hc : (x ∉ LV ∨ x ∈ bound) ∨ (i, j) ≠ ((0 : Int), (0 : Int))) : (x, i, j) ≠ (v, (0 : Int), (0 : Int)) := by
  intro he
  simp only [Prod.mk.injEq] at he
  obtain ⟨hx, hi, hj⟩ := he
  subst hx
  rcases hc with (h | h) | h
  · exact h hv
  · exact hb h
  · exact h (by simp [hi, hj])

/-- binding a loop variable on both sides -/
theorem PAgree.bind (h : PAgree LV bound ρ ρ') (v : Nat) (n : Int) :
    PAgree LV (v :: bound) (ρ.set (v, 0, 0) n) (ρ'.set (v, 0, 0) n) := by
  intro x i j hc
  by_cases he : (x, i, j) = (v, (0 : Int), (0 : Int))
  · rw [he]; simp
  · rw [Store.set_other _ _ he, Store.set_other _ _ he]
    apply h
    rcases hc with (hc | hc) | hc
    · exact Or.inl (Or.inl hc)
    · rcases List.mem_cons.mp hc with hxv | hxb
      · right
        intro hij
        apply he
        simp only [Prod.mk.injEq] at hij
        simp [hxv, hij.1, hij.2]
      · exact Or.inl (Or.inr hxb)
    · exact Or.inr hc

/-- setting a variable that is not a loop variable (the section counter) on both sides -/
theorem PAgree.setBoth (h : PAgree LV bound ρ ρ') (ev : Nat) (n : Int) :
    PAgree LV bound (ρ.set (ev, 0, 0) n) (ρ'.set (ev, 0, 0) n) := by
  intro x i j hc
  by_cases he : (x, i, j) = (ev, (0 : Int), (0 : Int))
  · rw [he]; simp
  · rw [Store.set_other _ _ he, Store.set_other _ _ he]; exact h x i j hc

/-- after the body: forget the binding of `v` on the left -/
theorem PAgree.unbind {ρ'' : Store} {v : Nat} {n : Int} (h : PAgree LV (v :: bound) (ρ.set (v, 0, 0) n) ρ'')
    (hv : v ∈ LV) (hb : v ∉ bound) : PAgree LV bound ρ ρ'' := by
  intro x i j hc
  have hne := ne_of_cond hv hb hc
  rw [← h x i j (by
    rcases hc with (hc | hc) | hc
    · exact Or.inl (Or.inl hc)
    · exact Or.inl (Or.inr (List.mem_cons_of_mem _ hc))
    · exact Or.inr hc), Store.set_other _ _ hne]

/-- the final value of the loop variable is invisible -/
theorem PAgree.setRight {ρ'' : Store} {v : Nat} (h : PAgree LV bound ρ ρ'') (hv : v ∈ LV) (hb : v ∉ bound) (n : Int) :
    PAgree LV bound ρ (ρ''.set (v, 0, 0) n) := by
  intro x i j hc
  rw [Store.set_other _ _ (ne_of_cond hv hb hc)]; exact h x i j hc

theorem secSem_scoped (ev : Nat) (cnt : Expr) (l : ARef) (ts : List Term) (a : Store)
    (hc : exprScoped LV bound cnt = true) (hl : refScoped LV bound l = true)
    (hts : ts.all (termScoped LV bound) = true) (h : PAgree LV bound ρ ρ') :
    secSem ev cnt l ts ρ' a = secSem ev cnt l ts ρ a := by
  unfold secSem
  rw [eval_scoped hc h]
  congr 1
  funext acc e
  rw [loc_scoped hl (h.setBoth ev e), rhsVal_scoped hts (h.setBoth ev e)]

/-- **`run` refines `sem`** on programs without passive assignments whose loop variables
(contained in `LV`) are read only while bound -/
theorem run_sem (LV : List Nat) (p : Stmt) :
    ∀ (bound : List Nat) (ρ ρ' a : Store), pureAD p = true → scopedIn LV bound p = true → PAgree LV bound ρ ρ' →
      (run p ρ' a).2 = sem p ρ a ∧ PAgree LV bound ρ (run p ρ' a).1 := by
  induction p with
  | skip => intro bound ρ ρ' a _ _ h; exact ⟨rfl, h⟩
  | seq p q ihp ihq =>
    intro bound ρ ρ' a hp hs h
    simp only [pureAD, Bool.and_eq_true] at hp
    simp only [scopedIn, Bool.and_eq_true] at hs
    obtain ⟨h1, h2⟩ := ihp bound ρ ρ' a hp.1 hs.1 h
    obtain ⟨h3, h4⟩ := ihq bound ρ (run p ρ' a).1 (run p ρ' a).2 hp.2 hs.2 h2
    simp only [run, sem]
    rw [← h1]
    exact ⟨h3, h4⟩
  | assign l ts =>
    intro bound ρ ρ' a _ hs h
    simp only [scopedIn, Bool.and_eq_true] at hs
    refine ⟨?_, by simpa only [run] using h⟩
    simp only [run, sem, loc_scoped hs.1 h, rhsVal_scoped hs.2 h]
  | ite c t f iht ihf =>
    intro bound ρ ρ' a hp hs h
    simp only [pureAD, Bool.and_eq_true] at hp
    simp only [scopedIn, Bool.and_eq_true] at hs
    simp only [run, sem, eval_scoped hs.1.1 h]
    split
    · exact iht bound ρ ρ' a hp.1 hs.1.2 h
    · exact ihf bound ρ ρ' a hp.2 hs.2 h
  | loop v lo hi st b ih =>
    intro bound ρ ρ' a hp hs h
    simp only [pureAD] at hp
    simp only [scopedIn, Bool.and_eq_true, Bool.not_eq_true', List.contains_eq_mem, decide_eq_true_eq,
      decide_eq_false_iff_not] at hs
    obtain ⟨⟨⟨⟨⟨hv, hb⟩, hlo⟩, hhi⟩, hst⟩, hbody⟩ := hs
    -- the iterations
    have key : ∀ (its : List Int) (ρk ak : Store), PAgree LV bound ρ ρk →
        (its.foldl (fun s i => run b (s.1.set (v, 0, 0) i) s.2) (ρk, ak)).2
            = its.foldl (fun a i => sem b (ρ.set (v, 0, 0) i) a) ak ∧
        PAgree LV bound ρ (its.foldl (fun s i => run b (s.1.set (v, 0, 0) i) s.2) (ρk, ak)).1 := by
      intro its
      induction its with
      | nil => intro ρk ak hk; exact ⟨rfl, hk⟩
      | cons i its ihits =>
        intro ρk ak hk
        obtain ⟨e1, e2⟩ := ih (v :: bound) (ρ.set (v, 0, 0) i) (ρk.set (v, 0, 0) i) ak hp hbody (hk.bind v i)
        simp only [List.foldl_cons]
        have := ihits (run b (ρk.set (v, 0, 0) i) ak).1 (run b (ρk.set (v, 0, 0) i) ak).2 (e2.unbind hv hb)
        rw [← e1]
        exact this
    simp only [run, sem]
    rw [← eval_scoped hlo h, ← eval_scoped hhi h, ← eval_scoped hst h]
    obtain ⟨k1, k2⟩ := key (iters (eval lo ρ) (eval hi ρ) (eval st ρ)) ρ' a h
    exact ⟨k1, k2.setRight hv hb _⟩
  | passign x e => intro bound ρ ρ' a hp; simp [pureAD] at hp
  | sec ev cnt l ts =>
    intro bound ρ ρ' a _ hs h
    simp only [scopedIn, Bool.and_eq_true] at hs
    refine ⟨?_, by simpa only [run] using h⟩
    simp only [run, sem]
    exact secSem_scoped ev cnt l ts a hs.1.1.2 hs.1.2 hs.2 h

/-- top level: same passive store on both sides -/
theorem run_eq_sem (p : Stmt) (hp : pureAD p = true) (hs : wellScoped p = true) (ρ a : Store) :
    (run p ρ a).2 = sem p ρ a :=
  (run_sem (loopVars p) p [] ρ ρ a hp hs (PAgree.refl _ _ ρ)).1

end C19
