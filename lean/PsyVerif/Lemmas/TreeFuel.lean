import PsyVerif.Lemmas.TreeAcyclic
/-! C14: the fuel of the model's ancestor walk is adequate.  In a heap whose linked nodes all
have ids below `size` and whose parent links are acyclic, a walk that consumed `size + 1` units
of fuel would have visited `size + 2` distinct node ids below `size` — impossible.  So the
bounded walk is exactly the unbounded `while cursor is not None` loop of the Python. -/
namespace C14

/-- all linked nodes are among the `n = size` allocated ones -/
def InRangeS (n : Nat) (h : Heap) : Prop :=
  h.size = n ∧ ∀ c q, h.parent c = some q → c < n ∧ q < n

/-- pigeonhole: a duplicate-free list of numbers below `n` has at most `n` elements -/
theorem pigeon : ∀ (n : Nat) (l : List Nat), l.Nodup → (∀ x ∈ l, x < n) → l.length ≤ n := by
  intro n
  induction n with
  | zero =>
    intro l _ hlt
    cases l with
    | nil => simp
    | cons a l => exact absurd (hlt a (by simp)) (Nat.not_lt_zero _)
  | succ n ih =>
    intro l hnd hlt
    have h1 : (l.erase n).Nodup := hnd.erase n
    have h2 : ∀ x ∈ l.erase n, x < n := by
      intro x hx
      obtain ⟨hne, hin⟩ := (hnd.mem_erase_iff).1 hx
      have := hlt x hin
      omega
    have h3 := ih _ h1 h2
    have h4 := @List.length_erase _ _ _ n l
    split at h4 <;> omega

/-- the walk from `o` still has a node in hand when `f` units of fuel are used up -/
def exh (h : Heap) : Nat → Option Id → Bool
  | _, none => false
  | 0, some _ => true
  | f + 1, some c => exh h f (h.parent c)

/-- the bounded walk answers "met" only if the item really is on the chain, or the fuel ran out -/
theorem onChain_true {h : Heap} {x : Id} (f : Nat) (o : Option Id) (hw : onChain h x f o = true) :
    (∃ n, o = some n ∧ Anc h x n) ∨ exh h f o = true := by
  induction f generalizing o with
  | zero =>
    cases o with
    | none => simp [onChain] at hw
    | some c => right; rfl
  | succ f ih =>
    cases o with
    | none => simp [onChain] at hw
    | some c =>
      simp only [onChain] at hw
      split at hw
      · rename_i hcx; left; exact ⟨c, rfl, hcx ▸ Anc.refl⟩
      · rcases ih _ hw with ⟨n, hn, ha⟩ | he
        · left; exact ⟨c, rfl, Anc.step hn ha⟩
        · right; simpa [exh] using he

/-- if the fuel runs out after `f` steps, `f + 1` distinct linked nodes have been visited -/
theorem exh_list {h : Heap} {n : Nat} (hir : InRangeS n h) (r : Id → Nat)
    (hr : ∀ c q, h.parent c = some q → r q < r c) :
    ∀ (f : Nat) (c : Id), exh h f (some c) = true →
      ∃ l : List Nat, l.length = f + 1 ∧ l.Nodup ∧ (∀ a ∈ l, r a ≤ r c) ∧
        (∀ a ∈ l, a = c ∨ a < n) ∧ (1 ≤ f → c < n) := by
  intro f
  induction f with
  | zero =>
    intro c _
    exact ⟨[c], by simp, by simp, by simp, by simp, by omega⟩
  | succ f ih =>
    intro c he
    simp only [exh] at he
    cases hp : h.parent c with
    | none => rw [hp] at he; simp [exh] at he
    | some q =>
      rw [hp] at he
      obtain ⟨l, hlen, hnd, hrk, hrg, _⟩ := ih q he
      have hlt := hr c q hp
      obtain ⟨hc, hq⟩ := hir.2 c q hp
      refine ⟨c :: l, by simp [hlen], ?_, ?_, ?_, fun _ => hc⟩
      · rw [List.nodup_cons]
        refine ⟨fun hin => ?_, hnd⟩
        have := hrk c hin
        omega
      · intro a ha
        rcases List.mem_cons.mp ha with rfl | ha
        · exact Nat.le_refl _
        · have := hrk a ha; omega
      · intro a ha
        rcases List.mem_cons.mp ha with rfl | ha
        · left; rfl
        · right
          rcases hrg a ha with rfl | h'
          · exact hq
          · exact h'

/-- with `size + 1` units the fuel never runs out -/
theorem not_exh {h : Heap} {n : Nat} (hir : InRangeS n h) (hac : Acyclic h) (p : Id) :
    exh h (n + 1) (some p) = false := by
  obtain ⟨r, hr⟩ := hac
  cases he : exh h (n + 1) (some p) with
  | false => rfl
  | true =>
    exfalso
    obtain ⟨l, hlen, hnd, _, hrg, hp⟩ := exh_list hir r hr (n + 1) p he
    have hpn : p < n := hp (by omega)
    have hall : ∀ a ∈ l, a < n := by
      intro a ha
      rcases hrg a ha with rfl | h'
      · exact hpn
      · exact h'
    have := pigeon n l hnd hall
    omega

/-- completeness of the bounded walk (soundness is `noCycle_sound`) -/
theorem noCycle_complete {h : Heap} {n : Nat} (hir : InRangeS n h) (hac : Acyclic h) {p x : Id}
    (hna : ¬ Anc h x p) : noCycle h p x = true := by
  unfold noCycle
  rw [hir.1]
  cases hw : onChain h x (n + 1) (some p) with
  | false => rfl
  | true =>
    exfalso
    rcases onChain_true _ _ hw with ⟨m, hm, ha⟩ | he
    · cases hm; exact hna ha
    · rw [not_exh hir hac p] at he; cases he

/-! ## `InRangeS` is an invariant when the operands are allocated nodes -/

theorem inRange_edit {h : Heap} {n : Nat} (hir : InRangeS n h) (p : Id) (l' rem add : List Id)
    (hp : add ≠ [] → p < n) (hadd : ∀ x ∈ add, x < n) :
    InRangeS n (((h.unlinkAll rem).setKids p l').linkAll add p) := by
  obtain ⟨_, _, u3, u4, _⟩ := unlinkAll_fields rem h
  obtain ⟨_, _, k3, k4, _⟩ := linkAll_fields add p ((h.unlinkAll rem).setKids p l')
  refine ⟨by rw [k3]; simp [u3, hir.1], ?_⟩
  intro c q hcq
  rw [k4] at hcq
  simp only [setKids_parent, u4] at hcq
  by_cases hca : c ∈ add
  · simp only [hca, if_true] at hcq
    have : q = p := by simpa using hcq.symm
    subst this
    exact ⟨hadd c hca, hp (List.ne_nil_of_mem hca)⟩
  · simp only [hca, if_false] at hcq
    by_cases hcr : c ∈ rem
    · simp [hcr] at hcq
    · simp only [hcr, if_false] at hcq
      exact hir.2 c q hcq

variable {K : Kinds} {h : Heap} {n : Nat}

theorem append_inRange (hir : InRangeS n h) (p x : Id) (hp : p < n) (hx : x < n) :
    InRangeS n (append K h p x).1 := by
  unfold append
  simp only
  split
  · exact hir
  · split
    · exact hir
    · have := inRange_edit hir p (h.children p ++ [x]) [] [x] (fun _ => hp)
        (by intro y hy; simp at hy; subst hy; exact hx)
      exact this

theorem insert_inRange (hir : InRangeS n h) (p : Id) (i : Int) (x : Id) (hp : p < n) (hx : x < n) :
    InRangeS n (insert K h p i x).1 := by
  unfold insert
  simp only
  split
  · exact hir
  · split
    · exact hir
    · split
      · exact hir
      · have := inRange_edit hir p ((h.children p).insertIdx (clampIndex (h.children p).length i) x) [] [x]
          (fun _ => hp) (by intro y hy; simp at hy; subst hy; exact hx)
        exact this

theorem setitem_inRange (hir : InRangeS n h) (p : Id) (i : Int) (x : Id) (hp : p < n) (hx : x < n) :
    InRangeS n (setitem K h p i x).1 := by
  unfold setitem
  simp only
  split
  · exact hir
  · rename_i k _
    split
    · exact hir
    · split
      · exact hir
      · split
        · exact hir
        · rename_i _ _ _ old _
          have := inRange_edit hir p ((h.children p).set k x) [old] [x]
            (fun _ => hp) (by intro y hy; simp at hy; subst hy; exact hx)
          exact this

theorem extend_inRange (hir : InRangeS n h) (p : Id) (xs : List Id) (hp : p < n) (hx : ∀ x ∈ xs, x < n) :
    InRangeS n (extend K h p xs).1 := by
  unfold extend
  simp only
  split
  · exact hir
  · split
    · exact hir
    · split
      · exact hir
      · have := inRange_edit hir p (h.children p ++ xs) [] xs (fun _ => hp) hx
        exact this

theorem delAt_inRange (hir : InRangeS n h) (p : Id) (k : Nat) : InRangeS n (delAt K h p k).1 := by
  unfold delAt
  simp only
  split
  · exact hir
  · split
    · exact hir
    · rename_i _ _ old _
      have := inRange_edit hir p ((h.children p).eraseIdx k) [old] [] (by simp) (by simp)
      exact this

theorem delitem_inRange (hir : InRangeS n h) (p : Id) (i : Int) : InRangeS n (delitem K h p i).1 := by
  unfold delitem
  split
  · exact hir
  · exact delAt_inRange hir p _

theorem remove_inRange (hir : InRangeS n h) (p x : Id) : InRangeS n (remove K h p x).1 := by
  unfold remove
  simp only
  split
  · exact delAt_inRange hir p _
  · exact hir

theorem reverse_inRange (hir : InRangeS n h) (p : Id) : InRangeS n (reverse K h p).1 := by
  unfold reverse
  simp only
  split
  · exact hir
  · have := inRange_edit hir p (h.children p).reverse [] [] (by simp) (by simp)
    exact this

theorem clear_inRange (hir : InRangeS n h) (p : Id) : InRangeS n (clear h p).1 := by
  unfold clear
  have := inRange_edit hir p [] (h.children p) [] (by simp) (by simp)
  exact this

theorem popAll_inRange (hir : InRangeS n h) (p : Id) (f : Nat) : InRangeS n (popAll K p f h).1 := by
  induction f generalizing h with
  | zero => exact hir
  | succ f ih =>
    unfold popAll
    split
    · exact hir
    · have hw : InRangeS n (pop K h p (-1)).1 := delitem_inRange hir p (-1)
      split
      · rename_i h' heq
        rw [heq] at hw
        exact ih hw
      · exact hw

theorem setChildren_inRange (hir : InRangeS n h) (p : Id) (xs : List Id) (hp : p < n)
    (hx : ∀ x ∈ xs, x < n) : InRangeS n (setChildren K h p xs).1 := by
  unfold setChildren
  split
  · exact hir
  · split
    · exact hir
    · split
      · exact hir
      · have hw := popAll_inRange (K := K) hir p (h.children p).length
        split
        · rename_i h1 heq
          rw [heq] at hw
          exact extend_inRange hw p xs hp hx
        · exact hw

theorem detach_inRange (hir : InRangeS n h) (x : Id) : InRangeS n (detach K h x).1 := by
  unfold detach
  split
  · exact hir
  · simp only
    split
    · exact delitem_inRange hir _ _
    · exact hir

theorem replaceWith_inRange (hir : InRangeS n h) (x y : Id) (keep : Bool) (hy : y < n) :
    InRangeS n (replaceWith K h x y keep).1 := by
  unfold replaceWith
  split
  · exact hir
  · rename_i q hq
    simp only
    split
    · exact hir
    · split
      · exact hir
      · split
        · exact hir
        · exact setitem_inRange hir _ _ _ (hir.2 x q hq).2 hy

end C14
