import PsyVerif.Model.RegionData
import PsyVerif.Lemmas.MiniFSem
/-! # RegionData: two-run simulation lemmas used by C12 and C13

`Sim A σ0 τ0 σ τ`: two runs started from `σ0` / `τ0` are now in `σ` / `τ`; they agree on the
location set `A`, and every location either holds the same value in both runs or has been
left untouched by both.  `chk_sim` shows that a statement accepted by `chk` preserves this. -/
namespace RegionData
open MiniF

/-! ## list facts -/

theorem mem_dedup {l : List Nat} {x : Nat} : x ∈ dedup l ↔ x ∈ l := by
  induction l generalizing x with
  | nil => simp [dedup]
  | cons y ys ih =>
    simp only [dedup]
    split
    · rename_i h
      have hy : y ∈ ys := ih.mp (by simpa using h)
      constructor
      · intro hx; exact List.mem_cons_of_mem _ (ih.mp hx)
      · intro hx
        rcases List.mem_cons.mp hx with rfl | hx
        · exact ih.mpr hy
        · exact ih.mpr hx
    · simp only [List.mem_cons, ih]

theorem mem_varsOf {evs : List Ev} {x : Nat} : x ∈ varsOf evs ↔ ∃ e ∈ evs, e.var = x := by
  simp [varsOf, mem_dedup]

theorem isWritten_iff {evs : List Ev} {x : Nat} :
    isWritten evs x = true ↔ ∃ e ∈ evs, e.var = x ∧ e.write = true := by
  simp [isWritten, List.any_eq_true]

theorem isRead_iff {evs : List Ev} {x : Nat} :
    isRead evs x = true ↔ ∃ e ∈ evs, e.var = x ∧ e.write = false := by
  simp [isRead, List.any_eq_true]

theorem isArr_iff {evs : List Ev} {x : Nat} :
    isArr evs x = true ↔ ∃ e ∈ evs, e.var = x ∧ e.arr = true := by
  simp [isArr, List.any_eq_true]

theorem mem_outputsE {evs : List Ev} {x : Nat} : x ∈ outputsE evs ↔ isWritten evs x = true := by
  simp only [outputsE, List.mem_filter, mem_varsOf]
  constructor
  · exact fun h => h.2
  · intro h
    obtain ⟨e, he, hv, _⟩ := isWritten_iff.mp h
    exact ⟨⟨e, he, hv⟩, h⟩

theorem eacc_read {e : Expr} : ∀ ev ∈ eacc e, ev.write = false := by
  induction e with
  | lit n => simp [eacc]
  | var x => simp [eacc]
  | idx1 a i ih =>
    intro ev h; simp only [eacc, List.mem_append, List.mem_singleton] at h
    rcases h with h | rfl
    · exact ih ev h
    · rfl
  | idx2 a i j ihi ihj =>
    intro ev h; simp only [eacc, List.mem_append, List.mem_singleton] at h
    rcases h with h | h | rfl
    · exact ihi ev h
    · exact ihj ev h
    · rfl
  | un op e ih => simpa [eacc] using ih
  | bin op a b iha ihb =>
    intro ev h; simp only [eacc, List.mem_append] at h
    rcases h with h | h
    · exact iha ev h
    · exact ihb ev h

/-! ## execution: agreement with MiniF, static write set, frame -/

theorem rexec_ofStmt (fuel : Nat) (s : Stmt) : rexec fuel (ofStmt s) = exec s := by
  induction s with
  | skip => rfl
  | seq a b iha ihb => funext σ; simp only [ofStmt, rexec, exec, iha, ihb]
  | assign x e => rfl
  | store1 a i e => rfl
  | store2 a i j e => rfl
  | ite c t f iht ihf => funext σ; simp only [ofStmt, rexec, exec, iht, ihf]
  | loop v lo hi st b ih => funext σ; simp only [ofStmt, rexec, exec, ih]

/-- variables a statement may write -/
def rwvars : RStmt → List Nat
  | .skip => []
  | .seq a b => rwvars a ++ rwvars b
  | .assign x _ => [x]
  | .store1 a _ _ => [a]
  | .store2 a _ _ _ => [a]
  | .ite _ t f => rwvars t ++ rwvars f
  | .loop v _ _ _ b => v :: rwvars b
  | .whileDo _ b => rwvars b

theorem whileN_invariant (P : Store → Prop) (c : Expr) (f : Store → Store)
    (hf : ∀ σ, P σ → P (f σ)) : ∀ n σ, P σ → P (whileN c f n σ) := by
  intro n
  induction n with
  | zero => intro σ h; exact h
  | succ n ih =>
    intro σ h
    simp only [whileN]
    split
    · exact ih _ (hf σ h)
    · exact h

/-- **frame**: a statement changes only its `rwvars` -/
theorem rexec_frame {fuel : Nat} {s : RStmt} {σ : Store} {x : Nat} (hx : x ∉ rwvars s) (i j : Int) :
    (rexec fuel s σ) (x, i, j) = σ (x, i, j) := by
  induction s generalizing σ with
  | skip => rfl
  | seq a b iha ihb =>
    simp only [rwvars, List.mem_append, not_or] at hx
    simp only [rexec]
    rw [ihb hx.2, iha hx.1]
  | assign y e =>
    simp only [rwvars, List.mem_singleton] at hx
    simp only [rexec, Store.set_apply]
    rw [if_neg]
    intro h; apply hx; exact congrArg Prod.fst h
  | store1 a i' e =>
    simp only [rwvars, List.mem_singleton] at hx
    simp only [rexec, Store.set_apply]
    rw [if_neg]
    intro h; apply hx; exact congrArg Prod.fst h
  | store2 a i' j' e =>
    simp only [rwvars, List.mem_singleton] at hx
    simp only [rexec, Store.set_apply]
    rw [if_neg]
    intro h; apply hx; exact congrArg Prod.fst h
  | ite c t f iht ihf =>
    simp only [rwvars, List.mem_append, not_or] at hx
    simp only [rexec]
    split
    · exact iht hx.1
    · exact ihf hx.2
  | loop v lo hi st b ih =>
    simp only [rwvars, List.mem_cons, not_or] at hx
    simp only [rexec, runIters_eq_iters, Store.set_apply]
    rw [if_neg (by intro h; apply hx.1; exact congrArg Prod.fst h)]
    have := iters_invariant (fun τ => τ (x, i, j) = σ (x, i, j)) (rexec fuel b) v (eval lo σ) (eval st σ)
      (by
        intro τ val hτ
        show (rexec fuel b (τ.set (v, 0, 0) val)) (x, i, j) = σ (x, i, j)
        rw [ih hx.2, Store.set_apply, if_neg (by intro h; apply hx.1; exact congrArg Prod.fst h)]
        exact hτ)
    exact this _ _ σ rfl
  | whileDo c b ih =>
    simp only [rwvars] at hx
    simp only [rexec]
    exact whileN_invariant (fun τ => τ (x, i, j) = σ (x, i, j)) c (rexec fuel b)
      (fun τ hτ => by show (rexec fuel b τ) (x, i, j) = σ (x, i, j); rw [ih hx]; exact hτ) fuel σ rfl

/-- every statically written variable has a WRITE event -/
theorem wvars_written {s : RStmt} {x : Nat} (h : x ∈ rwvars s) : isWritten (sacc s) x = true := by
  induction s with
  | skip => simp [rwvars] at h
  | seq a b iha ihb =>
    simp only [rwvars, List.mem_append] at h
    rw [isWritten_iff]
    rcases h with h | h
    · obtain ⟨e, he, hv⟩ := isWritten_iff.mp (iha h)
      exact ⟨e, by simp [sacc, he], hv⟩
    · obtain ⟨e, he, hv⟩ := isWritten_iff.mp (ihb h)
      exact ⟨e, by simp [sacc, he], hv⟩
  | assign y e =>
    simp only [rwvars, List.mem_singleton] at h
    rw [isWritten_iff]
    exact ⟨⟨y, true, false⟩, by simp [sacc], h.symm, rfl⟩
  | store1 a i e =>
    simp only [rwvars, List.mem_singleton] at h
    rw [isWritten_iff]
    exact ⟨⟨a, true, true⟩, by simp [sacc], h.symm, rfl⟩
  | store2 a i j e =>
    simp only [rwvars, List.mem_singleton] at h
    rw [isWritten_iff]
    exact ⟨⟨a, true, true⟩, by simp [sacc], h.symm, rfl⟩
  | ite c t f iht ihf =>
    simp only [rwvars, List.mem_append] at h
    rw [isWritten_iff]
    rcases h with h | h
    · obtain ⟨e, he, hv⟩ := isWritten_iff.mp (iht h)
      exact ⟨e, by simp [sacc, he], hv⟩
    · obtain ⟨e, he, hv⟩ := isWritten_iff.mp (ihf h)
      exact ⟨e, by simp [sacc, he], hv⟩
  | loop v lo hi st b ih =>
    simp only [rwvars, List.mem_cons] at h
    rw [isWritten_iff]
    rcases h with h | h
    · exact ⟨⟨v, true, false⟩, by simp [sacc], h.symm, rfl⟩
    · obtain ⟨e, he, hv⟩ := isWritten_iff.mp (ih h)
      exact ⟨e, by simp [sacc, he], hv⟩
  | whileDo c b ih =>
    simp only [rwvars] at h
    rw [isWritten_iff]
    obtain ⟨e, he, hv⟩ := isWritten_iff.mp (ih h)
    exact ⟨e, by simp [sacc, he], hv⟩

/-! ## simulation -/

/-- the locations an access of this shape can touch -/
def cellsOf (e : Ev) (l : Loc) : Prop := l.1 = e.var ∧ (e.arr = true ∨ (l.2.1 = 0 ∧ l.2.2 = 0))

/-- base agreement set plus the scalar cells of the variables in `D` -/
def Adef (A0 : Loc → Prop) (D : List Nat) : Loc → Prop :=
  fun l => A0 l ∨ (l.1 ∈ D ∧ l.2.1 = 0 ∧ l.2.2 = 0)

structure Sim (A : Loc → Prop) (σ0 τ0 σ τ : Store) : Prop where
  agree : ∀ l, A l → σ l = τ l
  rel : ∀ l, σ l = τ l ∨ (σ l = σ0 l ∧ τ l = τ0 l)

theorem Sim.weaken {A A' : Loc → Prop} {σ0 τ0 σ τ : Store} (h : Sim A σ0 τ0 σ τ)
    (hA : ∀ l, A' l → A l) : Sim A' σ0 τ0 σ τ :=
  ⟨fun l hl => h.agree l (hA l hl), h.rel⟩

theorem Sim.set {A : Loc → Prop} {σ0 τ0 σ τ : Store} (h : Sim A σ0 τ0 σ τ) (l : Loc) (v : Int) :
    Sim (fun l' => A l' ∨ l' = l) σ0 τ0 (σ.set l v) (τ.set l v) := by
  constructor
  · intro l' hl'
    simp only [Store.set_apply]
    split
    · rfl
    · rename_i hne
      rcases hl' with hl' | hl'
      · exact h.agree l' hl'
      · exact absurd hl' hne
  · intro l'
    simp only [Store.set_apply]
    split
    · exact Or.inl rfl
    · exact h.rel l'

/-- the reads of recorded inputs `K` stay inside the base agreement set -/
def KOK (A0 : Loc → Prop) (K : List Nat) (evs : List Ev) : Prop :=
  ∀ e ∈ evs, e.write = false → e.var ∈ K → ∀ l, cellsOf e l → A0 l

theorem KOK.mono {A0 : Loc → Prop} {K : List Nat} {evs evs' : List Ev} (h : KOK A0 K evs)
    (hs : ∀ e ∈ evs', e ∈ evs) : KOK A0 K evs' :=
  fun e he => h e (hs e he)

theorem okEv_read {A0 : Loc → Prop} {K D : List Nat} {ev : Ev} (hw : ev.write = false)
    (hok : okEv K D ev = true) (hk : ∀ l, ev.var ∈ K → cellsOf ev l → A0 l) (l : Loc)
    (hc : cellsOf ev l) : Adef A0 D l := by
  simp only [okEv, hw, Bool.false_or, Bool.or_eq_true, List.contains_iff_mem, Bool.and_eq_true,
    Bool.not_eq_true'] at hok
  rcases hok with hok | ⟨ha, hd⟩
  · exact Or.inl (hk l hok hc)
  · right
    rcases hc with ⟨h1, h2⟩
    rcases h2 with h2 | h2
    · rw [ha] at h2; exact absurd h2 (by decide)
    · exact ⟨h1 ▸ hd, h2⟩

theorem eval_sim {A0 : Loc → Prop} {K D : List Nat} {e : Expr} {σ τ : Store}
    (hk : KOK A0 K (eacc e)) (hok : okE K D e = true) (h : ∀ l, Adef A0 D l → σ l = τ l) :
    eval e σ = eval e τ := by
  induction e with
  | lit n => rfl
  | var x =>
    simp only [okE, eacc, List.all_cons, List.all_nil, Bool.and_true] at hok
    exact h (x, 0, 0) (okEv_read rfl hok (fun l hx hc => hk _ (by simp [eacc]) rfl hx l hc) _
      ⟨rfl, Or.inr ⟨rfl, rfl⟩⟩)
  | idx1 a i ih =>
    simp only [okE, eacc, List.all_append, List.all_cons, List.all_nil, Bool.and_true,
      Bool.and_eq_true] at hok
    have hi := ih (hk.mono (fun e he => by simp [eacc, he])) hok.1
    simp only [eval, hi]
    exact h _ (okEv_read rfl hok.2 (fun l hx hc => hk _ (by simp [eacc]) rfl hx l hc) _
      ⟨rfl, Or.inl rfl⟩)
  | idx2 a i j ihi ihj =>
    simp only [okE, eacc, List.all_append, List.all_cons, List.all_nil, Bool.and_true,
      Bool.and_eq_true] at hok
    have hi := ihi (hk.mono (fun e he => by simp [eacc, he])) hok.1
    have hj := ihj (hk.mono (fun e he => by simp [eacc, he])) hok.2.1
    simp only [eval, hi, hj]
    exact h _ (okEv_read rfl hok.2.2 (fun l hx hc => hk _ (by simp [eacc]) rfl hx l hc) _
      ⟨rfl, Or.inl rfl⟩)
  | un op e ih =>
    simp only [eval]
    rw [ih (hk.mono (fun e he => by simpa [eacc] using he)) (by simpa [okE, eacc] using hok)]
  | bin op a b iha ihb =>
    simp only [okE, eacc, List.all_append, Bool.and_eq_true] at hok
    simp only [eval]
    rw [iha (hk.mono (fun e he => by simp [eacc, he])) hok.1,
      ihb (hk.mono (fun e he => by simp [eacc, he])) hok.2]

theorem Adef_cons_of {A0 : Loc → Prop} {D : List Nat} {x : Nat} (l : Loc)
    (h : Adef A0 (x :: D) l) : Adef A0 D l ∨ l = (x, 0, 0) := by
  rcases h with h | ⟨h1, h2, h3⟩
  · exact Or.inl (Or.inl h)
  · rcases List.mem_cons.mp h1 with h1 | h1
    · right
      obtain ⟨a, b, c⟩ := l
      simp only at h1 h2 h3
      rw [h1, h2, h3]
    · exact Or.inl (Or.inr ⟨h1, h2, h3⟩)

theorem Adef_mono {A0 : Loc → Prop} {D D' : List Nat} (hs : ∀ x ∈ D, x ∈ D') (l : Loc)
    (h : Adef A0 D l) : Adef A0 D' l := by
  rcases h with h | ⟨h1, h2⟩
  · exact Or.inl h
  · exact Or.inr ⟨hs _ h1, h2⟩

/-- two-run version of the iteration invariant -/
theorem iters_sim (P : Store → Store → Prop) (f : Store → Store) (v : Nat) (lo step : Int)
    (hf : ∀ σ τ val, P σ τ → P (f (σ.set (v, 0, 0) val)) (f (τ.set (v, 0, 0) val))) :
    ∀ n k σ τ, P σ τ → P (iters f v lo step n k σ) (iters f v lo step n k τ) := by
  intro n
  induction n with
  | zero => intro k σ τ h; exact h
  | succ n ih => intro k σ τ h; exact ih _ _ _ (hf σ τ _ h)

/-- two-run invariant of a `DO WHILE`: both runs take the same decisions -/
theorem whileN_sim (P : Store → Store → Prop) (c : Expr) (f : Store → Store)
    (hc : ∀ σ τ, P σ τ → eval c σ = eval c τ) (hf : ∀ σ τ, P σ τ → P (f σ) (f τ)) :
    ∀ n σ τ, P σ τ → P (whileN c f n σ) (whileN c f n τ) := by
  intro n
  induction n with
  | zero => intro σ τ h; exact h
  | succ n ih =>
    intro σ τ h
    simp only [whileN, hc σ τ h]
    split
    · exact ih _ _ (hf σ τ h)
    · exact h

theorem chk_sim {fuel : Nat} {A0 : Loc → Prop} {K : List Nat} {σ0 τ0 : Store} (s : RStmt) :
    ∀ (D D' : List Nat) (σ τ : Store), chk K s D = some D' → KOK A0 K (sacc s) →
      Sim (Adef A0 D) σ0 τ0 σ τ →
      Sim (Adef A0 D') σ0 τ0 (rexec fuel s σ) (rexec fuel s τ) ∧ (∀ x ∈ D, x ∈ D') := by
  induction s with
  | skip =>
    intro D D' σ τ hc _ h
    simp only [chk, Option.some.injEq] at hc
    subst hc
    exact ⟨h, fun _ hx => hx⟩
  | seq a b iha ihb =>
    intro D D' σ τ hc hk h
    simp only [chk, Option.bind_eq_some_iff] at hc
    obtain ⟨D1, h1, h2⟩ := hc
    obtain ⟨s1, m1⟩ := iha D D1 σ τ h1 (hk.mono (fun e he => by simp [sacc, he])) h
    obtain ⟨s2, m2⟩ := ihb D1 D' _ _ h2 (hk.mono (fun e he => by simp [sacc, he])) s1
    exact ⟨s2, fun x hx => m2 x (m1 x hx)⟩
  | assign x e =>
    intro D D' σ τ hc hk h
    simp only [chk] at hc
    split at hc
    · rename_i hok
      simp only [Option.some.injEq] at hc
      subst hc
      have he := eval_sim (hk.mono (fun e he => by simp [sacc, he])) hok h.agree
      simp only [rexec, he]
      exact ⟨(h.set (x, 0, 0) (eval e τ)).weaken Adef_cons_of, fun y hy => List.mem_cons_of_mem _ hy⟩
    · exact absurd hc (by simp)
  | store1 a i e =>
    intro D D' σ τ hc hk h
    simp only [chk] at hc
    split at hc
    · rename_i hok
      simp only [Bool.and_eq_true] at hok
      simp only [Option.some.injEq] at hc
      subst hc
      have hi := eval_sim (hk.mono (fun e he => by simp [sacc, he])) hok.1 h.agree
      have he := eval_sim (hk.mono (fun e he => by simp [sacc, he])) hok.2 h.agree
      simp only [rexec, he, hi]
      exact ⟨(h.set _ _).weaken (fun l hl => Or.inl hl), fun y hy => hy⟩
    · exact absurd hc (by simp)
  | store2 a i j e =>
    intro D D' σ τ hc hk h
    simp only [chk] at hc
    split at hc
    · rename_i hok
      simp only [Bool.and_eq_true] at hok
      simp only [Option.some.injEq] at hc
      subst hc
      have hi := eval_sim (hk.mono (fun e he => by simp [sacc, he])) hok.1.1 h.agree
      have hj := eval_sim (hk.mono (fun e he => by simp [sacc, he])) hok.1.2 h.agree
      have he := eval_sim (hk.mono (fun e he => by simp [sacc, he])) hok.2 h.agree
      simp only [rexec, he, hi, hj]
      exact ⟨(h.set _ _).weaken (fun l hl => Or.inl hl), fun y hy => hy⟩
    · exact absurd hc (by simp)
  | ite c t f iht ihf =>
    intro D D' σ τ hc hk h
    simp only [chk] at hc
    split at hc
    · rename_i hok
      simp only [Bool.and_eq_true, Option.isSome_iff_exists] at hok
      simp only [Option.some.injEq] at hc
      subst hc
      obtain ⟨⟨hcnd, ⟨Dt, ht⟩⟩, ⟨Df, hf⟩⟩ := hok
      have hc' := eval_sim (hk.mono (fun e he => by simp [sacc, he])) hcnd h.agree
      simp only [rexec, hc']
      refine ⟨?_, fun y hy => hy⟩
      split
      · obtain ⟨s1, m1⟩ := iht D Dt σ τ ht (hk.mono (fun e he => by simp [sacc, he])) h
        exact s1.weaken (Adef_mono m1)
      · obtain ⟨s1, m1⟩ := ihf D Df σ τ hf (hk.mono (fun e he => by simp [sacc, he])) h
        exact s1.weaken (Adef_mono m1)
    · exact absurd hc (by simp)
  | loop v lo hi st b ih =>
    intro D D' σ τ hc hk h
    simp only [chk] at hc
    split at hc
    · rename_i hok
      simp only [Bool.and_eq_true, Option.isSome_iff_exists] at hok
      simp only [Option.some.injEq] at hc
      subst hc
      obtain ⟨⟨⟨hlo, hhi⟩, hst⟩, ⟨Db, hb⟩⟩ := hok
      have e1 := eval_sim (hk.mono (fun e he => by simp [sacc, he])) hlo h.agree
      have e2 := eval_sim (hk.mono (fun e he => by simp [sacc, he])) hhi h.agree
      have e3 := eval_sim (hk.mono (fun e he => by simp [sacc, he])) hst h.agree
      simp only [rexec, runIters_eq_iters, e1, e2, e3]
      refine ⟨?_, fun y hy => List.mem_cons_of_mem _ hy⟩
      have hbody : ∀ σ' τ' val, Sim (Adef A0 D) σ0 τ0 σ' τ' →
          Sim (Adef A0 D) σ0 τ0 (rexec fuel b (σ'.set (v, 0, 0) val)) (rexec fuel b (τ'.set (v, 0, 0) val)) := by
        intro σ' τ' val h'
        obtain ⟨s1, m1⟩ := ih (v :: D) Db _ _ hb (hk.mono (fun e he => by simp [sacc, he]))
          ((h'.set (v, 0, 0) val).weaken Adef_cons_of)
        exact s1.weaken (Adef_mono (fun x hx => m1 x (List.mem_cons_of_mem _ hx)))
      have := iters_sim (fun σ' τ' => Sim (Adef A0 D) σ0 τ0 σ' τ') (rexec fuel b) v (eval lo τ) (eval st τ)
        hbody (trip (eval lo τ) (eval hi τ) (eval st τ)) 0 σ τ h
      exact (this.set _ _).weaken Adef_cons_of
    · exact absurd hc (by simp)
  | whileDo c b ih =>
    intro D D' σ τ hc hk h
    simp only [chk] at hc
    split at hc
    · rename_i hok
      simp only [Bool.and_eq_true, Option.isSome_iff_exists] at hok
      simp only [Option.some.injEq] at hc
      subst hc
      obtain ⟨hcnd, ⟨Db, hb⟩⟩ := hok
      simp only [rexec]
      refine ⟨?_, fun y hy => hy⟩
      exact whileN_sim (fun σ' τ' => Sim (Adef A0 D) σ0 τ0 σ' τ') c (rexec fuel b)
        (fun σ' τ' h' => eval_sim (hk.mono (fun e he => by simp [sacc, he])) hcnd h'.agree)
        (fun σ' τ' h' => by
          obtain ⟨s1, m1⟩ := ih D Db σ' τ' hb (hk.mono (fun e he => by simp [sacc, he])) h'
          exact s1.weaken (Adef_mono m1))
        fuel σ τ h
    · exact absurd hc (by simp)

/-- `chk` succeeds (from any `D`) when every read is of a variable in `K` -/
theorem okE_of_reads {K D : List Nat} {e : Expr} (h : ∀ ev ∈ eacc e, ev.var ∈ K) :
    okE K D e = true := by
  simp only [okE, List.all_eq_true]
  intro ev hev
  simp [okEv, h ev hev]

theorem chk_of_reads {K : List Nat} (s : RStmt) :
    ∀ D, (∀ ev ∈ sacc s, ev.write = false → ev.var ∈ K) → (chk K s D).isSome = true := by
  induction s with
  | skip => intro D _; simp [chk]
  | seq a b iha ihb =>
    intro D h
    obtain ⟨D1, hD1⟩ := Option.isSome_iff_exists.mp (iha D (fun ev he => h ev (by simp [sacc, he])))
    simp only [chk, hD1, Option.bind_some]
    exact ihb D1 (fun ev he => h ev (by simp [sacc, he]))
  | assign x e =>
    intro D h
    have := okE_of_reads (K := K) (D := D) (e := e)
      (fun ev he => h ev (by simp [sacc, he]) (eacc_read ev he))
    simp [chk, this]
  | store1 a i e =>
    intro D h
    have h1 := okE_of_reads (K := K) (D := D) (e := e)
      (fun ev he => h ev (by simp [sacc, he]) (eacc_read ev he))
    have h2 := okE_of_reads (K := K) (D := D) (e := i)
      (fun ev he => h ev (by simp [sacc, he]) (eacc_read ev he))
    simp [chk, h1, h2]
  | store2 a i j e =>
    intro D h
    have h1 := okE_of_reads (K := K) (D := D) (e := e)
      (fun ev he => h ev (by simp [sacc, he]) (eacc_read ev he))
    have h2 := okE_of_reads (K := K) (D := D) (e := i)
      (fun ev he => h ev (by simp [sacc, he]) (eacc_read ev he))
    have h3 := okE_of_reads (K := K) (D := D) (e := j)
      (fun ev he => h ev (by simp [sacc, he]) (eacc_read ev he))
    simp [chk, h1, h2, h3]
  | ite c t f iht ihf =>
    intro D h
    have h1 := okE_of_reads (K := K) (D := D) (e := c)
      (fun ev he => h ev (by simp [sacc, he]) (eacc_read ev he))
    have h2 := iht D (fun ev he => h ev (by simp [sacc, he]))
    have h3 := ihf D (fun ev he => h ev (by simp [sacc, he]))
    simp [chk, h1, h2, h3]
  | loop v lo hi st b ih =>
    intro D h
    have h1 := okE_of_reads (K := K) (D := D) (e := lo)
      (fun ev he => h ev (by simp [sacc, he]) (eacc_read ev he))
    have h2 := okE_of_reads (K := K) (D := D) (e := hi)
      (fun ev he => h ev (by simp [sacc, he]) (eacc_read ev he))
    have h3 := okE_of_reads (K := K) (D := D) (e := st)
      (fun ev he => h ev (by simp [sacc, he]) (eacc_read ev he))
    have h4 := ih (v :: D) (fun ev he => h ev (by simp [sacc, he]))
    simp [chk, h1, h2, h3, h4]
  | whileDo c b ih =>
    intro D h
    have h1 := okE_of_reads (K := K) (D := D) (e := c)
      (fun ev he => h ev (by simp [sacc, he]) (eacc_read ev he))
    have h2 := ih D (fun ev he => h ev (by simp [sacc, he]))
    simp [chk, h1, h2]

end RegionData
