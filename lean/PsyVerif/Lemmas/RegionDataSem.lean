import PsyVerif.Model.RegionData
import PsyVerif.Lemmas.MiniFSem
/-! # RegionData: two-run simulation lemmas used by C12 and C13

`Sim A σ0 τ0 σ τ`: two runs started from `σ0` / `τ0` are now in `σ` / `τ`; they agree on the
location set `A`, and every location either holds the same value in both runs or has been
left untouched by both.  `chk_sim` shows that a statement accepted by `chk` preserves this. -/
namespace RegionData
open MiniF

/-! ## list facts -/

theorem mem_dedup {l : List Nat} {x : Nat} : x ∈ dedup l ↔ x ∈ l := by
  induction l generalizing x with
  | nil => simp [dedup]
  | cons y ys ih =>
    simp only [dedup]
    split
    · rename_i h
      have hy : y ∈ ys := ih.mp (by simpa using h)
      constructor
      · intro hx; exact List.mem_cons_of_mem _ (ih.mp hx)
      · intro hx
        rcases List.mem_cons.mp hx with rfl | hx
        · exact ih.mpr hy
        · exact ih.mpr hx
    · simp only [List.mem_cons, ih]

theorem mem_varsOf {evs : List Ev} {x : Nat} : x ∈ varsOf evs ↔ ∃ e ∈ evs, e.var = x := by
  simp [varsOf, mem_dedup]

theorem isWritten_iff {evs : List Ev} {x : Nat} :
    isWritten evs x = true ↔ ∃ e ∈ evs, e.var = x ∧ e.write = true := by
  simp [isWritten, List.any_eq_true]

theorem isRead_iff {evs : List Ev} {x : Nat} :
    isRead evs x = true ↔ ∃ e ∈ evs, e.var = x ∧ e.write = false := by
  simp [isRead, List.any_eq_true]

theorem isArr_iff {evs : List Ev} {x : Nat} :
    isArr evs x = true ↔ ∃ e ∈ evs, e.var = x ∧ e.arr = true := by
  simp [isArr, List.any_eq_true]

theorem mem_outputsE {evs : List Ev} {x : Nat} : x ∈ outputsE evs ↔ isWritten evs x = true := by
  simp only [outputsE, List.mem_filter, mem_varsOf]
  constructor
  · exact fun h => h.2
  · intro h
    obtain ⟨e, he, hv, _⟩ := isWritten_iff.mp h
    exact ⟨⟨e, he, hv⟩, h⟩

theorem eacc_read {e : Expr} : ∀ ev ∈ eacc e, ev.write = false := by
  induction e with
  | lit n => simp [eacc]
  | var x => simp [eacc]
  | idx1 a i ih =>
    intro ev h; simp only [eacc, List.mem_append, List.mem_singleton] at h
    rcases h with h | rfl
    · exact ih ev h
    · rfl
  | idx2 a i j ihi ihj =>
    intro ev h; simp only [eacc, List.mem_append, List.mem_singleton] at h
    rcases h with h | h | rfl
    · exact ihi ev h
    · exact ihj ev h
    · rfl
  | un op e ih => simpa [eacc] using ih
  | bin op a b iha ihb =>
    intro ev h; simp only [eacc, List.mem_append] at h
    rcases h with h | h
    · exact iha ev h
    · exact ihb ev h

theorem hasRW_iff {evs : List Ev} {x : Nat} :
    hasRW evs x = true ↔ ∃ e ∈ evs, e.var = x ∧ e.rw = true := by
  simp [hasRW, List.any_eq_true]

/-- what the hypothesis about unanalysed code says -/
theorem coveredBy_iff {evs : List Ev} {body : RStmt} :
    coveredBy evs body = true ↔
      ∀ e ∈ sacc body, ∃ e' ∈ evs, e'.var = e.var ∧ e'.write = e.write ∧ (e.arr = true → e'.arr = true) := by
  simp only [coveredBy, List.all_eq_true, List.any_eq_true, Bool.and_eq_true, beq_iff_eq, Bool.or_eq_true,
    Bool.not_eq_true']
  constructor
  · intro h e he
    obtain ⟨e', he', ⟨hv, hw⟩, ha⟩ := h e he
    refine ⟨e', he', hv, hw, fun h1 => ?_⟩
    rcases ha with ha | ha
    · exact ha
    · rw [h1] at ha; exact absurd ha (by decide)
  · intro h e he
    obtain ⟨e', he', hv, hw, ha⟩ := h e he
    refine ⟨e', he', ⟨hv, hw⟩, ?_⟩
    cases hea : e.arr
    · exact Or.inr rfl
    · exact Or.inl (ha hea)

/-- statements without unanalysed code satisfy the hypothesis -/
theorem covered_ofStmt (s : Stmt) : covered (ofStmt s) = true := by
  induction s with
  | skip => rfl
  | seq a b iha ihb => simp [ofStmt, covered, iha, ihb]
  | assign x e => rfl
  | store1 a i e => rfl
  | store2 a i j e => rfl
  | ite c t f iht ihf => simp [ofStmt, covered, iht, ihf]
  | loop v lo hi st b ih => simp [ofStmt, covered, ih]

/-! ## execution: agreement with MiniF, static write set, frame -/

theorem rexec_ofStmt (fuel : Nat) (s : Stmt) : rexec fuel (ofStmt s) = exec s := by
  induction s with
  | skip => rfl
  | seq a b iha ihb => funext σ; simp only [ofStmt, rexec, exec, iha, ihb]
  | assign x e => rfl
  | store1 a i e => rfl
  | store2 a i j e => rfl
  | ite c t f iht ihf => funext σ; simp only [ofStmt, rexec, exec, iht, ihf]
  | loop v lo hi st b ih => funext σ; simp only [ofStmt, rexec, exec, ih]

theorem whileN_invariant (P : Store → Prop) (c : Expr) (f : Store → Store)
    (hf : ∀ σ, P σ → P (f σ)) : ∀ n σ, P σ → P (whileN c f n σ) := by
  intro n
  induction n with
  | zero => intro σ h; exact h
  | succ n ih =>
    intro σ h
    simp only [whileN]
    split
    · exact ih _ (hf σ h)
    · exact h

/-- **frame**: a statement changes only its `rwvars` -/
theorem rexec_frame {fuel : Nat} {s : RStmt} {σ : Store} {x : Nat} (hx : x ∉ rwvars s) (i j : Int) :
    (rexec fuel s σ) (x, i, j) = σ (x, i, j) := by
  induction s generalizing σ with
  | skip => rfl
  | seq a b iha ihb =>
    simp only [rwvars, List.mem_append, not_or] at hx
    simp only [rexec]
    rw [ihb hx.2, iha hx.1]
  | assign y e =>
    simp only [rwvars, List.mem_singleton] at hx
    simp only [rexec, Store.set_apply]
    rw [if_neg]
    intro h; apply hx; exact congrArg Prod.fst h
  | store1 a i' e =>
    simp only [rwvars, List.mem_singleton] at hx
    simp only [rexec, Store.set_apply]
    rw [if_neg]
    intro h; apply hx; exact congrArg Prod.fst h
  | store2 a i' j' e =>
    simp only [rwvars, List.mem_singleton] at hx
    simp only [rexec, Store.set_apply]
    rw [if_neg]
    intro h; apply hx; exact congrArg Prod.fst h
  | ite c t f iht ihf =>
    simp only [rwvars, List.mem_append, not_or] at hx
    simp only [rexec]
    split
    · exact iht hx.1
    · exact ihf hx.2
  | loop v lo hi st b ih =>
    simp only [rwvars, List.mem_cons, not_or] at hx
    simp only [rexec, runIters_eq_iters, Store.set_apply]
    rw [if_neg (by intro h; apply hx.1; exact congrArg Prod.fst h)]
    have := iters_invariant (fun τ => τ (x, i, j) = σ (x, i, j)) (rexec fuel b) v (eval lo σ) (eval st σ)
      (by
        intro τ val hτ
        show (rexec fuel b (τ.set (v, 0, 0) val)) (x, i, j) = σ (x, i, j)
        rw [ih hx.2, Store.set_apply, if_neg (by intro h; apply hx.1; exact congrArg Prod.fst h)]
        exact hτ)
    exact this _ _ σ rfl
  | whileDo c b ih =>
    simp only [rwvars] at hx
    simp only [rexec]
    exact whileN_invariant (fun τ => τ (x, i, j) = σ (x, i, j)) c (rexec fuel b)
      (fun τ hτ => by show (rexec fuel b τ) (x, i, j) = σ (x, i, j); rw [ih hx]; exact hτ) fuel σ rfl
  | code acc b ih =>
    simp only [rwvars] at hx
    simp only [rexec]
    exact ih hx

/-- every statically written variable has a WRITE event (given that unanalysed code writes
only what its access list announces) -/
theorem wvars_written {s : RStmt} {x : Nat} (hc : covered s = true) (h : x ∈ rwvars s) :
    isWritten (sacc s) x = true := by
  induction s with
  | skip => simp [rwvars] at h
  | seq a b iha ihb =>
    simp only [covered, Bool.and_eq_true] at hc
    simp only [rwvars, List.mem_append] at h
    rw [isWritten_iff]
    rcases h with h | h
    · obtain ⟨e, he, hv⟩ := isWritten_iff.mp (iha hc.1 h)
      exact ⟨e, by simp [sacc, he], hv⟩
    · obtain ⟨e, he, hv⟩ := isWritten_iff.mp (ihb hc.2 h)
      exact ⟨e, by simp [sacc, he], hv⟩
  | assign y e =>
    simp only [rwvars, List.mem_singleton] at h
    rw [isWritten_iff]
    exact ⟨⟨y, true, false, false⟩, by simp [sacc], h.symm, rfl⟩
  | store1 a i e =>
    simp only [rwvars, List.mem_singleton] at h
    rw [isWritten_iff]
    exact ⟨⟨a, true, true, false⟩, by simp [sacc], h.symm, rfl⟩
  | store2 a i j e =>
    simp only [rwvars, List.mem_singleton] at h
    rw [isWritten_iff]
    exact ⟨⟨a, true, true, false⟩, by simp [sacc], h.symm, rfl⟩
  | ite c t f iht ihf =>
    simp only [covered, Bool.and_eq_true] at hc
    simp only [rwvars, List.mem_append] at h
    rw [isWritten_iff]
    rcases h with h | h
    · obtain ⟨e, he, hv⟩ := isWritten_iff.mp (iht hc.1 h)
      exact ⟨e, by simp [sacc, he], hv⟩
    · obtain ⟨e, he, hv⟩ := isWritten_iff.mp (ihf hc.2 h)
      exact ⟨e, by simp [sacc, he], hv⟩
  | loop v lo hi st b ih =>
    simp only [covered] at hc
    simp only [rwvars, List.mem_cons] at h
    rw [isWritten_iff]
    rcases h with h | h
    · exact ⟨⟨v, true, false, false⟩, by simp [sacc], h.symm, rfl⟩
    · obtain ⟨e, he, hv⟩ := isWritten_iff.mp (ih hc h)
      exact ⟨e, by simp [sacc, he], hv⟩
  | whileDo c b ih =>
    simp only [covered] at hc
    simp only [rwvars] at h
    rw [isWritten_iff]
    obtain ⟨e, he, hv⟩ := isWritten_iff.mp (ih hc h)
    exact ⟨e, by simp [sacc, he], hv⟩
  | code acc b ih =>
    simp only [covered, Bool.and_eq_true] at hc
    simp only [rwvars] at h
    obtain ⟨e, he, hv, hw⟩ := isWritten_iff.mp (ih hc.2 h)
    obtain ⟨e', he', hv', hw', _⟩ := coveredBy_iff.mp hc.1 e he
    rw [isWritten_iff]
    exact ⟨e', by simpa [sacc] using he', hv'.trans hv, hw'.trans hw⟩

/-! ## simulation -/

/-- the locations an access of this shape can touch -/
def cellsOf (e : Ev) (l : Loc) : Prop := l.1 = e.var ∧ (e.arr = true ∨ (l.2.1 = 0 ∧ l.2.2 = 0))

/-- base agreement set plus the scalar cells of the variables in `D` -/
def Adef (A0 : Loc → Prop) (D : List Nat) : Loc → Prop :=
  fun l => A0 l ∨ (l.1 ∈ D ∧ l.2.1 = 0 ∧ l.2.2 = 0)

structure Sim (A : Loc → Prop) (σ0 τ0 σ τ : Store) : Prop where
  agree : ∀ l, A l → σ l = τ l
  rel : ∀ l, σ l = τ l ∨ (σ l = σ0 l ∧ τ l = τ0 l)

theorem Sim.weaken {A A' : Loc → Prop} {σ0 τ0 σ τ : Store} (h : Sim A σ0 τ0 σ τ)
    (hA : ∀ l, A' l → A l) : Sim A' σ0 τ0 σ τ :=
  ⟨fun l hl => h.agree l (hA l hl), h.rel⟩

theorem Sim.set {A : Loc → Prop} {σ0 τ0 σ τ : Store} (h : Sim A σ0 τ0 σ τ) (l : Loc) (v : Int) :
    Sim (fun l' => A l' ∨ l' = l) σ0 τ0 (σ.set l v) (τ.set l v) := by
  constructor
  · intro l' hl'
    simp only [Store.set_apply]
    split
    · rfl
    · rename_i hne
      rcases hl' with hl' | hl'
      · exact h.agree l' hl'
      · exact absurd hl' hne
  · intro l'
    simp only [Store.set_apply]
    split
    · exact Or.inl rfl
    · exact h.rel l'

/-- the reads of recorded inputs `K` stay inside the base agreement set -/
def KOK (A0 : Loc → Prop) (K : List Nat) (evs : List Ev) : Prop :=
  ∀ e ∈ evs, e.write = false → e.var ∈ K → ∀ l, cellsOf e l → A0 l

theorem KOK.mono {A0 : Loc → Prop} {K : List Nat} {evs evs' : List Ev} (h : KOK A0 K evs)
    (hs : ∀ e ∈ evs', e ∈ evs) : KOK A0 K evs' :=
  fun e he => h e (hs e he)

/-- the reads of unanalysed code stay inside the agreement set if the announced ones do -/
theorem KOK.code {A0 : Loc → Prop} {K : List Nat} {acc : List Acc} {b : RStmt}
    (h : KOK A0 K (sacc (.code acc b))) (hc : coveredBy (accEvs acc) b = true) : KOK A0 K (sacc b) := by
  intro e he hw hk l hl
  obtain ⟨e', he', hv', hw', ha'⟩ := coveredBy_iff.mp hc e he
  refine h e' (by simpa [sacc] using he') (hw'.trans hw) (hv' ▸ hk) l ⟨hl.1.trans hv'.symm, ?_⟩
  rcases hl.2 with h1 | h1
  · exact Or.inl (ha' h1)
  · exact Or.inr h1

/-! ### covered array elements -/

/-- both runs agree on the index value and on the element, for every covered element -/
def DAinv (DA : List (Nat × Expr)) (σ τ : Store) : Prop :=
  ∀ p ∈ DA, eval p.2 σ = eval p.2 τ ∧ σ (p.1, eval p.2 σ, 0) = τ (p.1, eval p.2 σ, 0)

theorem DAinv.mono {DA DA' : List (Nat × Expr)} {σ τ : Store} (h : DAinv DA σ τ)
    (hs : ∀ p ∈ DA', p ∈ DA) : DAinv DA' σ τ := fun p hp => h p (hs p hp)

theorem eval_set_irrel {e : Expr} {x : Nat} (h : mentions e x = false) (σ : Store) (i j v : Int) :
    eval e (σ.set (x, i, j) v) = eval e σ := by
  induction e with
  | lit n => rfl
  | var y =>
    simp only [mentions, beq_eq_false_iff_ne, ne_eq] at h
    simp only [eval, Store.set_apply]
    rw [if_neg]
    intro hc; exact h (congrArg Prod.fst hc)
  | idx1 a k ih =>
    simp only [mentions, Bool.or_eq_false_iff, beq_eq_false_iff_ne, ne_eq] at h
    simp only [eval, ih h.2, Store.set_apply]
    rw [if_neg]
    intro hc; exact h.1 (congrArg Prod.fst hc)
  | idx2 a k l ihk ihl =>
    simp only [mentions, Bool.or_eq_false_iff, beq_eq_false_iff_ne, ne_eq] at h
    simp only [eval, ihk h.1.2, ihl h.2, Store.set_apply]
    rw [if_neg]
    intro hc; exact h.1.1 (congrArg Prod.fst hc)
  | un op e ih =>
    simp only [mentions] at h
    simp only [eval, ih h]
  | bin op a b iha ihb =>
    simp only [mentions, Bool.or_eq_false_iff] at h
    simp only [eval, iha h.1, ihb h.2]

theorem mem_killA {DA : List (Nat × Expr)} {W : List Nat} {p : Nat × Expr} :
    p ∈ killA DA W ↔ p ∈ DA ∧ ∀ w ∈ W, mentions p.2 w = false := by
  simp only [killA, List.mem_filter, Bool.not_eq_true', List.any_eq_false]
  constructor
  · rintro ⟨h1, h2⟩; exact ⟨h1, fun w hw => by simpa using h2 w hw⟩
  · rintro ⟨h1, h2⟩; exact ⟨h1, fun w hw => by simp [h2 w hw]⟩

/-- writing the same value to the same cell of `x` in both runs keeps the covered elements
whose index does not depend on `x` -/
theorem DAinv.set {DA : List (Nat × Expr)} {σ τ : Store} (h : DAinv DA σ τ) (x : Nat) (i j v : Int)
    (hx : ∀ p ∈ DA, mentions p.2 x = false) :
    DAinv DA (σ.set (x, i, j) v) (τ.set (x, i, j) v) := by
  intro p hp
  obtain ⟨h1, h2⟩ := h p hp
  rw [eval_set_irrel (hx p hp), eval_set_irrel (hx p hp)]
  refine ⟨h1, ?_⟩
  simp only [Store.set_apply]
  split
  · rfl
  · exact h2

/-- simulation state: `Sim` on the defined scalars plus the covered-element invariant -/
structure SimS (A0 : Loc → Prop) (S : Defs) (σ0 τ0 σ τ : Store) : Prop where
  sim : Sim (Adef A0 S.1) σ0 τ0 σ τ
  da : DAinv S.2 σ τ

theorem eval_simX {A0 : Loc → Prop} {K : List Nat} {S : Defs} {e : Expr} {σ0 τ0 σ τ : Store}
    (hk : KOK A0 K (eacc e)) (hok : okX K S e = true) (h : SimS A0 S σ0 τ0 σ τ) :
    eval e σ = eval e τ := by
  induction e with
  | lit n => rfl
  | var x =>
    simp only [okX, Bool.or_eq_true, List.contains_iff_mem] at hok
    apply h.sim.agree
    rcases hok with hok | hok
    · exact Or.inl (hk ⟨x, false, false, false⟩ (by simp [eacc]) rfl hok _ ⟨rfl, Or.inr ⟨rfl, rfl⟩⟩)
    · exact Or.inr ⟨hok, rfl, rfl⟩
  | idx1 a i ih =>
    simp only [okX, Bool.and_eq_true, Bool.or_eq_true, List.contains_iff_mem] at hok
    have hi := ih (hk.mono (fun e he => by simp [eacc, he])) hok.1
    simp only [eval]
    rcases hok.2 with hin | hin
    · rw [hi]
      exact h.sim.agree _ (Or.inl (hk ⟨a, false, true, false⟩ (by simp [eacc]) rfl hin _ ⟨rfl, Or.inl rfl⟩))
    · have := (h.da (a, i) hin).2
      rw [← hi]
      exact this
  | idx2 a i j ihi ihj =>
    simp only [okX, Bool.and_eq_true, List.contains_iff_mem] at hok
    have hi := ihi (hk.mono (fun e he => by simp [eacc, he])) hok.1.1
    have hj := ihj (hk.mono (fun e he => by simp [eacc, he])) hok.1.2
    simp only [eval, hi, hj]
    exact h.sim.agree _ (Or.inl (hk ⟨a, false, true, false⟩ (by simp [eacc]) rfl hok.2 _ ⟨rfl, Or.inl rfl⟩))
  | un op e ih =>
    simp only [okX] at hok
    simp only [eval]
    rw [ih (hk.mono (fun e he => by simpa [eacc] using he)) hok]
  | bin op a b iha ihb =>
    simp only [okX, Bool.and_eq_true] at hok
    simp only [eval]
    rw [iha (hk.mono (fun e he => by simp [eacc, he])) hok.1,
      ihb (hk.mono (fun e he => by simp [eacc, he])) hok.2]

theorem Adef_cons_of {A0 : Loc → Prop} {D : List Nat} {x : Nat} (l : Loc)
    (h : Adef A0 (x :: D) l) : Adef A0 D l ∨ l = (x, 0, 0) := by
  rcases h with h | ⟨h1, h2, h3⟩
  · exact Or.inl (Or.inl h)
  · rcases List.mem_cons.mp h1 with h1 | h1
    · right
      obtain ⟨a, b, c⟩ := l
      simp only at h1 h2 h3
      rw [h1, h2, h3]
    · exact Or.inl (Or.inr ⟨h1, h2, h3⟩)

theorem Adef_mono {A0 : Loc → Prop} {D D' : List Nat} (hs : ∀ x ∈ D, x ∈ D') (l : Loc)
    (h : Adef A0 D l) : Adef A0 D' l := by
  rcases h with h | ⟨h1, h2⟩
  · exact Or.inl h
  · exact Or.inr ⟨hs _ h1, h2⟩

theorem SimS.weaken {A0 : Loc → Prop} {S S' : Defs} {σ0 τ0 σ τ : Store} (h : SimS A0 S σ0 τ0 σ τ)
    (h1 : ∀ x ∈ S'.1, x ∈ S.1) (h2 : ∀ p ∈ S'.2, p ∈ S.2) : SimS A0 S' σ0 τ0 σ τ :=
  ⟨h.sim.weaken (Adef_mono h1), h.da.mono h2⟩

/-- two-run version of the iteration invariant -/
theorem iters_sim (P : Store → Store → Prop) (f : Store → Store) (v : Nat) (lo step : Int)
    (hf : ∀ σ τ val, P σ τ → P (f (σ.set (v, 0, 0) val)) (f (τ.set (v, 0, 0) val))) :
    ∀ n k σ τ, P σ τ → P (iters f v lo step n k σ) (iters f v lo step n k τ) := by
  intro n
  induction n with
  | zero => intro k σ τ h; exact h
  | succ n ih => intro k σ τ h; exact ih _ _ _ (hf σ τ _ h)

/-- two-run invariant of a `DO WHILE`: both runs take the same decisions -/
theorem whileN_sim (P : Store → Store → Prop) (c : Expr) (f : Store → Store)
    (hc : ∀ σ τ, P σ τ → eval c σ = eval c τ) (hf : ∀ σ τ, P σ τ → P (f σ) (f τ)) :
    ∀ n σ τ, P σ τ → P (whileN c f n σ) (whileN c f n τ) := by
  intro n
  induction n with
  | zero => intro σ τ h; exact h
  | succ n ih =>
    intro σ τ h
    simp only [whileN, hc σ τ h]
    split
    · exact ih _ _ (hf σ τ h)
    · exact h

/-- a scalar assignment / loop-variable update of `x` with the same value in both runs -/
theorem SimS.setScalar {A0 : Loc → Prop} {S : Defs} {σ0 τ0 σ τ : Store} (h : SimS A0 S σ0 τ0 σ τ)
    (x : Nat) (v : Int) {DA' : List (Nat × Expr)} (hsub : ∀ p ∈ DA', p ∈ S.2)
    (hx : ∀ p ∈ DA', mentions p.2 x = false) :
    SimS A0 (x :: S.1, DA') σ0 τ0 (σ.set (x, 0, 0) v) (τ.set (x, 0, 0) v) :=
  ⟨(h.sim.set (x, 0, 0) v).weaken Adef_cons_of, (h.da.mono hsub).set x 0 0 v hx⟩

theorem chk_sim {fuel : Nat} {A0 : Loc → Prop} {K : List Nat} {σ0 τ0 : Store} (s : RStmt) :
    covered s = true → ∀ (S S' : Defs) (σ τ : Store), chk K s S = some S' → KOK A0 K (sacc s) →
      SimS A0 S σ0 τ0 σ τ →
      SimS A0 S' σ0 τ0 (rexec fuel s σ) (rexec fuel s τ) ∧ (∀ x ∈ S.1, x ∈ S'.1) := by
  induction s with
  | skip =>
    intro _ S S' σ τ hc _ h
    simp only [chk, Option.some.injEq] at hc
    subst hc
    exact ⟨h, fun _ hx => hx⟩
  | seq a b iha ihb =>
    intro hcov S S' σ τ hc hk h
    simp only [chk, Option.bind_eq_some_iff] at hc
    obtain ⟨S1, h1, h2⟩ := hc
    simp only [covered, Bool.and_eq_true] at hcov
    obtain ⟨s1, m1⟩ := iha hcov.1 S S1 σ τ h1 (hk.mono (fun e he => by simp [sacc, he])) h
    obtain ⟨s2, m2⟩ := ihb hcov.2 S1 S' _ _ h2 (hk.mono (fun e he => by simp [sacc, he])) s1
    exact ⟨s2, fun x hx => m2 x (m1 x hx)⟩
  | assign x e =>
    intro hcov S S' σ τ hc hk h
    simp only [chk] at hc
    split at hc
    · rename_i hok
      simp only [Option.some.injEq] at hc
      subst hc
      have he := eval_simX (hk.mono (fun e he => by simp [sacc, he])) hok h
      simp only [rexec, he]
      refine ⟨h.setScalar x _ (fun p hp => (mem_killA.mp hp).1)
        (fun p hp => (mem_killA.mp hp).2 x (by simp)), fun y hy => List.mem_cons_of_mem _ hy⟩
    · exact absurd hc (by simp)
  | store1 a i e =>
    intro hcov S S' σ τ hc hk h
    simp only [chk] at hc
    split at hc
    · rename_i hok
      simp only [Bool.and_eq_true] at hok
      simp only [Option.some.injEq] at hc
      subst hc
      have hi := eval_simX (hk.mono (fun e he => by simp [sacc, he])) hok.1 h
      have he := eval_simX (hk.mono (fun e he => by simp [sacc, he])) hok.2 h
      simp only [rexec, he, hi]
      have hkill : DAinv (killA S.2 [a]) (σ.set (a, eval i τ, 0) (eval e τ)) (τ.set (a, eval i τ, 0) (eval e τ)) :=
        (h.da.mono (fun p hp => (mem_killA.mp hp).1)).set a _ _ _
          (fun p hp => (mem_killA.mp hp).2 a (by simp))
      refine ⟨⟨(h.sim.set _ _).weaken (fun l hl => Or.inl hl), ?_⟩, fun y hy => hy⟩
      split
      · exact hkill
      · rename_i hm
        simp only [Bool.not_eq_true] at hm
        intro p hp
        rcases List.mem_cons.mp hp with rfl | hp
        · simp only
          rw [eval_set_irrel hm, eval_set_irrel hm]
          refine ⟨hi, ?_⟩
          simp only [Store.set_apply, hi]
          simp
        · exact hkill p hp
    · exact absurd hc (by simp)
  | store2 a i j e =>
    intro hcov S S' σ τ hc hk h
    simp only [chk] at hc
    split at hc
    · rename_i hok
      simp only [Bool.and_eq_true] at hok
      simp only [Option.some.injEq] at hc
      subst hc
      have hi := eval_simX (hk.mono (fun e he => by simp [sacc, he])) hok.1.1 h
      have hj := eval_simX (hk.mono (fun e he => by simp [sacc, he])) hok.1.2 h
      have he := eval_simX (hk.mono (fun e he => by simp [sacc, he])) hok.2 h
      simp only [rexec, he, hi, hj]
      exact ⟨⟨(h.sim.set _ _).weaken (fun l hl => Or.inl hl),
        (h.da.mono (fun p hp => (mem_killA.mp hp).1)).set a _ _ _
          (fun p hp => (mem_killA.mp hp).2 a (by simp))⟩, fun y hy => hy⟩
    · exact absurd hc (by simp)
  | ite c t f iht ihf =>
    intro hcov S S' σ τ hc hk h
    simp only [chk] at hc
    split at hc
    · rename_i hcnd
      split at hc
      · rename_i St Sf ht hf
        simp only [Option.some.injEq] at hc
        subst hc
        have hc' := eval_simX (hk.mono (fun e he => by simp [sacc, he])) hcnd h
        simp only [covered, Bool.and_eq_true] at hcov
        obtain ⟨s1, m1⟩ := iht hcov.1 S St σ τ ht (hk.mono (fun e he => by simp [sacc, he])) h
        obtain ⟨s2, m2⟩ := ihf hcov.2 S Sf σ τ hf (hk.mono (fun e he => by simp [sacc, he])) h
        simp only [rexec, hc']
        refine ⟨?_, fun y hy => List.mem_filter.mpr ⟨m1 y hy, by simpa using m2 y hy⟩⟩
        split
        · exact s1.weaken (fun x hx => (List.mem_filter.mp hx).1) (fun p hp => (List.mem_filter.mp hp).1)
        · exact s2.weaken (fun x hx => by simpa using (List.mem_filter.mp hx).2)
            (fun p hp => by simpa using (List.mem_filter.mp hp).2)
      · exact absurd hc (by simp)
    · exact absurd hc (by simp)
  | loop v lo hi st b ih =>
    intro hcov S S' σ τ hc hk h
    simp only [chk] at hc
    split at hc
    · rename_i hok
      simp only [Bool.and_eq_true] at hok
      split at hc
      · rename_i Sb hb
        split at hc
        · rename_i hsub
          simp only [Option.some.injEq] at hc
          subst hc
          obtain ⟨⟨hlo, hhi⟩, hst⟩ := hok
          have e1 := eval_simX (hk.mono (fun e he => by simp [sacc, he])) hlo h
          have e2 := eval_simX (hk.mono (fun e he => by simp [sacc, he])) hhi h
          have e3 := eval_simX (hk.mono (fun e he => by simp [sacc, he])) hst h
          simp only [rexec, runIters_eq_iters, e1, e2, e3]
          refine ⟨?_, fun y hy => List.mem_cons_of_mem _ hy⟩
          have hH : ∀ p ∈ killA S.2 (v :: rwvars b), mentions p.2 v = false :=
            fun p hp => (mem_killA.mp hp).2 v (by simp)
          have hbody : ∀ σ' τ' val, SimS A0 (S.1, killA S.2 (v :: rwvars b)) σ0 τ0 σ' τ' →
              SimS A0 (S.1, killA S.2 (v :: rwvars b)) σ0 τ0
                (rexec fuel b (σ'.set (v, 0, 0) val)) (rexec fuel b (τ'.set (v, 0, 0) val)) := by
            intro σ' τ' val h'
            obtain ⟨s1, m1⟩ := ih hcov (v :: S.1, killA S.2 (v :: rwvars b)) Sb _ _ hb
              (hk.mono (fun e he => by simp [sacc, he]))
              (h'.setScalar v val (fun p hp => hp) hH)
            exact s1.weaken (fun x hx => m1 x (List.mem_cons_of_mem _ hx))
              (fun p hp => by
                have := List.all_eq_true.mp hsub p hp
                simpa using this)
          have h0 : SimS A0 (S.1, killA S.2 (v :: rwvars b)) σ0 τ0 σ τ :=
            h.weaken (fun x hx => hx) (fun p hp => (mem_killA.mp hp).1)
          have := iters_sim (fun σ' τ' => SimS A0 (S.1, killA S.2 (v :: rwvars b)) σ0 τ0 σ' τ')
            (rexec fuel b) v (eval lo τ) (eval st τ) hbody
            (trip (eval lo τ) (eval hi τ) (eval st τ)) 0 σ τ h0
          exact this.setScalar v _ (fun p hp => hp) hH
        · exact absurd hc (by simp)
      · exact absurd hc (by simp)
    · exact absurd hc (by simp)
  | whileDo c b ih =>
    intro hcov S S' σ τ hc hk h
    simp only [chk] at hc
    split at hc
    · rename_i hcnd
      split at hc
      · rename_i Sb hb
        split at hc
        · rename_i hsub
          simp only [Option.some.injEq] at hc
          subst hc
          simp only [rexec]
          refine ⟨?_, fun y hy => hy⟩
          have h0 : SimS A0 (S.1, killA S.2 (rwvars b)) σ0 τ0 σ τ :=
            h.weaken (fun x hx => hx) (fun p hp => (mem_killA.mp hp).1)
          exact whileN_sim (fun σ' τ' => SimS A0 (S.1, killA S.2 (rwvars b)) σ0 τ0 σ' τ') c (rexec fuel b)
            (fun σ' τ' h' => eval_simX (hk.mono (fun e he => by simp [sacc, he])) hcnd h')
            (fun σ' τ' h' => by
              obtain ⟨s1, m1⟩ := ih hcov _ Sb σ' τ' hb (hk.mono (fun e he => by simp [sacc, he])) h'
              exact s1.weaken (fun x hx => m1 x hx)
                (fun p hp => by
                  have := List.all_eq_true.mp hsub p hp
                  simpa using this))
            fuel σ τ h0
        · exact absurd hc (by simp)
      · exact absurd hc (by simp)
    · exact absurd hc (by simp)
  | code acc b ih =>
    intro hcov S S' σ τ hc hk h
    simp only [covered, Bool.and_eq_true] at hcov
    simp only [chk] at hc
    simp only [rexec]
    exact ih hcov.2 S S' σ τ hc (hk.code hcov.1) h

/-! ### `chk` succeeds when every read is of a variable in `K` -/

/-- covered elements whose index does not depend on anything `s` writes survive `s` -/
theorem chk_survive {K : List Nat} (s : RStmt) :
    ∀ (S S' : Defs), chk K s S = some S' → ∀ p ∈ S.2, (∀ w ∈ rwvars s, mentions p.2 w = false) →
      p ∈ S'.2 := by
  induction s with
  | skip => intro S S' hc p hp _; simp only [chk, Option.some.injEq] at hc; subst hc; exact hp
  | seq a b iha ihb =>
    intro S S' hc p hp hw
    simp only [chk, Option.bind_eq_some_iff] at hc
    obtain ⟨S1, h1, h2⟩ := hc
    exact ihb S1 S' h2 p (iha S S1 h1 p hp (fun w hw' => hw w (by simp [rwvars, hw'])))
      (fun w hw' => hw w (by simp [rwvars, hw']))
  | assign x e =>
    intro S S' hc p hp hw
    simp only [chk] at hc
    split at hc
    · simp only [Option.some.injEq] at hc; subst hc
      exact mem_killA.mpr ⟨hp, fun w hw' => hw w (by simpa [rwvars] using hw')⟩
    · exact absurd hc (by simp)
  | store1 a i e =>
    intro S S' hc p hp hw
    simp only [chk] at hc
    split at hc
    · simp only [Option.some.injEq] at hc; subst hc
      have : p ∈ killA S.2 [a] := mem_killA.mpr ⟨hp, fun w hw' => hw w (by simpa [rwvars] using hw')⟩
      split
      · exact this
      · exact List.mem_cons_of_mem _ this
    · exact absurd hc (by simp)
  | store2 a i j e =>
    intro S S' hc p hp hw
    simp only [chk] at hc
    split at hc
    · simp only [Option.some.injEq] at hc; subst hc
      exact mem_killA.mpr ⟨hp, fun w hw' => hw w (by simpa [rwvars] using hw')⟩
    · exact absurd hc (by simp)
  | ite c t f iht ihf =>
    intro S S' hc p hp hw
    simp only [chk] at hc
    split at hc
    · split at hc
      · rename_i St Sf ht hf
        simp only [Option.some.injEq] at hc; subst hc
        have h1 := iht S St ht p hp (fun w hw' => hw w (by simp [rwvars, hw']))
        have h2 := ihf S Sf hf p hp (fun w hw' => hw w (by simp [rwvars, hw']))
        exact List.mem_filter.mpr ⟨h1, by simpa using h2⟩
      · exact absurd hc (by simp)
    · exact absurd hc (by simp)
  | loop v lo hi st b ih =>
    intro S S' hc p hp hw
    simp only [chk] at hc
    split at hc
    · split at hc
      · split at hc
        · simp only [Option.some.injEq] at hc; subst hc
          exact mem_killA.mpr ⟨hp, fun w hw' => hw w (by simpa [rwvars] using hw')⟩
        · exact absurd hc (by simp)
      · exact absurd hc (by simp)
    · exact absurd hc (by simp)
  | whileDo c b ih =>
    intro S S' hc p hp hw
    simp only [chk] at hc
    split at hc
    · split at hc
      · split at hc
        · simp only [Option.some.injEq] at hc; subst hc
          exact mem_killA.mpr ⟨hp, fun w hw' => hw w (by simpa [rwvars] using hw')⟩
        · exact absurd hc (by simp)
      · exact absurd hc (by simp)
    · exact absurd hc (by simp)
  | code acc b ih =>
    intro S S' hc p hp hw
    simp only [chk] at hc
    exact ih S S' hc p hp (fun w hw' => hw w (by simpa [rwvars] using hw'))

theorem okX_of_reads {K : List Nat} {S : Defs} {e : Expr} (h : ∀ ev ∈ eacc e, ev.var ∈ K) :
    okX K S e = true := by
  induction e with
  | lit n => rfl
  | var x => simp [okX, h ⟨x, false, false, false⟩ (by simp [eacc])]
  | idx1 a i ih =>
    simp [okX, ih (fun ev he => h ev (by simp [eacc, he])), h ⟨a, false, true, false⟩ (by simp [eacc])]
  | idx2 a i j ihi ihj =>
    simp [okX, ihi (fun ev he => h ev (by simp [eacc, he])), ihj (fun ev he => h ev (by simp [eacc, he])),
      h ⟨a, false, true, false⟩ (by simp [eacc])]
  | un op e ih => simpa [okX] using ih (fun ev he => h ev (by simpa [eacc] using he))
  | bin op a b iha ihb =>
    simp [okX, iha (fun ev he => h ev (by simp [eacc, he])), ihb (fun ev he => h ev (by simp [eacc, he]))]

theorem chk_of_reads {K : List Nat} (s : RStmt) :
    covered s = true → ∀ S, (∀ ev ∈ sacc s, ev.write = false → ev.var ∈ K) → (chk K s S).isSome = true := by
  induction s with
  | skip => intro _ S _; simp [chk]
  | seq a b iha ihb =>
    intro hcov S h
    obtain ⟨S1, hS1⟩ := Option.isSome_iff_exists.mp (iha (by simp only [covered, Bool.and_eq_true] at hcov; exact hcov.1) S (fun ev he => h ev (by simp [sacc, he])))
    simp only [chk, hS1, Option.bind_some]
    exact ihb (by simp only [covered, Bool.and_eq_true] at hcov; exact hcov.2) S1 (fun ev he => h ev (by simp [sacc, he]))
  | assign x e =>
    intro hcov S h
    have := okX_of_reads (K := K) (S := S) (e := e)
      (fun ev he => h ev (by simp [sacc, he]) (eacc_read ev he))
    simp [chk, this]
  | store1 a i e =>
    intro hcov S h
    have h1 := okX_of_reads (K := K) (S := S) (e := e)
      (fun ev he => h ev (by simp [sacc, he]) (eacc_read ev he))
    have h2 := okX_of_reads (K := K) (S := S) (e := i)
      (fun ev he => h ev (by simp [sacc, he]) (eacc_read ev he))
    simp [chk, h1, h2]
  | store2 a i j e =>
    intro hcov S h
    have h1 := okX_of_reads (K := K) (S := S) (e := e)
      (fun ev he => h ev (by simp [sacc, he]) (eacc_read ev he))
    have h2 := okX_of_reads (K := K) (S := S) (e := i)
      (fun ev he => h ev (by simp [sacc, he]) (eacc_read ev he))
    have h3 := okX_of_reads (K := K) (S := S) (e := j)
      (fun ev he => h ev (by simp [sacc, he]) (eacc_read ev he))
    simp [chk, h1, h2, h3]
  | ite c t f iht ihf =>
    intro hcov S h
    have h1 := okX_of_reads (K := K) (S := S) (e := c)
      (fun ev he => h ev (by simp [sacc, he]) (eacc_read ev he))
    obtain ⟨St, ht⟩ := Option.isSome_iff_exists.mp (iht (by simp only [covered, Bool.and_eq_true] at hcov; exact hcov.1) S (fun ev he => h ev (by simp [sacc, he])))
    obtain ⟨Sf, hf⟩ := Option.isSome_iff_exists.mp (ihf (by simp only [covered, Bool.and_eq_true] at hcov; exact hcov.2) S (fun ev he => h ev (by simp [sacc, he])))
    simp [chk, h1, ht, hf]
  | loop v lo hi st b ih =>
    intro hcov S h
    have h1 := okX_of_reads (K := K) (S := S) (e := lo)
      (fun ev he => h ev (by simp [sacc, he]) (eacc_read ev he))
    have h2 := okX_of_reads (K := K) (S := S) (e := hi)
      (fun ev he => h ev (by simp [sacc, he]) (eacc_read ev he))
    have h3 := okX_of_reads (K := K) (S := S) (e := st)
      (fun ev he => h ev (by simp [sacc, he]) (eacc_read ev he))
    obtain ⟨Sb, hb⟩ := Option.isSome_iff_exists.mp
      (ih (by simpa only [covered] using hcov) (v :: S.1, killA S.2 (v :: rwvars b)) (fun ev he => h ev (by simp [sacc, he])))
    have hs : subA (killA S.2 (v :: rwvars b)) Sb.2 = true := by
      simp only [subA, List.all_eq_true, List.contains_iff_mem]
      intro p hp
      exact chk_survive b _ Sb hb p hp (fun w hw => (mem_killA.mp hp).2 w (List.mem_cons_of_mem _ hw))
    simp [chk, h1, h2, h3, hb, hs]
  | whileDo c b ih =>
    intro hcov S h
    have h1 := okX_of_reads (K := K) (S := (S.1, killA S.2 (rwvars b))) (e := c)
      (fun ev he => h ev (by simp [sacc, he]) (eacc_read ev he))
    obtain ⟨Sb, hb⟩ := Option.isSome_iff_exists.mp
      (ih (by simpa only [covered] using hcov) (S.1, killA S.2 (rwvars b)) (fun ev he => h ev (by simp [sacc, he])))
    have hs : subA (killA S.2 (rwvars b)) Sb.2 = true := by
      simp only [subA, List.all_eq_true, List.contains_iff_mem]
      intro p hp
      exact chk_survive b _ Sb hb p hp (fun w hw => (mem_killA.mp hp).2 w hw)
    simp [chk, h1, hb, hs]
  | code acc b ih =>
    intro hcov S h
    simp only [covered, Bool.and_eq_true] at hcov
    simp only [chk]
    refine ih hcov.2 S (fun ev he hw => ?_)
    obtain ⟨e', he', hv', hw', _⟩ := coveredBy_iff.mp hcov.1 ev he
    exact hv' ▸ h e' (by simpa [sacc] using he') (hw'.trans hw)

end RegionData
