import PsyVerif.Lemmas.HaloSafe
/-! # C22 — the initial placement (`create_halo_exchanges` for every loop) is valid -/
namespace C22

def hexSync (g : Nat) : Item := .hex .sync g

/-- fields for which `createHex` adds an exchange, in order -/
def newHexes (cfg : Cfg) (k : Kern) (b : Bound) : List Nat → Sched → Sched → List Nat
  | [], _, _ => []
  | f :: fs, pre, rest =>
    match bwdDep f pre with
    | .hex => newHexes cfg k b fs pre rest
    | _ =>
      if (hexRequired cfg f pre (.loop k b :: rest)).1 then
        let rest' := match dropNextHex f (.loop k b :: rest) with
          | _ :: r => r
          | [] => rest
        f :: newHexes cfg k b fs (.hex .sync f :: pre) rest'
      else newHexes cfg k b fs pre rest

theorem createHex_fst (cfg : Cfg) (k : Kern) (b : Bound) : ∀ (fs : List Nat) (pre rest : Sched),
    (createHex cfg k b fs pre rest).1 = ((newHexes cfg k b fs pre rest).map hexSync).reverse ++ pre
  | [], pre, rest => by simp [createHex, newHexes]
  | f :: fs, pre, rest => by
    cases hb : bwdDep f pre with
    | hex =>
      simp only [createHex, newHexes, hb]
      exact createHex_fst cfg k b fs pre rest
    | none =>
      by_cases hreq : (hexRequired cfg f pre (.loop k b :: rest)).1 = true
      · simp only [createHex, newHexes, hb, hreq, if_true]
        rw [createHex_fst cfg k b fs]
        simp only [List.map_cons, List.reverse_cons, List.append_assoc, List.singleton_append,
          hexSync]
        rfl
      · simp only [createHex, newHexes, hb, hreq, Bool.false_eq_true, if_false]
        exact createHex_fst cfg k b fs pre rest
    | writer kw bw aw =>
      by_cases hreq : (hexRequired cfg f pre (.loop k b :: rest)).1 = true
      · simp only [createHex, newHexes, hb, hreq, if_true]
        rw [createHex_fst cfg k b fs]
        simp only [List.map_cons, List.reverse_cons, List.append_assoc, List.singleton_append,
          hexSync]
        rfl
      · simp only [createHex, newHexes, hb, hreq, Bool.false_eq_true, if_false]
        exact createHex_fst cfg k b fs pre rest

theorem newHexes_sub (cfg : Cfg) (k : Kern) (b : Bound) : ∀ (fs : List Nat) (pre rest : Sched),
    ∀ g ∈ newHexes cfg k b fs pre rest, g ∈ fs
  | [], _, _ => by simp [newHexes]
  | f :: fs, pre, rest => by
    intro g hg
    cases hb : bwdDep f pre with
    | hex =>
      simp only [newHexes, hb] at hg
      simp [newHexes_sub cfg k b fs pre rest g hg]
    | none =>
      by_cases hreq : (hexRequired cfg f pre (.loop k b :: rest)).1 = true
      · simp only [newHexes, hb, hreq, if_true] at hg
        simp at hg
        rcases hg with rfl | hg
        · simp
        · simp [newHexes_sub cfg k b fs _ _ g hg]
      · simp only [newHexes, hb, hreq, Bool.false_eq_true, if_false] at hg
        simp [newHexes_sub cfg k b fs pre rest g hg]
    | writer kw bw aw =>
      by_cases hreq : (hexRequired cfg f pre (.loop k b :: rest)).1 = true
      · simp only [newHexes, hb, hreq, if_true] at hg
        simp at hg
        rcases hg with rfl | hg
        · simp
        · simp [newHexes_sub cfg k b fs _ _ g hg]
      · simp only [newHexes, hb, hreq, Bool.false_eq_true, if_false] at hg
        simp [newHexes_sub cfg k b fs pre rest g hg]

theorem bwdWriter_hexes (f : Nat) (hs : List Nat) (pre : Sched) :
    bwdWriter f ((hs.map hexSync).reverse ++ pre) = bwdWriter f pre := by
  induction hs generalizing pre with
  | nil => simp
  | cons g hs ih =>
    simp only [List.map_cons, List.reverse_cons, List.append_assoc, List.singleton_append]
    rw [ih]
    simp [hexSync, bwdWriter]

theorem bwdDep_hexes_keep (f : Nat) (hs : List Nat) (pre : Sched) (h : bwdDep f pre = .hex) :
    bwdDep f ((hs.map hexSync).reverse ++ pre) = .hex := by
  induction hs generalizing pre with
  | nil => simpa using h
  | cons g hs ih =>
    simp only [List.map_cons, List.reverse_cons, List.append_assoc, List.singleton_append]
    apply ih
    simp only [hexSync, bwdDep]
    split
    · rfl
    · exact h

theorem dropNextHex_sub (f : Nat) : ∀ (X : Sched), ∀ x ∈ dropNextHex f X, x ∈ X
  | [], x, h => by simp [dropNextHex] at h
  | .hex kind g :: rest, x, h => by
    simp only [dropNextHex] at h
    split at h
    · simp [h]
    · simp only [List.mem_cons] at h ⊢
      rcases h with h | h
      · exact Or.inl h
      · exact Or.inr (dropNextHex_sub f rest x h)
  | .loop k b :: rest, x, h => by
    simp only [dropNextHex] at h
    split at h
    · split at h
      · exact h
      · simp only [List.mem_cons] at h ⊢
        rcases h with h | h
        · exact Or.inl h
        · exact Or.inr (dropNextHex_sub f rest x h)
    · simp only [List.mem_cons] at h ⊢
      rcases h with h | h
      · exact Or.inl h
      · exact Or.inr (dropNextHex_sub f rest x h)

/-- the suffix after the loop once a replaced exchange of `f` has been dropped -/
def restAfterDrop (f : Nat) (k : Kern) (b : Bound) (rest : Sched) : Sched :=
  match dropNextHex f (.loop k b :: rest) with
  | _ :: r => r
  | [] => rest

theorem restAfterDrop_eq (f : Nat) (k : Kern) (b : Bound) (rest : Sched) :
    restAfterDrop f k b rest =
      match argOf k f with
      | some a => if a.access.writes then rest else dropNextHex f rest
      | none => dropNextHex f rest := by
  unfold restAfterDrop
  simp only [dropNextHex]
  cases argOf k f with
  | none => rfl
  | some a => by_cases hw : a.access.writes = true <;> simp [hw]

theorem restAfterDrop_sub (f : Nat) (k : Kern) (b : Bound) (rest : Sched) :
    ∀ x ∈ restAfterDrop f k b rest, x ∈ rest := by
  rw [restAfterDrop_eq]
  intro x hx
  cases h : argOf k f with
  | none => rw [h] at hx; exact dropNextHex_sub f rest x hx
  | some a =>
    rw [h] at hx
    simp only at hx
    split at hx
    · exact hx
    · exact dropNextHex_sub f rest x hx

/-- what `createHex` guarantees for every field it was asked about -/
theorem createHex_post (cfg : Cfg) (k : Kern) (b : Bound) (f : Nat) :
    ∀ (fs : List Nat) (pre rest : Sched), f ∈ fs →
      bwdDep f (createHex cfg k b fs pre rest).1 = .hex ∨
      ∃ rest0, (∀ x ∈ rest0, x ∈ rest) ∧ (required cfg (hexDepth f (.loop k b :: rest0))
        (bwdWriter f (createHex cfg k b fs pre rest).1)).1 = false
  | [], _, _, h => by simp at h
  | g :: fs, pre, rest, h => by
    have hsub : ∀ rest0 : Sched, (∀ x ∈ rest0, x ∈ restAfterDrop g k b rest) →
        ∀ x ∈ rest0, x ∈ rest := fun rest0 h0 x hx => restAfterDrop_sub g k b rest x (h0 x hx)
    by_cases hg : g = f
    · subst hg
      cases hb : bwdDep g pre with
      | hex =>
        left
        simp only [createHex, hb]
        rw [createHex_fst]
        exact bwdDep_hexes_keep g _ pre hb
      | none =>
        by_cases hreq : (hexRequired cfg g pre (.loop k b :: rest)).1 = true
        · left
          simp only [createHex, hb, hreq, if_true]
          rw [createHex_fst]
          apply bwdDep_hexes_keep
          simp [bwdDep]
        · right
          refine ⟨rest, fun x hx => hx, ?_⟩
          simp only [createHex, hb, hreq, Bool.false_eq_true, if_false]
          rw [createHex_fst, bwdWriter_hexes]
          simpa [hexRequired] using hreq
      | writer kw bw aw =>
        by_cases hreq : (hexRequired cfg g pre (.loop k b :: rest)).1 = true
        · left
          simp only [createHex, hb, hreq, if_true]
          rw [createHex_fst]
          apply bwdDep_hexes_keep
          simp [bwdDep]
        · right
          refine ⟨rest, fun x hx => hx, ?_⟩
          simp only [createHex, hb, hreq, Bool.false_eq_true, if_false]
          rw [createHex_fst, bwdWriter_hexes]
          simpa [hexRequired] using hreq
    · have hf : f ∈ fs := by
        simp at h
        rcases h with h | h
        · exact absurd h.symm hg
        · exact h
      cases hb : bwdDep g pre with
      | hex =>
        simp only [createHex, hb]
        exact createHex_post cfg k b f fs pre rest hf
      | none =>
        by_cases hreq : (hexRequired cfg g pre (.loop k b :: rest)).1 = true
        · simp only [createHex, hb, hreq, if_true]
          rcases createHex_post cfg k b f fs (.hex .sync g :: pre) (restAfterDrop g k b rest) hf
            with h1 | ⟨rest0, h0, h1⟩
          · exact Or.inl h1
          · exact Or.inr ⟨rest0, hsub rest0 h0, h1⟩
        · simp only [createHex, hb, hreq, Bool.false_eq_true, if_false]
          exact createHex_post cfg k b f fs pre rest hf
      | writer kw bw aw =>
        by_cases hreq : (hexRequired cfg g pre (.loop k b :: rest)).1 = true
        · simp only [createHex, hb, hreq, if_true]
          rcases createHex_post cfg k b f fs (.hex .sync g :: pre) (restAfterDrop g k b rest) hf
            with h1 | ⟨rest0, h0, h1⟩
          · exact Or.inl h1
          · exact Or.inr ⟨rest0, hsub rest0 h0, h1⟩
        · simp only [createHex, hb, hreq, Bool.false_eq_true, if_false]
          exact createHex_post cfg k b f fs pre rest hf

/-! ## The placed schedule, prefix by prefix -/

/-- the part of `placeFrom cfg pre ls` that follows the (reversed) prefix `pre` -/
def placeTail (cfg : Cfg) : Sched → List (Kern × Bound) → Sched
  | _, [] => []
  | pre, (k, b) :: ls =>
    let hs := newHexes cfg k b (haloReadFields cfg k b) pre (ls.map fun l => .loop l.1 l.2)
    hs.map hexSync ++ .loop k b :: placeTail cfg (.loop k b :: ((hs.map hexSync).reverse ++ pre)) ls

theorem placeFrom_eq (cfg : Cfg) : ∀ (ls : List (Kern × Bound)) (pre : Sched),
    placeFrom cfg pre ls = pre.reverse ++ placeTail cfg pre ls
  | [], pre => by simp [placeFrom, placeTail]
  | (k, b) :: ls, pre => by
    simp only [placeFrom, placeTail]
    generalize hc : createHex cfg k b (haloReadFields cfg k b) pre
      (ls.map fun l => Item.loop l.1 l.2) = c
    obtain ⟨p1, p2⟩ := c
    have h1 : p1 = ((newHexes cfg k b (haloReadFields cfg k b) pre
        (ls.map fun l => Item.loop l.1 l.2)).map hexSync).reverse ++ pre := by
      have := createHex_fst cfg k b (haloReadFields cfg k b) pre (ls.map fun l => Item.loop l.1 l.2)
      rw [hc] at this
      exact this
    show placeFrom cfg (Item.loop k b :: p1) ls = _
    rw [h1, placeFrom_eq cfg ls]
    simp

theorem fwdReaders_hexes (f : Nat) (T : Sched) : ∀ hs : List Nat,
    fwdReaders f (hs.map hexSync ++ T) = if f ∈ hs then [] else fwdReaders f T
  | [] => by simp
  | g :: hs => by
    simp only [List.map_cons, List.cons_append, hexSync, fwdReaders]
    by_cases hg : g = f
    · subst hg; simp
    · have hgf : (g == f) = false := by simpa using hg
      have : ¬ f = g := fun h => hg h.symm
      simp only [hgf, Bool.false_and, Bool.false_eq_true, if_false, List.mem_cons, this, false_or]
      exact fwdReaders_hexes f T hs

theorem validFrom_hexes (cfg : Cfg) (H : Nat) (env : Nat → Nat) (cont : Bool) (f : Nat)
    (T : Sched) : ∀ (hs : List Nat) (pre : Sched),
    (f ∈ hs → headHra cfg (fwdReaders f T)) →
    ValidFrom cfg H env cont f ((hs.map hexSync).reverse ++ pre) T →
    ValidFrom cfg H env cont f pre (hs.map hexSync ++ T)
  | [], pre, _, h => by simpa using h
  | g :: hs, pre, hh, h => by
    show ValidFrom cfg H env cont f pre (Item.hex .sync g :: (hs.map hexSync ++ T))
    simp only [ValidFrom]
    refine ⟨?_, ?_⟩
    · intro hg
      refine ⟨by first | rfl | trivial, ?_⟩
      rw [fwdReaders_hexes f T hs]
      split
      · trivial
      · exact hh (by simp [hg])
    · apply validFrom_hexes cfg H env cont f T hs
      · intro hf; exact hh (by simp [hf])
      · simpa [hexSync] using h

theorem argOf_of_mem {k : Kern} {a : Arg} (ha : a ∈ k.args)
    (hn : (k.args.map (·.field)).Nodup) : argOf k a.field = some a := by
  unfold argOf
  obtain ⟨dof, args⟩ := k
  simp only at ha hn ⊢
  induction args with
  | nil => simp at ha
  | cons x xs ih =>
    simp only [List.map_cons, List.nodup_cons] at hn
    simp only [List.mem_cons] at ha
    rcases ha with rfl | ha
    · simp
    · have hne : x.field ≠ a.field := by
        intro h
        apply hn.1
        rw [h]
        exact List.mem_map_of_mem ha
      have : (x.field == a.field) = false := by simpa using hne
      simp only [List.find?_cons, this]
      exact ih ha hn.2

theorem hra_reads {cfg : Cfg} {k : Kern} {b : Bound} {a : Arg}
    (h : haloReadAccess cfg k b a = true) : a.access.reads = true := by
  unfold haloReadAccess at h
  cases hr : a.access.reads
  · simp [hr] at h
  · rfl

theorem mem_haloReadFields {cfg : Cfg} {k : Kern} {b : Bound} {f : Nat} :
    f ∈ haloReadFields cfg k b ↔ ∃ a ∈ k.args, haloReadAccess cfg k b a = true ∧ a.field = f := by
  unfold haloReadFields
  rw [List.mem_eraseDups]
  simp [and_assoc]

theorem placeTail_valid (cfg : Cfg) (H : Nat) (env : Nat → Nat) (cont : Bool) (f : Nat) :
    ∀ (ls : List (Kern × Bound)) (pre : Sched),
    (∀ k b, (k, b) ∈ ls → POK cfg H env cont f k b) →
    ValidFrom cfg H env cont f pre (placeTail cfg pre ls)
  | [], _, _ => by simp [placeTail, ValidFrom]
  | (k, b) :: ls, pre, hn => by
    have hnk := (hn k b (by simp)).1.nodup
    have hn' : ∀ k b, (k, b) ∈ ls → POK cfg H env cont f k b :=
      fun k b h => hn k b (by simp [h])
    simp only [placeTail]
    apply validFrom_hexes
    · intro hf
      have hf' := newHexes_sub cfg k b _ _ _ f hf
      obtain ⟨a, hamem, hra, rfl⟩ := mem_haloReadFields.mp hf'
      have harg := argOf_of_mem hamem hnk
      have hr := hra_reads hra
      simp only [fwdReaders, harg, hr, if_true, headHra]
      exact hra
    · simp only [ValidFrom]
      refine ⟨?_, placeTail_valid cfg H env cont f ls _ hn'⟩
      intro a harg hra
      obtain ⟨hamem, haf⟩ := argOf_some harg
      have hf' : f ∈ haloReadFields cfg k b := mem_haloReadFields.mpr ⟨a, hamem, hra, haf⟩
      have hpost := createHex_post cfg k b f (haloReadFields cfg k b) pre
        (ls.map fun l => Item.loop l.1 l.2) hf'
      rw [createHex_fst] at hpost
      rcases hpost with h | ⟨rest0, hsub, h⟩
      · exact Or.inl h
      · right
        have hr := hra_reads hra
        have hfw : fwdReaders f (.loop k b :: rest0) =
            (k, b, a) :: (if a.access.writes then [] else fwdReaders f rest0) := by
          simp [fwdReaders, harg, hr]
        refine ⟨fwdReaders f (.loop k b :: rest0), by rw [hfw]; simp, ⟨?_, ?_⟩, ?_⟩
        · refine ⟨(k, b, a), _, hfw, hra, ?_⟩
          intro hw
          simp only at hw
          simp [hw]
        · intro x hx
          obtain ⟨hloop, hargx, _⟩ := fwdReaders_mem hx
          refine ⟨?_, hargx⟩
          simp only [List.mem_cons] at hloop
          rcases hloop with heq | hloop
          · injection heq with h1 h2
            rw [h1, h2]
            exact hn k b (by simp)
          · have := hsub _ hloop
            simp only [List.mem_map] at this
            obtain ⟨l, hl, hleq⟩ := this
            injection hleq with h1 h2
            rw [← h1, ← h2]
            exact hn l.1 l.2 (by simp [hl])
        · rw [← hexDepth_eq]
          exact suff_of_required cfg H env _ _ h

theorem placeTail_loops (cfg : Cfg) : ∀ (ls : List (Kern × Bound)) (pre : Sched) (k : Kern)
    (b : Bound), Item.loop k b ∈ placeTail cfg pre ls → (k, b) ∈ ls
  | [], _, _, _, h => by simp [placeTail] at h
  | (k', b') :: ls, pre, k, b, h => by
    simp only [placeTail, List.mem_append, List.mem_cons, List.mem_map, hexSync] at h
    rcases h with ⟨g, _, hg⟩ | h | h
    · cases hg
    · cases h; simp
    · simp [placeTail_loops cfg ls _ k b h]

theorem inv_init (cfg : Cfg) (H : Nat) (env : Nat → Nat) (cont : Bool) (f : Nat) (rest : Sched)
    (init : RState) (hwf : wfState cfg cont init = true) (hi : init.inflight = none) :
    Inv cfg H env cont f [] rest init := by
  unfold wfState at hwf
  simp only [Bool.and_eq_true, Bool.or_eq_true, decide_eq_true_eq, Bool.not_eq_true'] at hwf
  obtain ⟨⟨h1, h2⟩, h3⟩ := hwf
  refine ⟨h1, h2, ?_, hi, ?_, ?_⟩
  · intro hc hcont
    rcases h3 with h3 | h3
    · simp [hc, hcont] at h3
    · exact h3
  · intro h; simp [bwdDep] at h
  · intro k b a h; simp [bwdDep] at h

/-- **Safety of the placement** for arbitrary loop bounds: running the lowered result of
`create_halo_exchanges` (for every loop, in order) succeeds for field `f`. -/
theorem placed_safe (cfg : Cfg) (H : Nat) (env : Nat → Nat) (cont : Bool) (f : Nat)
    (loops : List (Kern × Bound)) (init : RState) (hH : 1 ≤ H) (henv : ExtOK env)
    (hok : ∀ k b, (k, b) ∈ loops → POK cfg H env cont f k b)
    (hwf : wfState cfg cont init = true) (hi : init.inflight = none) :
    SafeF H env cont f (lower cfg (placeExchanges cfg loops)) init := by
  unfold SafeF lower placeExchanges
  rw [placeFrom_eq]
  simp only [List.reverse_nil, List.nil_append]
  apply valid_run cfg H env cont f hH henv
  · exact placeTail_valid cfg H env cont f loops [] hok
  · intro k b h
    exact hok k b (placeTail_loops cfg loops [] k b h)
  · exact inv_init cfg H env cont f _ init hwf hi

/-! ## Default loop bounds -/

/-- static conditions on a kernel of an invoke (bounds are the defaults of `LFRicLoop.load`) -/
structure KernOK (cfg : Cfg) (k : Kern) : Prop where
  nodup : (k.args.map (·.field)).Nodup
  args : ∀ a ∈ k.args, ArgOK a ∧ writeOnlyPattern cfg k (defaultBound cfg k) a = false

theorem defaultBound_cases (cfg : Cfg) (k : Kern) :
    (defaultBound cfg k).coloured = false ∧
    ((defaultBound cfg k).lvl = .owned ∨
     ((defaultBound cfg k).lvl = .annexed ∧ k.dofKernel = true ∧ cfg.annexed = true) ∨
     (defaultBound cfg k).lvl = .halo 1) := by
  unfold defaultBound
  by_cases hd : k.dofKernel = true
  · simp only [hd, if_true]
    by_cases hc : (cfg.annexed && k.args.any (fun a => a.access.writes)) = true
    · have hc' := hc
      simp only [Bool.and_eq_true] at hc'
      simp only [hc, if_true]
      simp [hc'.1]
    · simp only [hc]
      simp
  · have hd' : k.dofKernel = false := by simpa using hd
    simp only [hd', Bool.false_eq_true, if_false]
    (repeat' split) <;> simp

theorem defaultBound_ok (cfg : Cfg) (k : Kern) (h : KernOK cfg k) :
    LoopOK cfg k (defaultBound cfg k) := by
  obtain ⟨hcol, hlvl⟩ := defaultBound_cases cfg k
  refine ⟨h.nodup, ?_, ⟨?_, ?_, ?_⟩, ?_, ?_⟩
  · intro a ha
    refine ⟨(h.args a ha).1, ?_, (h.args a ha).2⟩
    intro hm
    rcases hlvl with h1 | ⟨h1, _⟩ | h1 <;> rw [h1] at hm <;> cases hm
  · intro ha
    rcases hlvl with h1 | ⟨_, h2, h3⟩ | h1
    · rw [h1] at ha; cases ha
    · exact ⟨h2, h3⟩
    · rw [h1] at ha; cases ha
  · intro hc; rw [hcol] at hc; cases hc
  · rcases hlvl with h1 | ⟨h1, _⟩ | h1 <;> rw [h1] <;> simp [Level.wf]
  · intro a ha hw hd hc
    unfold defaultBound
    have hany : k.args.any (fun a => a.access.writes) = true :=
      List.any_eq_true.mpr ⟨a, ha, hw⟩
    simp [hd, hc, hany]
  · intro a ha hw hd hnd hne
    unfold defaultBound
    have hmem : a ∈ k.args.filter (fun a => a.access.writes) := by
      simp [ha, hw]
    have hne' : (k.args.filter (fun a => a.access.writes)).isEmpty = false := by
      cases hfl : k.args.filter (fun a => a.access.writes) with
      | nil => rw [hfl] at hmem; simp at hmem
      | cons _ _ => rfl
    have hall : (k.args.filter (fun a => a.access.writes)).all (fun a => a.disc) = false := by
      apply Bool.eq_false_iff.mpr
      intro hall
      have := List.all_eq_true.mp hall a hmem
      rw [hnd] at this
      cases this
    have haw : k.allWrites = false := by
      apply Bool.eq_false_iff.mpr
      intro hall
      unfold Kern.allWrites at hall
      have := List.all_eq_true.mp hall a ha
      cases hacc : a.access <;> simp_all [Access.writes]
    simp [hd, hne', hall, haw, Level.isHalo]

/-- **C22_safe for the core fragment**: invokes of any number of kernels with default loop
bounds. -/
theorem invoke_safe (cfg : Cfg) (H : Nat) (env : Nat → Nat) (cont : Bool) (f : Nat)
    (ks : List Kern) (init : RState) (hH : 1 ≤ H) (henv : ExtOK env)
    (hok : ∀ k ∈ ks, KernOK cfg k ∧ SemOK H env cont f k (defaultBound cfg k))
    (hwf : wfState cfg cont init = true) (hi : init.inflight = none) :
    SafeF H env cont f (lower cfg (placeInvoke cfg ks)) init := by
  unfold placeInvoke
  apply placed_safe cfg H env cont f _ init hH henv _ hwf hi
  intro k b hmem
  simp only [List.mem_map] at hmem
  obtain ⟨k', hk', heq⟩ := hmem
  simp only [Prod.mk.injEq] at heq
  obtain ⟨rfl, rfl⟩ := heq
  exact ⟨defaultBound_ok cfg k' (hok k' hk').1, (hok k' hk').2⟩

end C22
