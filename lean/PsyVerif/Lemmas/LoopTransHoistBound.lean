import PsyVerif.Model.LoopTrans
import PsyVerif.Lemmas.MiniFSem
import PsyVerif.Lemmas.LoopTransHoist
/-! # C05 — HoistLoopBoundExprTrans: hoisting bound expressions into fresh scalars -/
namespace C05
open MiniF

theorem hoistOne_frame (f : Nat) (e : Expr) (τ : Store) {x : Nat} (hx : x ≠ f) (i j : Int) :
    (exec (seqs (hoistOne f e).1) τ) (x, i, j) = τ (x, i, j) := by
  unfold hoistOne
  split
  · rfl
  · show (τ.set (f, 0, 0) (eval e τ)) (x, i, j) = _
    rw [Store.set_apply, if_neg (fun h => hx (congrArg Prod.fst h))]

theorem hoistOne_spec (V : Nat → Prop) (f : Nat) (e : Expr) (σ τ : Store)
    (hf : ¬ V f) (he : ∀ x ∈ evars e, V x) (hτ : AgreeOn V τ σ) :
    AgreeOn V (exec (seqs (hoistOne f e).1) τ) σ ∧
    (∀ ρ, AgreeOn (fun x => V x ∨ x = f) ρ (exec (seqs (hoistOne f e).1) τ) →
      eval (hoistOne f e).2 ρ = eval e σ) := by
  constructor
  · intro x hx i j
    rw [hoistOne_frame f e τ (fun h => hf (h ▸ hx))]
    exact hτ x hx i j
  · unfold hoistOne
    split
    · intro ρ hρ
      show eval e ρ = eval e σ
      exact eval_congr (V := V) he (fun x hx i j => (hρ x (Or.inl hx) i j).trans (hτ x hx i j))
    · intro ρ hρ
      show ρ (f, 0, 0) = eval e σ
      rw [hρ f (Or.inr rfl) 0 0]
      show (τ.set (f, 0, 0) (eval e τ)) (f, 0, 0) = _
      rw [Store.set_same]
      exact eval_congr he hτ

theorem runIters_congr {body : Stmt} {V : Nat → Prop} (hV : ∀ x ∈ rvars body, V x) (v : Nat) (lo s : Int)
    (n : Nat) (σ τ : Store) (h : AgreeOn V σ τ) :
    AgreeOn V (runIters (exec body) v lo s n 0 σ) (runIters (exec body) v lo s n 0 τ) := by
  rw [runIters_eq_iters, runIters_eq_iters]
  apply AgreeOn.set
  exact iters_congr v lo s (fun σ' τ' h' => exec_congr (s := body) hV h') n 0 σ τ h

theorem hoistBound_sound (t : HoistBoundTarget)
    (hd : t.fLo ≠ t.fHi ∧ t.fLo ≠ t.fSt ∧ t.fHi ≠ t.fSt)
    (hfresh : ∀ f, f = t.fLo ∨ f = t.fHi ∨ f = t.fSt →
      f ∉ evars t.l.lo ∧ f ∉ evars t.l.hi ∧ f ∉ evars t.l.st ∧ f ∉ rvars t.l.body)
    (σ : Store) :
    ∀ x i j, x ≠ t.fLo → x ≠ t.fHi → x ≠ t.fSt →
      (exec (hoistBoundApply t) σ) (x, i, j) = (exec t.l.stmt σ) (x, i, j) := by
  obtain ⟨⟨v, lo, hi, st, body⟩, fLo, fHi, fSt⟩ := t
  simp only at hd hfresh ⊢
  let V : Nat → Prop := fun x => x ≠ fLo ∧ x ≠ fHi ∧ x ≠ fSt
  have hVe : ∀ e : Expr, (∀ f, f = fLo ∨ f = fHi ∨ f = fSt → f ∉ evars e) → ∀ x ∈ evars e, V x :=
    fun e h x hx => ⟨fun hh => h fLo (Or.inl rfl) (hh ▸ hx), fun hh => h fHi (Or.inr (Or.inl rfl)) (hh ▸ hx),
      fun hh => h fSt (Or.inr (Or.inr rfl)) (hh ▸ hx)⟩
  have hlo := hVe lo (fun f hf => (hfresh f hf).1)
  have hhi := hVe hi (fun f hf => (hfresh f hf).2.1)
  have hst := hVe st (fun f hf => (hfresh f hf).2.2.1)
  have hbody : ∀ x ∈ rvars body, V x :=
    fun x hx => ⟨fun hh => (hfresh fLo (Or.inl rfl)).2.2.2 (hh ▸ hx),
      fun hh => (hfresh fHi (Or.inr (Or.inl rfl))).2.2.2 (hh ▸ hx),
      fun hh => (hfresh fSt (Or.inr (Or.inr rfl))).2.2.2 (hh ▸ hx)⟩
  obtain ⟨A1, S1⟩ := hoistOne_spec V fSt st σ σ (fun h => h.2.2 rfl) hst (AgreeOn.refl V σ)
  generalize hσ1 : exec (seqs (hoistOne fSt st).1) σ = σ1 at A1 S1
  obtain ⟨A2, S2⟩ := hoistOne_spec V fHi hi σ σ1 (fun h => h.2.1 rfl) hhi A1
  generalize hσ2 : exec (seqs (hoistOne fHi hi).1) σ1 = σ2 at A2 S2
  obtain ⟨A3, S3⟩ := hoistOne_spec V fLo lo σ σ2 (fun h => h.1 rfl) hlo A2
  generalize hσ3 : exec (seqs (hoistOne fLo lo).1) σ2 = σ3 at A3 S3
  have e_st : eval (hoistOne fSt st).2 σ3 = eval st σ := by
    apply S1
    intro x hx i j
    rcases hx with hx | hx
    · exact (A3 x hx i j).trans (A1 x hx i j).symm
    · subst hx
      rw [← hσ3, hoistOne_frame fLo lo σ2 (Ne.symm hd.2.1), ← hσ2, hoistOne_frame fHi hi σ1 (Ne.symm hd.2.2)]
  have e_hi : eval (hoistOne fHi hi).2 σ3 = eval hi σ := by
    apply S2
    intro x hx i j
    rcases hx with hx | hx
    · exact (A3 x hx i j).trans (A2 x hx i j).symm
    · subst hx
      rw [← hσ3, hoistOne_frame fLo lo σ2 (Ne.symm hd.1)]
  have e_lo : eval (hoistOne fLo lo).2 σ3 = eval lo σ := by
    apply S3
    intro x hx i j
    rfl
  have hL : exec (hoistBoundApply ⟨⟨v, lo, hi, st, body⟩, fLo, fHi, fSt⟩) σ
      = exec (.loop v (hoistOne fLo lo).2 (hoistOne fHi hi).2 (hoistOne fSt st).2 body) σ3 := by
    simp only [hoistBoundApply]
    rw [exec_seqs_append, exec_seqs_append, exec_seqs_append, hσ1, hσ2, hσ3]
    rfl
  intro x i j h1 h2 h3
  rw [hL]
  show (runIters (exec body) v _ _ _ 0 σ3) (x, i, j) = (runIters (exec body) v _ _ _ 0 σ) (x, i, j)
  rw [e_st, e_hi, e_lo]
  exact runIters_congr hbody v _ _ _ σ3 σ A3 x ⟨h1, h2, h3⟩ i j

end C05
