import PsyVerif.Lemmas.ExprIOMain
/-! No two adjacent operator tokens where the standard does not allow it (`noBadAdj`), for every
text the wide rule writes.  Proved with a one-pass automaton `nbaEnd` that also returns its final
state, so that concatenation is a `bind`. -/
namespace C02

def okStep (p : Option OpTok) (o : OpTok) : Bool :=
  match p with
  | some o1 => adjOk o1 o
  | none => true

/-- scan `ts` remembering the previous token if it was an operator; `none` = bad adjacency found,
`some q` = fine, final state `q` -/
def nbaEnd : Option OpTok → List Tok → Option (Option OpTok)
  | p, [] => some p
  | p, t :: r =>
    match t with
    | .op o => if okStep p o then nbaEnd (some o) r else none
    | _ => nbaEnd none r

theorem nbaEnd_spec : ∀ ts : List Tok, (nbaEnd none ts).isSome = noBadAdj ts ∧
    ∀ o, (nbaEnd (some o) ts).isSome = noBadAdj (.op o :: ts) := by
  intro ts
  induction ts with
  | nil => exact ⟨rfl, fun o => by simp [nbaEnd, noBadAdj]⟩
  | cons t r ih =>
    cases t with
    | op o2 =>
      refine ⟨by simpa [nbaEnd, okStep] using ih.2 o2, fun o => ?_⟩
      simp only [nbaEnd, okStep, noBadAdj]
      by_cases ha : adjOk o o2 = true <;> simp [ha, ih.2 o2]
    | lp => exact ⟨by simpa [nbaEnd, noBadAdj] using ih.1, fun o => by simpa [nbaEnd, noBadAdj] using ih.1⟩
    | rp => exact ⟨by simpa [nbaEnd, noBadAdj] using ih.1, fun o => by simpa [nbaEnd, noBadAdj] using ih.1⟩
    | comma => exact ⟨by simpa [nbaEnd, noBadAdj] using ih.1, fun o => by simpa [nbaEnd, noBadAdj] using ih.1⟩
    | pct => exact ⟨by simpa [nbaEnd, noBadAdj] using ih.1, fun o => by simpa [nbaEnd, noBadAdj] using ih.1⟩
    | name n => exact ⟨by simpa [nbaEnd, noBadAdj] using ih.1, fun o => by simpa [nbaEnd, noBadAdj] using ih.1⟩
    | fn n => exact ⟨by simpa [nbaEnd, noBadAdj] using ih.1, fun o => by simpa [nbaEnd, noBadAdj] using ih.1⟩
    | kw n => exact ⟨by simpa [nbaEnd, noBadAdj] using ih.1, fun o => by simpa [nbaEnd, noBadAdj] using ih.1⟩
    | lit l => exact ⟨by simpa [nbaEnd, noBadAdj] using ih.1, fun o => by simpa [nbaEnd, noBadAdj] using ih.1⟩

theorem nbaEnd_append : ∀ (A B : List Tok) (p : Option OpTok),
    nbaEnd p (A ++ B) = (nbaEnd p A).bind (fun q => nbaEnd q B) := by
  intro A
  induction A with
  | nil => intro B p; simp [nbaEnd]
  | cons t r ih =>
    intro B p
    cases t <;> simp only [List.cons_append, nbaEnd, ih]
    split <;> simp

/-- `NB T`: no bad adjacency in `T` and `T` does not end with an operator -/
def NB (T : List Tok) : Prop := nbaEnd none T = some none

theorem NB.noBadAdj {T} (h : NB T) : noBadAdj T = true := by
  rw [← (nbaEnd_spec T).1, h]; rfl

theorem NB.nil : NB [] := rfl

theorem NB.append {A B} (ha : NB A) (hb : NB B) : NB (A ++ B) := by
  unfold NB at *
  rw [nbaEnd_append, ha]
  exact hb

def Tok.isOp : Tok → Bool
  | .op _ => true
  | _ => false

theorem NB.cons {t X} (ht : t.isOp = false) (h : NB X) : NB (t :: X) := by
  unfold NB at *
  cases t <;> simp_all [nbaEnd, Tok.isOp]

theorem NB.single {t} (ht : t.isOp = false) : NB [t] := NB.cons ht NB.nil

theorem NB.snoc {A t} (ha : NB A) (ht : t.isOp = false) : NB (A ++ [t]) := ha.append (NB.single ht)

/-- an operator in front of `X`: fine if `X` does not start with an operator or starts with a compatible one -/
theorem NB.opCons {o X} (h : NB X) (hne : X ≠ [])
    (hh : ∀ o2 r, X = .op o2 :: r → adjOk o o2 = true) : NB (.op o :: X) := by
  unfold NB at *
  cases X with
  | nil => exact absurd rfl hne
  | cons t r =>
    cases t with
    | op o2 =>
      have := hh o2 r rfl
      simp only [nbaEnd, okStep, if_true] at h ⊢
      simp only [this, if_true]
      exact h
    | lp | rp | comma | pct | name _ | fn _ | kw _ | lit _ =>
      simp only [nbaEnd, okStep, if_true] at h ⊢
      exact h

theorem NB.wrap {b X} (h : NB X) : NB (C02.wrap b X) := by
  cases b with
  | false => exact h
  | true => exact NB.cons rfl (h.snoc rfl)

/-! ### which operator can start a written expression, and at which level -/

theorem prec_le_need_left (b : BinOp) (q : Bool) (gp : Option (BinOp × Bool)) :
    b.prec ≤ need ⟨.bin b false q, gp⟩ := by
  cases b <;> simp [need, BinOp.prec, BinOp.tok, OpTok.prec]

theorem lvl_of_not_wrapped {c e} (h : wrapped c e = false) : lvl c e = natLevel e := by
  simp [lvl, h]

theorem head_level : ∀ (e : Expr) (c : Ctx), wf .expr e = true → c.ok →
    ∀ o r, render .wide c e = .op o :: r → ∃ u : UnOp, o = u.tok ∧ lvl c e ≤ u.prec := by
  intro e
  induction e with
  | lit l =>
    intro c _ _ o r h
    rw [render_eq] at h
    cases hwr : wrapped c (.lit l) with
    | true => simp [hwr, C02.wrap] at h
    | false =>
      rw [lvl_of_not_wrapped hwr]
      simp only [hwr, C02.wrap, body, Bool.false_eq_true, if_false] at h
      rcases Option.eq_none_or_eq_some l.sign.unop with hs | ⟨u, hs⟩
      · simp [sign_toks_of_none hs] at h
      · simp only [sign_toks_of_unop hs, List.cons_append, List.nil_append, List.cons.injEq,
          Tok.op.injEq] at h
        exact ⟨u, h.1.symm, by simp [natLevel, natSign, hs]⟩
  | un u x _ =>
    intro c _ _ o r h
    rw [render_eq] at h
    cases hwr : wrapped c (.un u x) with
    | true => simp [hwr, C02.wrap] at h
    | false =>
      rw [lvl_of_not_wrapped hwr]
      simp only [hwr, C02.wrap, body, Bool.false_eq_true, if_false, List.cons.injEq, Tok.op.injEq] at h
      exact ⟨u, h.1.symm, by simp [natLevel]⟩
  | bin b l r ihl _ =>
    intro c hw hc o r' h
    simp only [wf, Bool.and_eq_true, bne_iff_ne, ne_eq] at hw
    obtain ⟨⟨hb, hwl⟩, _⟩ := hw
    rw [render_eq] at h
    cases hwr : wrapped c (.bin b l r) with
    | true => simp [hwr, C02.wrap] at h
    | false =>
      rw [lvl_of_not_wrapped hwr]
      simp only [hwr, C02.wrap, body, Bool.false_eq_true, if_false] at h
      have okl : (⟨.bin b false (decide (l = r)), childGp c⟩ : Ctx).ok := ⟨by simp, hb⟩
      obtain ⟨t, rl, h1, _⟩ := render_head .wide l ⟨.bin b false (decide (l = r)), childGp c⟩ hwl
      rw [h1] at h
      simp only [List.cons_append, List.cons.injEq] at h
      obtain ⟨ht, _⟩ := h
      subst ht
      obtain ⟨v, hv, hlv⟩ := ihl _ hwl okl o rl h1
      refine ⟨v, hv, ?_⟩
      have h2 := need_le_lvl _ okl l (wf_not_rem hwl)
      have h3 := prec_le_need_left b (decide (l = r)) (childGp c)
      simp only [natLevel]
      omega
  | part n a nx _ _ => intro c _ _ o r h; rw [render_part] at h; simp at h
  | call f a _ => intro c _ _ o r h; simp [render] at h
  | nil => intro c hw; simp [wf] at hw
  | cons k x r _ _ => intro c hw; simp [wf] at hw

theorem adj_un (u v : UnOp) (h : u.prec + 1 ≤ v.prec) : adjOk u.tok v.tok = true := by
  cases u <;> cases v <;> simp_all [UnOp.prec, UnOp.tok, OpTok.prec, adjOk]

theorem adj_bin (b : BinOp) (v : UnOp) (q : Bool) (gp : Option (BinOp × Bool)) (hb : b ≠ .rem)
    (h : need ⟨.bin b true q, gp⟩ ≤ v.prec) : adjOk b.tok v.tok = true := by
  cases b <;> cases v <;> simp_all [need, BinOp.prec, UnOp.prec, BinOp.tok, UnOp.tok, OpTok.prec, adjOk]

/-! ### the induction -/

def AExpr (e : Expr) : Prop := wf .expr e = true → ∀ c : Ctx, c.ok → NB (render .wide c e)
def AList (e : Expr) : Prop := e ≠ .nil → NB (render .wide .top e)

theorem render_ne_nil (m : WMode) (e : Expr) (c : Ctx) (hw : wf .expr e = true) : render m c e ≠ [] := by
  obtain ⟨t, r, h, _⟩ := render_head m e c hw
  rw [h]; simp

theorem adj_lit (l : Lit) : AExpr (.lit l) := by
  intro _ c _
  rw [render_eq]
  apply NB.wrap
  simp only [body]
  rcases Option.eq_none_or_eq_some l.sign.unop with hs | ⟨u, hs⟩
  · rw [sign_toks_of_none hs]; exact NB.single rfl
  · rw [sign_toks_of_unop hs]
    exact NB.opCons (NB.single rfl) (by simp) (fun o2 r h => by simp at h)

theorem adj_un_step (u : UnOp) (x : Expr) (ih : AExpr x) : AExpr (.un u x) := by
  intro hw c _
  simp only [wf] at hw
  rw [render_eq]
  apply NB.wrap
  simp only [body]
  have ok : (⟨.un u, none⟩ : Ctx).ok := trivial
  refine NB.opCons (ih hw _ ok) (render_ne_nil _ _ _ hw) ?_
  intro o2 r h
  obtain ⟨v, hv, hlv⟩ := head_level x _ hw ok o2 r h
  subst hv
  have hl := need_le_lvl ⟨.un u, none⟩ ok x (wf_not_rem hw)
  exact adj_un u v (by simp only [need] at hl; omega)

theorem adj_bin_step (b : BinOp) (l r : Expr) (ihl : AExpr l) (ihr : AExpr r) : AExpr (.bin b l r) := by
  intro hw c _
  simp only [wf, Bool.and_eq_true, bne_iff_ne, ne_eq] at hw
  obtain ⟨⟨hb, hwl⟩, hwr⟩ := hw
  rw [render_eq]
  apply NB.wrap
  simp only [body]
  have okl : (⟨.bin b false (decide (l = r)), childGp c⟩ : Ctx).ok := ⟨by simp, hb⟩
  have okr : (⟨.bin b true true, childGp c⟩ : Ctx).ok := ⟨by simp, hb⟩
  refine (ihl hwl _ okl).append (NB.opCons (ihr hwr _ okr) (render_ne_nil _ _ _ hwr) ?_)
  intro o2 r' h
  obtain ⟨v, hv, hlv⟩ := head_level r _ hwr okr o2 r' h
  subst hv
  have hl := need_le_lvl _ okr r (wf_not_rem hwr)
  exact adj_bin b v true (childGp c) hb (by omega)

theorem adj_part (n : Nat) (a nx : Expr) (iha : AList a) (ihn : AList nx) (c : Ctx) :
    NB (render .wide c (.part n a nx)) := by
  rw [render_part]
  refine NB.cons rfl (NB.append ?_ ?_)
  · by_cases ha : a = .nil
    · simp [ha, NB.nil]
    · simp only [ha, if_false]
      exact NB.cons rfl ((iha ha).snoc rfl)
  · by_cases hx : nx = .nil
    · simp [hx, NB.nil]
    · simp only [hx, if_false]
      exact NB.cons rfl (ihn hx)

theorem adj_call (f : Nat) (a : Expr) (iha : AList a) (ha : a ≠ .nil) (c : Ctx) :
    NB (render .wide c (.call f a)) := by
  simp only [render]
  exact NB.cons rfl (NB.cons rfl ((iha ha).snoc rfl))

theorem adj_cons (kw : Option Nat) (x rest : Expr) (ihx : AExpr x) (ihr : AList rest)
    (hwx : wf .expr x = true) : NB (render .wide .top (.cons kw x rest)) := by
  rw [render_cons]
  refine NB.append (NB.append ?_ (ihx hwx .top trivial)) ?_
  · cases kw with
    | none => exact NB.nil
    | some k => exact NB.single rfl
  · by_cases hr : rest = .nil
    · simp [hr, NB.nil]
    · simp only [hr, if_false]
      exact NB.cons rfl (ihr hr)

/-- expression sort: `AExpr`; argument lists and member chains (well-formed at their sort): `AList` -/
theorem adj_sorted : ∀ e : Expr,
    AExpr e ∧ (wf .args e = true → AList e) ∧ (wf .chain e = true → AList e) := by
  intro e
  induction e with
  | lit l => exact ⟨adj_lit l, fun h => by simp [wf] at h, fun h => by simp [wf] at h⟩
  | un u x ih => exact ⟨adj_un_step u x ih.1, fun h => by simp [wf] at h, fun h => by simp [wf] at h⟩
  | bin b l r ihl ihr =>
    exact ⟨adj_bin_step b l r ihl.1 ihr.1, fun h => by simp [wf] at h, fun h => by simp [wf] at h⟩
  | part n a nx iha ihn =>
    have key : wf .args a = true → wf .chain nx = true → ∀ c, NB (render .wide c (.part n a nx)) :=
      fun h1 h2 c => adj_part n a nx (iha.2.1 h1) (ihn.2.2 h2) c
    refine ⟨fun hw c _ => ?_, fun h => by simp [wf] at h, fun hw _ => ?_⟩
    · simp only [wf, Bool.and_eq_true] at hw; exact key hw.1 hw.2 c
    · simp only [wf, Bool.and_eq_true] at hw; exact key hw.1 hw.2 .top
  | call f a iha =>
    refine ⟨fun hw c _ => ?_, fun h => by simp [wf] at h, fun h => by simp [wf] at h⟩
    simp only [wf, Bool.and_eq_true] at hw
    have ha : a ≠ .nil := by intro h; subst h; simp at hw
    exact adj_call f a (iha.2.1 hw.1.2) ha c
  | nil => exact ⟨fun h => by simp [wf] at h, fun _ h => absurd rfl h, fun _ h => absurd rfl h⟩
  | cons k x r ihx ihr =>
    refine ⟨fun h => by simp [wf] at h, fun hw _ => ?_, fun h => by simp [wf] at h⟩
    simp only [wf, Bool.and_eq_true] at hw
    exact adj_cons k x r ihx.1 (ihr.2.1 hw.2) hw.1

theorem noBadAdj_wide (e : Expr) (hw : wf .expr e = true) (c : Ctx) (hc : c.ok) :
    noBadAdj (render .wide c e) = true :=
  ((adj_sorted e).1 hw c hc).noBadAdj

end C02
