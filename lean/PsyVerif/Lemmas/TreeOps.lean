import PsyVerif.Lemmas.TreeHeap
/-! Helper lemmas for C14: each ChildrenList operation of the model preserves `WF`, and the
facts about `popAll` and the ancestor walk that atomicity of the `children` setter needs. -/
namespace C14

variable {K : Kinds} {h : Heap}

theorem clampIndex_le (len : Nat) (i : Int) : clampIndex len i ≤ len := by
  unfold clampIndex; split <;> omega

/-- decomposition of a list around an existing position -/
theorem split_at {l : List Id} {k : Nat} {old : Id} (hk : l[k]? = some old) :
    l = l.take k ++ old :: l.drop (k + 1) ∧ k < l.length := by
  obtain ⟨hlt, rfl⟩ := List.getElem?_eq_some_iff.mp hk
  refine ⟨?_, hlt⟩
  have := @List.set_eq_take_append_cons_drop _ l k l[k]
  simp only [hlt, if_true] at this
  rw [← this]; simp

theorem valid_append {l xs : List Id} {p : Id}
    (hl : ∀ i c, l[i]? = some c → validAt K h p i c = true)
    (hx : validFrom K h p xs l.length = true) :
    ∀ i c, (l ++ xs)[i]? = some c → validAt K h p i c = true := by
  intro i c hc
  rw [List.getElem?_append] at hc
  split at hc
  · exact hl i c hc
  · rename_i hge
    have := validFrom_iff.mp hx (i - l.length) c hc
    rwa [show l.length + (i - l.length) = i by omega] at this

/-! ## WF preservation of the list operations -/

theorem append_wf (wf : WF K h) (p x : Id) : WF K (append K h p x).1 := by
  unfold append
  simp only
  split
  · exact wf
  · split
    · exact wf
    · rename_i hv ho
      simp only [Bool.not_eq_true', Bool.not_eq_false, Bool.and_eq_true] at hv ho
      have hun := unlisted_of_orphanOk wf ho.1
      have := wf_edit wf p (h.children p ++ [x]) [] [x]
        (by
          rw [List.nodup_append]
          refine ⟨wf.nodup p, by simp, ?_⟩
          intro a ha b hb
          simp at hb; subst hb
          intro hab; subst hab; exact hun p ha)
        (by intro c; simp)
        (by simp)
        (by intro y hy; simp at hy; subst hy; exact hun)
        (valid_append (wf.valid p) (by simp [validFrom, hv]))
      exact this

theorem insert_wf (wf : WF K h) (p : Id) (i : Int) (x : Id) : WF K (insert K h p i x).1 := by
  unfold insert
  simp only
  split
  · exact wf
  · split
    · exact wf
    · split
      · exact wf
      · rename_i hv ho hd
        simp only [Bool.not_eq_true', Bool.not_eq_false, Bool.and_eq_true] at hv ho hd
        have hun := unlisted_of_orphanOk wf ho.1
        have hk := clampIndex_le (h.children p).length i
        generalize clampIndex (h.children p).length i = k at *
        have := wf_edit wf p ((h.children p).insertIdx k x) [] [x]
          (by
            rw [(List.perm_insertIdx x _ hk).nodup_iff, List.nodup_cons]
            exact ⟨hun p, wf.nodup p⟩)
          (by intro c; rw [List.mem_insertIdx hk]; simp [or_comm])
          (by simp)
          (by intro y hy; simp at hy; subst hy; exact hun)
          (by
            intro j c hc
            rw [List.getElem?_insertIdx] at hc
            split at hc
            · exact wf.valid p j c hc
            · split at hc
              · rename_i hjk
                subst hjk
                simp only [hk, if_true, Option.some.injEq] at hc
                subst hc; exact hv
              · rename_i h1 h2
                have := validFrom_iff.mp hd (j - 1 - k) c (by
                  rw [List.getElem?_drop, show k + (j - 1 - k) = j - 1 by omega]; exact hc)
                rwa [show k + 1 + (j - 1 - k) = j by omega] at this)
        exact this

theorem setitem_wf (wf : WF K h) (p : Id) (i : Int) (x : Id) : WF K (setitem K h p i x).1 := by
  unfold setitem
  simp only
  split
  · exact wf
  · rename_i k _
    split
    · exact wf
    · split
      · exact wf
      · split
        · exact wf
        · rename_i hv ho _ old hk
          simp only [Bool.not_eq_true', Bool.not_eq_false, Bool.and_eq_true] at hv ho
          have hun := unlisted_of_orphanOk wf ho.1
          obtain ⟨hl, hlt⟩ := split_at hk
          have hnd := wf.nodup p
          have hset : (h.children p).set k x =
              (h.children p).take k ++ x :: (h.children p).drop (k + 1) := by
            rw [List.set_eq_take_append_cons_drop]; simp [hlt]
          have hxl : x ∉ h.children p := hun p
          rw [hl] at hnd hxl
          simp only [List.nodup_append, List.nodup_cons, List.mem_append, List.mem_cons,
            not_or] at hnd hxl
          have := wf_edit wf p ((h.children p).set k x) [old] [x]
            (by
              rw [hset]
              simp only [List.nodup_append, List.nodup_cons, List.mem_cons]
              refine ⟨hnd.1, ⟨hxl.2.2, hnd.2.1.2⟩, ?_⟩
              intro a ha b hb
              rcases hb with rfl | hb
              · intro hab; subst hab; exact hxl.1 ha
              · exact hnd.2.2 a ha b (Or.inr hb))
            (by
              intro c
              rw [hset]
              conv => rhs; rw [hl]
              simp only [List.mem_append, List.mem_cons, List.not_mem_nil, or_false]
              constructor
              · rintro (hc | rfl | hc)
                · exact Or.inl ⟨Or.inl hc, fun e => hnd.2.2 c hc old (Or.inl rfl) e⟩
                · exact Or.inr rfl
                · exact Or.inl ⟨Or.inr (Or.inr hc), fun e => hnd.2.1.1 (e ▸ hc)⟩
              · rintro (⟨hc | rfl | hc, hne⟩ | rfl)
                · exact Or.inl hc
                · exact absurd rfl hne
                · exact Or.inr (Or.inr hc)
                · exact Or.inr (Or.inl rfl))
            (by intro c hc; simp at hc; subst hc; exact List.mem_of_getElem? hk)
            (by intro y hy; simp at hy; subst hy; exact hun)
            (by
              intro j c hc
              rw [List.getElem?_set] at hc
              split at hc
              · rename_i hkj; subst hkj
                simp [hlt] at hc; subst hc; exact hv
              · exact wf.valid p j c hc)
          exact this

theorem delAt_wf (wf : WF K h) (p : Id) (k : Nat) : WF K (delAt K h p k).1 := by
  unfold delAt
  simp only
  split
  · exact wf
  · split
    · exact wf
    · rename_i hd _ old hk
      simp only [Bool.not_eq_true', Bool.not_eq_false] at hd
      obtain ⟨hl, hlt⟩ := split_at hk
      have hnd := wf.nodup p
      have her : (h.children p).eraseIdx k = (h.children p).take k ++ (h.children p).drop (k + 1) :=
        List.eraseIdx_eq_take_drop_succ ..
      have hnd' := hnd
      rw [hl] at hnd'
      simp only [List.nodup_append, List.nodup_cons, List.mem_cons] at hnd'
      have := wf_edit wf p ((h.children p).eraseIdx k) [old] []
        (hnd.eraseIdx k)
        (by
          intro c
          rw [her]
          conv => rhs; rw [hl]
          simp only [List.mem_append, List.mem_cons, List.not_mem_nil, or_false]
          constructor
          · rintro (hc | hc)
            · exact ⟨Or.inl hc, fun e => hnd'.2.2 c hc old (Or.inl rfl) e⟩
            · exact ⟨Or.inr (Or.inr hc), fun e => hnd'.2.1.1 (e ▸ hc)⟩
          · rintro ⟨hc | rfl | hc, hne⟩
            · exact Or.inl hc
            · exact absurd rfl hne
            · exact Or.inr hc)
        (by intro c hc; simp at hc; subst hc; exact List.mem_of_getElem? hk)
        (by simp)
        (by
          intro j c hc
          rw [List.getElem?_eraseIdx] at hc
          split at hc
          · exact wf.valid p j c hc
          · have := validFrom_iff.mp hd (j - k) c (by
              rw [List.getElem?_drop, show k + 1 + (j - k) = j + 1 by omega]; exact hc)
            rwa [show k + (j - k) = j by omega] at this)
      exact this

theorem delitem_wf (wf : WF K h) (p : Id) (i : Int) : WF K (delitem K h p i).1 := by
  unfold delitem
  split
  · exact wf
  · exact delAt_wf wf p _

theorem remove_wf (wf : WF K h) (p x : Id) : WF K (remove K h p x).1 := by
  unfold remove
  simp only
  split
  · exact delAt_wf wf p _
  · exact wf

theorem extend_wf (wf : WF K h) (p : Id) (xs : List Id) : WF K (extend K h p xs).1 := by
  unfold extend
  simp only
  split
  · exact wf
  · split
    · exact wf
    · split
      · exact wf
      · rename_i hv ho hn
        simp only [Bool.not_eq_true', Bool.not_eq_false, List.all_eq_true, Bool.and_eq_true] at hv ho hn
        have hun : ∀ x ∈ xs, ∀ q, x ∉ h.children q :=
          fun x hx => unlisted_of_orphanOk wf (ho x hx).1
        have := wf_edit wf p (h.children p ++ xs) [] xs
          (by
            rw [List.nodup_append]
            refine ⟨wf.nodup p, nodupB_iff.mp hn, ?_⟩
            intro a ha b hb hab; subst hab; exact hun a hb p ha)
          (by intro c; simp)
          (by simp)
          hun
          (valid_append (wf.valid p) hv)
        exact this

theorem reverse_wf (wf : WF K h) (p : Id) : WF K (reverse K h p).1 := by
  unfold reverse
  simp only
  split
  · exact wf
  · rename_i hv
    simp only [Bool.not_eq_true', Bool.not_eq_false] at hv
    have := wf_edit wf p (h.children p).reverse [] []
      ((List.reverse_perm _).nodup_iff.mpr (wf.nodup p))
      (by intro c; simp)
      (by simp)
      (by simp)
      (by
        intro j c hc
        have := validFrom_iff.mp hv j c hc
        simpa using this)
    exact this

theorem clear_wf (wf : WF K h) (p : Id) : WF K (clear h p).1 := by
  unfold clear
  have := wf_edit wf p [] (h.children p) []
    (by simp) (by intro c; simp) (by simp) (by simp) (by simp)
  exact this

/-! ## `pop_all_children` -/

theorem pop_last (K : Kinds) (h : Heap) (p : Id) (init : List Id) (old : Id)
    (hl : h.children p = init ++ [old]) :
    pop K h p (-1) = ((h.unlink old).setKids p init, .ok) := by
  unfold pop delitem positiveIndex delAt
  simp only [hl, List.length_append, List.length_singleton]
  have h1 : ¬ (0 : Int) ≤ -1 := by omega
  have h2 : (0 : Int) ≤ -1 + ((init.length + 1 : Nat) : Int) := by omega
  have h3 : (-1 + ((init.length + 1 : Nat) : Int)).toNat = init.length := by omega
  simp only [h1, h2, if_true, if_false, h3]
  have h4 : (init ++ [old]).eraseIdx init.length = init := by
    rw [List.eraseIdx_append_of_length_le (Nat.le_refl _)]; simp
  simp [validFrom, h4]

theorem popAll_wf (wf : WF K h) (p : Id) (f : Nat) : WF K (popAll K p f h).1 := by
  induction f generalizing h with
  | zero => exact wf
  | succ f ih =>
    unfold popAll
    split
    · exact wf
    · have hw : WF K (pop K h p (-1)).1 := delitem_wf wf p (-1)
      split
      · rename_i h' heq
        rw [heq] at hw
        exact ih hw
      · rename_i r _
        exact hw

/-- `pop_all_children` never fails and its effect is that of `clear` (no hypothesis). -/
theorem popAll_spec (K : Kinds) (p : Id) (f : Nat) (h : Heap) (hf : (h.children p).length ≤ f) :
    ∃ H, popAll K p f h = (H, .ok) ∧
      (∀ q, H.children q = if q = p then [] else h.children q) ∧
      H.kind = h.kind ∧ H.size = h.size ∧
      (∀ c, H.parent c = if c ∈ h.children p then none else h.parent c) ∧
      (∀ c, H.ctor c = if c ∈ h.children p then false else h.ctor c) := by
  induction f generalizing h with
  | zero =>
    have : h.children p = [] := List.length_eq_zero_iff.mp (by omega)
    refine ⟨h, rfl, ?_, rfl, rfl, ?_, ?_⟩
    · intro q; by_cases hq : q = p <;> simp [hq, this]
    · simp [this]
    · simp [this]
  | succ f ih =>
    unfold popAll
    by_cases hne : h.children p = []
    · simp only [hne, List.isEmpty_nil, if_true]
      refine ⟨h, rfl, ?_, rfl, rfl, ?_, ?_⟩
      · intro q; by_cases hq : q = p <;> simp [hq, hne]
      · simp [hne]
      · simp [hne]
    · have hl := (List.dropLast_concat_getLast hne).symm
      generalize (h.children p).dropLast = init at hl
      generalize (h.children p).getLast hne = old at hl
      have hpop := pop_last K h p init old hl
      have hemp : (h.children p).isEmpty = false := by simp [hl]
      simp only [hemp, hpop]
      obtain ⟨H, hH, c1, c2, c3, c4, c5⟩ := ih ((h.unlink old).setKids p init)
        (by simp [hl] at hf ⊢; omega)
      refine ⟨H, by simpa using hH, ?_, ?_, ?_, ?_, ?_⟩
      · intro q; rw [c1]; by_cases hq : q = p <;> simp [hq]
      · rw [c2]; rfl
      · rw [c3]; rfl
      · intro c; rw [c4, hl]
        by_cases hc : c ∈ init <;> by_cases hco : c = old <;> simp [hc, hco]
      · intro c; rw [c5, hl]
        by_cases hc : c ∈ init <;> by_cases hco : c = old <;> simp [hc, hco]

/-! ## the ancestor walk is monotone in the parent links -/

theorem onChain_mono {h H : Heap} (hp : ∀ c, H.parent c = h.parent c ∨ H.parent c = none)
    (x : Id) (f : Nat) (o : Option Id) : onChain H x f o = true → onChain h x f o = true := by
  induction f generalizing o with
  | zero => cases o <;> simp [onChain]
  | succ f ih =>
    cases o with
    | none => simp [onChain]
    | some c =>
      simp only [onChain]
      split
      · intro _; rfl
      · rcases hp c with e | e
        · rw [e]; exact ih _
        · rw [e]; simp [onChain]

end C14
