import PsyVerif.Model.LoopTrans
import PsyVerif.Lemmas.LoopTransAccess
/-! # C05 — what `LoopFuseTrans.validate` guarantees about the loop HEADERS

`fuseValidate` gathers its access lists from the whole loop node (`VariablesAccessInfo(node)`:
loop variable, start, stop, step, then the body).  The reads of the header are therefore the
FIRST accesses of every header variable, and the scalar rule (first access must be a WRITE in
both loops) as well as the array rule (the first access is compared with itself and must mention
the loop variable) refuse every pair in which a header variable is written by either body.
This file derives that fact from the validate model (`fuseValidate_header_stable`); the variant
`fuseValidateBodyOnly`, which gathers the accesses from the two bodies only, does not have it.
Core Lean only. -/
namespace C05
open MiniF

/-- variables of the start, stop and step expressions -/
def hdrVars (l : LoopN) : List Nat := eVars l.lo ++ eVars l.hi ++ eVars l.st

/-- one step of the loop over the signatures of the first loop -/
def fuseVarStep (v : Nat) (acc1 acc2 : List Acc) (x : Nat) : Except Refusal Unit :=
  let i1 := accOf x acc1
  let i2 := accOf x acc2
  if x == v || i2.length == 0 then .ok ()
  else if i1.all (fun a => !a.write) && i2.all (fun a => !a.write) then .ok ()
  else if i1.any (fun a => a.subs.length > 0) then fuseArrayCheck v (i1 ++ i2)
  else fuseScalarCheck i1 i2

/-- the part of `validate` after the position and iteration-space tests, for given access lists -/
def fuseDeps (v1 v2 : Nat) (acc1 acc2 : List Acc) : Except Refusal Unit :=
  if v1 != v2 && ((accOf v2 acc1).length > 0 || (accOf v1 acc2).length > 0) then
    .error .loopVarUsed
  else
  (dedup (acc1.map (·.x))).foldl (fun (r : Except Refusal Unit) (x : Nat) =>
    match r with
    | .error e => .error e
    | .ok () => fuseVarStep v1 acc1 acc2 x) (.ok ())

theorem fuseValidate_eq (t : FuseTarget) : fuseValidate t =
    (if !t.adjacent then .error .notAdjacent else
     if !(t.l1.lo == t.l2.lo && t.l1.hi == t.l2.hi && t.l1.st == t.l2.st) then .error .boundsDiffer else
     fuseDeps t.l1.v t.l2.v (sAcc t.l1.stmt) (sAcc t.l2.stmt)) := rfl

/-- **the seeded weakening**: `VariablesAccessInfo(node.loop_body)` instead of
`VariablesAccessInfo(node)` — the header reads are no longer part of the access lists -/
def fuseValidateBodyOnly (t : FuseTarget) : Except Refusal Unit :=
  if !t.adjacent then .error .notAdjacent else
  if !(t.l1.lo == t.l2.lo && t.l1.hi == t.l2.hi && t.l1.st == t.l2.st) then .error .boundsDiffer else
  fuseDeps t.l1.v t.l2.v (sAcc t.l1.body) (sAcc t.l2.body)

/-! ## the sequential check fold -/

theorem fuseFold_error (f : Nat → Except Refusal Unit) (l : List Nat) (e : Refusal) :
    l.foldl (fun (r : Except Refusal Unit) (x : Nat) =>
      match r with
      | .error e => .error e
      | .ok () => f x) (.error e) = .error e := by
  induction l with
  | nil => rfl
  | cons a l ih => simpa only [List.foldl_cons] using ih

theorem fuseFold_ok (f : Nat → Except Refusal Unit) : ∀ (l : List Nat),
    l.foldl (fun (r : Except Refusal Unit) (x : Nat) =>
      match r with
      | .error e => .error e
      | .ok () => f x) (.ok ()) = .ok () → ∀ x ∈ l, f x = .ok ()
  | [], _, x, hx => by cases hx
  | a :: l, h, x, hx => by
    simp only [List.foldl_cons] at h
    cases hfa : f a with
    | error e => rw [hfa, fuseFold_error] at h; cases h
    | ok u =>
      cases u
      rw [hfa] at h
      rcases List.mem_cons.mp hx with rfl | hx'
      · exact hfa
      · exact fuseFold_ok f l h x hx'

theorem mem_dedup {x : Nat} : ∀ {l : List Nat}, x ∈ dedup l ↔ x ∈ l
  | [] => by simp [dedup]
  | a :: l => by
    have ih := mem_dedup (x := x) (l := l)
    simp only [dedup, List.mem_cons, List.mem_filter, bne_iff_ne, ne_eq, ih]
    constructor
    · rintro (h | ⟨h, _⟩)
      · exact Or.inl h
      · exact Or.inr h
    · rintro (h | h)
      · exact Or.inl h
      · by_cases hx : x = a
        · exact Or.inl hx
        · exact Or.inr ⟨h, hx⟩

/-! ## accesses of expressions and of a loop node -/

/-- accesses of an expression are READs whose subscripts only mention variables of the expression -/
theorem eAcc_read {e : Expr} : ∀ a ∈ eAcc e, a.write = false ∧ ∀ s ∈ a.subs, ∀ y ∈ eVars s, y ∈ eVars e := by
  induction e with
  | lit n => intro a ha; simp [eAcc] at ha
  | var x =>
    intro a ha
    simp only [eAcc, List.mem_singleton] at ha
    subst ha
    exact ⟨rfl, fun s hs => by cases hs⟩
  | idx1 arr i ih =>
    intro a ha
    simp only [eAcc, List.mem_append, List.mem_singleton] at ha
    rcases ha with ha | ha
    · obtain ⟨h1, h2⟩ := ih a ha
      exact ⟨h1, fun s hs y hy => by simp only [eVars, List.mem_cons]; exact Or.inr (h2 s hs y hy)⟩
    · subst ha
      refine ⟨rfl, fun s hs y hy => ?_⟩
      simp only [List.mem_singleton] at hs
      subst hs
      simp only [eVars, List.mem_cons]; exact Or.inr hy
  | idx2 arr i j ihi ihj =>
    intro a ha
    simp only [eAcc, List.mem_append, List.mem_singleton] at ha
    rcases ha with (ha | ha) | ha
    · obtain ⟨h1, h2⟩ := ihi a ha
      exact ⟨h1, fun s hs y hy => by
        simp only [eVars, List.mem_cons, List.mem_append]; exact Or.inr (Or.inl (h2 s hs y hy))⟩
    · obtain ⟨h1, h2⟩ := ihj a ha
      exact ⟨h1, fun s hs y hy => by
        simp only [eVars, List.mem_cons, List.mem_append]; exact Or.inr (Or.inr (h2 s hs y hy))⟩
    · subst ha
      refine ⟨rfl, fun s hs y hy => ?_⟩
      simp only [List.mem_cons, List.mem_nil_iff, or_false] at hs
      simp only [eVars, List.mem_cons, List.mem_append]
      rcases hs with hs | hs
      · subst hs; exact Or.inr (Or.inl hy)
      · subst hs; exact Or.inr (Or.inr hy)
  | un op e ih => exact ih
  | bin op a b iha ihb =>
    intro c hc
    simp only [eAcc, List.mem_append] at hc
    rcases hc with hc | hc
    · obtain ⟨h1, h2⟩ := iha c hc
      exact ⟨h1, fun s hs y hy => by simp only [eVars, List.mem_append]; exact Or.inl (h2 s hs y hy)⟩
    · obtain ⟨h1, h2⟩ := ihb c hc
      exact ⟨h1, fun s hs y hy => by simp only [eVars, List.mem_append]; exact Or.inr (h2 s hs y hy)⟩

theorem accOf_loop (x : Nat) (l : LoopN) (hx : x ≠ l.v) :
    accOf x (sAcc l.stmt) = accOf x (eAcc l.lo ++ eAcc l.hi ++ eAcc l.st) ++ accOf x (sAcc l.body) := by
  have hx' : (l.v == x) = false := by simpa using Ne.symm hx
  simp only [LoopN.stmt, sAcc, accOf, List.filter_append, List.filter_cons, List.filter_nil, hx']
  simp

/-- the first access of a header variable in the loop node is a header READ whose subscripts
mention header variables only -/
theorem accOf_header (x : Nat) (l : LoopN) (hx : x ≠ l.v) (hm : x ∈ hdrVars l) :
    ∃ hd rest, accOf x (sAcc l.stmt) = hd :: rest ∧ hd.x = x ∧ hd.write = false ∧
      ∀ s ∈ hd.subs, ∀ y ∈ eVars s, y ∈ hdrVars l := by
  rw [accOf_loop x l hx]
  have hpos : 0 < (accOf x (eAcc l.lo ++ eAcc l.hi ++ eAcc l.st)).length := by
    simp only [hdrVars, List.mem_append] at hm
    simp only [accOf_append, List.length_append]
    rcases hm with (h | h) | h
    · have := accOf_pos_of_eVars h; omega
    · have := accOf_pos_of_eVars h; omega
    · have := accOf_pos_of_eVars h; omega
  cases hh : accOf x (eAcc l.lo ++ eAcc l.hi ++ eAcc l.st) with
  | nil => rw [hh] at hpos; simp at hpos
  | cons hd r =>
    refine ⟨hd, r ++ accOf x (sAcc l.body), rfl, ?_⟩
    have hmem : hd ∈ accOf x (eAcc l.lo ++ eAcc l.hi ++ eAcc l.st) := by rw [hh]; simp
    simp only [accOf, List.mem_filter, List.mem_append, beq_iff_eq] at hmem
    obtain ⟨hin, hxx⟩ := hmem
    refine ⟨hxx, ?_⟩
    rcases hin with (h | h) | h
    · obtain ⟨h1, h2⟩ := eAcc_read hd h
      exact ⟨h1, fun s hs y hy => by
        simp only [hdrVars, List.mem_append]; exact Or.inl (Or.inl (h2 s hs y hy))⟩
    · obtain ⟨h1, h2⟩ := eAcc_read hd h
      exact ⟨h1, fun s hs y hy => by
        simp only [hdrVars, List.mem_append]; exact Or.inl (Or.inr (h2 s hs y hy))⟩
    · obtain ⟨h1, h2⟩ := eAcc_read hd h
      exact ⟨h1, fun s hs y hy => by
        simp only [hdrVars, List.mem_append]; exact Or.inr (h2 s hs y hy)⟩

theorem exists_write_of_wVars {y : Nat} {s : Stmt} (h : y ∈ wVars s) :
    ∃ a ∈ accOf y (sAcc s), a.write = true := by
  have hp := countWrites_pos_of_wVars h
  unfold countWrites at hp
  obtain ⟨a, ha⟩ := List.exists_mem_of_length_pos hp
  simp only [List.mem_filter, Bool.and_eq_true] at ha
  exact ⟨a, by simp only [accOf, List.mem_filter]; exact ⟨ha.1, ha.2.1⟩, ha.2.2⟩

/-- the array rule compares the first access with itself: when its subscripts do not mention the
loop variable it raises "does not depend on loop variable" -/
theorem fuseArrayCheck_first_error (v : Nat) (hd : Acc) (rest : List Acc)
    (h : ∀ s ∈ hd.subs, v ∉ eVars s) : fuseArrayCheck v (hd :: rest) = .error .arrayNoLoopVar := by
  have hn : ((hd.subs.zip hd.subs).filter
      (fun p => decide (v ∈ eVars p.1) || decide (v ∈ eVars p.2))).length = 0 := by
    rw [List.length_eq_zero_iff, List.filter_eq_nil_iff]
    intro p hp
    obtain ⟨h1, h2⟩ := List.of_mem_zip hp
    simp [h p.1 h1, h p.2 h2]
  unfold fuseArrayCheck
  simp only [List.foldl_cons, hn, if_true]
  generalize rest = l
  induction l with
  | nil => rfl
  | cons a l ih => simpa only [List.foldl_cons] using ih

/-- the step for a header variable that one of the bodies writes is a refusal -/
theorem fuseVarStep_header_error {v x : Nat} {acc1 acc2 : List Acc} {hd1 hd2 : Acc} {r1 r2 : List Acc}
    (h1 : accOf x acc1 = hd1 :: r1) (h2 : accOf x acc2 = hd2 :: r2) (hxv : x ≠ v)
    (hw1 : hd1.write = false) (hs1 : ∀ s ∈ hd1.subs, v ∉ eVars s)
    (hw : (∃ a ∈ accOf x acc1, a.write = true) ∨ (∃ a ∈ accOf x acc2, a.write = true)) :
    ∃ e, fuseVarStep v acc1 acc2 x = .error e := by
  unfold fuseVarStep
  simp only
  have c1 : (x == v || (accOf x acc2).length == 0) = false := by
    rw [h2]; simp [hxv]
  have c2 : ((accOf x acc1).all (fun a => !a.write) && (accOf x acc2).all (fun a => !a.write)) = false := by
    rw [Bool.and_eq_false_iff]
    rcases hw with ⟨a, ha, haw⟩ | ⟨a, ha, haw⟩
    · left
      apply Bool.eq_false_iff.mpr
      intro hall
      have := List.all_eq_true.mp hall a ha
      simp [haw] at this
    · right
      apply Bool.eq_false_iff.mpr
      intro hall
      have := List.all_eq_true.mp hall a ha
      simp [haw] at this
  rw [c1, c2]
  simp only [Bool.false_eq_true, if_false]
  split
  · rw [h1, List.cons_append, fuseArrayCheck_first_error v hd1 _ hs1]
    exact ⟨_, rfl⟩
  · rw [h1, h2]
    simp only [fuseScalarCheck, hw1, Bool.false_and, Bool.false_eq_true, if_false]
    exact ⟨_, rfl⟩

/-- **what an accepted dependence analysis on the LOOP NODES guarantees about the headers**: when
the loop variable of the first loop does not occur in its own header, no variable of the (equal)
headers is written by either body, and the second loop variable does not occur in the headers
either -/
theorem fuseDeps_header_stable {l1 l2 : LoopN} (hlo : l1.lo = l2.lo) (hhi : l1.hi = l2.hi) (hst : l1.st = l2.st)
    (h : fuseDeps l1.v l2.v (sAcc l1.stmt) (sAcc l2.stmt) = .ok ()) (hv : l1.v ∉ hdrVars l1) :
    l2.v ∉ hdrVars l1 ∧ ∀ x ∈ hdrVars l1, x ∉ wVars l1.body ∧ x ∉ wVars l2.body := by
  unfold fuseDeps at h
  split at h
  · cases h
  rename_i hlv
  have h2v : l2.v ∉ hdrVars l1 := by
    intro hm
    by_cases hvv : l1.v = l2.v
    · exact hv (hvv ▸ hm)
    · obtain ⟨hd, rest, hacc, _⟩ := accOf_header l2.v l1 (Ne.symm hvv) hm
      apply hlv
      simp [hvv, hacc]
  refine ⟨h2v, ?_⟩
  intro x hx
  have hxv1 : x ≠ l1.v := fun e => hv (e ▸ hx)
  have hxv2 : x ≠ l2.v := fun e => h2v (e ▸ hx)
  have hx2 : x ∈ hdrVars l2 := by simpa only [hdrVars, ← hlo, ← hhi, ← hst] using hx
  obtain ⟨hd1, r1, ha1, hdx, hw1, hs1⟩ := accOf_header x l1 hxv1 hx
  obtain ⟨hd2, r2, ha2, _, _, _⟩ := accOf_header x l2 hxv2 hx2
  have hmem : x ∈ dedup ((sAcc l1.stmt).map (·.x)) := by
    rw [mem_dedup, List.mem_map]
    have : hd1 ∈ accOf x (sAcc l1.stmt) := by rw [ha1]; simp
    simp only [accOf, List.mem_filter] at this
    exact ⟨hd1, this.1, hdx⟩
  have hstep := fuseFold_ok (fuseVarStep l1.v (sAcc l1.stmt) (sAcc l2.stmt)) _ h x hmem
  have hs1' : ∀ s ∈ hd1.subs, l1.v ∉ eVars s := fun s hs hm => hv (hs1 s hs _ hm)
  have key : ∀ (hw : (∃ a ∈ accOf x (sAcc l1.stmt), a.write = true) ∨ (∃ a ∈ accOf x (sAcc l2.stmt), a.write = true)),
      False := by
    intro hw
    obtain ⟨e, he⟩ := fuseVarStep_header_error ha1 ha2 hxv1 hw1 hs1' hw
    rw [he] at hstep
    cases hstep
  constructor
  · intro hwb
    obtain ⟨a, ha, haw⟩ := exists_write_of_wVars hwb
    exact key (Or.inl ⟨a, by rw [accOf_loop x l1 hxv1]; exact List.mem_append_right _ ha, haw⟩)
  · intro hwb
    obtain ⟨a, ha, haw⟩ := exists_write_of_wVars hwb
    exact key (Or.inr ⟨a, by rw [accOf_loop x l2 hxv2]; exact List.mem_append_right _ ha, haw⟩)

theorem fuseValidate_parts {t : FuseTarget} (h : fuseValidate t = .ok ()) :
    t.adjacent = true ∧ (t.l1.lo = t.l2.lo ∧ t.l1.hi = t.l2.hi ∧ t.l1.st = t.l2.st) ∧
    fuseDeps t.l1.v t.l2.v (sAcc t.l1.stmt) (sAcc t.l2.stmt) = .ok () := by
  rw [fuseValidate_eq] at h
  split at h
  · cases h
  rename_i ha
  split at h
  · cases h
  rename_i hb
  simp only [Bool.not_eq_true', Bool.not_eq_false] at ha
  simp only [Bool.not_eq_true', Bool.not_eq_false, Bool.and_eq_true, beq_iff_eq] at hb
  exact ⟨ha, ⟨hb.1.1, hb.1.2, hb.2⟩, h⟩

/-- **`LoopFuseTrans.validate` protects the loop headers**: for an accepted pair whose first loop
variable does not occur in its own header, no header variable is written by the first body (so
the second loop of the original program runs over the same iteration space as the first) nor by
the second body, and the second loop variable does not occur in the headers -/
theorem fuseValidate_header_stable {t : FuseTarget} (h : fuseValidate t = .ok ()) (hv : t.l1.v ∉ hdrVars t.l1) :
    t.l2.v ∉ hdrVars t.l1 ∧ ∀ x ∈ hdrVars t.l1, x ∉ wVars t.l1.body ∧ x ∉ wVars t.l2.body := by
  obtain ⟨_, ⟨hlo, hhi, hst⟩, hd⟩ := fuseValidate_parts h
  exact fuseDeps_header_stable hlo hhi hst hd hv

end C05
