import PsyVerif.Lemmas.TreeOps
/-! C14, second invariant: the parent links never form a cycle (so the `while cursor is not None`
walks of `_check_not_ancestor` and `update_signal` terminate).  The ancestor walk of the model is a
sound certificate: when it answers "not met" the item is really not an ancestor. -/
namespace C14

/-- `Anc h a n`: `a` is `n` itself or reachable from `n` by parent links (constructor-parent links
included). -/
inductive Anc (h : Heap) (a : Id) : Id → Prop
  | refl : Anc h a a
  | step {n q : Id} : h.parent n = some q → Anc h a q → Anc h a n

/-- a strictly decreasing rank along parent links -/
def Acyclic (h : Heap) : Prop := ∃ r : Id → Nat, ∀ c q, h.parent c = some q → r q < r c

theorem Acyclic.no_self_ancestor {h : Heap} (hac : Acyclic h) {n q : Id} (hp : h.parent n = some q) :
    ¬ Anc h n q := by
  obtain ⟨r, hr⟩ := hac
  have mono : ∀ a m, Anc h a m → r a ≤ r m := by
    intro a m ha
    induction ha with
    | refl => exact Nat.le_refl _
    | step hpq _ ih => exact Nat.le_trans ih (Nat.le_of_lt (hr _ _ hpq))
  intro ha
  have h1 := mono _ _ ha
  have h2 := hr _ _ hp
  omega

/-- soundness of the walk: "not met" means "not an ancestor and not the node itself" -/
theorem onChain_sound {h : Heap} {x : Id} (f : Nat) (o : Option Id)
    (hw : onChain h x f o = false) : ∀ n, o = some n → ¬ Anc h x n := by
  induction f generalizing o with
  | zero => intro n hn; subst hn; simp [onChain] at hw
  | succ f ih =>
    intro n hn
    subst hn
    simp only [onChain] at hw
    split at hw
    · simp at hw
    · rename_i hne
      intro ha
      cases ha with
      | refl => exact hne rfl
      | step hp hq => exact ih _ hw _ hp hq

theorem noCycle_sound {h : Heap} {p x : Id} (hn : noCycle h p x = true) : ¬ Anc h x p := by
  unfold noCycle at hn
  exact onChain_sound _ _ (by simpa using hn) p rfl

open Classical in
/-- The edit of the master lemma keeps the links acyclic when no added node is the target or one
of its ancestors. -/
theorem acyclic_edit {h : Heap} (hac : Acyclic h) (p : Id) (l' rem add : List Id)
    (hadd : ∀ x ∈ add, ¬ Anc h x p) :
    Acyclic (((h.unlinkAll rem).setKids p l').linkAll add p) := by
  obtain ⟨r, hr⟩ := hac
  obtain ⟨_, _, _, u4, _⟩ := unlinkAll_fields rem h
  obtain ⟨_, _, _, k4, _⟩ := linkAll_fields add p ((h.unlinkAll rem).setKids p l')
  have hpar : ∀ c, (((h.unlinkAll rem).setKids p l').linkAll add p).parent c =
      if c ∈ add then some p else if c ∈ rem then none else h.parent c := by
    intro c; rw [k4]; simp [u4]
  refine ⟨fun n => if (∃ x ∈ add, Anc h x n) then r n + r p + 1 else r n, ?_⟩
  intro c q hcq
  rw [hpar] at hcq
  by_cases hca : c ∈ add
  · simp only [hca, if_true] at hcq
    have : q = p := by simpa using hcq.symm
    subst this
    have h1 : ∃ x ∈ add, Anc h x c := ⟨c, hca, Anc.refl⟩
    have h2 : ¬ ∃ x ∈ add, Anc h x q := fun ⟨x, hx, ha⟩ => hadd x hx ha
    simp only [h1, h2, if_true, if_false]
    omega
  · simp only [hca, if_false] at hcq
    by_cases hcr : c ∈ rem
    · simp [hcr] at hcq
    · simp only [hcr, if_false] at hcq
      have hlt := hr c q hcq
      by_cases hfq : ∃ x ∈ add, Anc h x q
      · have hfc : ∃ x ∈ add, Anc h x c := by
          obtain ⟨x, hx, ha⟩ := hfq
          exact ⟨x, hx, Anc.step hcq ha⟩
        simp only [hfq, hfc, if_true]
        omega
      · simp only [hfq, if_false]
        split <;> omega

variable {K : Kinds} {h : Heap}

theorem append_acyclic (hac : Acyclic h) (p x : Id) : Acyclic (append K h p x).1 := by
  unfold append
  simp only
  split
  · exact hac
  · split
    · exact hac
    · rename_i _ ho
      simp only [Bool.not_eq_true', Bool.not_eq_false, Bool.and_eq_true] at ho
      have := acyclic_edit hac p (h.children p ++ [x]) [] [x]
        (by intro y hy; simp at hy; subst hy; exact noCycle_sound ho.2)
      exact this

theorem insert_acyclic (hac : Acyclic h) (p : Id) (i : Int) (x : Id) : Acyclic (insert K h p i x).1 := by
  unfold insert
  simp only
  split
  · exact hac
  · split
    · exact hac
    · split
      · exact hac
      · rename_i _ ho _
        simp only [Bool.not_eq_true', Bool.not_eq_false, Bool.and_eq_true] at ho
        have := acyclic_edit hac p ((h.children p).insertIdx (clampIndex (h.children p).length i) x) [] [x]
          (by intro y hy; simp at hy; subst hy; exact noCycle_sound ho.2)
        exact this

theorem setitem_acyclic (hac : Acyclic h) (p : Id) (i : Int) (x : Id) : Acyclic (setitem K h p i x).1 := by
  unfold setitem
  simp only
  split
  · exact hac
  · rename_i k _
    split
    · exact hac
    · split
      · exact hac
      · split
        · exact hac
        · rename_i _ ho _ old _
          simp only [Bool.not_eq_true', Bool.not_eq_false, Bool.and_eq_true] at ho
          have := acyclic_edit hac p ((h.children p).set k x) [old] [x]
            (by intro y hy; simp at hy; subst hy; exact noCycle_sound ho.2)
          exact this

theorem extend_acyclic (hac : Acyclic h) (p : Id) (xs : List Id) : Acyclic (extend K h p xs).1 := by
  unfold extend
  simp only
  split
  · exact hac
  · split
    · exact hac
    · split
      · exact hac
      · rename_i _ ho _
        simp only [Bool.not_eq_true', Bool.not_eq_false, List.all_eq_true, Bool.and_eq_true] at ho
        have := acyclic_edit hac p (h.children p ++ xs) [] xs
          (fun y hy => noCycle_sound (ho y hy).2)
        exact this

theorem delAt_acyclic (hac : Acyclic h) (p : Id) (k : Nat) : Acyclic (delAt K h p k).1 := by
  unfold delAt
  simp only
  split
  · exact hac
  · split
    · exact hac
    · rename_i _ _ old _
      have := acyclic_edit hac p ((h.children p).eraseIdx k) [old] [] (by simp)
      exact this

theorem delitem_acyclic (hac : Acyclic h) (p : Id) (i : Int) : Acyclic (delitem K h p i).1 := by
  unfold delitem
  split
  · exact hac
  · exact delAt_acyclic hac p _

theorem remove_acyclic (hac : Acyclic h) (p x : Id) : Acyclic (remove K h p x).1 := by
  unfold remove
  simp only
  split
  · exact delAt_acyclic hac p _
  · exact hac

theorem reverse_acyclic (hac : Acyclic h) (p : Id) : Acyclic (reverse K h p).1 := by
  unfold reverse
  simp only
  split
  · exact hac
  · have := acyclic_edit hac p (h.children p).reverse [] [] (by simp)
    exact this

theorem clear_acyclic (hac : Acyclic h) (p : Id) : Acyclic (clear h p).1 := by
  unfold clear
  have := acyclic_edit hac p [] (h.children p) [] (by simp)
  exact this

theorem popAll_acyclic (hac : Acyclic h) (p : Id) (f : Nat) : Acyclic (popAll K p f h).1 := by
  induction f generalizing h with
  | zero => exact hac
  | succ f ih =>
    unfold popAll
    split
    · exact hac
    · have hw : Acyclic (pop K h p (-1)).1 := delitem_acyclic hac p (-1)
      split
      · rename_i h' heq
        rw [heq] at hw
        exact ih hw
      · exact hw

theorem setChildren_acyclic (hac : Acyclic h) (p : Id) (xs : List Id) :
    Acyclic (setChildren K h p xs).1 := by
  unfold setChildren
  split
  · exact hac
  · split
    · exact hac
    · split
      · exact hac
      · have hw := popAll_acyclic (K := K) hac p (h.children p).length
        split
        · rename_i h1 heq
          rw [heq] at hw
          exact extend_acyclic hw p xs
        · exact hw

theorem detach_acyclic (hac : Acyclic h) (x : Id) : Acyclic (detach K h x).1 := by
  unfold detach
  split
  · exact hac
  · simp only
    split
    · exact delitem_acyclic hac _ _
    · exact hac

theorem replaceWith_acyclic (hac : Acyclic h) (x y : Id) (keep : Bool) :
    Acyclic (replaceWith K h x y keep).1 := by
  unfold replaceWith
  split
  · exact hac
  · simp only
    split
    · exact hac
    · split
      · exact hac
      · split
        · exact hac
        · exact setitem_acyclic hac _ _ _

/-- concrete heaps whose parents all have a smaller id are acyclic -/
theorem acyclic_ofList (rs : List Rec)
    (hc : ((List.range rs.length).all fun i =>
      match (Heap.ofList rs).parent i with
      | none => true
      | some q => decide (q < i)) = true) : Acyclic (Heap.ofList rs) := by
  refine ⟨fun n => n, ?_⟩
  intro c q hp
  by_cases hcn : c < rs.length
  · simp only [List.all_eq_true, List.mem_range] at hc
    have := hc c hcn
    rw [hp] at this
    simpa using this
  · rw [(ofList_out rs c (Nat.le_of_not_lt hcn)).2] at hp; simp at hp

end C14
