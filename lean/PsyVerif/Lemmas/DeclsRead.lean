import PsyVerif.Lemmas.DeclsGen
import PsyVerif.Lemmas.DeclsSort
/-! Reader side of C03: when the written text contains no forward reference, `Decls.readItems` creates
no placeholder and the symbol table it builds is the canonical one: contained routines, `use`
symbols, derived types, then the remaining declarations in text order. -/
namespace Decls

/-- no forward reference in a sequence of declarations processed on top of `tab`: every name a
declaration reads is already in scope (interface blocks are kept as text) and the declared name is new -/
def cleanFold (outer : List Name) : List Sym → List Sym → Bool
  | _, [] => true
  | tab, s :: r =>
    (s.cls == .iface || s.deps.all (known outer tab)) && !(names tab).contains s.name
      && cleanFold outer (tab ++ [s]) r

theorem addPlaceholders_known {outer : List Name} {vis : Name → Bool} {tab : List Sym} :
    ∀ {ds : List Name}, ds.all (known outer tab) = true → addPlaceholders outer vis tab ds = tab := by
  intro ds
  induction ds with
  | nil => intro _; rfl
  | cons d r ih =>
    intro h
    simp only [List.all_cons, Bool.and_eq_true] at h
    simp only [addPlaceholders, h.1, if_true]
    exact ih h.2

theorem addDecl_clean {outer : List Name} {vis : Name → Bool} {tab : List Sym} {s : Sym}
    (h1 : (s.cls == .iface || s.deps.all (known outer tab)) = true) (h2 : (names tab).contains s.name = false) :
    addDecl outer vis tab s = tab ++ [s] := by
  unfold addDecl
  have : (if s.cls == Cls.iface then tab else addPlaceholders outer vis tab s.deps) = tab := by
    split
    · rfl
    · rename_i hc
      simp only [hc, Bool.false_or] at h1
      exact addPlaceholders_known h1
  simp only [this, h2]
  simp

theorem foldl_addDecl_clean {outer : List Name} {vis : Name → Bool} : ∀ (l tab : List Sym),
    cleanFold outer tab l = true → l.foldl (addDecl outer vis) tab = tab ++ l := by
  intro l
  induction l with
  | nil => intro tab _; simp
  | cons s r ih =>
    intro tab h
    simp only [cleanFold, Bool.and_eq_true, Bool.not_eq_true'] at h
    simp only [List.foldl_cons, addDecl_clean h.1.1 h.1.2]
    rw [ih _ h.2]; simp

theorem accessOnly_known {vis : Name → Bool} {tab : List Sym} : ∀ {ns : List Name},
    (∀ n ∈ ns, n ∈ names tab) → accessOnly vis tab ns = tab := by
  intro ns
  induction ns with
  | nil => intro _; rfl
  | cons n r ih =>
    intro h
    have : (names tab).contains n = true := by simpa using h n (by simp)
    simp only [accessOnly, this, if_true]
    exact ih (fun m hm => h m (List.mem_cons_of_mem _ hm))

theorem argfix_id {args : List Name} {tab : List Sym}
    (h : ∀ s ∈ tab, s.cls = .other → s.name ∉ args) :
    tab.map (fun s => if args.contains s.name && s.cls == .other then { s with cls := .arg } else s) = tab := by
  induction tab with
  | nil => rfl
  | cons s r ih =>
    simp only [List.map_cons]
    rw [ih (fun t ht => h t (List.mem_cons_of_mem _ ht))]
    congr 1
    split
    · rename_i hc
      simp only [Bool.and_eq_true, List.contains_iff_mem, beq_iff_eq] at hc
      exact absurd hc.1 (h s (by simp) hc.2)
    · rfl

/-- the canonical table of a written text -/
def canonSyms (items : List Item) : List Sym :=
  ((routinesOf items).map fun n => { name := n, cls := .skipped, routine := true, pub := visOf items n })
    ++ useSyms items items ++ (declsOf items).filter isDtype ++ (declsOf items).filter (fun s => !isDtype s)

/-- decidable description of "the text has no forward reference and names nothing unknown" -/
def cleanText (outer args : List Name) (items : List Item) : Bool :=
  let t1 := ((routinesOf items).map fun n => ({ name := n, cls := .skipped, routine := true, pub := visOf items n } : Sym))
    ++ useSyms items items
  readable args items
  && cleanFold outer t1 ((declsOf items).filter isDtype)
  && cleanFold outer (t1 ++ (declsOf items).filter isDtype) ((declsOf items).filter (fun s => !isDtype s))
  && (explicitOf true items ++ explicitOf false items).all (fun n => (names (canonSyms items)).contains n)
  && (canonSyms items).all (fun s => !(args.contains s.name && s.cls == .other))

/-- **read_write_canonical**: a clean text is read into its canonical table. -/
theorem readItems_clean {m ow : Bool} {outer args : List Name} {items : List Item}
    (h : cleanText outer args items = true) :
    readItems m ow outer args items = .ok
      { isModule := m, defPrivate := defPrivateOf items, outerWild := ow, outer := outer,
        syms := canonSyms items, args := args, body := stmtsOf items, routines := routinesOf items } := by
  unfold cleanText at h
  simp only [Bool.and_eq_true] at h
  obtain ⟨⟨⟨⟨hr, hc1⟩, hc2⟩, hacc⟩, harg⟩ := h
  unfold readItems
  simp only [hr, Bool.not_true, Bool.false_eq_true, if_false]
  rw [foldl_addDecl_clean _ _ hc1, foldl_addDecl_clean _ _ hc2]
  have hcan : ((routinesOf items).map fun n => ({ name := n, cls := .skipped, routine := true, pub := visOf items n } : Sym))
      ++ useSyms items items ++ (declsOf items).filter isDtype ++ (declsOf items).filter (fun s => !isDtype s)
      = canonSyms items := rfl
  rw [hcan]
  rw [accessOnly_known (by
    intro n hn
    have := List.all_eq_true.mp hacc n hn
    simpa using this)]
  rw [argfix_id (by
    intro s hs hc hin
    have := List.all_eq_true.mp harg s hs
    simp [hc, hin] at this)]

end Decls
