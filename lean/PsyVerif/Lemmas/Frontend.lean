import PsyVerif.Model.Frontend
import PsyVerif.Lemmas.MiniFSem
/-! # C01: the WHERE lowering versus the standard semantics (rank 1 and rank 2)

`rowClauses c` is the WHERE construct interpreted at the single cell `c`, statements
interleaved (what one iteration of the innermost generated loop does).  Lemma L: the generated
loop (nest) processes the cells one after the other.  Lemma S: under `whereElemental` the standard
semantics (masks once, statement by statement over the whole mask) gives, location by location,
the same store.  `r2` = the construct is of rank 2. -/
namespace C01
open MiniF

variable {fuel : Nat}

theorem exprVars_eq (e : Expr) : exprVars e = evars e := by
  induction e <;> simp_all [exprVars, evars]

/-- the element at cell `c` of an assigned array (full-range LHS) -/
def locOf (env : Env) (r2 : Bool) (a : Nat) (c : Cell) : Loc :=
  (a, (env.get a).lo + c.1, if r2 then (env.get a).lo2 + c.2 else 0)

def rowAssigns (env : Env) (r2 : Bool) (c : Cell) : List WAssign → Store → Store
  | [], σ => σ
  | w :: ws, σ => rowAssigns env r2 c ws (σ.set (locOf env r2 w.a c) (evalA env c w.rhs σ))

def rowClauses (env : Env) (r2 : Bool) (c : Cell) : WClauses → Store → Store
  | .nil, σ => σ
  | .masked m body rest, σ =>
    if evalA env c m σ ≠ 0 then rowAssigns env r2 c body σ else rowClauses env r2 c rest σ
  | .final body, σ => rowAssigns env r2 c body σ

/-- agreement on cell `c` of the assigned arrays and on everything that is neither an
assigned array nor a loop variable -/
structure Rel (env : Env) (A : List Nat) (wv : Nat) (r2 : Bool) (c : Cell) (τ τ' : Store) : Prop where
  row : ∀ a ∈ A, τ (locOf env r2 a c) = τ' (locOf env r2 a c)
  out : ∀ x, x ∉ A → x ≠ wv → x ≠ wv + 1 → ∀ i j, τ (x, i, j) = τ' (x, i, j)

theorem Rel.set {env : Env} {A : List Nat} {wv : Nat} {r2 : Bool} {c : Cell} {τ τ' : Store}
    (h : Rel env A wv r2 c τ τ') (l : Loc) (v : Int) : Rel env A wv r2 c (τ.set l v) (τ'.set l v) := by
  constructor
  · intro a ha
    simp only [Store.set_apply]
    split
    · rfl
    · exact h.row a ha
  · intro x hx hw hw1 i j
    simp only [Store.set_apply]
    split
    · rfl
    · exact h.out x hx hw hw1 i j

theorem Rel.refl (env : Env) (A : List Nat) (wv : Nat) (r2 : Bool) (c : Cell) (τ : Store) :
    Rel env A wv r2 c τ τ :=
  ⟨fun _ _ => rfl, fun _ _ _ _ _ _ => rfl⟩

theorem redArr_congr {τ τ' : Store} (k : Red) (a : Nat) (lo : Int) (h : ∀ i, τ (a, i, 0) = τ' (a, i, 0)) (n : Nat) :
    redArr k τ a lo n = redArr k τ' a lo n := by
  induction n with
  | zero => cases k <;> simp only [redArr, h]
  | succ n ih => simp only [redArr, ih, h]

theorem not_mem_of_contains_false {A : List Nat} {x : Nat} (h : A.contains x = false) : x ∉ A := by
  intro hx
  have hc : A.contains x = true := List.contains_iff_mem.mpr hx
  rw [h] at hc
  cases hc

theorem evalA_congr {env : Env} {A : List Nat} {wv : Nat} {r2 : Bool} {c : Cell} {τ τ' : Store} (e : AExpr)
    (he : elemA env A wv r2 e = true) (h : Rel env A wv r2 c τ τ') : evalA env c e τ = evalA env c e τ' := by
  induction e with
  | scal e =>
    simp only [elemA, List.all_eq_true, Bool.and_eq_true, Bool.not_eq_true', bne_iff_ne, ne_eq] at he
    simp only [evalA]
    apply eval_congr (V := fun x => x ∉ A ∧ x ≠ wv ∧ x ≠ wv + 1)
    · intro x hx
      rw [← exprVars_eq] at hx
      have := he x hx
      exact ⟨not_mem_of_contains_false this.1.1, this.1.2, this.2⟩
    · intro x hx i j
      exact h.out x hx.1 hx.2.1 hx.2.2 i j
  | sec a s =>
    simp only [elemA, Bool.and_eq_true, Bool.or_eq_true, Bool.not_eq_true', bne_iff_ne, ne_eq,
      beq_iff_eq] at he
    obtain ⟨⟨⟨⟨hr, hst⟩, hwv⟩, hwv1⟩, hal⟩ := he
    simp only [evalA, hst, Int.mul_one]
    by_cases hA : a ∈ A
    · rcases hal with hal | hal
      · exact absurd hA (not_mem_of_contains_false hal)
      · rw [hal]
        have := h.row a hA
        simpa [locOf, hr] using this
    · exact h.out a hA hwv hwv1 _ _
  | sec2 a s1 s2 =>
    simp only [elemA, Bool.and_eq_true, Bool.or_eq_true, Bool.not_eq_true', bne_iff_ne, ne_eq,
      beq_iff_eq] at he
    obtain ⟨⟨⟨⟨⟨hr, hst1⟩, hst2⟩, hwv⟩, hwv1⟩, hal⟩ := he
    simp only [evalA, hst1, hst2, Int.mul_one]
    by_cases hA : a ∈ A
    · rcases hal with hal | hal
      · exact absurd hA (not_mem_of_contains_false hal)
      · rw [hal.1, hal.2]
        have := h.row a hA
        simpa [locOf, hr] using this
    · exact h.out a hA hwv hwv1 _ _
  | un op e ih => simp only [evalA, ih (by simpa [elemA] using he)]
  | bin op a b iha ihb =>
    simp only [elemA, Bool.and_eq_true] at he
    simp only [evalA, iha he.1, ihb he.2]
  | red k a =>
    simp only [elemA, Bool.and_eq_true, Bool.not_eq_true', bne_iff_ne, ne_eq] at he
    simp only [evalA]
    apply redArr_congr
    intro i
    exact h.out a (not_mem_of_contains_false he.1.1) he.1.2 he.2 i 0
  | redDim k a =>
    simp only [elemA, Bool.and_eq_true, Bool.not_eq_true', bne_iff_ne, ne_eq] at he
    simp only [evalA]
    apply redArr_congr
    intro i
    exact h.out a (not_mem_of_contains_false he.1.1) he.1.2 he.2 i 0

theorem elemAssigns_cons {env : Env} {A : List Nat} {wv : Nat} {r2 : Bool} {w : WAssign} {ws : List WAssign}
    (he : elemAssigns env A wv r2 (w :: ws) = true) :
    lhsOk env r2 w = true ∧ elemA env A wv r2 w.rhs = true ∧ elemAssigns env A wv r2 ws = true := by
  simp only [elemAssigns, List.all_cons, Bool.and_eq_true] at he
  exact ⟨he.1.1, he.1.2, by simpa [elemAssigns] using he.2⟩

theorem rowAssigns_congr {env : Env} {A : List Nat} {wv : Nat} {r2 : Bool} {c : Cell} (ws : List WAssign)
    (he : elemAssigns env A wv r2 ws = true) :
    ∀ {τ τ' : Store}, Rel env A wv r2 c τ τ' →
      Rel env A wv r2 c (rowAssigns env r2 c ws τ) (rowAssigns env r2 c ws τ') := by
  induction ws with
  | nil => intro τ τ' h; exact h
  | cons w ws ih =>
    intro τ τ' h
    obtain ⟨_, h2, h3⟩ := elemAssigns_cons he
    simp only [rowAssigns]
    rw [evalA_congr w.rhs h2 h]
    exact ih h3 (h.set _ _)

theorem rowClauses_congr {env : Env} {A : List Nat} {wv : Nat} {r2 : Bool} {c : Cell} (cl : WClauses)
    (he : elemClauses env A wv r2 cl = true) :
    ∀ {τ τ' : Store}, Rel env A wv r2 c τ τ' →
      Rel env A wv r2 c (rowClauses env r2 c cl τ) (rowClauses env r2 c cl τ') := by
  induction cl with
  | nil => intro τ τ' h; exact h
  | masked m body rest ih =>
    intro τ τ' h
    simp only [elemClauses, Bool.and_eq_true] at he
    simp only [rowClauses, evalA_congr m he.1.1 h]
    split
    · exact rowAssigns_congr body he.1.2 h
    · exact ih he.2 h
  | final body =>
    intro τ τ' h
    exact rowAssigns_congr body (by simpa [elemClauses] using he) h

/-! ## frame -/

theorem rowAssigns_frame (env : Env) (A : List Nat) (r2 : Bool) (c : Cell) (ws : List WAssign)
    (hA : ∀ w ∈ ws, w.a ∈ A) (l : Loc) (hl : ∀ a ∈ A, l ≠ locOf env r2 a c) :
    ∀ τ, rowAssigns env r2 c ws τ l = τ l := by
  induction ws with
  | nil => intro τ; rfl
  | cons w ws ih =>
    intro τ
    simp only [rowAssigns]
    rw [ih (fun w' hw' => hA w' (List.mem_cons_of_mem _ hw')), Store.set_apply, if_neg]
    exact hl w.a (hA w (List.mem_cons_self ..))

theorem rowClauses_frame (env : Env) (A : List Nat) (r2 : Bool) (c : Cell) (cl : WClauses)
    (hA : ∀ a ∈ assignedArrs cl, a ∈ A) (l : Loc) (hl : ∀ a ∈ A, l ≠ locOf env r2 a c) :
    ∀ τ, rowClauses env r2 c cl τ l = τ l := by
  induction cl with
  | nil => intro τ; rfl
  | masked m body rest ih =>
    intro τ
    simp only [rowClauses]
    split
    · exact rowAssigns_frame env A r2 c body
        (fun w hw => hA _ (by simp only [assignedArrs, List.mem_append, List.mem_map]; exact Or.inl ⟨w, hw, rfl⟩))
        l hl τ
    · exact ih (fun a ha => hA a (by simp only [assignedArrs, List.mem_append]; exact Or.inr ha)) τ
  | final body =>
    intro τ
    exact rowAssigns_frame env A r2 c body
      (fun w hw => hA _ (by simp only [assignedArrs, List.mem_map]; exact ⟨w, hw, rfl⟩)) l hl τ

/-! ## Lemma L: one iteration of the innermost generated loop -/

theorem litE_eval' (n : Int) (σ : Store) : eval (litE n) σ = n := by
  unfold litE
  split
  · simp [eval, evalUn]
  · rfl

theorem isFullD_start {t : Bool} {lo hi : Int} {s : Sec} (h : isFullD t lo hi s = true) : s.lo.getD lo = lo := by
  unfold isFullD at h
  cases hl : s.lo with
  | none => rfl
  | some l =>
    simp only [hl, Bool.and_eq_true, beq_iff_eq] at h
    simp only [Option.getD_some]
    exact h.1.1.2

theorem isFullD_stop {t : Bool} {lo hi : Int} {s : Sec} (h : isFullD t lo hi s = true) : s.hi.getD hi = hi := by
  unfold isFullD at h
  cases hl : s.hi with
  | none => rfl
  | some l =>
    simp only [hl, Bool.and_eq_true, beq_iff_eq] at h
    simp only [Option.getD_some]
    exact h.1.2.2

theorem isFullD_stride {t : Bool} {lo hi : Int} {s : Sec} (h : isFullD t lo hi s = true) : secStride s = 1 := by
  unfold isFullD at h
  unfold secStride
  cases hl : s.st with
  | none => rfl
  | some l =>
    simp only [hl, Bool.and_eq_true, beq_iff_eq] at h
    simp only [Option.getD_some]
    exact h.2

theorem idxExprD_eval (full : Bool) (lo : Int) (wv : Nat) (s : Sec) (k : Nat) (τ : Store)
    (hf : full = true → s.lo.getD lo = lo) (hwv : τ.get (wv, 0, 0) = (k : Int) + 1) :
    eval (idxExprD full lo wv s) τ = s.lo.getD lo + k := by
  unfold idxExprD
  split
  · rename_i hfull
    rw [hf hfull]
    simp only [offIdx, eval, evalBin, hwv]
    omega
  · cases hl : s.lo with
    | none =>
      simp only [offIdx, eval, evalBin, hwv, Option.getD_none]
      omega
    | some l =>
      simp only [Option.getD_some]
      split
      · rename_i h1
        simp only [eval, hwv, h1]
        omega
      · simp only [offIdx, eval, evalBin, hwv, litE_eval']
        omega

theorem idxExpr_eval (env : Env) (wv a : Nat) (s : Sec) (k : Nat) (τ : Store)
    (hwv : τ.get (wv, 0, 0) = (k : Int) + 1) : eval (idxExpr env wv a s) τ = secStart env a s + k :=
  idxExprD_eval _ _ wv s k τ (fun h => isFullD_start h) hwv

theorem idxExpr2_eval (env : Env) (wv a : Nat) (s : Sec) (k : Nat) (τ : Store)
    (hwv : τ.get (wv, 0, 0) = (k : Int) + 1) : eval (idxExpr2 env wv a s) τ = secStart2 env a s + k :=
  idxExprD_eval _ _ wv s k τ (fun h => isFullD_start h) hwv

theorem redExpr_eval (k : Red) (a : Nat) (lo : Int) (n : Nat) (τ : Store) :
    eval (redExpr k a lo n) τ = redArr k τ a lo n := by
  induction n with
  | zero => cases k <;> rfl
  | succ n ih => simp only [redExpr, eval, ih, redArr]

theorem lowerA_eval {env : Env} {A : List Nat} {wv : Nat} {r2 : Bool} (c : Cell) (τ : Store) (e : AExpr)
    (he : elemA env A wv r2 e = true) (h1 : τ.get (wv, 0, 0) = (c.1 : Int) + 1)
    (h2 : r2 = true → τ.get (wv + 1, 0, 0) = (c.2 : Int) + 1) :
    eval (lowerA env wv e) τ = evalA env c e τ := by
  induction e with
  | scal e => rfl
  | sec a s =>
    simp only [elemA, Bool.and_eq_true, beq_iff_eq] at he
    simp only [lowerA, eval, evalA, idxExpr_eval env wv a s c.1 τ h1, he.1.1.1.2, Int.mul_one]
  | sec2 a s1 s2 =>
    simp only [elemA, Bool.and_eq_true, beq_iff_eq] at he
    simp only [lowerA, eval, evalA, idxExpr_eval env wv a s1 c.1 τ h1,
      idxExpr2_eval env (wv + 1) a s2 c.2 τ (h2 he.1.1.1.1.1), he.1.1.1.1.2, he.1.1.1.2, Int.mul_one]
  | un op e ih => simp only [lowerA, eval, evalA, ih (by simpa [elemA] using he)]
  | bin op a b iha ihb =>
    simp only [elemA, Bool.and_eq_true] at he
    simp only [lowerA, eval, evalA, iha he.1, ihb he.2]
  | red k a => simp only [lowerA, evalA, redExpr_eval]
  | redDim k a => simp only [lowerA, evalA, redExpr_eval]

theorem run_seqs_cons (env : Env) (s : Src) (ss : List Src) (τ : Store) :
    (run fuel env (Src.seqs (s :: ss)) false 0 τ).2 =
      (run fuel env (Src.seqs ss) false 0 (run fuel env s false 0 τ).2).2 := by
  cases ss with
  | nil => rfl
  | cons s' ss' => rfl

/-- one lowered assignment stores the element `locOf` of the cell -/
theorem lhsIdx_run {env : Env} {A : List Nat} {wv : Nat} {r2 : Bool} (c : Cell) (w : WAssign) (τ : Store)
    (hok : lhsOk env r2 w = true) (he : elemA env A wv r2 w.rhs = true)
    (h1 : τ.get (wv, 0, 0) = (c.1 : Int) + 1) (h2 : r2 = true → τ.get (wv + 1, 0, 0) = (c.2 : Int) + 1) :
    (run fuel env (lhsIdx env wv w) false 0 τ).2 = τ.set (locOf env r2 w.a c) (evalA env c w.rhs τ) := by
  unfold lhsOk at hok
  simp only [Bool.and_eq_true] at hok
  have hs1 : secStart env w.a w.s = (env.get w.a).lo := isFullD_start hok.1
  unfold lhsIdx locOf
  cases hs2 : w.s2 with
  | none =>
    simp only [hs2, Bool.not_eq_true'] at hok
    simp only [run, idxExpr_eval env wv w.a w.s c.1 τ h1, hs1, lowerA_eval c τ w.rhs he h1 h2, hok.2]
    rfl
  | some s2 =>
    simp only [hs2, Bool.and_eq_true] at hok
    have hs2' : secStart2 env w.a s2 = (env.get w.a).lo2 := isFullD_start hok.2.2
    simp only [run, idxExpr_eval env wv w.a w.s c.1 τ h1, hs1, lowerA_eval c τ w.rhs he h1 h2,
      idxExpr2_eval env (wv + 1) w.a s2 c.2 τ (h2 hok.2.1), hs2', hok.2.1]
    rfl

theorem locOf_ne_var {env : Env} {r2 : Bool} {a x : Nat} {c : Cell} (h : a ≠ x) (i j : Int) :
    ((x, i, j) : Loc) ≠ locOf env r2 a c := by
  intro heq
  exact h (congrArg Prod.fst heq).symm

theorem lowerAssigns_run {env : Env} {A : List Nat} {wv : Nat} {r2 : Bool} (c : Cell) (ws : List WAssign)
    (he : elemAssigns env A wv r2 ws = true) (hA : ∀ w ∈ ws, w.a ≠ wv ∧ w.a ≠ wv + 1) :
    ∀ τ : Store, τ.get (wv, 0, 0) = (c.1 : Int) + 1 → (r2 = true → τ.get (wv + 1, 0, 0) = (c.2 : Int) + 1) →
      (run fuel env (lowerAssigns env wv ws) false 0 τ).2 = rowAssigns env r2 c ws τ := by
  induction ws with
  | nil => intro τ _ _; rfl
  | cons w ws ih =>
    intro τ h1 h2
    obtain ⟨hok, hel, hrest⟩ := elemAssigns_cons he
    have hne := hA w (List.mem_cons_self ..)
    simp only [lowerAssigns, List.map_cons]
    rw [run_seqs_cons, lhsIdx_run c w τ hok hel h1 h2]
    simp only [rowAssigns]
    have := ih hrest (fun w' hw' => hA w' (List.mem_cons_of_mem _ hw'))
      (τ.set (locOf env r2 w.a c) (evalA env c w.rhs τ))
      (by rw [Store.set_apply, if_neg (locOf_ne_var hne.1 _ _)]; exact h1)
      (by intro hr; rw [Store.set_apply, if_neg (locOf_ne_var hne.2 _ _)]; exact h2 hr)
    simpa [lowerAssigns] using this

theorem lowerClauses_run {env : Env} {A : List Nat} {wv : Nat} {r2 : Bool} (c : Cell) (cl : WClauses)
    (he : elemClauses env A wv r2 cl = true) (hA : ∀ a ∈ assignedArrs cl, a ≠ wv ∧ a ≠ wv + 1) :
    ∀ τ : Store, τ.get (wv, 0, 0) = (c.1 : Int) + 1 → (r2 = true → τ.get (wv + 1, 0, 0) = (c.2 : Int) + 1) →
      (run fuel env (lowerClauses env wv cl) false 0 τ).2 = rowClauses env r2 c cl τ := by
  induction cl with
  | nil => intro τ _ _; rfl
  | masked m body rest ih =>
    intro τ h1 h2
    simp only [elemClauses, Bool.and_eq_true] at he
    simp only [lowerClauses, run, rowClauses, lowerA_eval c τ m he.1.1 h1 h2]
    split
    · exact lowerAssigns_run c body he.1.2
        (fun w hw => hA _ (by simp only [assignedArrs, List.mem_append, List.mem_map]; exact Or.inl ⟨w, hw, rfl⟩))
        τ h1 h2
    · exact ih he.2 (fun a ha => hA a (by simp only [assignedArrs, List.mem_append]; exact Or.inr ha)) τ h1 h2
  | final body =>
    intro τ h1 h2
    exact lowerAssigns_run c body (by simpa [elemClauses] using he)
      (fun w hw => hA _ (by simp only [assignedArrs, List.mem_map]; exact ⟨w, hw, rfl⟩)) τ h1 h2

/-! ## Lemma S: the standard semantics, location by location -/

/-- `(i, j)` are indices of array `a` not below its lower bounds (rank 1: `j = 0`) -/
def inRng (env : Env) (r2 : Bool) (a : Nat) (i j : Int) : Prop :=
  (env.get a).lo ≤ i ∧ (if r2 then (env.get a).lo2 ≤ j else j = 0)

instance (env : Env) (r2 : Bool) (a : Nat) (i j : Int) : Decidable (inRng env r2 a i j) := by
  unfold inRng; exact inferInstance

/-- the cell of element `(i, j)` of array `a` -/
def cellOf (env : Env) (r2 : Bool) (a : Nat) (i j : Int) : Cell :=
  ((i - (env.get a).lo).toNat, if r2 then (j - (env.get a).lo2).toNat else 0)

theorem cellOf_snd (env : Env) (a : Nat) (i j : Int) : (cellOf env false a i j).2 = 0 := rfl

/-- all the index arithmetic: a location is the element of cell `c` iff it is in range and its cell is `c` -/
theorem loc_iff (env : Env) (r2 : Bool) (a : Nat) (c : Cell) (x : Nat) (i j : Int) (hc : r2 = false → c.2 = 0) :
    ((x, i, j) : Loc) = locOf env r2 a c ↔ x = a ∧ inRng env r2 a i j ∧ cellOf env r2 a i j = c := by
  obtain ⟨c1, c2⟩ := c
  cases r2 with
  | false =>
    have h0 : c2 = 0 := hc rfl
    subst h0
    simp only [locOf, inRng, cellOf, Prod.mk.injEq, Bool.false_eq_true, if_false, and_true]
    constructor
    · rintro ⟨h1, h2, h3⟩
      exact ⟨h1, ⟨by omega, h3⟩, by omega⟩
    · rintro ⟨h1, ⟨h2, h3⟩, h4⟩
      exact ⟨h1, by omega, h3⟩
  | true =>
    simp only [locOf, inRng, cellOf, Prod.mk.injEq, if_true]
    constructor
    · rintro ⟨h1, h2, h3⟩
      exact ⟨h1, ⟨by omega, by omega⟩, by omega, by omega⟩
    · rintro ⟨h1, ⟨h2, h3⟩, h4, h5⟩
      exact ⟨h1, by omega, by omega⟩

theorem lhsLoc_eq {env : Env} {r2 : Bool} {w : WAssign} (hok : lhsOk env r2 w = true) (c : Cell) :
    lhsLoc env w c = locOf env r2 w.a c := by
  unfold lhsOk at hok
  simp only [Bool.and_eq_true] at hok
  have hs1 : secStart env w.a w.s = (env.get w.a).lo := isFullD_start hok.1
  have ht1 : secStride w.s = 1 := isFullD_stride hok.1
  unfold lhsLoc locOf
  cases hs2 : w.s2 with
  | none =>
    simp only [hs2, Bool.not_eq_true'] at hok
    simp [hs1, ht1, hok.2]
  | some s2 =>
    simp only [hs2, Bool.and_eq_true] at hok
    have hs2' : secStart2 env w.a s2 = (env.get w.a).lo2 := isFullD_start hok.2.2
    have ht2 : secStride s2 = 1 := isFullD_stride hok.2.2
    simp [hs1, ht1, hs2', ht2, hok.2.1]

/-- location `(x,i,j)` is an element of the assignment's LHS whose cell is in `cs` and selected by `ctl` -/
def MC (env : Env) (r2 : Bool) (cs : List Cell) (ctl : Cell → Bool) (w : WAssign) (x : Nat) (i j : Int) : Prop :=
  x = w.a ∧ inRng env r2 w.a i j ∧ cellOf env r2 w.a i j ∈ cs ∧ ctl (cellOf env r2 w.a i j) = true

instance (env : Env) (r2 : Bool) (cs : List Cell) (ctl : Cell → Bool) (w : WAssign) (x : Nat) (i j : Int) :
    Decidable (MC env r2 cs ctl w x i j) := by
  unfold MC; exact inferInstance

theorem maskedFold_spec (env : Env) (r2 : Bool) (ctl : Cell → Bool) (w : WAssign) (σ₀ : Store)
    (hok : lhsOk env r2 w = true) (x : Nat) (i j : Int) :
    ∀ (cs : List Cell) (τ : Store), (r2 = false → ∀ c ∈ cs, c.2 = 0) →
      (cs.foldl (fun τ c => if ctl c then τ.set (lhsLoc env w c) (evalA env c w.rhs σ₀) else τ) τ) (x, i, j) =
        if MC env r2 cs ctl w x i j then evalA env (cellOf env r2 w.a i j) w.rhs σ₀ else τ (x, i, j) := by
  intro cs
  induction cs with
  | nil =>
    intro τ _
    simp only [List.foldl_nil]
    rw [if_neg]
    rintro ⟨_, _, h, _⟩
    cases h
  | cons c cs ih =>
    intro τ hcs
    have hcs' : r2 = false → ∀ c' ∈ cs, c'.2 = 0 := fun hr c' hc' => hcs hr c' (List.mem_cons_of_mem _ hc')
    have hc0 : r2 = false → c.2 = 0 := fun hr => hcs hr c (List.mem_cons_self ..)
    simp only [List.foldl_cons]
    rw [ih _ hcs']
    by_cases hm : MC env r2 cs ctl w x i j
    · rw [if_pos hm, if_pos]
      obtain ⟨h1, h2, h3, h4⟩ := hm
      exact ⟨h1, h2, List.mem_cons_of_mem _ h3, h4⟩
    · rw [if_neg hm]
      by_cases hc : ctl c = true ∧ ((x, i, j) : Loc) = locOf env r2 w.a c
      · obtain ⟨hctl, hloc⟩ := hc
        have hl := (loc_iff env r2 w.a c x i j hc0).1 hloc
        rw [if_pos hctl, lhsLoc_eq hok, hloc, Store.set_same, if_pos, hl.2.2]
        exact ⟨hl.1, hl.2.1, by rw [hl.2.2]; exact List.mem_cons_self .., by rw [hl.2.2]; exact hctl⟩
      · have hstep : (if ctl c = true then τ.set (lhsLoc env w c) (evalA env c w.rhs σ₀) else τ) (x, i, j) = τ (x, i, j) := by
          by_cases hctl : ctl c = true
          · rw [if_pos hctl, lhsLoc_eq hok, Store.set_apply, if_neg]
            intro hloc
            exact hc ⟨hctl, hloc⟩
          · rw [if_neg hctl]
        rw [hstep, if_neg]
        rintro ⟨h1, h2, h3, h4⟩
        rcases List.mem_cons.1 h3 with h3 | h3
        · apply hc
          rw [h3] at h4
          exact ⟨h4, (loc_iff env r2 w.a c x i j hc0).2 ⟨h1, h2, h3⟩⟩
        · exact hm ⟨h1, h2, h3, h4⟩

/-- location `(x,i,j)` is an element of an assigned array whose cell is in `cs` and satisfies `p` -/
def Sel (env : Env) (A : List Nat) (r2 : Bool) (cs : List Cell) (p : Cell → Bool) (x : Nat) (i j : Int) : Prop :=
  x ∈ A ∧ inRng env r2 x i j ∧ cellOf env r2 x i j ∈ cs ∧ p (cellOf env r2 x i j) = true

instance (env : Env) (A : List Nat) (r2 : Bool) (cs : List Cell) (p : Cell → Bool) (x : Nat) (i j : Int) :
    Decidable (Sel env A r2 cs p x i j) := by
  unfold Sel; exact inferInstance

theorem cellOf_ok (env : Env) (r2 : Bool) (a : Nat) (i j : Int) : r2 = false → (cellOf env r2 a i j).2 = 0 := by
  intro h; subst h; rfl

theorem Sel.loc {env : Env} {A : List Nat} {r2 : Bool} {cs : List Cell} {p : Cell → Bool} {x : Nat} {i j : Int}
    (h : Sel env A r2 cs p x i j) : ((x, i, j) : Loc) = locOf env r2 x (cellOf env r2 x i j) :=
  (loc_iff env r2 x _ x i j (cellOf_ok env r2 x i j)).2 ⟨rfl, h.2.1, rfl⟩

/-- the element of cell `c`, as an explicit triple in range whose cell is `c` -/
theorem loc_cases (env : Env) (r2 : Bool) (a : Nat) (c : Cell) (hc : r2 = false → c.2 = 0) :
    ∃ i j, locOf env r2 a c = ((a, i, j) : Loc) ∧ inRng env r2 a i j ∧ cellOf env r2 a i j = c :=
  ⟨(env.get a).lo + c.1, if r2 then (env.get a).lo2 + c.2 else 0, rfl,
    ((loc_iff env r2 a c a _ _ hc).1 rfl).2⟩

/-- the assignments of one block: a selected cell gets the row program, everything else is unchanged -/
theorem stdAssigns_spec {env : Env} {A : List Nat} {wv : Nat} {r2 : Bool} (cs : List Cell) (ctl : Cell → Bool)
    (hcs : r2 = false → ∀ c ∈ cs, c.2 = 0)
    (ws : List WAssign) (he : elemAssigns env A wv r2 ws = true) (hA : ∀ w ∈ ws, w.a ∈ A)
    (x : Nat) (i j : Int) :
    ∀ σ : Store, stdAssigns env cs ctl ws σ (x, i, j) =
      if Sel env A r2 cs ctl x i j then rowAssigns env r2 (cellOf env r2 x i j) ws σ (x, i, j)
      else σ (x, i, j) := by
  induction ws with
  | nil => intro σ; simp [stdAssigns, rowAssigns]
  | cons w ws ih =>
    intro σ
    obtain ⟨hok, hel, hews⟩ := elemAssigns_cons he
    have hwA : w.a ∈ A := hA w (List.mem_cons_self ..)
    have hAws : ∀ w' ∈ ws, w'.a ∈ A := fun w' hw' => hA w' (List.mem_cons_of_mem _ hw')
    simp only [stdAssigns]
    rw [ih hews hAws]
    have hspec := fun x' i' j' => maskedFold_spec env r2 ctl w σ hok x' i' j' cs σ hcs
    by_cases hc : Sel env A r2 cs ctl x i j
    · rw [if_pos hc, if_pos hc]
      simp only [rowAssigns]
      -- the two stores agree on the cell and outside A
      have hrel : Rel env A wv r2 (cellOf env r2 x i j) (maskedAssign env cs ctl w σ)
          (σ.set (locOf env r2 w.a (cellOf env r2 x i j)) (evalA env (cellOf env r2 x i j) w.rhs σ)) := by
        constructor
        · intro a ha
          obtain ⟨i', j', hEq, hr, hcell⟩ := loc_cases env r2 a (cellOf env r2 x i j) (cellOf_ok env r2 x i j)
          unfold maskedAssign
          rw [hEq, hspec, Store.set_apply]
          by_cases hae : a = w.a
          · subst hae
            have hmc : MC env r2 cs ctl w w.a i' j' :=
              ⟨rfl, hr, by rw [hcell]; exact hc.2.2.1, by rw [hcell]; exact hc.2.2.2⟩
            rw [if_pos hmc, if_pos hEq.symm, hcell]
          · have hnm : ¬ MC env r2 cs ctl w a i' j' := fun h => hae h.1
            have hne : ((a, i', j') : Loc) ≠ locOf env r2 w.a (cellOf env r2 x i j) :=
              fun h => hae (congrArg Prod.fst h)
            rw [if_neg hnm, if_neg hne]
        · intro y hy _ _ i' j'
          unfold maskedAssign
          rw [hspec, Store.set_apply]
          have hyw : y ≠ w.a := fun h => hy (h ▸ hwA)
          have hnm : ¬ MC env r2 cs ctl w y i' j' := fun h => hyw h.1
          have hne : ((y, i', j') : Loc) ≠ locOf env r2 w.a (cellOf env r2 x i j) :=
            fun h => hyw (congrArg Prod.fst h)
          rw [if_neg hnm, if_neg hne]
      have := (rowAssigns_congr ws hews hrel).row x hc.1
      rw [← hc.loc] at this
      exact this
    · rw [if_neg hc, if_neg hc]
      unfold maskedAssign
      have hnm : ¬ MC env r2 cs ctl w x i j := by
        rintro ⟨h1, h2, h3, h4⟩
        apply hc
        subst h1
        exact ⟨hwA, h2, h3, h4⟩
      rw [hspec, if_neg hnm]

theorem stdClauses_spec {env : Env} {A : List Nat} {wv : Nat} {r2 : Bool} (cs : List Cell)
    (hcs : r2 = false → ∀ c ∈ cs, c.2 = 0) (cl : WClauses)
    (he : elemClauses env A wv r2 cl = true) (hA : ∀ a ∈ assignedArrs cl, a ∈ A) (x : Nat) (i j : Int) :
    ∀ (pend : Cell → Bool) (σ : Store), stdClauses env cs pend cl σ (x, i, j) =
      if Sel env A r2 cs pend x i j then rowClauses env r2 (cellOf env r2 x i j) cl σ (x, i, j)
      else σ (x, i, j) := by
  induction cl with
  | nil => intro pend σ; simp [stdClauses, rowClauses]
  | final body =>
    intro pend σ
    simp only [stdClauses, rowClauses]
    exact stdAssigns_spec cs pend hcs body (by simpa [elemClauses] using he)
      (fun w hw => hA _ (by simp only [assignedArrs, List.mem_map]; exact ⟨w, hw, rfl⟩)) x i j σ
  | masked m body rest ih =>
    intro pend σ
    simp only [elemClauses, Bool.and_eq_true] at he
    have hAb : ∀ w ∈ body, w.a ∈ A := fun w hw =>
      hA _ (by simp only [assignedArrs, List.mem_append, List.mem_map]; exact Or.inl ⟨w, hw, rfl⟩)
    have hAr : ∀ a ∈ assignedArrs rest, a ∈ A := fun a ha =>
      hA a (by simp only [assignedArrs, List.mem_append]; exact Or.inr ha)
    simp only [stdClauses]
    rw [ih he.2 hAr]
    -- the store after the block, location by location
    have hblock := fun x' i' j' => stdAssigns_spec (A := A) (wv := wv) cs
      (fun k => pend k && (evalA env k m σ != 0)) hcs body he.1.2 hAb x' i' j' σ
    by_cases hin : Sel env A r2 cs (fun _ => true) x i j
    · have hloc := hin.loc
      by_cases hp : pend (cellOf env r2 x i j) = true
      · by_cases hv : evalA env (cellOf env r2 x i j) m σ ≠ 0
        · -- selected by this clause
          have hb : (evalA env (cellOf env r2 x i j) m σ != 0) = true := by simpa using hv
          rw [if_neg (by rintro ⟨_, _, _, h⟩; simp [hp, hb] at h), hblock,
            if_pos ⟨hin.1, hin.2.1, hin.2.2.1, by simp [hp, hb]⟩, if_pos ⟨hin.1, hin.2.1, hin.2.2.1, hp⟩]
          simp only [rowClauses, if_pos hv]
        · have hb : (evalA env (cellOf env r2 x i j) m σ != 0) = false := by simpa using hv
          rw [if_pos ⟨hin.1, hin.2.1, hin.2.2.1, by simp [hp, hb]⟩, if_pos ⟨hin.1, hin.2.1, hin.2.2.1, hp⟩]
          simp only [rowClauses, if_neg hv]
          -- cell untouched by the block: continue with the rest on an equivalent store
          have hrel : Rel env A wv r2 (cellOf env r2 x i j)
              (stdAssigns env cs (fun k => pend k && (evalA env k m σ != 0)) body σ) σ := by
            constructor
            · intro a ha
              obtain ⟨i', j', hEq, hr, hcell⟩ := loc_cases env r2 a (cellOf env r2 x i j) (cellOf_ok env r2 x i j)
              have hns : ¬ Sel env A r2 cs (fun k => pend k && (evalA env k m σ != 0)) a i' j' := by
                rintro ⟨_, _, _, hc'⟩
                rw [hcell] at hc'
                simp [hb] at hc'
              rw [hEq, hblock, if_neg hns]
            · intro y hy _ _ i' j'
              have hns : ¬ Sel env A r2 cs (fun k => pend k && (evalA env k m σ != 0)) y i' j' :=
                fun h => hy h.1
              rw [hblock, if_neg hns]
          have := (rowClauses_congr rest he.2 hrel).row x hin.1
          rw [← hloc] at this
          exact this
      · -- not pending: nothing happens to this cell any more
        rw [if_neg (by rintro ⟨_, _, _, h⟩; simp [hp] at h), hblock,
          if_neg (by rintro ⟨_, _, _, h⟩; simp [hp] at h), if_neg (by rintro ⟨_, _, _, h⟩; exact hp h)]
    · have hn : ∀ p : Cell → Bool, ¬ Sel env A r2 cs p x i j := fun p h => hin ⟨h.1, h.2.1, h.2.2.1, rfl⟩
      rw [if_neg (hn _), hblock, if_neg (hn _), if_neg (hn _)]

/-! ## Lemma F: the generated loops process the cells one after the other -/

/-- `τ` is the store in which exactly the cells of `D` have been processed (loop variables aside) -/
def Inv (env : Env) (A : List Nat) (wv : Nat) (r2 : Bool) (cl : WClauses) (σ : Store) (D : Cell → Bool)
    (τ : Store) : Prop :=
  ∀ (x : Nat) (i j : Int), ((x, i, j) : Loc) ≠ (wv, 0, 0) → (r2 = true → ((x, i, j) : Loc) ≠ (wv + 1, 0, 0)) →
    τ (x, i, j) =
      if x ∈ A ∧ inRng env r2 x i j ∧ D (cellOf env r2 x i j) = true
      then rowClauses env r2 (cellOf env r2 x i j) cl σ (x, i, j) else σ (x, i, j)

theorem inv_init {env : Env} {A : List Nat} {wv : Nat} {r2 : Bool} {cl : WClauses} {σ : Store} {D : Cell → Bool}
    (hD : ∀ c, D c = false) : Inv env A wv r2 cl σ D σ := by
  intro x i j _ _
  rw [if_neg]
  rintro ⟨_, _, h⟩
  rw [hD] at h
  cases h

theorem inv_congr {env : Env} {A : List Nat} {wv : Nat} {r2 : Bool} {cl : WClauses} {σ τ : Store}
    {D D' : Cell → Bool} (h : ∀ c, D c = D' c) (hi : Inv env A wv r2 cl σ D τ) : Inv env A wv r2 cl σ D' τ := by
  have : D = D' := funext h
  subst this
  exact hi

/-- changing the loop variables does not disturb the invariant -/
theorem inv_scratch {env : Env} {A : List Nat} {wv : Nat} {r2 : Bool} {cl : WClauses} {σ τ τ' : Store}
    {D : Cell → Bool} (hi : Inv env A wv r2 cl σ D τ)
    (h : ∀ l : Loc, l ≠ (wv, 0, 0) → (r2 = true → l ≠ (wv + 1, 0, 0)) → τ' l = τ l) : Inv env A wv r2 cl σ D τ' := by
  intro x i j h1 h2
  rw [h _ h1 h2]
  exact hi x i j h1 h2

/-- processing one more cell -/
theorem inv_step {env : Env} {A : List Nat} {wv : Nat} {r2 : Bool} {cl : WClauses} {σ : Store}
    (he : elemClauses env A wv r2 cl = true) (hA : ∀ a ∈ assignedArrs cl, a ∈ A)
    (hwv : wv ∉ A) (hwv1 : wv + 1 ∉ A)
    (D D' : Cell → Bool) (c : Cell) (hc : r2 = false → c.2 = 0) (hcD : D c = false)
    (hD' : ∀ c', D' c' = (D c' || c' == c)) (τ : Store) (hinv : Inv env A wv r2 cl σ D τ) :
    Inv env A wv r2 cl σ D' (rowClauses env r2 c cl τ) := by
  have hscr : ∀ a ∈ A, ∀ c', locOf env r2 a c' ≠ (wv, 0, 0) ∧ locOf env r2 a c' ≠ (wv + 1, 0, 0) := by
    intro a ha c'
    constructor
    · intro h
      have e : a = wv := congrArg Prod.fst h
      exact hwv (e ▸ ha)
    · intro h
      have e : a = wv + 1 := congrArg Prod.fst h
      exact hwv1 (e ▸ ha)
  intro x i j h1 h2
  by_cases hloc : x ∈ A ∧ ((x, i, j) : Loc) = locOf env r2 x c
  · obtain ⟨hx, heq⟩ := hloc
    have hl := (loc_iff env r2 x c x i j hc).1 heq
    have hd : D' (cellOf env r2 x i j) = true := by rw [hl.2.2, hD']; simp
    rw [if_pos ⟨hx, hl.2.1, hd⟩, hl.2.2]
    have hrel : Rel env A wv r2 c τ σ := by
      constructor
      · intro a ha
        obtain ⟨i', j', hEq, hr, hcell⟩ := loc_cases env r2 a c hc
        have hs := hscr a ha c
        rw [hEq] at hs ⊢
        rw [hinv a i' j' hs.1 (fun _ => hs.2), if_neg]
        rintro ⟨_, _, h⟩
        rw [hcell, hcD] at h
        cases h
      · intro y hy hyw hyw1 i' j'
        rw [hinv y i' j' (fun h => hyw (congrArg Prod.fst h)) (fun _ h => hyw1 (congrArg Prod.fst h)), if_neg]
        exact fun h => hy h.1
    have := (rowClauses_congr cl he hrel).row x hx
    rw [← heq] at this
    exact this
  · have hfr : ∀ a ∈ A, ((x, i, j) : Loc) ≠ locOf env r2 a c := by
      intro a ha h
      have hxa : x = a := congrArg Prod.fst h
      exact hloc ⟨hxa ▸ ha, hxa ▸ h⟩
    rw [rowClauses_frame env A r2 c cl hA _ hfr, hinv x i j h1 h2]
    by_cases hd : x ∈ A ∧ inRng env r2 x i j ∧ D (cellOf env r2 x i j) = true
    · rw [if_pos hd, if_pos]
      refine ⟨hd.1, hd.2.1, ?_⟩
      rw [hD', hd.2.2]
      rfl
    · rw [if_neg hd, if_neg]
      rintro ⟨hx, hr, h⟩
      rw [hD', Bool.or_eq_true] at h
      rcases h with h | h
      · exact hd ⟨hx, hr, h⟩
      · exact hloc ⟨hx, (loc_iff env r2 x c x i j hc).2 ⟨rfl, hr, by simpa using h⟩⟩

/-- rank 1: the cells `(k, 0)`, `k < n` -/
def D1 (n : Nat) (c : Cell) : Bool := c.2 == 0 && decide (c.1 < n)

/-- rank 2, in the middle of column `k2`: the cells of the columns `< k2` and `(k, k2)` with `k < n` -/
def D2 (n1 k2 n : Nat) (c : Cell) : Bool :=
  decide (c.1 < n1) && (decide (c.2 < k2) || (c.2 == k2 && decide (c.1 < n)))

theorem D1_succ (n : Nat) (c : Cell) : D1 (n + 1) c = (D1 n c || c == (n, 0)) := by
  obtain ⟨a, b⟩ := c
  rw [Bool.eq_iff_iff]
  simp only [D1, Bool.and_eq_true, Bool.or_eq_true, beq_iff_eq, decide_eq_true_eq, Prod.mk.injEq]
  omega

theorem D2_succ (n1 k2 n : Nat) (hn : n < n1) (c : Cell) : D2 n1 k2 (n + 1) c = (D2 n1 k2 n c || c == (n, k2)) := by
  obtain ⟨a, b⟩ := c
  rw [Bool.eq_iff_iff]
  simp only [D2, Bool.and_eq_true, Bool.or_eq_true, beq_iff_eq, decide_eq_true_eq, Prod.mk.injEq]
  omega

theorem D2_col (n1 k2 : Nat) (c : Cell) : D2 n1 k2 n1 c = D2 n1 (k2 + 1) 0 c := by
  obtain ⟨a, b⟩ := c
  rw [Bool.eq_iff_iff]
  simp only [D2, Bool.and_eq_true, Bool.or_eq_true, beq_iff_eq, decide_eq_true_eq]
  omega

theorem mem_rowCells (k2 n : Nat) (c : Cell) : c ∈ rowCells k2 n ↔ c.2 = k2 ∧ c.1 < n := by
  obtain ⟨a, b⟩ := c
  induction n with
  | zero => simp [rowCells]
  | succ n ih =>
    simp only [rowCells, List.mem_append, ih, List.mem_singleton, Prod.mk.injEq]
    omega

theorem mem_cells (n1 m : Nat) (c : Cell) : c ∈ cells n1 m ↔ c.1 < n1 ∧ c.2 < m := by
  induction m with
  | zero => simp [cells]
  | succ m ih =>
    simp only [cells, List.mem_append, ih, mem_rowCells]
    omega

section loops
variable {env : Env} {A : List Nat} {wv : Nat} {cl : WClauses}

/-- rank 1: `n` iterations of the generated loop -/
theorem iters_inv1 (he : elemClauses env A wv false cl = true) (hA : ∀ a ∈ assignedArrs cl, a ∈ A)
    (hwv : wv ∉ A) (hwv1 : wv + 1 ∉ A) (σ : Store) (n : Nat) :
    Inv env A wv false cl σ (D1 n)
      (iters (fun τ => (run fuel env (lowerClauses env wv cl) false 0 τ).2) wv 1 1 n 0 σ) := by
  have hAne : ∀ a ∈ assignedArrs cl, a ≠ wv ∧ a ≠ wv + 1 :=
    fun a ha => ⟨fun h => hwv (h ▸ hA a ha), fun h => hwv1 (h ▸ hA a ha)⟩
  induction n with
  | zero => exact inv_init (fun c => by simp [D1])
  | succ n ih =>
    rw [iters_succ_last]
    have h1 : (1 : Int) + (0 + (n : Int)) * 1 = (n : Int) + 1 := by omega
    rw [h1, lowerClauses_run (r2 := false) (n, 0) cl he hAne _ (by simp) (by intro h; cases h)]
    refine inv_step he hA hwv hwv1 (D1 n) (D1 (n + 1)) (n, 0) (fun _ => rfl) (by simp [D1])
      (D1_succ n) _ ?_
    exact inv_scratch ih (fun l hl _ => by rw [Store.set_apply, if_neg hl])

/-- rank 2: `n ≤ n1` iterations of the inner loop within iteration `k2` of the outer loop -/
theorem iters_inv2_inner (he : elemClauses env A wv true cl = true) (hA : ∀ a ∈ assignedArrs cl, a ∈ A)
    (hwv : wv ∉ A) (hwv1 : wv + 1 ∉ A) (σ : Store) (n1 k2 : Nat) (τ0 : Store)
    (h0 : Inv env A wv true cl σ (D2 n1 k2 0) τ0) (hk : τ0.get (wv + 1, 0, 0) = (k2 : Int) + 1) :
    ∀ n, n ≤ n1 →
      Inv env A wv true cl σ (D2 n1 k2 n)
        (iters (fun τ => (run fuel env (lowerClauses env wv cl) false 0 τ).2) wv 1 1 n 0 τ0) ∧
      (iters (fun τ => (run fuel env (lowerClauses env wv cl) false 0 τ).2) wv 1 1 n 0 τ0).get (wv + 1, 0, 0)
        = (k2 : Int) + 1 := by
  have hAne : ∀ a ∈ assignedArrs cl, a ≠ wv ∧ a ≠ wv + 1 :=
    fun a ha => ⟨fun h => hwv (h ▸ hA a ha), fun h => hwv1 (h ▸ hA a ha)⟩
  intro n
  induction n with
  | zero => intro _; exact ⟨h0, hk⟩
  | succ n ih =>
    intro hn
    obtain ⟨ihI, ihK⟩ := ih (by omega)
    rw [iters_succ_last]
    have h1 : (1 : Int) + (0 + (n : Int)) * 1 = (n : Int) + 1 := by omega
    have hne : ((wv + 1, 0, 0) : Loc) ≠ (wv, 0, 0) := by
      intro h
      have : wv + 1 = wv := congrArg Prod.fst h
      omega
    have hk' : ((iters (fun τ => (run fuel env (lowerClauses env wv cl) false 0 τ).2) wv 1 1 n 0 τ0).set
        (wv, 0, 0) ((n : Int) + 1)).get (wv + 1, 0, 0) = (k2 : Int) + 1 := by
      rw [Store.set_apply, if_neg hne]; exact ihK
    rw [h1, lowerClauses_run (r2 := true) (n, k2) cl he hAne _ (by simp) (fun _ => hk')]
    constructor
    · refine inv_step he hA hwv hwv1 (D2 n1 k2 n) (D2 n1 k2 (n + 1)) (n, k2) (fun h => by cases h)
        (by simp [D2]) (D2_succ n1 k2 n (by omega)) _ ?_
      exact inv_scratch ihI (fun l hl _ => by rw [Store.set_apply, if_neg hl])
    · rw [rowClauses_frame env A true (n, k2) cl hA _
        (fun a ha => locOf_ne_var (fun (h : a = wv + 1) => hwv1 (h ▸ ha)) _ _)]
      exact hk'

end loops

/-! ## loop bounds -/

theorem trip_one (u : Int) : trip 1 u 1 = u.toNat := by
  simp only [trip, Int.tdiv_one]
  rw [if_neg (by decide)]
  congr 1
  omega

theorem whereUpperD_eval (typed allFull : Bool) (lo hi : Int) (s : Sec) (σ : Store)
    (hf : allFull = true → isFullD typed lo hi s = true) (hst : secStride s = 1) :
    trip 1 (eval (whereUpperD typed allFull lo hi s) σ) 1 = trip (s.lo.getD lo) (s.hi.getD hi) 1 := by
  have hext : trip (s.lo.getD lo) (s.hi.getD hi) 1 = (s.hi.getD hi - s.lo.getD lo + 1).toNat := by
    simp only [trip, Int.tdiv_one]
    rw [if_neg (by decide)]
  rw [trip_one, hext]
  unfold whereUpperD
  simp only
  split
  · rename_i haf
    rw [isFullD_start (hf haf), isFullD_stop (hf haf)]
    split
    · split
      · rename_i h1
        simp only [eval, h1]
        congr 1
        omega
      · simp only [eval, evalBin]
    · simp only [eval]
  · have hr : s.st = none ∨ s.st = some 1 := by
      cases hs : s.st with
      | none => exact Or.inl rfl
      | some t =>
        right
        have : t = 1 := by simpa [secStride, hs] using hst
        rw [this]
    rcases hr with hr | hr <;> cases hl : s.lo <;> cases hh : s.hi <;>
      simp only [hr, Option.getD_some, Option.getD_none] <;> (try split) <;> (try split) <;>
      simp_all [eval, evalBin, litE_eval'] <;> (try (congr 1; omega)) <;> (try omega)

/-! ## the first section of the mask -/

theorem firstSec_elem (env : Env) (A : List Nat) (wv : Nat) (r2 : Bool) (m : AExpr) (a : Nat) (s1 : Sec)
    (os2 : Option Sec) :
    firstSec m = some (a, s1, os2) → elemA env A wv r2 m = true →
      secStride s1 = 1 ∧ r2 = os2.isSome ∧ (∀ s2, os2 = some s2 → secStride s2 = 1) := by
  induction m with
  | scal e => intro hfs; simp [firstSec] at hfs
  | sec a' s' =>
    intro hfs hm
    simp only [firstSec, Option.some.injEq, Prod.mk.injEq] at hfs
    simp only [elemA, Bool.and_eq_true, beq_iff_eq, Bool.not_eq_true'] at hm
    obtain ⟨_, h2, h3⟩ := hfs
    subst h2 h3
    exact ⟨hm.1.1.1.2, hm.1.1.1.1, fun s2 h => by cases h⟩
  | sec2 a' s1' s2' =>
    intro hfs hm
    simp only [firstSec, Option.some.injEq, Prod.mk.injEq] at hfs
    simp only [elemA, Bool.and_eq_true, beq_iff_eq] at hm
    obtain ⟨_, h2, h3⟩ := hfs
    subst h2 h3
    refine ⟨hm.1.1.1.1.2, hm.1.1.1.1.1, fun s2 h => ?_⟩
    cases h
    exact hm.1.1.1.2
  | un op e ih => intro hfs hm; exact ih (by simpa [firstSec] using hfs) (by simpa [elemA] using hm)
  | bin op e1 e2 ih1 ih2 =>
    intro hfs hm
    simp only [elemA, Bool.and_eq_true] at hm
    simp only [firstSec] at hfs
    cases h1 : firstSec e1 with
    | none => rw [h1] at hfs; exact ih2 hfs hm.2
    | some r => rw [h1] at hfs; exact ih1 (by rw [h1]; exact hfs) hm.1
  | red k a' => intro hfs; simp [firstSec] at hfs
  | redDim k a' => intro hfs; simp [firstSec] at hfs

section outer
variable {env : Env} {A : List Nat} {wv : Nat} {cl : WClauses}

/-- rank 2: `m` iterations of the outer loop (each one a complete inner loop over `n1` cells) -/
theorem iters_inv2_outer (he : elemClauses env A wv true cl = true) (hA : ∀ a ∈ assignedArrs cl, a ∈ A)
    (hwv : wv ∉ A) (hwv1 : wv + 1 ∉ A) (σ : Store) (n1 : Nat) (U1 : Expr)
    (hU : ∀ τ, trip 1 (eval U1 τ) 1 = n1) (m : Nat) :
    Inv env A wv true cl σ (D2 n1 m 0)
      (iters (fun τ => (run fuel env (.doc wv (.lit 1) U1 (some (.lit 1)) (lowerClauses env wv cl)) false 0 τ).2)
        (wv + 1) 1 1 m 0 σ) ∧
    ((iters (fun τ => (run fuel env (.doc wv (.lit 1) U1 (some (.lit 1)) (lowerClauses env wv cl)) false 0 τ).2)
        (wv + 1) 1 1 m 0 σ).get (wv, 0, 0) = if m = 0 then σ.get (wv, 0, 0) else (n1 : Int) + 1) := by
  induction m with
  | zero => exact ⟨inv_init (fun c => by simp [D2]), rfl⟩
  | succ m ih =>
    obtain ⟨ihI, _⟩ := ih
    rw [iters_succ_last]
    have h1 : (1 : Int) + (0 + (m : Int)) * 1 = (m : Int) + 1 := by omega
    rw [h1]
    simp only [run, eval, hU, runIters_eq_iters]
    have hτ0 : Inv env A wv true cl σ (D2 n1 m 0)
        ((iters (fun τ => (run fuel env (.doc wv (.lit 1) U1 (some (.lit 1)) (lowerClauses env wv cl)) false 0 τ).2)
          (wv + 1) 1 1 m 0 σ).set (wv + 1, 0, 0) ((m : Int) + 1)) :=
      inv_scratch ihI (fun l _ hl => by rw [Store.set_apply, if_neg (hl rfl)])
    have hin := (iters_inv2_inner (fuel := fuel) he hA hwv hwv1 σ n1 m _ hτ0 (by simp) n1 (Nat.le_refl _)).1
    simp only [run, eval, hU, runIters_eq_iters] at hin ⊢
    constructor
    · apply inv_congr (D2_col n1 m)
      exact inv_scratch hin (fun l hl _ => by rw [Store.set_apply, if_neg hl])
    · rw [Store.set_same, if_neg (by omega)]
      omega

end outer

/-! ## the theorem -/

/-- **the WHERE lowering is sound for elemental constructs** (rank 1 and rank 2, all extents and
bounds, all stores): the generated loop nest leaves the store of the standard semantics, and
`extent + 1` in its loop variables (`whereScratch`) -/
theorem where_lowered_sound (env : Env) (tag wv : Nat) (cl : WClauses) (s : Src)
    (hl : lowerWhere env wv cl = some s) (he : whereElemental env wv cl = true) (σ : Store) :
    execSrc fuel env s σ = execSrc fuel env (.whereC tag wv cl) σ := by
  simp only [whereElemental, Bool.and_eq_true, Bool.not_eq_true'] at he
  obtain ⟨⟨hwvA, hwv1A⟩, hel⟩ := he
  have hwv : wv ∉ assignedArrs cl := not_mem_of_contains_false hwvA
  have hwv1 : wv + 1 ∉ assignedArrs cl := not_mem_of_contains_false hwv1A
  cases cl with
  | nil => simp [lowerWhere] at hl
  | final body => simp [lowerWhere] at hl
  | masked m body rest =>
    simp only [lowerWhere] at hl
    cases hfs : firstSec m with
    | none => rw [hfs] at hl; cases hl
    | some r =>
      obtain ⟨a, s1, os2⟩ := r
      have hm : elemA env (assignedArrs (.masked m body rest)) wv (whereRank2 env (.masked m body rest)) m = true := by
        simp only [elemClauses, Bool.and_eq_true] at hel
        exact hel.1.1
      obtain ⟨hst1, hrk, hst2⟩ := firstSec_elem env _ wv _ m a s1 os2 hfs hm
      cases os2 with
      | none =>
        -- rank 1
        have hr2 : whereRank2 env (.masked m body rest) = false := by simpa using hrk
        rw [hr2] at hel
        rw [hfs] at hl
        simp only at hl
        split at hl
        · cases hl
        · simp only [Option.some.injEq] at hl
          subst hl
          have hsh : whereShape env (.masked m body rest) = some (secExtent env a s1, none) := by
            simp only [whereShape, hfs]
          have hn : ∀ τ, trip 1 (eval (whereUpper env a s1) τ) 1 = secExtent env a s1 := by
            intro τ
            unfold whereUpper secExtent
            rw [whereUpperD_eval (env.get a).typed (isFull env a s1) (env.get a).lo (env.get a).hi s1 τ
              (fun h => h) hst1, hst1]
            rfl
          simp only [execSrc, run, eval, execWhere, hsh, whereScratch, shapeCells, hn, runIters_eq_iters]
          apply Store.ext
          funext ⟨x, i, j⟩
          by_cases hloc : ((x, i, j) : Loc) = (wv, 0, 0)
          · rw [hloc]
            simp only [Store.set_same]
            omega
          · rw [Store.set_apply, if_neg hloc, Store.set_apply, if_neg hloc,
              iters_inv1 hel (fun a ha => ha) hwv hwv1 σ _ x i j hloc (by intro h; cases h),
              stdClauses_spec (A := assignedArrs (.masked m body rest)) (wv := wv) (r2 := false) _
                (fun _ c hc => by have := ((mem_cells _ 1 c).1 hc).2; omega) _ hel (fun a ha => ha) x i j]
            have hiff : (x ∈ assignedArrs (.masked m body rest) ∧ inRng env false x i j ∧
                D1 (secExtent env a s1) (cellOf env false x i j) = true) ↔
                Sel env (assignedArrs (.masked m body rest)) false (cells (secExtent env a s1) 1) (fun _ => true) x i j := by
              unfold Sel
              simp only [mem_cells, D1, Bool.and_eq_true, beq_iff_eq, decide_eq_true_eq, and_true]
              constructor
              · rintro ⟨h1, h2, h3, h4⟩
                exact ⟨h1, h2, h4, by omega⟩
              · rintro ⟨h1, h2, h3, h4⟩
                exact ⟨h1, h2, by omega, h3⟩
            by_cases hc : Sel env (assignedArrs (.masked m body rest)) false (cells (secExtent env a s1) 1) (fun _ => true) x i j
            · rw [if_pos hc, if_pos (hiff.2 hc)]
            · rw [if_neg hc, if_neg (fun h => hc (hiff.1 h))]
      | some s2 =>
        -- rank 2
        have hr2 : whereRank2 env (.masked m body rest) = true := by simpa using hrk
        rw [hr2] at hel
        rw [hfs] at hl
        simp only at hl
        split at hl
        · cases hl
        · simp only [Option.some.injEq] at hl
          subst hl
          have hsh : whereShape env (.masked m body rest) = some (secExtent env a s1, some (secExtent2 env a s2)) := by
            simp only [whereShape, hfs]
          have hn1 : ∀ τ, trip 1 (eval (whereUpperD (env.get a).typed (isFull env a s1 && isFull2 env a s2)
              (env.get a).lo (env.get a).hi s1) τ) 1 = secExtent env a s1 := by
            intro τ
            unfold secExtent
            rw [whereUpperD_eval _ _ _ _ s1 τ (fun h => by simp only [Bool.and_eq_true] at h; exact h.1) hst1, hst1]
            rfl
          have hn2 : ∀ τ, trip 1 (eval (whereUpperD (env.get a).typed (isFull env a s1 && isFull2 env a s2)
              (env.get a).lo2 (env.get a).hi2 s2) τ) 1 = secExtent2 env a s2 := by
            intro τ
            unfold secExtent2
            rw [whereUpperD_eval _ _ _ _ s2 τ (fun h => by simp only [Bool.and_eq_true] at h; exact h.2)
              (hst2 s2 rfl), hst2 s2 rfl]
            rfl
          obtain ⟨hI, hW⟩ := iters_inv2_outer (fuel := fuel) hel (fun a ha => ha) hwv hwv1 σ (secExtent env a s1) _
            hn1 (secExtent2 env a s2)
          simp only [run, eval, hn1, runIters_eq_iters] at hI hW
          simp only [execSrc, run, eval, hn1, hn2, runIters_eq_iters, execWhere, hsh, whereScratch, shapeCells]
          have hne : ((wv + 1, 0, 0) : Loc) ≠ (wv, 0, 0) := by
            intro h
            have : wv + 1 = wv := congrArg Prod.fst h
            omega
          have hstd := fun x i j => stdClauses_spec (A := assignedArrs (.masked m body rest)) (wv := wv) (r2 := true)
            (cells (secExtent env a s1) (secExtent2 env a s2)) (fun h => by cases h) (.masked m body rest) hel
            (fun a ha => ha) x i j (fun _ => true) σ
          apply Store.ext
          funext ⟨x, i, j⟩
          by_cases hloc1 : ((x, i, j) : Loc) = (wv + 1, 0, 0)
          · rw [hloc1]
            split
            · rename_i h0
              simp only [Store.set_same, h0]
              omega
            · simp only [Store.set_same]
              omega
          · rw [Store.set_apply, if_neg hloc1]
            by_cases hloc : ((x, i, j) : Loc) = (wv, 0, 0)
            · rw [hloc, hW]
              split
              · rw [Store.set_apply, if_neg hne.symm, hstd, if_neg (fun h => hwv h.1)]
              · rw [Store.set_apply, if_neg hne.symm, Store.set_same]
            · rw [hI x i j hloc (fun _ => hloc1)]
              have hrhs : (if secExtent2 env a s2 = 0 then
                    (stdClauses env (cells (secExtent env a s1) (secExtent2 env a s2)) (fun _ => true)
                      (.masked m body rest) σ).set (wv + 1, 0, 0) 1
                  else ((stdClauses env (cells (secExtent env a s1) (secExtent2 env a s2)) (fun _ => true)
                      (.masked m body rest) σ).set (wv, 0, 0) ((secExtent env a s1 : Int) + 1)).set (wv + 1, 0, 0)
                        ((secExtent2 env a s2 : Int) + 1)) (x, i, j)
                  = (stdClauses env (cells (secExtent env a s1) (secExtent2 env a s2)) (fun _ => true)
                      (.masked m body rest) σ) (x, i, j) := by
                split
                · rw [Store.set_apply, if_neg hloc1]
                · rw [Store.set_apply, if_neg hloc1, Store.set_apply, if_neg hloc]
              rw [hrhs, hstd]
              have hiff : (x ∈ assignedArrs (.masked m body rest) ∧ inRng env true x i j ∧
                  D2 (secExtent env a s1) (secExtent2 env a s2) 0 (cellOf env true x i j) = true) ↔
                  Sel env (assignedArrs (.masked m body rest)) true
                    (cells (secExtent env a s1) (secExtent2 env a s2)) (fun _ => true) x i j := by
                unfold Sel
                simp only [mem_cells, D2, Bool.and_eq_true, Bool.or_eq_true, beq_iff_eq, decide_eq_true_eq, and_true]
                constructor
                · rintro ⟨h1, h2, h3, h4⟩
                  exact ⟨h1, h2, h3, by omega⟩
                · rintro ⟨h1, h2, h3, h4⟩
                  exact ⟨h1, h2, h3, Or.inl h4⟩
              by_cases hc : Sel env (assignedArrs (.masked m body rest)) true
                  (cells (secExtent env a s1) (secExtent2 env a s2)) (fun _ => true) x i j
              · rw [if_pos hc, if_pos (hiff.2 hc)]
              · rw [if_neg hc, if_neg (fun h => hc (hiff.1 h))]

end C01
