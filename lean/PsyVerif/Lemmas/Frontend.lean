import PsyVerif.Model.Frontend
import PsyVerif.Lemmas.MiniFSem
/-! # C01: the WHERE lowering versus the standard semantics

`rowClauses k` is the WHERE construct interpreted at the single position `k`, statements
interleaved (what one iteration of the generated loop does).  Lemma L: the generated loop is
the fold of `rowClauses` over the positions.  Lemma S: under `whereElemental` the standard
semantics (masks once, statement by statement over the whole mask) is the same store. -/
namespace C01
open MiniF

theorem exprVars_eq (e : Expr) : exprVars e = evars e := by
  induction e <;> simp_all [exprVars, evars]

def rowAssigns (env : Env) (k : Nat) : List WAssign → Store → Store
  | [], σ => σ
  | w :: ws, σ => rowAssigns env k ws (σ.set (w.a, (env.get w.a).lo + k, 0) (evalA env k w.rhs σ))

def rowClauses (env : Env) (k : Nat) : WClauses → Store → Store
  | .nil, σ => σ
  | .masked m body rest, σ =>
    if evalA env k m σ ≠ 0 then rowAssigns env k body σ else rowClauses env k rest σ
  | .final body, σ => rowAssigns env k body σ

/-- agreement on row `k` of the assigned arrays and on everything that is neither an
assigned array nor the loop variable -/
structure Rel (env : Env) (A : List Nat) (wv k : Nat) (τ τ' : Store) : Prop where
  row : ∀ a ∈ A, τ (a, (env.get a).lo + k, 0) = τ' (a, (env.get a).lo + k, 0)
  out : ∀ x, x ∉ A → x ≠ wv → ∀ i j, τ (x, i, j) = τ' (x, i, j)

theorem Rel.set {env : Env} {A : List Nat} {wv k : Nat} {τ τ' : Store} (h : Rel env A wv k τ τ')
    (l : Loc) (v : Int) : Rel env A wv k (τ.set l v) (τ'.set l v) := by
  constructor
  · intro a ha
    simp only [Store.set_apply]
    split
    · rfl
    · exact h.row a ha
  · intro x hx hw i j
    simp only [Store.set_apply]
    split
    · rfl
    · exact h.out x hx hw i j

theorem sumArr_congr {τ τ' : Store} (a : Nat) (lo : Int) (h : ∀ i, τ (a, i, 0) = τ' (a, i, 0)) (n : Nat) :
    sumArr τ a lo n = sumArr τ' a lo n := by
  induction n with
  | zero => rfl
  | succ n ih => simp only [sumArr, ih, h]

theorem evalA_congr {env : Env} {A : List Nat} {wv k : Nat} {τ τ' : Store} (e : AExpr)
    (he : elemA env A wv e = true) (h : Rel env A wv k τ τ') : evalA env k e τ = evalA env k e τ' := by
  induction e with
  | scal e =>
    simp only [elemA, List.all_eq_true, Bool.and_eq_true, Bool.not_eq_true', bne_iff_ne, ne_eq] at he
    simp only [evalA]
    apply eval_congr (V := fun x => x ∉ A ∧ x ≠ wv)
    · intro x hx
      rw [← exprVars_eq] at hx
      have := he x hx
      refine ⟨?_, this.2⟩
      intro hxA
      have hc : A.contains x = true := List.contains_iff_mem.mpr hxA
      rw [this.1] at hc
      cases hc
    · intro x hx i j
      exact h.out x hx.1 hx.2 i j
  | sec a s =>
    simp only [elemA, Bool.and_eq_true, Bool.or_eq_true, Bool.not_eq_true', bne_iff_ne, ne_eq,
      beq_iff_eq] at he
    obtain ⟨⟨hst, hwv⟩, hal⟩ := he
    simp only [evalA, hst, Int.mul_one]
    by_cases hA : a ∈ A
    · rcases hal with hal | hal
      · have hc : A.contains a = true := List.contains_iff_mem.mpr hA
        rw [hal] at hc
        cases hc
      · rw [hal]
        exact h.row a hA
    · exact h.out a hA hwv _ _
  | un op e ih => simp only [evalA, ih (by simpa [elemA] using he)]
  | bin op a b iha ihb =>
    simp only [elemA, Bool.and_eq_true] at he
    simp only [evalA, iha he.1, ihb he.2]
  | sum a =>
    simp only [elemA, Bool.and_eq_true, Bool.not_eq_true', bne_iff_ne, ne_eq] at he
    simp only [evalA]
    apply sumArr_congr
    intro i
    refine h.out a ?_ he.2 i 0
    intro hA
    have hc : A.contains a = true := List.contains_iff_mem.mpr hA
    rw [he.1] at hc
    cases hc
  | sumDim a =>
    simp only [elemA, Bool.and_eq_true, Bool.not_eq_true', bne_iff_ne, ne_eq] at he
    simp only [evalA]
    apply sumArr_congr
    intro i
    refine h.out a ?_ he.2 i 0
    intro hA
    have hc : A.contains a = true := List.contains_iff_mem.mpr hA
    rw [he.1] at hc
    cases hc

theorem rowAssigns_congr {env : Env} {A : List Nat} {wv k : Nat} (ws : List WAssign)
    (he : elemAssigns env A wv ws = true) :
    ∀ {τ τ' : Store}, Rel env A wv k τ τ' → Rel env A wv k (rowAssigns env k ws τ) (rowAssigns env k ws τ') := by
  induction ws with
  | nil => intro τ τ' h; exact h
  | cons w ws ih =>
    intro τ τ' h
    simp only [elemAssigns, List.all_cons, Bool.and_eq_true] at he
    simp only [rowAssigns]
    rw [evalA_congr w.rhs he.1.2 h]
    exact ih (by simpa [elemAssigns] using he.2) (h.set _ _)

theorem rowClauses_congr {env : Env} {A : List Nat} {wv k : Nat} (cl : WClauses)
    (he : elemClauses env A wv cl = true) :
    ∀ {τ τ' : Store}, Rel env A wv k τ τ' → Rel env A wv k (rowClauses env k cl τ) (rowClauses env k cl τ') := by
  induction cl with
  | nil => intro τ τ' h; exact h
  | masked m body rest ih =>
    intro τ τ' h
    simp only [elemClauses, Bool.and_eq_true] at he
    simp only [rowClauses, evalA_congr m he.1.1 h]
    split
    · exact rowAssigns_congr body he.1.2 h
    · exact ih he.2 h
  | final body =>
    intro τ τ' h
    exact rowAssigns_congr body (by simpa [elemClauses] using he) h

/-! ## frame -/

theorem rowAssigns_frame (env : Env) (A : List Nat) (k : Nat) (ws : List WAssign)
    (hA : ∀ w ∈ ws, w.a ∈ A) (x : Nat) (i j : Int)
    (hl : ¬ (x ∈ A ∧ i = (env.get x).lo + k ∧ j = 0)) :
    ∀ τ, rowAssigns env k ws τ (x, i, j) = τ (x, i, j) := by
  induction ws with
  | nil => intro τ; rfl
  | cons w ws ih =>
    intro τ
    simp only [rowAssigns]
    rw [ih (fun w' hw' => hA w' (List.mem_cons_of_mem _ hw')), Store.set_apply, if_neg]
    intro heq
    simp only [Prod.mk.injEq] at heq
    apply hl
    refine ⟨?_, ?_, heq.2.2⟩
    · rw [heq.1]; exact hA w (List.mem_cons_self ..)
    · rw [heq.1]; exact heq.2.1

theorem assigned_masked (m : AExpr) (body : List WAssign) (rest : WClauses) :
    assignedArrs (.masked m body rest) = body.map (·.a) ++ assignedArrs rest := rfl

theorem rowClauses_frame (env : Env) (A : List Nat) (k : Nat) (cl : WClauses)
    (hA : ∀ a ∈ assignedArrs cl, a ∈ A) (x : Nat) (i j : Int)
    (hl : ¬ (x ∈ A ∧ i = (env.get x).lo + k ∧ j = 0)) :
    ∀ τ, rowClauses env k cl τ (x, i, j) = τ (x, i, j) := by
  induction cl with
  | nil => intro τ; rfl
  | masked m body rest ih =>
    intro τ
    simp only [rowClauses]
    split
    · exact rowAssigns_frame env A k body
        (fun w hw => hA _ (by simp only [assignedArrs, List.mem_append, List.mem_map]; exact Or.inl ⟨w, hw, rfl⟩))
        x i j hl τ
    · exact ih (fun a ha => hA a (by simp only [assignedArrs, List.mem_append]; exact Or.inr ha)) τ
  | final body =>
    intro τ
    exact rowAssigns_frame env A k body
      (fun w hw => hA _ (by simp only [assignedArrs, List.mem_map]; exact ⟨w, hw, rfl⟩)) x i j hl τ

/-! ## Lemma L: the generated loop -/

theorem litE_eval' (n : Int) (σ : Store) : eval (litE n) σ = n := by
  unfold litE
  split
  · simp [eval, evalUn]
  · rfl

theorem isFull_start {env : Env} {a : Nat} {s : Sec} (h : isFull env a s = true) :
    secStart env a s = (env.get a).lo := by
  unfold isFull at h
  unfold secStart
  cases hl : s.lo with
  | none => rfl
  | some l =>
    simp only [hl, Bool.and_eq_true, beq_iff_eq] at h
    simp only [Option.getD_some]
    exact h.1.1.2

theorem isFull_stop {env : Env} {a : Nat} {s : Sec} (h : isFull env a s = true) :
    secStop env a s = (env.get a).hi := by
  unfold isFull at h
  unfold secStop
  cases hl : s.hi with
  | none => rfl
  | some l =>
    simp only [hl, Bool.and_eq_true, beq_iff_eq] at h
    simp only [Option.getD_some]
    exact h.1.2.2

theorem isFull_stride {env : Env} {a : Nat} {s : Sec} (h : isFull env a s = true) : secStride s = 1 := by
  unfold isFull at h
  unfold secStride
  cases hl : s.st with
  | none => rfl
  | some l =>
    simp only [hl, Bool.and_eq_true, beq_iff_eq] at h
    simp only [Option.getD_some]
    exact h.2

theorem idxExpr_eval (env : Env) (wv a : Nat) (s : Sec) (k : Nat) (τ : Store)
    (hst : secStride s = 1) (hwv : τ (wv, 0, 0) = k + 1) :
    eval (idxExpr env wv a s) τ = secStart env a s + k := by
  unfold idxExpr
  split
  · rename_i hf
    rw [isFull_start hf]
    simp only [offIdx, eval, evalBin, hwv]
    omega
  · unfold secStart
    cases hl : s.lo with
    | none =>
      simp only [offIdx, eval, evalBin, hwv, Option.getD_none]
      omega
    | some l =>
      simp only [Option.getD_some]
      split
      · rename_i h1
        simp only [eval, hwv, h1]
        omega
      · simp only [offIdx, eval, evalBin, hwv, litE_eval']
        omega

theorem sumExpr_eval (a : Nat) (lo : Int) (n : Nat) (τ : Store) :
    eval (sumExpr a lo n) τ = sumArr τ a lo n := by
  induction n with
  | zero => rfl
  | succ n ih => simp only [sumExpr, eval, evalBin, ih, sumArr]

theorem lowerA_eval {env : Env} {A : List Nat} {wv : Nat} (k : Nat) (τ : Store) (e : AExpr)
    (he : elemA env A wv e = true) (hwv : τ (wv, 0, 0) = k + 1) :
    eval (lowerA env wv e) τ = evalA env k e τ := by
  induction e with
  | scal e => rfl
  | sec a s =>
    simp only [elemA, Bool.and_eq_true, beq_iff_eq] at he
    simp only [lowerA, eval, evalA, idxExpr_eval env wv a s k τ he.1.1 hwv, he.1.1, Int.mul_one]
  | un op e ih => simp only [lowerA, eval, evalA, ih (by simpa [elemA] using he)]
  | bin op a b iha ihb =>
    simp only [elemA, Bool.and_eq_true] at he
    simp only [lowerA, eval, evalA, iha he.1, ihb he.2]
  | sum a => simp only [lowerA, evalA, sumExpr_eval]
  | sumDim a => simp only [lowerA, evalA, sumExpr_eval]

theorem run_seqs_cons (env : Env) (s : Src) (ss : List Src) (τ : Store) :
    (run env (Src.seqs (s :: ss)) false 0 τ).2 =
      (run env (Src.seqs ss) false 0 (run env s false 0 τ).2).2 := by
  cases ss with
  | nil => rfl
  | cons s' ss' => rfl

theorem lowerAssigns_run {env : Env} {A : List Nat} {wv : Nat} (k : Nat) (ws : List WAssign)
    (he : elemAssigns env A wv ws = true) (hA : ∀ w ∈ ws, w.a ≠ wv) :
    ∀ τ : Store, τ.get (wv, 0, 0) = (k : Int) + 1 →
      (run env (lowerAssigns env wv ws) false 0 τ).2 = rowAssigns env k ws τ ∧
      (rowAssigns env k ws τ).get (wv, 0, 0) = (k : Int) + 1 := by
  induction ws with
  | nil => intro τ h; exact ⟨rfl, h⟩
  | cons w ws ih =>
    intro τ hwv
    simp only [elemAssigns, List.all_cons, Bool.and_eq_true] at he
    have hne : w.a ≠ wv := hA w (List.mem_cons_self ..)
    have hτ' : (τ.set (w.a, (env.get w.a).lo + k, 0) (evalA env k w.rhs τ)).get (wv, 0, 0) = (k : Int) + 1 := by
      rw [Store.set_apply, if_neg]
      · exact hwv
      · intro heq
        simp only [Prod.mk.injEq] at heq
        exact hne heq.1.symm
    have := ih (by simpa [elemAssigns] using he.2) (fun w' hw' => hA w' (List.mem_cons_of_mem _ hw')) _ hτ'
    simp only [lowerAssigns, List.map_cons] at this ⊢
    rw [run_seqs_cons]
    simp only [run, rowAssigns]
    rw [idxExpr_eval env wv w.a w.s k τ (isFull_stride he.1.1) hwv, isFull_start he.1.1,
      lowerA_eval k τ w.rhs he.1.2 hwv]
    exact this

theorem lowerClauses_run {env : Env} {A : List Nat} {wv : Nat} (k : Nat) (cl : WClauses)
    (he : elemClauses env A wv cl = true) (hA : ∀ a ∈ assignedArrs cl, a ≠ wv) :
    ∀ τ : Store, τ.get (wv, 0, 0) = (k : Int) + 1 →
      (run env (lowerClauses env wv cl) false 0 τ).2 = rowClauses env k cl τ := by
  induction cl with
  | nil => intro τ _; rfl
  | masked m body rest ih =>
    intro τ hwv
    simp only [elemClauses, Bool.and_eq_true] at he
    simp only [lowerClauses, run, rowClauses, lowerA_eval k τ m he.1.1 hwv]
    split
    · exact (lowerAssigns_run k body he.1.2
        (fun w hw => hA _ (by simp only [assignedArrs, List.mem_append, List.mem_map]; exact Or.inl ⟨w, hw, rfl⟩))
        τ hwv).1
    · exact ih he.2 (fun a ha => hA a (by simp only [assignedArrs, List.mem_append]; exact Or.inr ha)) τ hwv
  | final body =>
    intro τ hwv
    exact (lowerAssigns_run k body (by simpa [elemClauses] using he)
      (fun w hw => hA _ (by simp only [assignedArrs, List.mem_map]; exact ⟨w, hw, rfl⟩)) τ hwv).1

/-- the positions processed one after the other, loop variable set as the loop does -/
def rowFold (env : Env) (wv : Nat) (cl : WClauses) : Nat → Store → Store
  | 0, σ => σ
  | n+1, σ => rowClauses env n cl ((rowFold env wv cl n σ).set (wv, 0, 0) (n + 1))

theorem iters_rowFold {env : Env} {A : List Nat} {wv : Nat} (cl : WClauses)
    (he : elemClauses env A wv cl = true) (hA : ∀ a ∈ assignedArrs cl, a ≠ wv) (σ : Store) (n : Nat) :
    iters (fun τ => (run env (lowerClauses env wv cl) false 0 τ).2) wv 1 1 n 0 σ = rowFold env wv cl n σ := by
  induction n with
  | zero => rfl
  | succ n ih =>
    rw [iters_succ_last, ih]
    simp only [rowFold]
    have h1 : (1 : Int) + (0 + (n : Int)) * 1 = (n : Int) + 1 := by omega
    rw [h1]
    exact lowerClauses_run n cl he hA _ (by simp)

theorem whereUpper_eval (env : Env) (a : Nat) (s : Sec) (σ : Store) (hst : secStride s = 1) :
    trip 1 (eval (whereUpper env a s) σ) 1 = secExtent env a s := by
  have htrip : ∀ u : Int, trip 1 u 1 = u.toNat := by
    intro u
    simp only [trip, Int.tdiv_one]
    rw [if_neg (by decide)]
    congr 1
    omega
  have hext : secExtent env a s = (secStop env a s - secStart env a s + 1).toNat := by
    simp only [secExtent, trip, hst, Int.tdiv_one]
    rw [if_neg (by decide)]
  rw [htrip, hext]
  unfold whereUpper
  simp only
  split
  · rename_i hf
    rw [isFull_start hf, isFull_stop hf]
    split
    · split
      · rename_i h1
        simp only [eval, h1]
        congr 1
        omega
      · simp only [eval, evalBin]
    · simp only [eval]
  · have hr : s.st = none ∨ s.st = some 1 := by
      cases hs : s.st with
      | none => exact Or.inl rfl
      | some t =>
        right
        have : t = 1 := by simpa [secStride, hs] using hst
        rw [this]
    unfold secStart secStop
    rcases hr with hr | hr <;> cases hl : s.lo <;> cases hh : s.hi <;>
      simp only [hr, Option.getD_some, Option.getD_none] <;> (try split) <;>
      simp_all [eval, evalBin, litE_eval'] <;> (try (congr 1; omega)) <;> (try omega)

/-! ## Lemma S: the standard semantics, location by location -/

/-- location `(x,i,j)` is element `i - lo` (`< n`) of the assignment's full-range LHS and is selected by `ctl` -/
def MC (env : Env) (ctl : Nat → Bool) (w : WAssign) (n : Nat) (x : Nat) (i j : Int) : Prop :=
  x = w.a ∧ j = 0 ∧ (env.get w.a).lo ≤ i ∧ i < (env.get w.a).lo + n ∧
    ctl (i - (env.get w.a).lo).toNat = true

instance (env : Env) (ctl : Nat → Bool) (w : WAssign) (n x : Nat) (i j : Int) : Decidable (MC env ctl w n x i j) := by
  unfold MC; exact inferInstance

theorem maskedStore_spec (env : Env) (ctl : Nat → Bool) (w : WAssign) (σ₀ : Store)
    (hf : isFull env w.a w.s = true) (x : Nat) (i j : Int) :
    ∀ (n : Nat) (τ : Store), maskedStore env ctl w σ₀ n τ (x, i, j) =
      if MC env ctl w n x i j then evalA env (i - (env.get w.a).lo).toNat w.rhs σ₀ else τ (x, i, j) := by
  intro n
  induction n with
  | zero =>
    intro τ
    simp only [maskedStore]
    rw [if_neg]
    rintro ⟨_, _, h1, h2, _⟩
    omega
  | succ n ih =>
    intro τ
    simp only [maskedStore, isFull_start hf, isFull_stride hf, Int.mul_one]
    by_cases hc : ctl n = true
    · rw [if_pos hc, Store.set_apply]
      by_cases hloc : (x, i, j) = (w.a, (env.get w.a).lo + (n : Int), 0)
      · rw [if_pos hloc]
        simp only [Prod.mk.injEq] at hloc
        obtain ⟨h1, h2, h3⟩ := hloc
        have hk : (i - (env.get w.a).lo).toNat = n := by omega
        rw [if_pos ⟨h1, h3, by omega, by omega, by rw [hk]; exact hc⟩, hk]
      · rw [if_neg hloc, ih]
        by_cases hn : MC env ctl w n x i j
        · rw [if_pos hn, if_pos]
          obtain ⟨h1, h2, h3, h4, h5⟩ := hn
          exact ⟨h1, h2, h3, by omega, h5⟩
        · rw [if_neg hn, if_neg]
          rintro ⟨h1, h2, h3, h4, h5⟩
          by_cases hi : i < (env.get w.a).lo + (n : Int)
          · exact hn ⟨h1, h2, h3, hi, h5⟩
          · apply hloc
            rw [h1, h2]
            have : i = (env.get w.a).lo + (n : Int) := by omega
            rw [this]
    · rw [if_neg hc, ih]
      by_cases hn : MC env ctl w n x i j
      · rw [if_pos hn, if_pos]
        obtain ⟨h1, h2, h3, h4, h5⟩ := hn
        exact ⟨h1, h2, h3, by omega, h5⟩
      · rw [if_neg hn, if_neg]
        rintro ⟨h1, h2, h3, h4, h5⟩
        by_cases hi : i < (env.get w.a).lo + (n : Int)
        · exact hn ⟨h1, h2, h3, hi, h5⟩
        · have hk : (i - (env.get w.a).lo).toNat = n := by omega
          rw [hk] at h5
          exact hc h5

/-- location `(x,i,j)` lies in one of the rows `0..n-1` of the assigned arrays `A` -/
def InR (env : Env) (A : List Nat) (n : Nat) (x : Nat) (i j : Int) : Prop :=
  x ∈ A ∧ j = 0 ∧ (env.get x).lo ≤ i ∧ i < (env.get x).lo + n

instance (env : Env) (A : List Nat) (n x : Nat) (i j : Int) : Decidable (InR env A n x i j) := by
  unfold InR; exact inferInstance

def rowIdx (env : Env) (x : Nat) (i : Int) : Nat := (i - (env.get x).lo).toNat

theorem InR.idx {env : Env} {A : List Nat} {n x : Nat} {i j : Int} (h : InR env A n x i j) :
    i = (env.get x).lo + (rowIdx env x i : Nat) ∧ rowIdx env x i < n ∧ j = 0 := by
  obtain ⟨_, h2, h3, h4⟩ := h
  unfold rowIdx
  omega

theorem Rel.refl (env : Env) (A : List Nat) (wv k : Nat) (τ : Store) : Rel env A wv k τ τ :=
  ⟨fun _ _ => rfl, fun _ _ _ _ _ => rfl⟩

/-- the assignments of one block: a selected row gets the row program, everything else is unchanged -/
theorem stdAssigns_spec {env : Env} {A : List Nat} {wv : Nat} (n : Nat) (ctl : Nat → Bool)
    (ws : List WAssign) (he : elemAssigns env A wv ws = true) (hA : ∀ w ∈ ws, w.a ∈ A)
    (x : Nat) (i j : Int) :
    ∀ σ : Store, stdAssigns env n ctl ws σ (x, i, j) =
      if InR env A n x i j ∧ ctl (rowIdx env x i) = true then rowAssigns env (rowIdx env x i) ws σ (x, i, j)
      else σ (x, i, j) := by
  induction ws with
  | nil => intro σ; simp [stdAssigns, rowAssigns]
  | cons w ws ih =>
    intro σ
    have he' := he
    simp only [elemAssigns, List.all_cons, Bool.and_eq_true] at he'
    have hews : elemAssigns env A wv ws = true := by simpa [elemAssigns] using he'.2
    have hwA : w.a ∈ A := hA w (List.mem_cons_self ..)
    have hAws : ∀ w' ∈ ws, w'.a ∈ A := fun w' hw' => hA w' (List.mem_cons_of_mem _ hw')
    simp only [stdAssigns, maskedAssign]
    rw [ih hews hAws]
    by_cases hc : InR env A n x i j ∧ ctl (rowIdx env x i) = true
    · rw [if_pos hc, if_pos hc]
      simp only [rowAssigns]
      obtain ⟨hin, hctl⟩ := hc
      obtain ⟨hi, hlt, hj⟩ := hin.idx
      -- the two stores agree on row k and outside A
      have hrel : Rel env A wv (rowIdx env x i) (maskedStore env ctl w σ n σ)
          (σ.set (w.a, (env.get w.a).lo + (rowIdx env x i : Nat), 0) (evalA env (rowIdx env x i) w.rhs σ)) := by
        constructor
        · intro a ha
          rw [maskedStore_spec env ctl w σ he'.1.1, Store.set_apply]
          by_cases hae : a = w.a
          · rw [hae]
            have hk : ((env.get w.a).lo + (rowIdx env x i : Nat) - (env.get w.a).lo).toNat = rowIdx env x i := by omega
            rw [if_pos ⟨rfl, rfl, by omega, by omega, by rw [hk]; exact hctl⟩, if_pos rfl, hk]
          · rw [if_neg (fun h => hae h.1), if_neg]
            intro h
            exact hae (congrArg Prod.fst h)
        · intro y hy _ i' j'
          rw [maskedStore_spec env ctl w σ he'.1.1, Store.set_apply]
          have hyw : y ≠ w.a := fun h => hy (h ▸ hwA)
          rw [if_neg (fun h => hyw h.1), if_neg]
          intro h
          exact hyw (congrArg Prod.fst h)
      have := (rowAssigns_congr (k := rowIdx env x i) ws hews hrel).row x hin.1
      have hloc : ((x, i, j) : Loc) = (x, (env.get x).lo + (rowIdx env x i : Nat), 0) := by
        rw [hj]; exact congrArg (fun t => ((x, t, (0 : Int)) : Loc)) hi
      rw [hloc]
      exact this
    · rw [if_neg hc, if_neg hc, maskedStore_spec env ctl w σ he'.1.1, if_neg]
      rintro ⟨h1, h2, h3, h4, h5⟩
      apply hc
      subst h1
      exact ⟨⟨hwA, h2, h3, h4⟩, h5⟩

theorem stdClauses_spec {env : Env} {A : List Nat} {wv : Nat} (n : Nat) (cl : WClauses)
    (he : elemClauses env A wv cl = true) (hA : ∀ a ∈ assignedArrs cl, a ∈ A) (x : Nat) (i j : Int) :
    ∀ (pend : Nat → Bool) (σ : Store), stdClauses env n pend cl σ (x, i, j) =
      if InR env A n x i j ∧ pend (rowIdx env x i) = true then rowClauses env (rowIdx env x i) cl σ (x, i, j)
      else σ (x, i, j) := by
  induction cl with
  | nil => intro pend σ; simp [stdClauses, rowClauses]
  | final body =>
    intro pend σ
    simp only [stdClauses, rowClauses]
    exact stdAssigns_spec n pend body (by simpa [elemClauses] using he)
      (fun w hw => hA _ (by simp only [assignedArrs, List.mem_map]; exact ⟨w, hw, rfl⟩)) x i j σ
  | masked m body rest ih =>
    intro pend σ
    simp only [elemClauses, Bool.and_eq_true] at he
    have hAb : ∀ w ∈ body, w.a ∈ A := fun w hw =>
      hA _ (by simp only [assignedArrs, List.mem_append, List.mem_map]; exact Or.inl ⟨w, hw, rfl⟩)
    have hAr : ∀ a ∈ assignedArrs rest, a ∈ A := fun a ha =>
      hA a (by simp only [assignedArrs, List.mem_append]; exact Or.inr ha)
    simp only [stdClauses]
    rw [ih he.2 hAr]
    -- the store after the block, location by location
    have hblock := fun x' i' j' => stdAssigns_spec (A := A) (wv := wv) n
      (fun k => pend k && (evalA env k m σ != 0)) body he.1.2 hAb x' i' j' σ
    by_cases hin : InR env A n x i j
    · obtain ⟨hi, hlt, hj⟩ := hin.idx
      by_cases hp : pend (rowIdx env x i) = true
      · by_cases hv : evalA env (rowIdx env x i) m σ ≠ 0
        · -- selected by this clause
          have hb : (evalA env (rowIdx env x i) m σ != 0) = true := by simpa using hv
          rw [if_neg (by simp [hp, hb]), hblock, if_pos ⟨hin, by simp [hp, hb]⟩, if_pos ⟨hin, hp⟩]
          simp only [rowClauses, if_pos hv]
        · have hb : (evalA env (rowIdx env x i) m σ != 0) = false := by simpa using hv
          rw [if_pos ⟨hin, by simp [hp, hb]⟩, if_pos ⟨hin, hp⟩]
          simp only [rowClauses, if_neg hv]
          -- row untouched by the block: continue with the rest on an equivalent store
          have hrel : Rel env A wv (rowIdx env x i)
              (stdAssigns env n (fun k => pend k && (evalA env k m σ != 0)) body σ) σ := by
            constructor
            · intro a ha
              rw [hblock, if_neg]
              rintro ⟨hin', hc'⟩
              have : rowIdx env a ((env.get a).lo + (rowIdx env x i : Nat)) = rowIdx env x i := by
                unfold rowIdx; omega
              rw [this] at hc'
              simp [hb] at hc'
            · intro y hy _ i' j'
              rw [hblock, if_neg]
              rintro ⟨hin', _⟩
              exact hy hin'.1
          have := (rowClauses_congr (k := rowIdx env x i) rest he.2 hrel).row x hin.1
          have hloc : ((x, i, j) : Loc) = (x, (env.get x).lo + (rowIdx env x i : Nat), 0) := by
            rw [hj]; exact congrArg (fun t => ((x, t, (0 : Int)) : Loc)) hi
          rw [hloc]
          exact this
      · -- not pending: nothing happens to this row any more
        rw [if_neg (by simp [hp]), hblock, if_neg (by simp [hp]), if_neg (by simp [hp])]
    · rw [if_neg (fun h => hin h.1), hblock, if_neg (fun h => hin h.1), if_neg (fun h => hin h.1)]

/-! ## Lemma F: the fold over the positions, location by location -/

theorem rowFold_spec {env : Env} {A : List Nat} {wv : Nat} (cl : WClauses)
    (he : elemClauses env A wv cl = true) (hA : ∀ a ∈ assignedArrs cl, a ∈ A) (hwv : wv ∉ A) (σ : Store) :
    ∀ (n : Nat) (x : Nat) (i j : Int), (x, i, j) ≠ ((wv, 0, 0) : Loc) →
      rowFold env wv cl n σ (x, i, j) =
        if InR env A n x i j then rowClauses env (rowIdx env x i) cl σ (x, i, j) else σ (x, i, j) := by
  intro n
  induction n with
  | zero =>
    intro x i j _
    simp only [rowFold]
    rw [if_neg]
    rintro ⟨_, _, h1, h2⟩
    omega
  | succ n ih =>
    intro x i j hne
    simp only [rowFold]
    by_cases hrow : x ∈ A ∧ i = (env.get x).lo + (n : Int) ∧ j = 0
    · -- the row processed by this iteration
      obtain ⟨hxA, hi, hj⟩ := hrow
      have hk : rowIdx env x i = n := by unfold rowIdx; omega
      have hin : InR env A (n + 1) x i j := ⟨hxA, hj, by omega, by omega⟩
      rw [if_pos hin, hk]
      have hrel : Rel env A wv n ((rowFold env wv cl n σ).set (wv, 0, 0) ((n : Int) + 1)) σ := by
        constructor
        · intro a ha
          have hane : ((a, (env.get a).lo + (n : Int), 0) : Loc) ≠ (wv, 0, 0) := by
            intro h
            have hawv : a = wv := congrArg Prod.fst h
            exact hwv (hawv ▸ ha)
          rw [Store.set_apply, if_neg hane, ih a _ 0 hane, if_neg]
          rintro ⟨_, _, _, h4⟩
          omega
        · intro y hy hyw i' j'
          have hyne : ((y, i', j') : Loc) ≠ (wv, 0, 0) := fun h => hyw (congrArg Prod.fst h)
          rw [Store.set_apply, if_neg hyne, ih y i' j' hyne, if_neg]
          rintro ⟨h1, _⟩
          exact hy h1
      have := (rowClauses_congr (k := n) cl he hrel).row x hxA
      rw [hi, hj]
      exact this
    · rw [rowClauses_frame env A n cl hA x i j hrow, Store.set_apply, if_neg hne, ih x i j hne]
      by_cases hin : InR env A n x i j
      · rw [if_pos hin, if_pos]
        obtain ⟨h1, h2, h3, h4⟩ := hin
        exact ⟨h1, h2, h3, by omega⟩
      · rw [if_neg hin, if_neg]
        rintro ⟨h1, h2, h3, h4⟩
        by_cases hi : i < (env.get x).lo + (n : Int)
        · exact hin ⟨h1, h2, h3, hi⟩
        · exact hrow ⟨h1, by omega, h2⟩

theorem firstSec_stride (env : Env) (A : List Nat) (wv : Nat) (m : AExpr) (a : Nat) (sc : Sec) :
    firstSec m = some (a, sc) → elemA env A wv m = true → secStride sc = 1 := by
  induction m with
  | scal e => intro hfs; simp [firstSec] at hfs
  | sec a' s' =>
    intro hfs hm
    simp only [firstSec, Option.some.injEq, Prod.mk.injEq] at hfs
    simp only [elemA, Bool.and_eq_true, beq_iff_eq] at hm
    rw [← hfs.2]; exact hm.1.1
  | un op e ih => intro hfs hm; exact ih (by simpa [firstSec] using hfs) (by simpa [elemA] using hm)
  | bin op e1 e2 ih1 ih2 =>
    intro hfs hm
    simp only [elemA, Bool.and_eq_true] at hm
    simp only [firstSec] at hfs
    cases h1 : firstSec e1 with
    | none => rw [h1] at hfs; exact ih2 hfs hm.2
    | some r => rw [h1] at hfs; exact ih1 (by rw [h1]; exact hfs) hm.1
  | sum a' => intro hfs; simp [firstSec] at hfs
  | sumDim a' => intro hfs; simp [firstSec] at hfs

/-- **the WHERE lowering is sound for elemental constructs** (all extents, all stores): the
generated loop leaves the store of the standard semantics, and `extent + 1` in its loop variable -/
theorem where_lowered_sound (env : Env) (tag wv : Nat) (cl : WClauses) (s : Src)
    (hl : lowerWhere env wv cl = some s) (he : whereElemental env wv cl = true) (σ : Store) :
    execSrc env s σ = execSrc env (.whereC tag wv cl) σ := by
  simp only [whereElemental, Bool.and_eq_true, Bool.not_eq_true'] at he
  obtain ⟨hwvA, hel⟩ := he
  have hwv : wv ∉ assignedArrs cl := by
    intro h
    have hc : (assignedArrs cl).contains wv = true := List.contains_iff_mem.mpr h
    rw [hwvA] at hc
    cases hc
  have hAne : ∀ a ∈ assignedArrs cl, a ≠ wv := fun a ha h => hwv (h ▸ ha)
  cases cl with
  | nil => simp [lowerWhere] at hl
  | final body => simp [lowerWhere] at hl
  | masked m body rest =>
    simp only [lowerWhere] at hl
    split at hl
    · cases hl
    · cases hfs : firstSec m with
      | none => rw [hfs] at hl; cases hl
      | some as =>
        obtain ⟨a, sc⟩ := as
        rw [hfs] at hl
        simp only [Option.some.injEq] at hl
        subst hl
        -- the mask's first section has unit stride
        have hst : secStride sc = 1 := by
          simp only [elemClauses, Bool.and_eq_true] at hel
          exact firstSec_stride env _ wv m a sc hfs hel.1.1
        have hn : whereExtent env (.masked m body rest) = secExtent env a sc := by
          simp only [whereExtent, hfs]
        simp only [execSrc, run, eval, execWhere, hn]
        rw [whereUpper_eval env a sc σ hst, runIters_eq_iters,
          iters_rowFold (A := assignedArrs (.masked m body rest)) _ hel hAne]
        apply Store.ext
        funext ⟨x, i, j⟩
        by_cases hloc : ((x, i, j) : Loc) = (wv, 0, 0)
        · rw [hloc]
          simp only [Store.set_same]
          omega
        · rw [Store.set_apply, if_neg hloc, Store.set_apply, if_neg hloc,
            rowFold_spec _ hel (fun a ha => ha) hwv σ _ x i j hloc,
            stdClauses_spec _ _ hel (fun a ha => ha) x i j]
          simp

end C01
