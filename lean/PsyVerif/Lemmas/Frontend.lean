import PsyVerif.Model.Frontend
import PsyVerif.Lemmas.MiniFSem
/-! # C01: the WHERE lowering versus the standard semantics

`rowClauses k` is the WHERE construct interpreted at the single position `k`, statements
interleaved (what one iteration of the generated loop does).  Lemma L: the generated loop is
the fold of `rowClauses` over the positions.  Lemma S: under `whereElemental` the standard
semantics (masks once, statement by statement over the whole mask) is the same store. -/
namespace C01
open MiniF

theorem exprVars_eq (e : Expr) : exprVars e = evars e := by
  induction e <;> simp_all [exprVars, evars]

def rowAssigns (env : Env) (k : Nat) : List WAssign → Store → Store
  | [], σ => σ
  | w :: ws, σ => rowAssigns env k ws (σ.set (w.a, (env.get w.a).lo + k, 0) (evalA env k w.rhs σ))

def rowClauses (env : Env) (k : Nat) : WClauses → Store → Store
  | .nil, σ => σ
  | .masked m body rest, σ =>
    if evalA env k m σ ≠ 0 then rowAssigns env k body σ else rowClauses env k rest σ
  | .final body, σ => rowAssigns env k body σ

/-- agreement on row `k` of the assigned arrays and on everything that is neither an
assigned array nor the loop variable -/
structure Rel (env : Env) (A : List Nat) (wv k : Nat) (τ τ' : Store) : Prop where
  row : ∀ a ∈ A, τ (a, (env.get a).lo + k, 0) = τ' (a, (env.get a).lo + k, 0)
  out : ∀ x, x ∉ A → x ≠ wv → ∀ i j, τ (x, i, j) = τ' (x, i, j)

theorem Rel.set {env : Env} {A : List Nat} {wv k : Nat} {τ τ' : Store} (h : Rel env A wv k τ τ')
    (l : Loc) (v : Int) : Rel env A wv k (τ.set l v) (τ'.set l v) := by
  constructor
  · intro a ha
    simp only [Store.set_apply]
    split
    · rfl
    · exact h.row a ha
  · intro x hx hw i j
    simp only [Store.set_apply]
    split
    · rfl
    · exact h.out x hx hw i j

theorem sumArr_congr {τ τ' : Store} (a : Nat) (lo : Int) (h : ∀ i, τ (a, i, 0) = τ' (a, i, 0)) (n : Nat) :
    sumArr τ a lo n = sumArr τ' a lo n := by
  induction n with
  | zero => rfl
  | succ n ih => simp only [sumArr, ih, h]

theorem evalA_congr {env : Env} {A : List Nat} {wv k : Nat} {τ τ' : Store} (e : AExpr)
    (he : elemA env A wv e = true) (h : Rel env A wv k τ τ') : evalA env k e τ = evalA env k e τ' := by
  induction e with
  | scal e =>
    simp only [elemA, List.all_eq_true, Bool.and_eq_true, Bool.not_eq_true', bne_iff_ne, ne_eq] at he
    simp only [evalA]
    apply eval_congr (V := fun x => x ∉ A ∧ x ≠ wv)
    · intro x hx
      rw [← exprVars_eq] at hx
      have := he x hx
      refine ⟨?_, this.2⟩
      intro hxA
      have hc : A.contains x = true := List.contains_iff_mem.mpr hxA
      rw [this.1] at hc
      cases hc
    · intro x hx i j
      exact h.out x hx.1 hx.2 i j
  | sec a s =>
    simp only [elemA, Bool.and_eq_true, Bool.or_eq_true, Bool.not_eq_true', bne_iff_ne, ne_eq,
      beq_iff_eq] at he
    obtain ⟨⟨hst, hwv⟩, hal⟩ := he
    simp only [evalA, hst, Int.mul_one]
    by_cases hA : a ∈ A
    · rcases hal with hal | hal
      · have hc : A.contains a = true := List.contains_iff_mem.mpr hA
        rw [hal] at hc
        cases hc
      · rw [hal]
        exact h.row a hA
    · exact h.out a hA hwv _ _
  | un op e ih => simp only [evalA, ih (by simpa [elemA] using he)]
  | bin op a b iha ihb =>
    simp only [elemA, Bool.and_eq_true] at he
    simp only [evalA, iha he.1, ihb he.2]
  | sum a =>
    simp only [elemA, Bool.and_eq_true, Bool.not_eq_true', bne_iff_ne, ne_eq] at he
    simp only [evalA]
    apply sumArr_congr
    intro i
    refine h.out a ?_ he.2 i 0
    intro hA
    have hc : A.contains a = true := List.contains_iff_mem.mpr hA
    rw [he.1] at hc
    cases hc
  | sumDim a =>
    simp only [elemA, Bool.and_eq_true, Bool.not_eq_true', bne_iff_ne, ne_eq] at he
    simp only [evalA]
    apply sumArr_congr
    intro i
    refine h.out a ?_ he.2 i 0
    intro hA
    have hc : A.contains a = true := List.contains_iff_mem.mpr hA
    rw [he.1] at hc
    cases hc

theorem rowAssigns_congr {env : Env} {A : List Nat} {wv k : Nat} (ws : List WAssign)
    (he : elemAssigns env A wv ws = true) :
    ∀ {τ τ' : Store}, Rel env A wv k τ τ' → Rel env A wv k (rowAssigns env k ws τ) (rowAssigns env k ws τ') := by
  induction ws with
  | nil => intro τ τ' h; exact h
  | cons w ws ih =>
    intro τ τ' h
    simp only [elemAssigns, List.all_cons, Bool.and_eq_true] at he
    simp only [rowAssigns]
    rw [evalA_congr w.rhs he.1.2 h]
    exact ih (by simpa [elemAssigns] using he.2) (h.set _ _)

theorem rowClauses_congr {env : Env} {A : List Nat} {wv k : Nat} (cl : WClauses)
    (he : elemClauses env A wv cl = true) :
    ∀ {τ τ' : Store}, Rel env A wv k τ τ' → Rel env A wv k (rowClauses env k cl τ) (rowClauses env k cl τ') := by
  induction cl with
  | nil => intro τ τ' h; exact h
  | masked m body rest ih =>
    intro τ τ' h
    simp only [elemClauses, Bool.and_eq_true] at he
    simp only [rowClauses, evalA_congr m he.1.1 h]
    split
    · exact rowAssigns_congr body he.1.2 h
    · exact ih he.2 h
  | final body =>
    intro τ τ' h
    exact rowAssigns_congr body (by simpa [elemClauses] using he) h

/-! ## frame -/

theorem rowAssigns_frame (env : Env) (A : List Nat) (k : Nat) (ws : List WAssign)
    (hA : ∀ w ∈ ws, w.a ∈ A) (x : Nat) (i j : Int)
    (hl : ¬ (x ∈ A ∧ i = (env.get x).lo + k ∧ j = 0)) :
    ∀ τ, rowAssigns env k ws τ (x, i, j) = τ (x, i, j) := by
  induction ws with
  | nil => intro τ; rfl
  | cons w ws ih =>
    intro τ
    simp only [rowAssigns]
    rw [ih (fun w' hw' => hA w' (List.mem_cons_of_mem _ hw')), Store.set_apply, if_neg]
    intro heq
    simp only [Prod.mk.injEq] at heq
    apply hl
    refine ⟨?_, ?_, heq.2.2⟩
    · rw [heq.1]; exact hA w (List.mem_cons_self ..)
    · rw [heq.1]; exact heq.2.1

theorem assigned_masked (m : AExpr) (body : List WAssign) (rest : WClauses) :
    assignedArrs (.masked m body rest) = body.map (·.a) ++ assignedArrs rest := rfl

theorem rowClauses_frame (env : Env) (A : List Nat) (k : Nat) (cl : WClauses)
    (hA : ∀ a ∈ assignedArrs cl, a ∈ A) (x : Nat) (i j : Int)
    (hl : ¬ (x ∈ A ∧ i = (env.get x).lo + k ∧ j = 0)) :
    ∀ τ, rowClauses env k cl τ (x, i, j) = τ (x, i, j) := by
  induction cl with
  | nil => intro τ; rfl
  | masked m body rest ih =>
    intro τ
    simp only [rowClauses]
    split
    · exact rowAssigns_frame env A k body
        (fun w hw => hA _ (by simp only [assignedArrs, List.mem_append, List.mem_map]; exact Or.inl ⟨w, hw, rfl⟩))
        x i j hl τ
    · exact ih (fun a ha => hA a (by simp only [assignedArrs, List.mem_append]; exact Or.inr ha)) τ
  | final body =>
    intro τ
    exact rowAssigns_frame env A k body
      (fun w hw => hA _ (by simp only [assignedArrs, List.mem_map]; exact ⟨w, hw, rfl⟩)) x i j hl τ

/-! ## Lemma L: the generated loop -/

theorem litE_eval' (n : Int) (σ : Store) : eval (litE n) σ = n := by
  unfold litE
  split
  · simp [eval, evalUn]
  · rfl

theorem isFull_start {env : Env} {a : Nat} {s : Sec} (h : isFull env a s = true) :
    secStart env a s = (env.get a).lo := by
  unfold isFull at h
  unfold secStart
  cases hl : s.lo with
  | none => rfl
  | some l =>
    simp only [hl, Bool.and_eq_true, beq_iff_eq] at h
    simp only [Option.getD_some]
    exact h.1.1.2

theorem isFull_stop {env : Env} {a : Nat} {s : Sec} (h : isFull env a s = true) :
    secStop env a s = (env.get a).hi := by
  unfold isFull at h
  unfold secStop
  cases hl : s.hi with
  | none => rfl
  | some l =>
    simp only [hl, Bool.and_eq_true, beq_iff_eq] at h
    simp only [Option.getD_some]
    exact h.1.2.2

theorem isFull_stride {env : Env} {a : Nat} {s : Sec} (h : isFull env a s = true) : secStride s = 1 := by
  unfold isFull at h
  unfold secStride
  cases hl : s.st with
  | none => rfl
  | some l =>
    simp only [hl, Bool.and_eq_true, beq_iff_eq] at h
    simp only [Option.getD_some]
    exact h.2

theorem idxExpr_eval (env : Env) (wv a : Nat) (s : Sec) (k : Nat) (τ : Store)
    (hst : secStride s = 1) (hwv : τ (wv, 0, 0) = k + 1) :
    eval (idxExpr env wv a s) τ = secStart env a s + k := by
  unfold idxExpr
  split
  · rename_i hf
    rw [isFull_start hf]
    simp only [offIdx, eval, evalBin, hwv]
    omega
  · unfold secStart
    cases hl : s.lo with
    | none =>
      simp only [offIdx, eval, evalBin, hwv, Option.getD_none]
      omega
    | some l =>
      simp only [Option.getD_some]
      split
      · rename_i h1
        simp only [eval, hwv, h1]
        omega
      · simp only [offIdx, eval, evalBin, hwv, litE_eval']
        omega

theorem sumExpr_eval (a : Nat) (lo : Int) (n : Nat) (τ : Store) :
    eval (sumExpr a lo n) τ = sumArr τ a lo n := by
  induction n with
  | zero => rfl
  | succ n ih => simp only [sumExpr, eval, evalBin, ih, sumArr]

theorem lowerA_eval {env : Env} {A : List Nat} {wv : Nat} (k : Nat) (τ : Store) (e : AExpr)
    (he : elemA env A wv e = true) (hwv : τ (wv, 0, 0) = k + 1) :
    eval (lowerA env wv e) τ = evalA env k e τ := by
  induction e with
  | scal e => rfl
  | sec a s =>
    simp only [elemA, Bool.and_eq_true, beq_iff_eq] at he
    simp only [lowerA, eval, evalA, idxExpr_eval env wv a s k τ he.1.1 hwv, he.1.1, Int.mul_one]
  | un op e ih => simp only [lowerA, eval, evalA, ih (by simpa [elemA] using he)]
  | bin op a b iha ihb =>
    simp only [elemA, Bool.and_eq_true] at he
    simp only [lowerA, eval, evalA, iha he.1, ihb he.2]
  | sum a => simp only [lowerA, evalA, sumExpr_eval]
  | sumDim a => simp only [lowerA, evalA, sumExpr_eval]

theorem run_seqs_cons (env : Env) (s : Src) (ss : List Src) (τ : Store) :
    (run env (Src.seqs (s :: ss)) false 0 τ).2 =
      (run env (Src.seqs ss) false 0 (run env s false 0 τ).2).2 := by
  cases ss with
  | nil => rfl
  | cons s' ss' => rfl

theorem lowerAssigns_run {env : Env} {A : List Nat} {wv : Nat} (k : Nat) (ws : List WAssign)
    (he : elemAssigns env A wv ws = true) (hA : ∀ w ∈ ws, w.a ≠ wv) :
    ∀ τ : Store, τ.get (wv, 0, 0) = (k : Int) + 1 →
      (run env (lowerAssigns env wv ws) false 0 τ).2 = rowAssigns env k ws τ ∧
      (rowAssigns env k ws τ).get (wv, 0, 0) = (k : Int) + 1 := by
  induction ws with
  | nil => intro τ h; exact ⟨rfl, h⟩
  | cons w ws ih =>
    intro τ hwv
    simp only [elemAssigns, List.all_cons, Bool.and_eq_true] at he
    have hne : w.a ≠ wv := hA w (List.mem_cons_self ..)
    have hτ' : (τ.set (w.a, (env.get w.a).lo + k, 0) (evalA env k w.rhs τ)).get (wv, 0, 0) = (k : Int) + 1 := by
      rw [Store.set_apply, if_neg]
      · exact hwv
      · intro heq
        simp only [Prod.mk.injEq] at heq
        exact hne heq.1.symm
    have := ih (by simpa [elemAssigns] using he.2) (fun w' hw' => hA w' (List.mem_cons_of_mem _ hw')) _ hτ'
    simp only [lowerAssigns, List.map_cons] at this ⊢
    rw [run_seqs_cons]
    simp only [run, rowAssigns]
    rw [idxExpr_eval env wv w.a w.s k τ (isFull_stride he.1.1) hwv, isFull_start he.1.1,
      lowerA_eval k τ w.rhs he.1.2 hwv]
    exact this

theorem lowerClauses_run {env : Env} {A : List Nat} {wv : Nat} (k : Nat) (cl : WClauses)
    (he : elemClauses env A wv cl = true) (hA : ∀ a ∈ assignedArrs cl, a ≠ wv) :
    ∀ τ : Store, τ.get (wv, 0, 0) = (k : Int) + 1 →
      (run env (lowerClauses env wv cl) false 0 τ).2 = rowClauses env k cl τ := by
  induction cl with
  | nil => intro τ _; rfl
  | masked m body rest ih =>
    intro τ hwv
    simp only [elemClauses, Bool.and_eq_true] at he
    simp only [lowerClauses, run, rowClauses, lowerA_eval k τ m he.1.1 hwv]
    split
    · exact (lowerAssigns_run k body he.1.2
        (fun w hw => hA _ (by simp only [assignedArrs, List.mem_append, List.mem_map]; exact Or.inl ⟨w, hw, rfl⟩))
        τ hwv).1
    · exact ih he.2 (fun a ha => hA a (by simp only [assignedArrs, List.mem_append]; exact Or.inr ha)) τ hwv
  | final body =>
    intro τ hwv
    exact (lowerAssigns_run k body (by simpa [elemClauses] using he)
      (fun w hw => hA _ (by simp only [assignedArrs, List.mem_map]; exact ⟨w, hw, rfl⟩)) τ hwv).1

/-- the positions processed one after the other, loop variable set as the loop does -/
def rowFold (env : Env) (wv : Nat) (cl : WClauses) : Nat → Store → Store
  | 0, σ => σ
  | n+1, σ => rowClauses env n cl ((rowFold env wv cl n σ).set (wv, 0, 0) (n + 1))

theorem iters_rowFold {env : Env} {A : List Nat} {wv : Nat} (cl : WClauses)
    (he : elemClauses env A wv cl = true) (hA : ∀ a ∈ assignedArrs cl, a ≠ wv) (σ : Store) (n : Nat) :
    iters (fun τ => (run env (lowerClauses env wv cl) false 0 τ).2) wv 1 1 n 0 σ = rowFold env wv cl n σ := by
  induction n with
  | zero => rfl
  | succ n ih =>
    rw [iters_succ_last, ih]
    simp only [rowFold]
    have h1 : (1 : Int) + (0 + (n : Int)) * 1 = (n : Int) + 1 := by omega
    rw [h1]
    exact lowerClauses_run n cl he hA _ (by simp)

theorem whereUpper_eval (env : Env) (a : Nat) (s : Sec) (σ : Store) (hst : secStride s = 1) :
    trip 1 (eval (whereUpper env a s) σ) 1 = secExtent env a s := by
  have htrip : ∀ u : Int, trip 1 u 1 = u.toNat := by
    intro u
    simp only [trip, Int.tdiv_one]
    rw [if_neg (by decide)]
    congr 1
    omega
  have hext : secExtent env a s = (secStop env a s - secStart env a s + 1).toNat := by
    simp only [secExtent, trip, hst, Int.tdiv_one]
    rw [if_neg (by decide)]
  rw [htrip, hext]
  unfold whereUpper
  simp only
  split
  · rename_i hf
    rw [isFull_start hf, isFull_stop hf]
    split
    · split
      · rename_i h1
        simp only [eval, h1]
        congr 1
        omega
      · simp only [eval, evalBin]
    · simp only [eval]
  · have hr : s.st = none ∨ s.st = some 1 := by
      cases hs : s.st with
      | none => exact Or.inl rfl
      | some t =>
        right
        have : t = 1 := by simpa [secStride, hs] using hst
        rw [this]
    unfold secStart secStop
    rcases hr with hr | hr <;> cases hl : s.lo <;> cases hh : s.hi <;>
      simp only [hr, Option.getD_some, Option.getD_none] <;> (try split) <;>
      simp_all [eval, evalBin, litE_eval'] <;> (try (congr 1; omega)) <;> (try omega)

end C01
