import PsyVerif.Model.LoopTrans
/-! # C05 — FoldConditionalReturnExpressionsTrans preserves the final store.  Core Lean only. -/
namespace C05
open MiniF

theorem execR_seqsR_cons (s : RStmt) (l : List RStmt) (σ : Store) :
    (execR (seqsR (s :: l)) σ).1
      = if (execR s σ).2 then (execR s σ).1 else (execR (seqsR l) (execR s σ).1).1 := by
  cases l with
  | nil => simp [seqsR, execR]
  | cons a l =>
    simp only [seqsR, execR]
    split <;> rfl

/-- a branch that starts with RETURN returns immediately -/
theorem execR_firstIsRet {t : RStmt} (h : firstIsRet t = true) (σ : Store) : execR t σ = (σ, true) := by
  induction t with
  | skip => simp [firstIsRet] at h
  | seq a b iha _ =>
    simp only [firstIsRet] at h
    simp [execR, iha h]
  | base s => simp [firstIsRet] at h
  | ret => rfl
  | ite c t f e _ _ => simp [firstIsRet] at h

theorem condRet_some {s : RStmt} {c : Expr} (h : condRet s = some c) :
    ∃ t, s = .ite c t .skip false ∧ firstIsRet t = true := by
  unfold condRet at h
  split at h
  · rename_i c' t
    split at h
    · rename_i hf; cases h; exact ⟨t, rfl, hf⟩
    · cases h
  · cases h

theorem eval_not (c : Expr) (σ : Store) : (eval (.un .not c) σ ≠ 0) ↔ eval c σ = 0 := by
  simp only [eval, evalUn, b2i]
  by_cases h : eval c σ = 0 <;> simp [h]

/-- **folding conditional returns preserves the final store of the routine** -/
theorem fold_sound : ∀ (l : List RStmt) (σ : Store),
    (execR (seqsR (foldApply l)) σ).1 = (execR (seqsR l) σ).1
  | [], _ => rfl
  | s :: rest, σ => by
    rw [execR_seqsR_cons]
    simp only [foldApply]
    cases hc : condRet s with
    | none =>
      simp only
      rw [execR_seqsR_cons]
      split
      · rfl
      · exact fold_sound rest _
    | some c =>
      simp only
      obtain ⟨t, rfl, hf⟩ := condRet_some hc
      have hs : execR (.ite c t .skip false) σ = if eval c σ ≠ 0 then (σ, true) else (σ, false) := by
        simp only [execR, execR_firstIsRet hf]
      have hnot := eval_not c σ
      rw [hs]
      simp only [seqsR, execR]
      by_cases h0 : eval c σ = 0
      · have h1 : eval (.un .not c) σ ≠ 0 := hnot.2 h0
        rw [if_pos h1]
        simp only [h0, ne_eq, not_true_eq_false, if_false, Bool.false_eq_true]
        exact fold_sound rest σ
      · have h1 : ¬ (eval (.un .not c) σ ≠ 0) := fun h => h0 (hnot.1 h)
        rw [if_neg h1]
        simp [h0]

end C05
