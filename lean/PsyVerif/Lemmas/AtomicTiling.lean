import PsyVerif.Model.AtomicTiling

/-! C26 — lemmas for `LoopTiling2DTrans`: the symbols returned by `find_or_create_tag` for different
tags are different in a well-formed table, and the nested validates of `apply` succeed whenever the
outer validate did. -/
namespace C26.Tiling

/-- Well-formed tag dictionary: tagged symbols exist, and no symbol carries two tags. -/
def WF (t : Tab) : Prop :=
  (∀ k s, t.tags k = some s → s < t.bound) ∧
  (∀ k k' s, t.tags k = some s → t.tags k' = some s → k = k')

theorem foc_spec (key : Nat) (t : Tab) (h : WF t) :
    WF (findOrCreate key t).2 ∧
    (findOrCreate key t).2.tags key = some (findOrCreate key t).1 ∧
    (∀ k s, t.tags k = some s → (findOrCreate key t).2.tags k = some s) := by
  unfold findOrCreate
  cases hk : t.tags key with
  | some s => exact ⟨h, hk, fun _ _ hh => hh⟩
  | none =>
    refine ⟨⟨?_, ?_⟩, by simp, ?_⟩
    · intro k s hs
      simp only at hs ⊢
      by_cases e : k = key
      · simp [e] at hs; omega
      · simp [e] at hs; have := h.1 k s hs; omega
    · intro k k' s hs hs'
      simp only at hs hs'
      by_cases e : k = key <;> by_cases e' : k' = key
      · rw [e, e']
      · simp [e, e'] at hs hs'; have := h.1 k' s hs'; omega
      · simp [e, e'] at hs hs'; have := h.1 k s hs; omega
      · simp [e, e'] at hs hs'; exact h.2 k k' s hs hs'
    · intro k s hs
      simp only
      by_cases e : k = key
      · rw [e, hk] at hs; cases hs
      · simp [e, hs]

/-- Four successive `find_or_create_tag` calls with pairwise different tags `k1 k2 k3 k4`: the last symbol
    differs from the first two. -/
theorem foc_distinct (k1 k2 k3 k4 : Nat) (t : Tab) (h : WF t) (h41 : k4 ≠ k1) (h42 : k4 ≠ k2) :
    let r1 := findOrCreate k1 t
    let r2 := findOrCreate k2 r1.2
    let r3 := findOrCreate k3 r2.2
    let r4 := findOrCreate k4 r3.2
    r4.1 ≠ r1.1 ∧ r4.1 ≠ r2.1 := by
  intro r1 r2 r3 r4
  obtain ⟨w1, g1, p1⟩ := foc_spec k1 t h
  obtain ⟨w2, g2, p2⟩ := foc_spec k2 r1.2 w1
  obtain ⟨w3, g3, p3⟩ := foc_spec k3 r2.2 w2
  obtain ⟨w4, g4, p4⟩ := foc_spec k4 r3.2 w3
  have t1 : r4.2.tags k1 = some r1.1 := p4 _ _ (p3 _ _ (p2 _ _ g1))
  have t2 : r4.2.tags k2 = some r2.1 := p4 _ _ (p3 _ _ g2)
  constructor
  · intro e
    exact h41 (w4.2 k4 k1 r4.1 g4 (e ▸ t1))
  · intro e
    exact h42 (w4.2 k4 k2 r4.1 g4 (e ▸ t2))


theorem vars_lit (k : Int) : (Step.lit k).vars = [] := rfl

theorem chunkApply_loop (cs : Int) (h : Hdr) (body next : Stmt) (t : Tab) :
    chunkApply cs (.loop h body next) t =
      (.loop { var := (findOrCreate (outKey h.var) (findOrCreate (elKey h.var) t).2).1,
               start := h.start, stop := h.stop,
               step := .lit (if h.step.litOr1 < 0 then -cs else cs),
               chunked := true, tab := false }
         (.leaf [(findOrCreate (elKey h.var) t).1] false false
           (.loop { h with start := [(findOrCreate (outKey h.var) (findOrCreate (elKey h.var) t).2).1],
                           stop := [(findOrCreate (elKey h.var) t).1], chunked := true } body .nil)) next,
       (findOrCreate (outKey h.var) (findOrCreate (elKey h.var) t).2).2) := rfl

/-- Shape of a nest accepted by `LoopSwapTrans.validate`. -/
theorem swapValidate_shape (n : Stmt) (h : swapValidate n = true) :
    ∃ ho hi bi nx, n = .loop ho (.loop hi bi .nil) nx := by
  cases n with
  | nil => simp [swapValidate] at h
  | leaf => simp [swapValidate] at h
  | loop ho bo nx =>
    cases bo with
    | nil => simp [swapValidate] at h
    | leaf => simp [swapValidate] at h
    | loop hi bi ni =>
      cases ni with
      | nil => exact ⟨ho, hi, bi, nx, rfl⟩
      | leaf => simp [swapValidate] at h
      | loop => simp [swapValidate] at h

/-- **Every nested validate of `LoopTiling2DTrans.apply` is implied by its own validate**: in a
    well-formed symbol table an accepted target is transformed to the end. -/
theorem tiling_accepts (o : Opts) (s : St) (hw : WF s.tab) (hv : tilingValidate o s = true) :
    (run (tilingProg o) s).2 = .accepted := by
  obtain ⟨nest, tab⟩ := s
  simp only [tilingValidate, Bool.and_eq_true] at hv
  obtain ⟨⟨⟨⟨_, _⟩, hswap⟩, hco⟩, hci⟩ := hv
  obtain ⟨ho, hi, bi, nx, rfl⟩ := swapValidate_shape nest hswap
  simp only [inner0] at hci
  -- facts from the outer validate
  have hswap' := hswap
  simp only [swapValidate, Bool.and_eq_true, Bool.not_eq_true'] at hswap'
  obtain ⟨⟨⟨⟨⟨hcb, himp⟩, htabo⟩, htabi⟩, _⟩, hoi⟩ := hswap'
  have hco' := hco
  simp only [chunkValidate, Bool.and_eq_true, List.all_cons, writes] at hco'
  obtain ⟨_, ⟨hvo, _⟩⟩ := hco'
  have hne : hi.var ≠ ho.var := by
    intro e
    simp [e] at hvo
  have hci' := hci
  simp only [chunkValidate, Bool.and_eq_true] at hci'
  have hlit : hi.step.vars = [] := by
    cases hs : hi.step with
    | lit k => rfl
    | expr vs => simp [hs] at hci'
  have hlito : ho.step.vars = [] := by
    have hco2 := hco
    simp only [chunkValidate, Bool.and_eq_true] at hco2
    cases hs : ho.step with
    | lit k => rfl
    | expr vs => simp [hs] at hco2
  have hoi2 : ¬ ho.var ∈ hi.start ∧ ¬ ho.var ∈ hi.stop := by
    simpa [hlit] using hoi
  -- distinctness of the created symbols
  have hk1 : outKey hi.var ≠ elKey ho.var := by unfold outKey elKey; omega
  have hk2 : outKey hi.var ≠ outKey ho.var := by unfold outKey; omega
  obtain ⟨d1, d2⟩ := foc_distinct (elKey ho.var) (outKey ho.var) (elKey hi.var) (outKey hi.var) tab hw hk1 hk2
  -- run the program
  simp only [tilingProg, validateThen, run, tilingValidate, inner0, hswap, hco, hci, chunkProg, id,
    chunkApply_loop, innerAfterChunk, atInnerAfterChunk, swapProgWalk1, firstLoopIn, Bool.and_self,
    Bool.and_true, if_true]
  simp only [‹optsOk o = true›, if_true, Bool.and_true]
  simp [swapValidate, hasCB, hasImpure, hcb, himp, htabo, hlit, hlito, d1, d2, hoi2, vars_lit, run]

end C26.Tiling
