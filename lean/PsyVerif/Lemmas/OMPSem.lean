import PsyVerif.Model.OMP
/-! # Soundness of the dynamic footprints `C09.fp` and of the undefined-scalar tracking `C09.execP`

* `fp_sound`: for every statement, **frame** (only locations in the write list change) and
  **locality** (two stores that agree on the upward-exposed reads give the same footprint, and
  results that agree on the writes and wherever the inputs agreed).
* `execP_sound`: if no undefined scalar is among the upward-exposed reads, `execP` does not
  fail, computes `exec`, and the scalars still undefined were not written.
Core Lean only. -/
namespace C09
open MiniF

/-- agreement of two stores on a set of locations -/
def AgreeL (S : Loc → Prop) (σ τ : Store) : Prop := ∀ l, S l → σ l = τ l

theorem set_apply (σ : Store) (l l' : Loc) (v : Int) :
    (σ.set l v) l' = if l' = l then v else σ l' := rfl

/-! ## expressions -/

theorem erd_sound (e : Expr) (σ τ : Store) (h : ∀ l ∈ erd e σ, σ l = τ l) :
    eval e τ = eval e σ ∧ erd e τ = erd e σ := by
  induction e with
  | lit n => exact ⟨rfl, rfl⟩
  | var x => exact ⟨(h _ (by simp [erd])).symm, rfl⟩
  | idx1 a i ih =>
    have hi := ih (fun l hl => h l (by simp [erd, hl]))
    have ha := h (a, eval i σ, 0) (by simp [erd])
    simp only [eval, erd, hi.1, hi.2, ha, and_self]
  | idx2 a i j ihi ihj =>
    have hi := ihi (fun l hl => h l (by simp [erd, hl]))
    have hj := ihj (fun l hl => h l (by simp [erd, hl]))
    have ha := h (a, eval i σ, eval j σ) (by simp [erd])
    simp only [eval, erd, hi.1, hi.2, hj.1, hj.2, ha, and_self]
  | un op e ih =>
    have he := ih (fun l hl => h l (by simpa [erd] using hl))
    simp only [eval, erd, he.1, he.2, and_self]
  | bin op a b iha ihb =>
    have h1 := iha (fun l hl => h l (by simp [erd, hl]))
    have h2 := ihb (fun l hl => h l (by simp [erd, hl]))
    simp only [eval, erd, h1.1, h1.2, h2.1, h2.2, and_self]

/-- a value computed from the store, determined by the listed reads -/
def Det {α : Type} (p : Store → α) (rp : Store → List Loc) : Prop :=
  ∀ σ τ, (∀ l ∈ rp σ, σ l = τ l) → p τ = p σ ∧ rp τ = rp σ

theorem det_eval (e : Expr) : Det (eval e) (erd e) := fun σ τ h => erd_sound e σ τ h

theorem Det.pair {α β : Type} {p : Store → α} {q : Store → β} {rp rq : Store → List Loc}
    (hp : Det p rp) (hq : Det q rq) : Det (fun σ => (p σ, q σ)) (fun σ => rp σ ++ rq σ) := by
  intro σ τ h
  have h1 := hp σ τ (fun l hl => h l (by simp [hl]))
  have h2 := hq σ τ (fun l hl => h l (by simp [hl]))
  simp only [h1.1, h1.2, h2.1, h2.2, and_self]

theorem Det.map {α β : Type} {p : Store → α} {rp : Store → List Loc} (hp : Det p rp) (f : α → β) :
    Det (fun σ => f (p σ)) rp := by
  intro σ τ h
  have h1 := hp σ τ h
  simp only [h1.1, h1.2, and_self]

/-! ## sound (semantics, footprint) pairs -/

structure Sound (f : Store → Store) (g : Store → Fp) : Prop where
  frame : ∀ σ l, l ∉ (g σ).2 → f σ l = σ l
  loc : ∀ σ τ (S : Loc → Prop), (∀ l ∈ (g σ).1, S l) → AgreeL S σ τ →
    g τ = g σ ∧ AgreeL (fun l => S l ∨ l ∈ (g σ).2) (f σ) (f τ)

theorem Sound.congr {f f' : Store → Store} {g g' : Store → Fp} (h : Sound f g)
    (hf : ∀ σ, f' σ = f σ) (hg : ∀ σ, g' σ = g σ) : Sound f' g' := by
  have e1 : f' = f := funext hf
  have e2 : g' = g := funext hg
  rw [e1, e2]; exact h

theorem fpSeq_reads (R : List Loc) (b : Fp) : fpSeq (R, []) b = (R ++ b.1, b.2) := by
  simp [fpSeq]

theorem mem_fpSeq_reads {a b : Fp} {l : Loc} :
    l ∈ (fpSeq a b).1 ↔ l ∈ a.1 ∨ (l ∈ b.1 ∧ l ∉ a.2) := by
  simp [fpSeq]

theorem mem_fpSeq_writes {a b : Fp} {l : Loc} : l ∈ (fpSeq a b).2 ↔ l ∈ a.2 ∨ l ∈ b.2 := by
  simp [fpSeq]

theorem Sound.skip : Sound (fun σ => σ) (fun _ => ([], [])) where
  frame := fun _ _ _ => rfl
  loc := fun _ _ _ _ h => ⟨rfl, fun l hl => by
    rcases hl with hl | hl
    · exact h l hl
    · simp at hl⟩

theorem Sound.set (l : Loc) (c : Int) : Sound (fun σ => σ.set l c) (fun _ => ([], [l])) where
  frame := fun σ l' hl' => by
    have : l' ≠ l := by simpa using hl'
    simp [set_apply, this]
  loc := fun σ τ S _ h => ⟨rfl, fun l' hl' => by
    simp only [set_apply]
    split
    · rfl
    · rcases hl' with hl' | hl'
      · exact h l' hl'
      · simp at hl'; contradiction⟩

theorem Sound.seq {f₁ f₂ : Store → Store} {g₁ g₂ : Store → Fp} (h₁ : Sound f₁ g₁) (h₂ : Sound f₂ g₂) :
    Sound (fun σ => f₂ (f₁ σ)) (fun σ => fpSeq (g₁ σ) (g₂ (f₁ σ))) where
  frame := fun σ l hl => by
    rw [mem_fpSeq_writes, not_or] at hl
    show f₂ (f₁ σ) l = σ l
    rw [h₂.frame _ _ hl.2, h₁.frame _ _ hl.1]
  loc := fun σ τ S hS h => by
    have hS1 : ∀ l ∈ (g₁ σ).1, S l := fun l hl => hS l (mem_fpSeq_reads.mpr (Or.inl hl))
    obtain ⟨e1, a1⟩ := h₁.loc σ τ S hS1 h
    have hS2 : ∀ l ∈ (g₂ (f₁ σ)).1, (fun l => S l ∨ l ∈ (g₁ σ).2) l := by
      intro l hl
      by_cases hw : l ∈ (g₁ σ).2
      · exact Or.inr hw
      · exact Or.inl (hS l (mem_fpSeq_reads.mpr (Or.inr ⟨hl, hw⟩)))
    obtain ⟨e2, a2⟩ := h₂.loc (f₁ σ) (f₁ τ) _ hS2 a1
    refine ⟨?_, ?_⟩
    · show fpSeq (g₁ τ) (g₂ (f₁ τ)) = fpSeq (g₁ σ) (g₂ (f₁ σ))
      rw [e1, e2]
    · intro l hl
      apply a2 l
      rcases hl with hl | hl
      · exact Or.inl (Or.inl hl)
      · rcases mem_fpSeq_writes.mp hl with hl | hl
        · exact Or.inl (Or.inr hl)
        · exact Or.inr hl

/-- a statement whose behaviour is chosen by a value read from the store -/
theorem Sound.param {α : Type} {p : Store → α} {rp : Store → List Loc} (hp : Det p rp)
    {F : α → Store → Store} {G : α → Store → Fp} (hF : ∀ a, Sound (F a) (G a)) :
    Sound (fun σ => F (p σ) σ) (fun σ => fpSeq (rp σ, []) (G (p σ) σ)) where
  frame := fun σ l hl => by
    rw [fpSeq_reads] at hl
    exact (hF (p σ)).frame σ l hl
  loc := fun σ τ S hS h => by
    simp only [fpSeq_reads] at hS ⊢
    have hd := hp σ τ (fun l hl => h l (hS l (by simp [hl])))
    obtain ⟨e, a⟩ := (hF (p σ)).loc σ τ S (fun l hl => hS l (by simp [hl])) h
    rw [hd.1, hd.2, e]
    exact ⟨rfl, a⟩

theorem Sound.iters {f : Store → Store} {g : Store → Fp} (h : Sound f g) (v : Nat) (lo step : Int) :
    ∀ n k, Sound (runIters f v lo step n k) (fpIters f g v lo step n k) := by
  intro n
  induction n with
  | zero =>
    intro k
    exact (Sound.set (v, 0, 0) (lo + k * step)).congr (fun _ => rfl) (fun _ => rfl)
  | succ n ih =>
    intro k
    exact ((Sound.set (v, 0, 0) (lo + k * step)).seq (h.seq (ih (k + 1)))).congr (fun _ => rfl) (fun _ => rfl)

/-- **frame and locality of the dynamic footprint**, for every statement -/
theorem fp_sound (s : Stmt) : Sound (exec s) (fp s) := by
  induction s with
  | skip => exact Sound.skip.congr (fun _ => rfl) (fun _ => rfl)
  | seq a b iha ihb => exact (iha.seq ihb).congr (fun _ => rfl) (fun _ => rfl)
  | assign x e =>
    refine (Sound.param (det_eval e) (F := fun c σ => σ.set (x, 0, 0) c) (G := fun _ _ => ([], [(x, 0, 0)]))
      (fun c => Sound.set _ c)).congr (fun _ => rfl) (fun σ => ?_)
    simp [fp, fpSeq_reads]
  | store1 a i e =>
    refine (Sound.param ((det_eval i).pair (det_eval e))
      (F := fun c σ => σ.set (a, c.1, 0) c.2) (G := fun c _ => ([], [(a, c.1, 0)]))
      (fun c => Sound.set _ _)).congr (fun _ => rfl) (fun σ => ?_)
    simp [fp, fpSeq_reads]
  | store2 a i j e =>
    refine (Sound.param (((det_eval i).pair (det_eval j)).pair (det_eval e))
      (F := fun c σ => σ.set (a, c.1.1, c.1.2) c.2) (G := fun c _ => ([], [(a, c.1.1, c.1.2)]))
      (fun c => Sound.set _ _)).congr (fun _ => rfl) (fun σ => ?_)
    simp [fp, fpSeq_reads]
  | ite c t f iht ihf =>
    refine (Sound.param ((det_eval c).map (fun x => decide (x ≠ 0)))
      (F := fun b => if b then exec t else exec f) (G := fun b => if b then fp t else fp f)
      (fun b => by cases b <;> simpa)).congr (fun σ => ?_) (fun σ => ?_)
    · by_cases hc : eval c σ ≠ 0 <;> simp [exec, hc]
    · by_cases hc : eval c σ ≠ 0 <;> simp [fp, hc]
  | loop v lo hi st b ih =>
    exact (Sound.param (((det_eval lo).pair (det_eval hi)).pair (det_eval st))
      (F := fun c => runIters (exec b) v c.1.1 c.2 (trip c.1.1 c.1.2 c.2) 0)
      (G := fun c => fpIters (exec b) (fp b) v c.1.1 c.2 (trip c.1.1 c.1.2 c.2) 0)
      (fun c => Sound.iters ih v _ _ _ _)).congr (fun _ => rfl) (fun _ => rfl)

/-! ## undefined scalars -/

theorem usesUndef_false {U : List Nat} {e : Expr} {σ : Store}
    (h : ∀ x ∈ U, ((x, 0, 0) : Loc) ∉ erd e σ) : usesUndef U e = false := by
  induction e with
  | lit n => rfl
  | var x =>
    simp only [usesUndef, List.contains_eq_mem, decide_eq_false_iff_not]
    intro hx
    exact h x hx (by simp [erd])
  | idx1 a i ih => exact ih (fun x hx hm => h x hx (by simp [erd, hm]))
  | idx2 a i j ihi ihj =>
    simp only [usesUndef, Bool.or_eq_false_iff]
    exact ⟨ihi (fun x hx hm => h x hx (by simp [erd, hm])), ihj (fun x hx hm => h x hx (by simp [erd, hm]))⟩
  | un op e ih => exact ih (fun x hx hm => h x hx (by simpa [erd] using hm))
  | bin op a b iha ihb =>
    simp only [usesUndef, Bool.or_eq_false_iff]
    exact ⟨iha (fun x hx hm => h x hx (by simp [erd, hm])), ihb (fun x hx hm => h x hx (by simp [erd, hm]))⟩

/-- `fP` tracks `f` exactly as long as no undefined scalar is among the exposed reads -/
def PSound (f : Store → Store) (g : Store → Fp) (fP : PStore → Option PStore) : Prop :=
  ∀ σ U, (∀ x ∈ U, ((x, 0, 0) : Loc) ∉ (g σ).1) →
    ∃ U', fP ⟨σ, U⟩ = some ⟨f σ, U'⟩ ∧ (∀ x ∈ U', x ∈ U) ∧ (∀ x ∈ U', ((x, 0, 0) : Loc) ∉ (g σ).2)

theorem PSound.seq {f₁ f₂ : Store → Store} {g₁ g₂ : Store → Fp} {P₁ P₂ : PStore → Option PStore}
    (h₁ : PSound f₁ g₁ P₁) (h₂ : PSound f₂ g₂ P₂) :
    PSound (fun σ => f₂ (f₁ σ)) (fun σ => fpSeq (g₁ σ) (g₂ (f₁ σ))) (fun p => (P₁ p).bind P₂) := by
  intro σ U hU
  obtain ⟨U₁, e₁, s₁, w₁⟩ := h₁ σ U (fun x hx hm => hU x hx (mem_fpSeq_reads.mpr (Or.inl hm)))
  obtain ⟨U₂, e₂, s₂, w₂⟩ := h₂ (f₁ σ) U₁ (fun x hx hm =>
    hU x (s₁ x hx) (mem_fpSeq_reads.mpr (Or.inr ⟨hm, w₁ x hx⟩)))
  refine ⟨U₂, ?_, fun x hx => s₁ x (s₂ x hx), fun x hx hm => ?_⟩
  · simp only [e₁, Option.bind_some, e₂]
  · rcases mem_fpSeq_writes.mp hm with hm | hm
    · exact w₁ x (s₂ x hx) hm
    · exact w₂ x hx hm

theorem PSound.setv (v : Nat) (c : Int) :
    PSound (fun σ => σ.set (v, 0, 0) c) (fun _ => ([], [(v, 0, 0)]))
      (fun p => some ⟨p.st.set (v, 0, 0) c, p.undef.filter (· ≠ v)⟩) := by
  intro σ U _
  refine ⟨U.filter (· ≠ v), rfl, fun x hx => (List.mem_filter.mp hx).1, fun x hx hm => ?_⟩
  have hne : x ≠ v := by simpa using (List.mem_filter.mp hx).2
  simp at hm
  exact hne hm

theorem PSound.iters {f : Store → Store} {g : Store → Fp} {fP : PStore → Option PStore}
    (h : PSound f g fP) (v : Nat) (lo step : Int) :
    ∀ n k, PSound (runIters f v lo step n k) (fpIters f g v lo step n k) (itersP fP v lo step n k) := by
  intro n
  induction n with
  | zero => intro k; exact PSound.setv v _
  | succ n ih => intro k; exact (PSound.setv v (lo + k * step)).seq (h.seq (ih (k + 1)))

theorem execP_sound (s : Stmt) : PSound (exec s) (fp s) (execP s) := by
  induction s with
  | skip => intro σ U _; exact ⟨U, rfl, fun _ h => h, fun _ _ hm => by simp [fp] at hm⟩
  | seq a b iha ihb => exact iha.seq ihb
  | assign x e =>
    intro σ U hU
    have hu : usesUndef U e = false := usesUndef_false (σ := σ) (fun y hy => hU y hy)
    refine ⟨U.filter (· ≠ x), by simp [execP, hu, exec], fun y hy => (List.mem_filter.mp hy).1, fun y hy hm => ?_⟩
    have hne : y ≠ x := by simpa using (List.mem_filter.mp hy).2
    simp [fp] at hm
    exact hne hm
  | store1 a i e =>
    intro σ U hU
    have h1 : usesUndef U i = false := usesUndef_false (σ := σ) (fun y hy hm => hU y hy (by simp [fp, hm]))
    have h2 : usesUndef U e = false := usesUndef_false (σ := σ) (fun y hy hm => hU y hy (by simp [fp, hm]))
    refine ⟨U.filter (· ≠ a), by simp [execP, h1, h2, exec], fun y hy => (List.mem_filter.mp hy).1, fun y hy hm => ?_⟩
    have hne : y ≠ a := by simpa using (List.mem_filter.mp hy).2
    simp [fp] at hm
    exact hne hm.1
  | store2 a i j e =>
    intro σ U hU
    have h1 : usesUndef U i = false := usesUndef_false (σ := σ) (fun y hy hm => hU y hy (by simp [fp, hm]))
    have h2 : usesUndef U j = false := usesUndef_false (σ := σ) (fun y hy hm => hU y hy (by simp [fp, hm]))
    have h3 : usesUndef U e = false := usesUndef_false (σ := σ) (fun y hy hm => hU y hy (by simp [fp, hm]))
    refine ⟨U.filter (· ≠ a), by simp [execP, h1, h2, h3, exec], fun y hy => (List.mem_filter.mp hy).1, fun y hy hm => ?_⟩
    have hne : y ≠ a := by simpa using (List.mem_filter.mp hy).2
    simp [fp] at hm
    exact hne hm.1
  | ite c t f iht ihf =>
    intro σ U hU
    simp only [fp, fpSeq_reads] at hU ⊢
    have h1 : usesUndef U c = false := usesUndef_false (σ := σ) (fun y hy hm => hU y hy (by simp [hm]))
    by_cases hc : eval c σ ≠ 0
    · simp only [if_pos hc] at hU ⊢
      obtain ⟨U', e', s', w'⟩ := iht σ U (fun y hy hm => hU y hy (by simp [hm]))
      exact ⟨U', by simp [execP, h1, hc, exec, e'], s', w'⟩
    · simp only [if_neg hc] at hU ⊢
      obtain ⟨U', e', s', w'⟩ := ihf σ U (fun y hy hm => hU y hy (by simp [hm]))
      exact ⟨U', by simp [execP, h1, hc, exec, e'], s', w'⟩
  | loop v lo hi st b ih =>
    intro σ U hU
    simp only [fp, fpSeq_reads] at hU ⊢
    have h1 : usesUndef U lo = false := usesUndef_false (σ := σ) (fun y hy hm => hU y hy (by simp [hm]))
    have h2 : usesUndef U hi = false := usesUndef_false (σ := σ) (fun y hy hm => hU y hy (by simp [hm]))
    have h3 : usesUndef U st = false := usesUndef_false (σ := σ) (fun y hy hm => hU y hy (by simp [hm]))
    obtain ⟨U', e', s', w'⟩ := PSound.iters ih v (eval lo σ) (eval st σ)
      (trip (eval lo σ) (eval hi σ) (eval st σ)) 0 σ U (fun y hy hm => hU y hy (by simp [hm]))
    exact ⟨U', by simp [execP, h1, h2, h3, exec, e'], s', w'⟩

/-! ## commutation -/

/-- **Bernstein commutation at element level**: two programs with sound footprints whose
footprints AT THE STORE `σ` do not conflict commute on `σ` (every location). -/
theorem Sound.comm {f₁ f₂ : Store → Store} {g₁ g₂ : Store → Fp} (h₁ : Sound f₁ g₁) (h₂ : Sound f₂ g₂)
    (σ : Store)
    (d₁₂ : ∀ l ∈ (g₁ σ).2, l ∉ (g₂ σ).1 ∧ l ∉ (g₂ σ).2)
    (d₂₁ : ∀ l ∈ (g₂ σ).2, l ∉ (g₁ σ).1 ∧ l ∉ (g₁ σ).2) :
    f₂ (f₁ σ) = f₁ (f₂ σ) := by
  -- running the other program first does not disturb the exposed reads
  have a₁ : AgreeL (fun l => l ∉ (g₁ σ).2) σ (f₁ σ) := fun l hl => (h₁.frame σ l hl).symm
  have a₂ : AgreeL (fun l => l ∉ (g₂ σ).2) σ (f₂ σ) := fun l hl => (h₂.frame σ l hl).symm
  obtain ⟨e₂, c₂⟩ := h₂.loc σ (f₁ σ) _ (fun l hl hw => (d₁₂ l hw).1 hl) a₁
  obtain ⟨e₁, c₁⟩ := h₁.loc σ (f₂ σ) _ (fun l hl hw => (d₂₁ l hw).1 hl) a₂
  apply Store.ext
  funext l
  by_cases hw₁ : l ∈ (g₁ σ).2
  · have hw₂ : l ∉ (g₂ σ).2 := (d₁₂ l hw₁).2
    rw [h₂.frame (f₁ σ) l (by rw [e₂]; exact hw₂)]
    exact c₁ l (Or.inr hw₁)
  · by_cases hw₂ : l ∈ (g₂ σ).2
    · rw [h₁.frame (f₂ σ) l (by rw [e₁]; exact hw₁)]
      exact (c₂ l (Or.inr hw₂)).symm
    · rw [h₂.frame (f₁ σ) l (by rw [e₂]; exact hw₂), h₁.frame (f₂ σ) l (by rw [e₁]; exact hw₁),
        h₁.frame σ l hw₁, h₂.frame σ l hw₂]

/-- `MiniFSem.exec_comm` at element level, with the dynamic footprints of the two statements -/
theorem exec_comm_elem (s₁ s₂ : Stmt) (σ : Store)
    (d₁₂ : ∀ l ∈ (fp s₁ σ).2, l ∉ (fp s₂ σ).1 ∧ l ∉ (fp s₂ σ).2)
    (d₂₁ : ∀ l ∈ (fp s₂ σ).2, l ∉ (fp s₁ σ).1 ∧ l ∉ (fp s₁ σ).2) :
    exec (.seq s₁ s₂) σ = exec (.seq s₂ s₁) σ :=
  Sound.comm (fp_sound s₁) (fp_sound s₂) σ d₁₂ d₂₁

end C09
