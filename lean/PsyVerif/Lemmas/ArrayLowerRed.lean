import PsyVerif.Lemmas.ArrayLowerSem
/-! # C06 lemmas: the reduction loop (SUM/PRODUCT/MINVAL/MAXVAL) -/
namespace C06
open MiniF

theorem Sec.at_agree (s : Sec) (σ τ : Store) (V : Nat → Prop) (hV : ∀ x ∈ s.arr :: s.svars, V x)
    (h : AgreeOn V σ τ) (k : Int) : s.at σ k = s.at τ k := by
  have hlo : eval s.lo σ = eval s.lo τ := eval_agree (fun y hy => hV y (by simp [Sec.svars, hy])) h
  have hst : eval s.st σ = eval s.st τ := eval_agree (fun y hy => hV y (by simp [Sec.svars, hy])) h
  have hloc := Sec.loc_agree (s := s) (eval s.lo τ + k * eval s.st τ)
    (fun y hy => hV y (by simp [Sec.svars, hy])) h
  simp only [Sec.at, hlo, hst, hloc]
  have h1 : (s.loc (eval s.lo τ + k * eval s.st τ) τ).1 = s.arr := Sec.loc_fst _ _ _
  generalize s.loc (eval s.lo τ + k * eval s.st τ) τ = L at h1
  obtain ⟨y, i, j⟩ := L
  simp only at h1
  exact h y (by rw [h1]; exact hV _ (by simp)) i j

theorem AExpr.evalAt_agree (e : AExpr) (σ τ : Store) (V : Nat → Prop) (hV : ∀ x ∈ e.allvars, V x)
    (h : AgreeOn V σ τ) (k : Int) : e.evalAt σ k = e.evalAt τ k := by
  induction e with
  | sc x => exact eval_agree (fun y hy => hV y (by simpa [AExpr.allvars] using hy)) h
  | sec s => exact Sec.at_agree s σ τ V (fun y hy => hV y (by simpa [AExpr.allvars] using hy)) h k
  | un op a ih => simp only [AExpr.evalAt]; rw [ih (fun y hy => hV y (by simpa [AExpr.allvars] using hy))]
  | bin op a b iha ihb =>
    simp only [AExpr.evalAt]
    rw [iha (fun y hy => hV y (by simp [AExpr.allvars, hy])), ihb (fun y hy => hV y (by simp [AExpr.allvars, hy]))]

theorem Sec.count_agree (s : Sec) (σ τ : Store) (V : Nat → Prop) (hV : ∀ x ∈ s.svars, V x)
    (h : AgreeOn V σ τ) : s.count σ = s.count τ := by
  simp only [Sec.count]
  rw [eval_agree (e := s.lo) (fun y hy => hV y (by simp [Sec.svars, hy])) h,
    eval_agree (e := s.hi) (fun y hy => hV y (by simp [Sec.svars, hy])) h,
    eval_agree (e := s.st) (fun y hy => hV y (by simp [Sec.svars, hy])) h]

theorem AExpr.secs_svars_allvars (e : AExpr) (s : Sec) (hs : s ∈ e.secs) (x : Nat) (hx : x ∈ s.svars) :
    x ∈ e.allvars := by
  induction e with
  | sc e => simp [AExpr.secs] at hs
  | sec s' => simp only [AExpr.secs, List.mem_singleton] at hs; subst hs; simp [AExpr.allvars, hx]
  | un op e ih => exact ih hs
  | bin op p q ihp ihq =>
    simp only [AExpr.secs, AExpr.allvars, List.mem_append] at hs ⊢
    rcases hs with h | h
    · exact Or.inl (ihp h)
    · exact Or.inr (ihq h)

def maskSecs (m : Option AExpr) : List Sec :=
  match m with
  | none => []
  | some e => e.secs

/-- body of the reduction loop -/
def redBody (idx : Nat) (op : BinOp) (expr : AExpr) (mask : Option AExpr) (lead : Sec) (acc : Tgt) : Stmt :=
  match mask with
  | none => acc.assign (.bin op acc.ref (expr.lower idx lead))
  | some m => .ite (m.lower idx lead) (acc.assign (.bin op acc.ref (expr.lower idx lead))) .skip

theorem redLoop_eq (idx : Nat) (r : RedIn) (lead : Sec) (acc : Tgt) :
    redLoop idx r lead acc = .loop idx lead.lo lead.hi lead.st (redBody idx r.kind.op r.expr r.mask lead acc) := by
  unfold redLoop redBody; cases r.mask <;> rfl

/-- the reduction loop, iteration by iteration: the accumulator holds the fold of the first `n` elements -/
theorem red_iters (idx : Nat) (op : BinOp) (expr : AExpr) (mask : Option AExpr) (lead : Sec) (acc : Tgt)
    (σ : Store)
    (hstride : ∀ s ∈ expr.secs, s.st = lead.st) (hstrideM : ∀ s ∈ maskSecs mask, s.st = lead.st)
    (hacc : acc.sym ∉ expr.allvars ++ maskVars mask ++ acc.ivars ++ lead.svars) (hai : acc.sym ≠ idx)
    (hidx : idx ∉ expr.allvars ++ maskVars mask ++ acc.ivars ++ lead.svars) (n : Nat) :
    AgreeOn (fun y => y ≠ idx)
      (iters (exec (redBody idx op expr mask lead acc)) idx (eval lead.lo σ) (eval lead.st σ) n 0 σ)
      (σ.set (acc.loc σ) (foldRed op (fun k => expr.evalAt σ k) (maskAt mask σ) n (σ (acc.loc σ)))) := by
  simp only [List.mem_append, not_or] at hacc hidx
  induction n with
  | zero =>
    intro y hy i j
    simp only [iters, foldRed, Store.set_apply]
    split
    · next h => rw [h]
    · rfl
  | succ n ih =>
    rw [iters_succ_last]
    simp only [Int.zero_add]
    generalize iters (exec (redBody idx op expr mask lead acc)) idx (eval lead.lo σ) (eval lead.st σ) n 0 σ = τn at ih ⊢
    generalize han : foldRed op (fun k => expr.evalAt σ k) (maskAt mask σ) n (σ (acc.loc σ)) = an at ih
    let τ := τn.set (idx, 0, 0) (eval lead.lo σ + n * eval lead.st σ)
    have hL1 : (acc.loc σ).1 = acc.sym := Tgt.loc_fst _ _
    have hτw : AgreeOn (fun y => y ≠ idx) τ (σ.set (acc.loc σ) an) := by
      intro y hy i j
      show (τn.set _ _) _ = _
      rw [Store.set_other _ _ (loc_ne i j hy)]; exact ih y hy i j
    have hτσ : AgreeOn (fun y => y ≠ idx ∧ y ≠ acc.sym) τ σ := by
      intro y hy i j
      rw [hτw y hy.1 i j, Store.set_other]
      intro h; apply hy.2; rw [← hL1, ← h]
    have hτidx : τ (idx, 0, 0) = eval lead.lo σ + n * eval lead.st σ := by
      show (τn.set _ _) _ = _; rw [Store.set_same]
    have hsecs : ∀ (e : AExpr), (∀ x ∈ e.allvars, x ≠ idx ∧ x ≠ acc.sym) → ∀ s ∈ e.secs,
        τ (s.loc (eval s.lo σ + n * eval s.st σ) σ) = σ (s.loc (eval s.lo σ + n * eval s.st σ) σ) := by
      intro e he s hs
      have h1 : (s.loc (eval s.lo σ + n * eval s.st σ) σ).1 = s.arr := Sec.loc_fst _ _ _
      generalize s.loc (eval s.lo σ + n * eval s.st σ) σ = L at h1
      obtain ⟨y, i, j⟩ := L
      simp only at h1
      exact hτσ y (by rw [h1]; exact he _ (AExpr.secs_arr_allvars _ _ hs)) i j
    have hVof : ∀ (e : AExpr), (∀ x ∈ e.allvars, x ≠ idx ∧ x ≠ acc.sym) →
        ∀ x ∈ e.svars ++ vars lead.lo, x ≠ idx ∧ x ≠ acc.sym := by
      intro e he x hx
      simp only [List.mem_append] at hx
      rcases hx with hx | hx
      · exact he x (AExpr.svars_sub_allvars _ _ hx)
      · constructor
        · intro h; subst h; exact hidx.2 (by simp [Sec.svars, hx])
        · intro h; subst h; exact hacc.2 (by simp [Sec.svars, hx])
    have hexpr : ∀ x ∈ expr.allvars, x ≠ idx ∧ x ≠ acc.sym := fun x hx =>
      ⟨fun h => hidx.1.1.1 (h ▸ hx), fun h => hacc.1.1.1 (h ▸ hx)⟩
    have hval : eval (expr.lower idx lead) τ = expr.evalAt σ n :=
      lower_eval expr lead idx σ τ n _ hstride hτidx (hVof expr hexpr) hτσ (hsecs expr hexpr)
    have hloc : acc.loc τ = acc.loc σ := by
      apply Tgt.loc_agree _ hτσ
      intro x hx
      exact ⟨fun h => hidx.1.2 (h ▸ hx), fun h => hacc.1.2 (h ▸ hx)⟩
    have hacc_val : eval acc.ref τ = an := by
      rw [Tgt.eval_ref, hloc]
      have : (acc.loc σ).1 ≠ idx := by rw [hL1]; exact hai
      generalize acc.loc σ = L at this hτw
      obtain ⟨y, i, j⟩ := L
      rw [hτw y this i j, Store.set_same]
    have hstep : AgreeOn (fun y => y ≠ idx) (exec (acc.assign (.bin op acc.ref (expr.lower idx lead))) τ)
        (σ.set (acc.loc σ) (evalBin op an (expr.evalAt σ n))) := by
      rw [Tgt.exec_assign, hloc]
      simp only [eval, hacc_val, hval]
      intro y hy i j
      simp only [Store.set_apply]
      split
      · rfl
      · next h => rw [hτw y hy i j, Store.set_apply, if_neg h]
    cases mask with
    | none =>
      simp only [redBody, foldRed, maskAt, han]
      rw [if_pos (by decide)]
      exact hstep
    | some m =>
      have hm : ∀ x ∈ m.allvars, x ≠ idx ∧ x ≠ acc.sym := fun x hx =>
        ⟨fun h => hidx.1.1.2 (by simpa [maskVars] using (h ▸ hx)), fun h => hacc.1.1.2 (by simpa [maskVars] using (h ▸ hx))⟩
      have hmval : eval (m.lower idx lead) τ = m.evalAt σ n :=
        lower_eval m lead idx σ τ n _ hstrideM hτidx (hVof m hm) hτσ (hsecs m hm)
      simp only [redBody, foldRed, maskAt, han, exec]
      have hmval' : eval (m.lower idx lead) (τn.set (idx, 0, 0) (eval lead.lo σ + n * eval lead.st σ))
          = m.evalAt σ n := hmval
      rw [hmval']
      by_cases hc : m.evalAt σ n ≠ 0
      · rw [if_pos hc, if_pos hc]; exact hstep
      · rw [if_neg hc, if_neg hc]; exact hτw

end C06

namespace C06
open MiniF

theorem eval_init (huge : Int) (k : RedKind) (σ : Store) : eval (k.init huge) σ = k.initVal huge := by
  cases k <;> simp [RedKind.init, RedKind.initVal, eval, evalUn]

theorem maskAt_agree (m : Option AExpr) (σ τ : Store) (V : Nat → Prop) (hV : ∀ x ∈ maskVars m, V x)
    (h : AgreeOn V σ τ) (k : Int) : maskAt m σ k = maskAt m τ k := by
  cases m with
  | none => rfl
  | some e => exact AExpr.evalAt_agree e σ τ V (by simpa [maskVars] using hV) h k

/-- initialisation + loop leave the value of the reduction in the accumulator -/
theorem red_core (idx : Nat) (r : RedIn) (lead : Sec) (acc : Tgt) (σ : Store)
    (hlead : lead ∈ r.expr.secs)
    (hstride : ∀ s ∈ r.expr.secs, s.st = lead.st) (hstrideM : ∀ s ∈ maskSecs r.mask, s.st = lead.st)
    (hacc : acc.sym ∉ r.expr.allvars ++ maskVars r.mask ++ acc.ivars) (hai : acc.sym ≠ idx)
    (hidx : idx ∉ r.expr.allvars ++ maskVars r.mask ++ acc.ivars) :
    AgreeOn (fun y => y ≠ idx)
      (exec (.seq (acc.assign (r.kind.init r.huge)) (redLoop idx r lead acc)) σ)
      (σ.set (acc.loc σ) (redVal r lead σ)) := by
  simp only [List.mem_append, not_or] at hacc hidx
  have hls : ∀ x ∈ lead.svars, x ∈ r.expr.allvars := fun x hx => AExpr.secs_svars_allvars _ _ hlead x hx
  have hL1 : (acc.loc σ).1 = acc.sym := Tgt.loc_fst _ _
  -- the store after the initialisation
  have hσ0 : AgreeOn (fun y => y ≠ acc.sym) (σ.set (acc.loc σ) (r.kind.initVal r.huge)) σ := by
    intro y hy i j
    rw [Store.set_other]; intro h; apply hy; rw [← hL1, ← h]
  generalize hσ0def : σ.set (acc.loc σ) (r.kind.initVal r.huge) = σ0 at hσ0
  have hloc0 : acc.loc σ0 = acc.loc σ :=
    Tgt.loc_agree (V := fun y => y ≠ acc.sym) (fun x hx (h : x = acc.sym) => hacc.2 (h ▸ hx)) hσ0
  have hf : (fun k => r.expr.evalAt σ0 k) = (fun k => r.expr.evalAt σ k) :=
    funext fun k => AExpr.evalAt_agree _ _ _ _ (fun x hx (h : x = acc.sym) => hacc.1.1 (h ▸ hx)) hσ0 k
  have hm : maskAt r.mask σ0 = maskAt r.mask σ :=
    funext fun k => maskAt_agree _ _ _ _ (fun x hx (h : x = acc.sym) => hacc.1.2 (h ▸ hx)) hσ0 k
  have hcnt : lead.count σ0 = lead.count σ :=
    Sec.count_agree _ _ _ _ (fun x hx (h : x = acc.sym) => hacc.1.1 (h ▸ hls x hx)) hσ0
  have hit := red_iters idx r.kind.op r.expr r.mask lead acc σ0 hstride hstrideM
    (by simp only [List.mem_append, not_or]
        exact ⟨⟨⟨hacc.1.1, hacc.1.2⟩, hacc.2⟩, fun h => hacc.1.1 (hls _ h)⟩) hai
    (by simp only [List.mem_append, not_or]
        exact ⟨⟨⟨hidx.1.1, hidx.1.2⟩, hidx.2⟩, fun h => hidx.1.1 (hls _ h)⟩) (lead.count σ0)
  intro y hy i j
  simp only [exec, Tgt.exec_assign, eval_init, hσ0def, redLoop_eq, runIters_eq_iters]
  rw [Store.set_other _ _ (loc_ne i j hy)]
  have := hit y hy i j
  simp only [Sec.count] at this
  rw [this, hloc0, hf, hm]
  have h0 : σ0 (acc.loc σ) = r.kind.initVal r.huge := by rw [← hσ0def, Store.set_same]
  rw [h0]
  simp only [Sec.count] at hcnt
  simp only [redVal, Sec.count, Store.set_apply, hcnt]
  split
  · rfl
  · next h => rw [← hσ0def, Store.set_apply, if_neg h]

end C06
