import PsyVerif.Lemmas.ArrayLowerSem
/-! # C06 lemmas: the reduction loop (SUM/PRODUCT/MINVAL/MAXVAL) -/
namespace C06
open MiniF

theorem Sec.at_agree (s : Sec) (σ τ : Store) (V : Nat → Prop) (hV : ∀ x ∈ s.arr :: s.svars, V x)
    (h : AgreeOn V σ τ) (k : Int) : s.at σ k = s.at τ k := by
  have hlo : eval s.lo σ = eval s.lo τ := eval_agree (fun y hy => hV y (by simp [Sec.svars, hy])) h
  have hst : eval s.st σ = eval s.st τ := eval_agree (fun y hy => hV y (by simp [Sec.svars, hy])) h
  have hloc := Sec.loc_agree (s := s) (eval s.lo τ + k * eval s.st τ)
    (fun y hy => hV y (by simp [Sec.svars, hy])) h
  simp only [Sec.at, hlo, hst, hloc]
  have h1 : (s.loc (eval s.lo τ + k * eval s.st τ) τ).1 = s.arr := Sec.loc_fst _ _ _
  generalize s.loc (eval s.lo τ + k * eval s.st τ) τ = L at h1
  obtain ⟨y, i, j⟩ := L
  simp only at h1
  exact h y (by rw [h1]; exact hV _ (by simp)) i j

theorem AExpr.evalAt_agree (e : AExpr) (σ τ : Store) (V : Nat → Prop) (hV : ∀ x ∈ e.allvars, V x)
    (h : AgreeOn V σ τ) (k : Int) : e.evalAt σ k = e.evalAt τ k := by
  induction e with
  | sc x => exact eval_agree (fun y hy => hV y (by simpa [AExpr.allvars] using hy)) h
  | sec s => exact Sec.at_agree s σ τ V (fun y hy => hV y (by simpa [AExpr.allvars] using hy)) h k
  | un op a ih => simp only [AExpr.evalAt]; rw [ih (fun y hy => hV y (by simpa [AExpr.allvars] using hy))]
  | bin op a b iha ihb =>
    simp only [AExpr.evalAt]
    rw [iha (fun y hy => hV y (by simp [AExpr.allvars, hy])), ihb (fun y hy => hV y (by simp [AExpr.allvars, hy]))]

theorem Sec.count_agree (s : Sec) (σ τ : Store) (V : Nat → Prop) (hV : ∀ x ∈ s.svars, V x)
    (h : AgreeOn V σ τ) : s.count σ = s.count τ := by
  simp only [Sec.count]
  rw [eval_agree (e := s.lo) (fun y hy => hV y (by simp [Sec.svars, hy])) h,
    eval_agree (e := s.hi) (fun y hy => hV y (by simp [Sec.svars, hy])) h,
    eval_agree (e := s.st) (fun y hy => hV y (by simp [Sec.svars, hy])) h]

theorem AExpr.secs_svars_allvars (e : AExpr) (s : Sec) (hs : s ∈ e.secs) (x : Nat) (hx : x ∈ s.svars) :
    x ∈ e.allvars := by
  induction e with
  | sc e => simp [AExpr.secs] at hs
  | sec s' => simp only [AExpr.secs, List.mem_singleton] at hs; subst hs; simp [AExpr.allvars, hx]
  | un op e ih => exact ih hs
  | bin op p q ihp ihq =>
    simp only [AExpr.secs, AExpr.allvars, List.mem_append] at hs ⊢
    rcases hs with h | h
    · exact Or.inl (ihp h)
    · exact Or.inr (ihq h)

def maskSecs (m : Option AExpr) : List Sec :=
  match m with
  | none => []
  | some e => e.secs

/-- body of the reduction loop -/
def redBody (idx : Nat) (op : BinOp) (expr : AExpr) (mask : Option AExpr) (lead : Sec) (acc : Tgt) : Stmt :=
  match mask with
  | none => acc.assign (.bin op acc.ref (expr.lower idx lead))
  | some m => .ite (m.lower idx lead) (acc.assign (.bin op acc.ref (expr.lower idx lead))) .skip

theorem redLoop_eq (idx : Nat) (r : RedIn) (lead : Sec) (acc : Tgt) :
    redLoop idx r lead acc = .loop idx lead.lo lead.hi lead.st (redBody idx r.kind.op r.expr r.mask lead acc) := by
  unfold redLoop redBody; cases r.mask <;> rfl

/-- the reduction loop, iteration by iteration: the accumulator holds the fold of the first `n` elements -/
theorem red_iters (idx : Nat) (op : BinOp) (expr : AExpr) (mask : Option AExpr) (lead : Sec) (acc : Tgt)
    (σ : Store)
    (hstride : ∀ s ∈ expr.secs, s.st = lead.st) (hstrideM : ∀ s ∈ maskSecs mask, s.st = lead.st)
    (hacc : acc.sym ∉ expr.allvars ++ maskVars mask ++ acc.ivars ++ lead.svars) (hai : acc.sym ≠ idx)
    (hidx : idx ∉ expr.allvars ++ maskVars mask ++ acc.ivars ++ lead.svars) (n : Nat) :
    AgreeOn (fun y => y ≠ idx)
      (iters (exec (redBody idx op expr mask lead acc)) idx (eval lead.lo σ) (eval lead.st σ) n 0 σ)
      (σ.set (acc.loc σ) (foldRed op (fun k => expr.evalAt σ k) (maskAt mask σ) n (σ (acc.loc σ)))) := by
  simp only [List.mem_append, not_or] at hacc hidx
  induction n with
  | zero =>
    intro y hy i j
    simp only [iters, foldRed, Store.set_apply]
    split
    · next h => rw [h]
    · rfl
  | succ n ih =>
    rw [iters_succ_last]
    simp only [Int.zero_add]
    generalize iters (exec (redBody idx op expr mask lead acc)) idx (eval lead.lo σ) (eval lead.st σ) n 0 σ = τn at ih ⊢
    generalize han : foldRed op (fun k => expr.evalAt σ k) (maskAt mask σ) n (σ (acc.loc σ)) = an at ih
    let τ := τn.set (idx, 0, 0) (eval lead.lo σ + n * eval lead.st σ)
    have hL1 : (acc.loc σ).1 = acc.sym := Tgt.loc_fst _ _
    have hτw : AgreeOn (fun y => y ≠ idx) τ (σ.set (acc.loc σ) an) := by
      intro y hy i j
      show (τn.set _ _) _ = _
      rw [Store.set_other _ _ (loc_ne i j hy)]; exact ih y hy i j
    have hτσ : AgreeOn (fun y => y ≠ idx ∧ y ≠ acc.sym) τ σ := by
      intro y hy i j
      rw [hτw y hy.1 i j, Store.set_other]
      intro h; apply hy.2; rw [← hL1, ← h]
    have hτidx : τ (idx, 0, 0) = eval lead.lo σ + n * eval lead.st σ := by
      show (τn.set _ _) _ = _; rw [Store.set_same]
    have hsecs : ∀ (e : AExpr), (∀ x ∈ e.allvars, x ≠ idx ∧ x ≠ acc.sym) → ∀ s ∈ e.secs,
        τ (s.loc (eval s.lo σ + n * eval s.st σ) σ) = σ (s.loc (eval s.lo σ + n * eval s.st σ) σ) := by
      intro e he s hs
      have h1 : (s.loc (eval s.lo σ + n * eval s.st σ) σ).1 = s.arr := Sec.loc_fst _ _ _
      generalize s.loc (eval s.lo σ + n * eval s.st σ) σ = L at h1
      obtain ⟨y, i, j⟩ := L
      simp only at h1
      exact hτσ y (by rw [h1]; exact he _ (AExpr.secs_arr_allvars _ _ hs)) i j
    have hVof : ∀ (e : AExpr), (∀ x ∈ e.allvars, x ≠ idx ∧ x ≠ acc.sym) →
        ∀ x ∈ e.svars ++ vars lead.lo, x ≠ idx ∧ x ≠ acc.sym := by
      intro e he x hx
      simp only [List.mem_append] at hx
      rcases hx with hx | hx
      · exact he x (AExpr.svars_sub_allvars _ _ hx)
      · constructor
        · intro h; subst h; exact hidx.2 (by simp [Sec.svars, hx])
        · intro h; subst h; exact hacc.2 (by simp [Sec.svars, hx])
    have hexpr : ∀ x ∈ expr.allvars, x ≠ idx ∧ x ≠ acc.sym := fun x hx =>
      ⟨fun h => hidx.1.1.1 (h ▸ hx), fun h => hacc.1.1.1 (h ▸ hx)⟩
    have hval : eval (expr.lower idx lead) τ = expr.evalAt σ n :=
      lower_eval expr lead idx σ τ n _ hstride hτidx (hVof expr hexpr) hτσ (hsecs expr hexpr)
    have hloc : acc.loc τ = acc.loc σ := by
      apply Tgt.loc_agree _ hτσ
      intro x hx
      exact ⟨fun h => hidx.1.2 (h ▸ hx), fun h => hacc.1.2 (h ▸ hx)⟩
    have hacc_val : eval acc.ref τ = an := by
      rw [Tgt.eval_ref, hloc]
      have : (acc.loc σ).1 ≠ idx := by rw [hL1]; exact hai
      generalize acc.loc σ = L at this hτw
      obtain ⟨y, i, j⟩ := L
      rw [hτw y this i j, Store.set_same]
    have hstep : AgreeOn (fun y => y ≠ idx) (exec (acc.assign (.bin op acc.ref (expr.lower idx lead))) τ)
        (σ.set (acc.loc σ) (evalBin op an (expr.evalAt σ n))) := by
      rw [Tgt.exec_assign, hloc]
      simp only [eval, hacc_val, hval]
      intro y hy i j
      simp only [Store.set_apply]
      split
      · rfl
      · next h => rw [hτw y hy i j, Store.set_apply, if_neg h]
    cases mask with
    | none =>
      simp only [redBody, foldRed, maskAt, han]
      rw [if_pos (by decide)]
      exact hstep
    | some m =>
      have hm : ∀ x ∈ m.allvars, x ≠ idx ∧ x ≠ acc.sym := fun x hx =>
        ⟨fun h => hidx.1.1.2 (by simpa [maskVars] using (h ▸ hx)), fun h => hacc.1.1.2 (by simpa [maskVars] using (h ▸ hx))⟩
      have hmval : eval (m.lower idx lead) τ = m.evalAt σ n :=
        lower_eval m lead idx σ τ n _ hstrideM hτidx (hVof m hm) hτσ (hsecs m hm)
      simp only [redBody, foldRed, maskAt, han, exec]
      have hmval' : eval (m.lower idx lead) (τn.set (idx, 0, 0) (eval lead.lo σ + n * eval lead.st σ))
          = m.evalAt σ n := hmval
      rw [hmval']
      by_cases hc : m.evalAt σ n ≠ 0
      · rw [if_pos hc, if_pos hc]; exact hstep
      · rw [if_neg hc, if_neg hc]; exact hτw

end C06

namespace C06
open MiniF

theorem eval_init (huge : Int) (k : RedKind) (σ : Store) : eval (k.init huge) σ = k.initVal huge := by
  cases k <;> simp [RedKind.init, RedKind.initVal, eval, evalUn]

theorem maskAt_agree (m : Option AExpr) (σ τ : Store) (V : Nat → Prop) (hV : ∀ x ∈ maskVars m, V x)
    (h : AgreeOn V σ τ) (k : Int) : maskAt m σ k = maskAt m τ k := by
  cases m with
  | none => rfl
  | some e => exact AExpr.evalAt_agree e σ τ V (by simpa [maskVars] using hV) h k

/-- initialisation + loop leave the value of the reduction in the accumulator -/
theorem red_core (idx : Nat) (r : RedIn) (lead : Sec) (acc : Tgt) (σ : Store)
    (hlead : lead ∈ r.expr.secs)
    (hstride : ∀ s ∈ r.expr.secs, s.st = lead.st) (hstrideM : ∀ s ∈ maskSecs r.mask, s.st = lead.st)
    (hacc : acc.sym ∉ r.expr.allvars ++ maskVars r.mask ++ acc.ivars) (hai : acc.sym ≠ idx)
    (hidx : idx ∉ r.expr.allvars ++ maskVars r.mask ++ acc.ivars) :
    AgreeOn (fun y => y ≠ idx)
      (exec (.seq (acc.assign (r.kind.init r.huge)) (redLoop idx r lead acc)) σ)
      (σ.set (acc.loc σ) (redVal r lead σ)) := by
  simp only [List.mem_append, not_or] at hacc hidx
  have hls : ∀ x ∈ lead.svars, x ∈ r.expr.allvars := fun x hx => AExpr.secs_svars_allvars _ _ hlead x hx
  have hL1 : (acc.loc σ).1 = acc.sym := Tgt.loc_fst _ _
  -- the store after the initialisation
  have hσ0 : AgreeOn (fun y => y ≠ acc.sym) (σ.set (acc.loc σ) (r.kind.initVal r.huge)) σ := by
    intro y hy i j
    rw [Store.set_other]; intro h; apply hy; rw [← hL1, ← h]
  generalize hσ0def : σ.set (acc.loc σ) (r.kind.initVal r.huge) = σ0 at hσ0
  have hloc0 : acc.loc σ0 = acc.loc σ :=
    Tgt.loc_agree (V := fun y => y ≠ acc.sym) (fun x hx (h : x = acc.sym) => hacc.2 (h ▸ hx)) hσ0
  have hf : (fun k => r.expr.evalAt σ0 k) = (fun k => r.expr.evalAt σ k) :=
    funext fun k => AExpr.evalAt_agree _ _ _ _ (fun x hx (h : x = acc.sym) => hacc.1.1 (h ▸ hx)) hσ0 k
  have hm : maskAt r.mask σ0 = maskAt r.mask σ :=
    funext fun k => maskAt_agree _ _ _ _ (fun x hx (h : x = acc.sym) => hacc.1.2 (h ▸ hx)) hσ0 k
  have hcnt : lead.count σ0 = lead.count σ :=
    Sec.count_agree _ _ _ _ (fun x hx (h : x = acc.sym) => hacc.1.1 (h ▸ hls x hx)) hσ0
  have hit := red_iters idx r.kind.op r.expr r.mask lead acc σ0 hstride hstrideM
    (by simp only [List.mem_append, not_or]
        exact ⟨⟨⟨hacc.1.1, hacc.1.2⟩, hacc.2⟩, fun h => hacc.1.1 (hls _ h)⟩) hai
    (by simp only [List.mem_append, not_or]
        exact ⟨⟨⟨hidx.1.1, hidx.1.2⟩, hidx.2⟩, fun h => hidx.1.1 (hls _ h)⟩) (lead.count σ0)
  intro y hy i j
  simp only [exec, Tgt.exec_assign, eval_init, hσ0def, redLoop_eq, runIters_eq_iters]
  rw [Store.set_other _ _ (loc_ne i j hy)]
  have := hit y hy i j
  simp only [Sec.count] at this
  rw [this, hloc0, hf, hm]
  have h0 : σ0 (acc.loc σ) = r.kind.initVal r.huge := by rw [← hσ0def, Store.set_same]
  rw [h0]
  simp only [Sec.count] at hcnt
  simp only [redVal, Sec.count, Store.set_apply, hcnt]
  split
  · rfl
  · next h => rw [← hσ0def, Store.set_apply, if_neg h]

end C06

namespace C06
open MiniF
/-- freshness of the generated names `idx`, `tmp` and of the placeholder `hole` -/
structure RedFresh (idx tmp : Nat) (r : RedIn) : Prop where
  idx_tmp : idx ≠ tmp
  idx_hole : idx ≠ r.hole
  tmp_hole : tmp ≠ r.hole
  idx_fresh : idx ∉ r.tgt.sym :: (r.tgt.ivars ++ vars r.ctx ++ r.expr.allvars ++ maskVars r.mask)
  tmp_fresh : tmp ∉ r.tgt.sym :: (r.tgt.ivars ++ vars r.ctx ++ r.expr.allvars ++ maskVars r.mask)
  hole_fresh : r.hole ∉ r.tgt.sym :: (r.tgt.ivars ++ r.expr.allvars ++ maskVars r.mask)
  hole_scalar : r.hole ∉ arrs r.ctx

theorem transRed_ok (idx tmp : Nat) (r : RedIn) (lead : Sec) (rest : List Sec) (s : Stmt)
    (hlead : r.expr.secs = lead :: rest) (ht : transRed idx tmp r = .ok s) :
    (∀ s ∈ r.expr.secs, s.st = lead.st) ∧ (∀ s ∈ maskSecs r.mask, s.st = lead.st) ∧
    s = (let acc : Tgt := if r.increment then .sc tmp else r.tgt
         let core := Stmt.seq (acc.assign (r.kind.init r.huge)) (redLoop idx r lead acc)
         if r.increment || decide (r.ctx ≠ .var r.hole) then
           .seq core (r.tgt.assign (subst r.hole acc.ref r.ctx)) else core) := by
  unfold transRed at ht
  split at ht; · simp at ht
  rw [hlead] at ht
  simp only at ht
  split at ht; · simp at ht
  rename_i hv
  have hstr : strideOK lead (r.synthetic lead).rhs = true := by
    cases h : strideOK lead (r.synthetic lead).rhs
    · exfalso
      have : (r.synthetic lead).lhs = lead := rfl
      have hb : (r.synthetic lead).badCall = false := rfl
      simp [validateAA, this, hb, h] at hv
    · rfl
  refine ⟨?_, ?_, ?_⟩
  · intro s hs
    simp only [strideOK, List.all_eq_true, decide_eq_true_eq, RedIn.synthetic] at hstr
    cases hm : r.mask with
    | none => rw [hm] at hstr; exact hstr s hs
    | some m => rw [hm] at hstr; exact hstr s (by simp [AExpr.secs, hs])
  · intro s hs
    simp only [strideOK, List.all_eq_true, decide_eq_true_eq, RedIn.synthetic] at hstr
    cases hm : r.mask with
    | none => rw [hm] at hs; simp [maskSecs] at hs
    | some m => rw [hm] at hstr hs; exact hstr s (by simp only [maskSecs] at hs; simp [AExpr.secs, hs])
  · split at ht <;> simp_all


theorem increment_false (r : RedIn) (h : r.increment = false) :
    r.tgt.sym ∉ vars r.ctx ∧ r.tgt.sym ∉ r.expr.allvars ∧ r.tgt.sym ∉ maskVars r.mask ∧ r.tgt.sym ∉ r.tgt.ivars := by
  simp only [RedIn.increment, List.contains_eq_mem, decide_eq_false_iff_not, List.mem_append, not_or] at h
  exact ⟨h.1.1.1, h.1.1.2, h.1.2, h.2⟩

theorem reduction2loop_sound_aux (idx tmp : Nat) (r : RedIn) (lead : Sec) (rest : List Sec) (s : Stmt)
    (hlead : r.expr.secs = lead :: rest) (ht : transRed idx tmp r = .ok s)
    (hf : RedFresh idx tmp r) (σ : Store) :
    AgreeOn (fun y => y ≠ idx ∧ y ≠ tmp ∧ y ≠ r.hole) (exec s σ) (execRedOrig r lead σ) := by
  obtain ⟨hstride, hstrideM, hs⟩ := transRed_ok idx tmp r lead rest s hlead ht
  have hleadmem : lead ∈ r.expr.secs := by rw [hlead]; simp
  have hif := hf.idx_fresh
  have htf := hf.tmp_fresh
  have hhf := hf.hole_fresh
  simp only [List.mem_cons, List.mem_append, not_or] at hif htf hhf
  obtain ⟨v, hv⟩ : ∃ v, v = redVal r lead σ := ⟨_, rfl⟩
  -- the original: `tgt = ctx` with the placeholder bound to the value of the intrinsic
  have horig : execRedOrig r lead σ = (σ.set (r.hole, 0, 0) v).set (r.tgt.loc σ) (eval r.ctx (σ.set (r.hole, 0, 0) v)) := by
    simp only [execRedOrig, Tgt.exec_assign]
    rw [← hv, Tgt.loc_agree (t := r.tgt) (σ := σ.set (r.hole, 0, 0) v) (τ := σ) (V := fun y => y ≠ r.hole)
      (fun x hx (h : x = r.hole) => hhf.2.1.1 (h ▸ hx))
      (fun y hy i j => Store.set_other _ _ (loc_ne i j hy))]
  rw [horig]
  by_cases hinc : r.increment = true
  · -- accumulate in the temporary, then `tgt = ctx[hole := tmp]`
    simp only [hinc, if_true, Bool.true_or] at hs
    subst hs
    have hcore := red_core idx r lead (.sc tmp) σ hleadmem hstride hstrideM
      (by simp only [Tgt.sym, Tgt.ivars, List.append_nil, List.mem_append, not_or]; exact ⟨htf.2.1.2, htf.2.2⟩)
      (Ne.symm hf.idx_tmp)
      (by simp only [Tgt.ivars, List.append_nil, List.mem_append, not_or]; exact ⟨hif.2.1.2, hif.2.2⟩)
    simp only [Tgt.loc] at hcore
    rw [← hv] at hcore
    rw [show ∀ a b, exec (Stmt.seq a b) σ = exec b (exec a σ) from fun _ _ => rfl]
    generalize exec (.seq ((Tgt.sc tmp).assign (r.kind.init r.huge)) (redLoop idx r lead (.sc tmp))) σ = σ1 at hcore ⊢
    intro y hy i j
    simp only [exec, Tgt.exec_assign, Tgt.ref]
    rw [eval_subst _ _ _ _ hf.hole_scalar]
    have h1 : σ1 (tmp, 0, 0) = v := by rw [hcore tmp (Ne.symm hf.idx_tmp) 0 0, Store.set_same]
    have hag : AgreeOn (fun y => y ≠ idx ∧ y ≠ tmp) (σ1.set (r.hole, 0, 0) v) (σ.set (r.hole, 0, 0) v) := by
      apply AgreeOn.set
      intro y hy i j
      rw [hcore y hy.1 i j, Store.set_other _ _ (loc_ne i j hy.2)]
    have hctx : eval r.ctx (σ1.set (r.hole, 0, 0) (eval (.var tmp) σ1)) = eval r.ctx (σ.set (r.hole, 0, 0) v) := by
      simp only [eval, h1]
      exact eval_agree (fun x hx => ⟨fun h => hif.2.1.1.2 (h ▸ hx), fun h => htf.2.1.1.2 (h ▸ hx)⟩) hag
    have hloc : r.tgt.loc σ1 = r.tgt.loc σ :=
      Tgt.loc_agree (V := fun y => y ≠ idx ∧ y ≠ tmp)
        (fun x hx => ⟨fun h => hif.2.1.1.1 (h ▸ hx), fun h => htf.2.1.1.1 (h ▸ hx)⟩)
        (fun y hy i j => by rw [hcore y hy.1 i j, Store.set_other _ _ (loc_ne i j hy.2)])
    rw [hctx, hloc]
    simp only [Store.set_apply]
    split
    · rfl
    · rw [if_neg (loc_ne i j hy.2.2), hcore y hy.1 i j, Store.set_other _ _ (loc_ne i j hy.2.1)]
  · -- accumulate in the target itself
    have hinc' : r.increment = false := by simpa using hinc
    obtain ⟨hn1, hn2, hn3, hn4⟩ := increment_false r hinc'
    simp only [hinc', Bool.false_eq_true, if_false, Bool.false_or] at hs
    have hcore := red_core idx r lead r.tgt σ hleadmem hstride hstrideM
      (by simp only [List.mem_append, not_or]; exact ⟨⟨hn2, hn3⟩, hn4⟩)
      (Ne.symm hif.1)
      (by simp only [List.mem_append, not_or]; exact ⟨⟨hif.2.1.2, hif.2.2⟩, hif.2.1.1.1⟩)
    rw [← hv] at hcore
    have hT1 : (r.tgt.loc σ).1 = r.tgt.sym := Tgt.loc_fst _ _
    by_cases hctxv : r.ctx = .var r.hole
    · -- no trailing statement
      simp only [hctxv, ne_eq, not_true_eq_false, decide_false, Bool.false_eq_true, if_false] at hs
      subst hs
      intro y hy i j
      rw [hcore y hy.1 i j, hctxv]
      simp only [eval, Store.set_same, Store.set_apply]
      split
      · rfl
      · rw [if_neg (loc_ne i j hy.2.2)]
    · simp only [ne_eq, hctxv, not_false_eq_true, decide_true, if_true] at hs
      subst hs
      rw [show ∀ a b, exec (Stmt.seq a b) σ = exec b (exec a σ) from fun _ _ => rfl]
      generalize exec (.seq (r.tgt.assign (r.kind.init r.huge)) (redLoop idx r lead r.tgt)) σ = σ1 at hcore ⊢
      intro y hy i j
      simp only [exec, Tgt.exec_assign]
      rw [eval_subst _ _ _ _ hf.hole_scalar]
      have hag0 : AgreeOn (fun y => y ≠ idx ∧ y ≠ r.tgt.sym) σ1 σ := by
        intro y hy i j
        rw [hcore y hy.1 i j, Store.set_other]
        intro h; apply hy.2; rw [← hT1, ← h]
      have hloc : r.tgt.loc σ1 = r.tgt.loc σ :=
        Tgt.loc_agree (fun x hx => ⟨fun h => hif.2.1.1.1 (h ▸ hx), fun h => hn4 (h ▸ hx)⟩) hag0
      have h1 : eval r.tgt.ref σ1 = v := by
        rw [Tgt.eval_ref, hloc]
        have hne : (r.tgt.loc σ).1 ≠ idx := by rw [hT1]; exact Ne.symm hif.1
        generalize r.tgt.loc σ = L at hne hcore
        obtain ⟨a, b, c⟩ := L
        rw [hcore a hne b c, Store.set_same]
      have hctx : eval r.ctx (σ1.set (r.hole, 0, 0) (eval r.tgt.ref σ1)) = eval r.ctx (σ.set (r.hole, 0, 0) v) := by
        rw [h1]
        exact eval_agree (fun x hx => ⟨fun h => hif.2.1.1.2 (h ▸ hx), fun h => hn1 (h ▸ hx)⟩) (hag0.set _ _)
      rw [hctx, hloc]
      simp only [Store.set_apply]
      split
      · rfl
      · next h => rw [if_neg (loc_ne i j hy.2.2), hcore y hy.1 i j, Store.set_apply, if_neg h]

end C06

namespace C06
open MiniF

theorem dot_iters (res i : Nat) (v1 v2 : Vec) (σ : Store) (hlb : v1.lb = v2.lb) (hri : res ≠ i)
    (hr : res ≠ v1.arr ∧ res ≠ v2.arr) (hi2 : i ≠ v1.arr ∧ i ≠ v2.arr) (n : Nat) :
    AgreeOn (fun y => y ≠ i)
      (iters (exec (.assign res (.bin .add (.var res) (.bin .mul (.idx1 v1.arr (.var i)) (.idx1 v2.arr (.var i))))))
        i v1.lb 1 n 0 (σ.set (res, 0, 0) 0))
      (σ.set (res, 0, 0) (foldRed .add (fun k => σ (v1.arr, v1.lb + k, 0) * σ (v2.arr, v2.lb + k, 0)) (fun _ => 1) n 0)) := by
  induction n with
  | zero => exact AgreeOn.refl _ _
  | succ n ih =>
    rw [iters_succ_last]
    simp only [Int.zero_add, Int.mul_one, foldRed]
    rw [if_pos (by decide)]
    generalize iters _ i v1.lb 1 n 0 (σ.set (res, 0, 0) 0) = τn at ih ⊢
    generalize foldRed .add (fun k => σ (v1.arr, v1.lb + k, 0) * σ (v2.arr, v2.lb + k, 0)) (fun _ => 1) n 0 = an at ih ⊢
    have hget : ∀ a b c, a ≠ i → (τn.set (i, 0, 0) (v1.lb + n)) (a, b, c) = (σ.set (res, 0, 0) an) (a, b, c) := by
      intro a b c ha
      rw [Store.set_other _ _ (loc_ne b c ha)]; exact ih a ha b c
    intro y hy a b
    simp only [exec, eval, evalBin, Store.set_same]
    rw [hget res 0 0 hri, Store.set_same, hget v1.arr _ _ (Ne.symm hi2.1), hget v2.arr _ _ (Ne.symm hi2.2),
      Store.set_other _ _ (loc_ne _ _ (Ne.symm hr.1)), Store.set_other _ _ (loc_ne _ _ (Ne.symm hr.2)), ← hlb]
    simp only [Store.set_apply]
    split
    · rfl
    · next h => rw [if_neg (loc_ne a b hy), ih y hy a b, Store.set_apply, if_neg h]

theorem dot_sound_partial (res i : Nat) (v1 v2 : Vec) (s : Asg) (hlb : v1.lb = v2.lb) (hri : res ≠ i)
    (hr : res ≠ v1.arr ∧ res ≠ v2.arr) (hi : i ∉ s.vars) (hi2 : i ≠ v1.arr ∧ i ≠ v2.arr) (σ : Store) :
    AgreeOn (fun y => y ≠ i) (exec (dot2code res i v1 v2 s) σ) (execDotOrig res v1 v2 s σ) := by
  simp only [dot2code, execDotOrig]
  rw [show ∀ a b, exec (Stmt.seq a b) σ = exec b (exec a σ) from fun _ _ => rfl]
  apply Asg.exec_agree (V := fun y => y ≠ i) (fun y hy h => hi (h ▸ hy))
  intro y hy a b
  simp only [dotCode, exec, eval, runIters_eq_iters, dotVal]
  rw [Store.set_other _ _ (loc_ne a b hy)]
  exact dot_iters res i v1 v2 σ hlb hri hr hi2 _ y hy a b

end C06
