import PsyVerif.Model.OMP
import PsyVerif.Lemmas.MiniFSem
/-! # Facts about the model of `infer_sharing_attributes` (`C09.scanStmt`, `C09.classify`).
Core Lean only. -/
namespace C09
open MiniF

/-- consistency of the scan state (all fields but `readInLoop`) -/
def ScanOK (sc : Scan) : Prop :=
  sc.nwrite ≤ sc.nacc ∧ sc.first ≤ 2 ∧ (sc.first = 1 → sc.nwrite + 1 ≤ sc.nacc) ∧
  (sc.decided = none → sc.nwrite = 0 ∧ (sc.hasRead = true ↔ sc.first = 1) ∧ sc.first ≠ 2) ∧
  (∀ d, sc.decided = some d → 1 ≤ sc.nwrite ∧ sc.first ≠ 0 ∧ (d = 0 → sc.first = 2) ∧
    (sc.first = 1 → d = 1 ∨ d = 2) ∧ d ≤ 2)

theorem ScanOK.init : ScanOK {} := by
  simp [ScanOK]

theorem ScanOK.setRIL {sc : Scan} (h : ScanOK sc) (b : Bool) : ScanOK { sc with readInLoop := b } := h

theorem ScanOK.read {sc : Scan} (h : ScanOK sc) : ScanOK sc.read := by
  obtain ⟨h1, h0, h2, h3, h4⟩ := h
  cases hd : sc.decided with
  | none =>
    obtain ⟨a, b, c⟩ := h3 hd
    refine ⟨by simp [Scan.read]; omega, by simp only [Scan.read]; split <;> omega,
      by simp only [Scan.read]; intro _; omega, ?_, ?_⟩
    · intro _
      simp only [Scan.read, hd, Option.isNone_none, if_true]
      refine ⟨a, ⟨fun _ => by split <;> omega, fun _ => trivial⟩, by split <;> omega⟩
    · intro d hd'
      simp [Scan.read, hd] at hd'
  | some d =>
    obtain ⟨a, b, c, e, f⟩ := h4 d hd
    refine ⟨by simp [Scan.read]; omega, by simp only [Scan.read]; split <;> omega,
      by simp only [Scan.read]; split <;> omega, ?_, ?_⟩
    · intro hn; simp [Scan.read, hd] at hn
    · intro d' hd'
      simp only [Scan.read, hd, Option.some.injEq] at hd'
      subst hd'
      simp only [Scan.read, if_neg b]
      exact ⟨a, b, c, e, f⟩

theorem ScanOK.write {sc : Scan} (h : ScanOK sc) (inIf : Bool) : ScanOK (sc.write inIf) := by
  obtain ⟨h1, h0, h2, h3, h4⟩ := h
  cases hd : sc.decided with
  | none =>
    obtain ⟨a, b, c⟩ := h3 hd
    simp only [Scan.write, hd]
    refine ⟨by simp; omega, by simp only; split <;> omega, by simp only; split <;> omega, by simp, ?_⟩
    intro d hd'
    simp only [Option.some.injEq] at hd'
    subst hd'
    refine ⟨by simp, by simp only; split <;> omega, ?_, ?_, ?_⟩
    · intro hz
      have hr : sc.hasRead = false := by
        cases hh : sc.hasRead with
        | false => rfl
        | true => simp [hh] at hz; split at hz <;> omega
      have : sc.first ≠ 1 := fun e => by rw [b.mpr e] at hr; cases hr
      simp only; split <;> omega
    · intro hf
      have hf1 : sc.first = 1 := by
        simp only at hf; split at hf <;> omega
      rw [b.mpr hf1]
      by_cases hr : sc.readInLoop = true <;> simp [hr]
    · split <;> split <;> omega
  | some d =>
    obtain ⟨a, b, c, e, f⟩ := h4 d hd
    simp only [Scan.write, hd]
    refine ⟨by simp; omega, h0, by simp only; intro hf; have := h2 hf; omega, by simp, ?_⟩
    intro d' hd'
    simp only [Option.some.injEq] at hd'
    subst hd'
    exact ⟨by simp, b, c, e, f⟩

theorem scanExpr_ok (x : Nat) (e : Expr) {sc : Scan} (h : ScanOK sc) : ScanOK (scanExpr x e sc) := by
  induction e generalizing sc with
  | lit n => exact h
  | var y => simp only [scanExpr]; split; exact h.read; exact h
  | idx1 a i ih => exact ih h
  | idx2 a i j ihi ihj => exact ihj (ihi h)
  | un op e ih => exact ih h
  | bin op a b iha ihb => exact ihb (iha h)

theorem scanExpr_decided (x : Nat) (e : Expr) (sc : Scan) : (scanExpr x e sc).decided = sc.decided := by
  induction e generalizing sc with
  | lit n => rfl
  | var y => simp only [scanExpr]; split <;> rfl
  | idx1 a i ih => exact ih sc
  | idx2 a i j ihi ihj => simp only [scanExpr]; rw [ihj, ihi]
  | un op e ih => exact ih sc
  | bin op a b iha ihb => simp only [scanExpr]; rw [ihb, iha]

theorem scanStmt_ok (x : Nat) (s : Stmt) (inIf : Bool) {sc : Scan} (h : ScanOK sc) :
    ScanOK (scanStmt x s inIf sc) := by
  induction s generalizing inIf sc with
  | skip => exact h
  | seq a b iha ihb => exact ihb inIf (iha inIf h)
  | assign y e =>
    simp only [scanStmt]
    split
    · exact (scanExpr_ok x e h).write inIf
    · exact scanExpr_ok x e h
  | store1 a i e => exact scanExpr_ok x i (scanExpr_ok x e h)
  | store2 a i j e => exact scanExpr_ok x j (scanExpr_ok x i (scanExpr_ok x e h))
  | ite c t f iht ihf => exact ihf true (iht true (scanExpr_ok x c h))
  | loop v lo hi st b ih =>
    simp only [scanStmt]
    by_cases hv : v = x
    · simp only [hv, if_true]
      exact (ih false (ScanOK.setRIL (scanExpr_ok x st (scanExpr_ok x hi (scanExpr_ok x lo
        (ScanOK.setRIL ((ScanOK.setRIL h false).write false).read _)))) false)).setRIL _
    · simp only [hv, if_false]
      exact (ih false (ScanOK.setRIL (scanExpr_ok x st (scanExpr_ok x hi (scanExpr_ok x lo h))) false)).setRIL _

/-- a scalar that the loop never writes is never classified -/
theorem scanStmt_decided_of_not_written (x : Nat) (s : Stmt) (inIf : Bool) (sc : Scan) (hx : x ∉ wvars s) :
    (scanStmt x s inIf sc).decided = sc.decided := by
  induction s generalizing inIf sc with
  | skip => rfl
  | seq a b iha ihb =>
    simp only [wvars, List.mem_append, not_or] at hx
    simp only [scanStmt]; rw [ihb _ _ hx.2, iha _ _ hx.1]
  | assign y e =>
    simp only [wvars, List.mem_singleton] at hx
    have : ¬ y = x := fun e => hx e.symm
    simp only [scanStmt, this, if_false, scanExpr_decided]
  | store1 a i e => simp only [scanStmt, scanExpr_decided]
  | store2 a i j e => simp only [scanStmt, scanExpr_decided]
  | ite c t f iht ihf =>
    simp only [wvars, List.mem_append, not_or] at hx
    simp only [scanStmt]; rw [ihf _ _ hx.2, iht _ _ hx.1, scanExpr_decided]
  | loop v lo hi st b ih =>
    simp only [wvars, List.mem_cons, not_or] at hx
    have hv : ¬ v = x := fun e => hx.1 e.symm
    simp only [scanStmt, hv, if_false]
    rw [ih _ _ hx.2]
    simp only [scanExpr_decided]

theorem classify_eq (L : Stmt) (x : Nat) (d : Nat) (h : classify L x = some d) :
    (scanStmt x L false {}).decided = some d ∧ 2 ≤ (scanStmt x L false {}).nacc := by
  simp only [classify] at h
  split at h
  · cases h
  · exact ⟨h, by omega⟩

end C09
