import PsyVerif.Lemmas.DeclsStable
/-! C03, module scope: projections of a written module text, the visibility the reader recovers from the
access statements, and the access statements of the re-read table. -/
namespace Decls

/-! ### projections -/

theorem declsOf_nil_of {l : List Item} (h : ∀ x ∈ l, ∀ s, x ≠ .decl s) : declsOf l = [] := by
  induction l with
  | nil => rfl
  | cons x r ih =>
    have hr := ih (fun y hy => h y (List.mem_cons_of_mem _ hy))
    have hx := h x (by simp)
    cases x <;> simp_all [declsOf]

theorem stmtsOf_nil_of {l : List Item} (h : ∀ x ∈ l, ∀ s, x ≠ .stmt s) : stmtsOf l = [] := by
  induction l with
  | nil => rfl
  | cons x r ih =>
    have hr := ih (fun y hy => h y (List.mem_cons_of_mem _ hy))
    have hx := h x (by simp)
    cases x <;> simp_all [stmtsOf]

theorem routinesOf_nil_of {l : List Item} (h : ∀ x ∈ l, ∀ s, x ≠ .routineDef s) : routinesOf l = [] := by
  induction l with
  | nil => rfl
  | cons x r ih =>
    have hr := ih (fun y hy => h y (List.mem_cons_of_mem _ hy))
    have hx := h x (by simp)
    cases x <;> simp_all [routinesOf]

theorem useSyms_nil_of (it : List Item) {l : List Item} (h : ∀ x ∈ l, ∀ c w o, x ≠ .use c w o) :
    useSyms it l = [] := by
  induction l with
  | nil => rfl
  | cons x r ih =>
    have hr := ih (fun y hy => h y (List.mem_cons_of_mem _ hy))
    have hx := h x (by simp)
    cases x <;> simp_all [useSyms]

theorem explicitOf_nil_of (p : Bool) {l : List Item} (h : ∀ x ∈ l, ∀ q ns, x ≠ .access q ns) :
    explicitOf p l = [] := by
  induction l with
  | nil => rfl
  | cons x r ih =>
    have hr := ih (fun y hy => h y (List.mem_cons_of_mem _ hy))
    have hx := h x (by simp)
    cases x <;> simp_all [explicitOf]

theorem routinesOf_append' (a b : List Item) : routinesOf (a ++ b) = routinesOf a ++ routinesOf b := by
  induction a with
  | nil => rfl
  | cons x r ih => cases x <;> simp [routinesOf, ih]

theorem explicitOf_append (p : Bool) (a b : List Item) : explicitOf p (a ++ b) = explicitOf p a ++ explicitOf p b := by
  induction a with
  | nil => rfl
  | cons x r ih =>
    cases x <;> simp [explicitOf, ih]
    split <;> simp

theorem defPrivateOf_append_of {a b : List Item} (h : ∀ x ∈ a, ∀ q, x ≠ .defaultAccess q) :
    defPrivateOf (a ++ b) = defPrivateOf b := by
  induction a with
  | nil => rfl
  | cons x r ih =>
    have hr := ih (fun y hy => h y (List.mem_cons_of_mem _ hy))
    have hx := h x (by simp)
    cases x <;> simp_all [defPrivateOf]

theorem routinesOf_routineDefs (l : List Name) : routinesOf (l.map .routineDef) = l := by
  induction l with
  | nil => rfl
  | cons x r ih => simp [routinesOf, ih]

theorem mem_mkAccess {pl : List Name × List Name} {x : Item} (h : x ∈ mkAccess pl) : ∃ p ns, x = .access p ns := by
  unfold mkAccess at h
  rcases List.mem_append.mp h with h | h
  · split at h
    · simp at h
    · exact ⟨_, _, List.mem_singleton.mp h⟩
  · split at h
    · simp at h
    · exact ⟨_, _, List.mem_singleton.mp h⟩

theorem explicitOf_mkAccess (pl : List Name × List Name) :
    explicitOf true (mkAccess pl) = pl.1 ∧ explicitOf false (mkAccess pl) = pl.2 := by
  obtain ⟨a, b⟩ := pl
  unfold mkAccess
  cases a with
  | nil => cases b with
    | nil => simp [explicitOf]
    | cons y r => simp [explicitOf]
  | cons x r => cases b with
    | nil => simp [explicitOf]
    | cons y r2 => simp [explicitOf]

/-- the text of a module, split into its five parts -/
structure ModText (u : Unit) (ds : List Sym) (items : List Item) : Prop where
  eq : items = genUses u.syms ++ (ds.map (nvm true)).map .decl
      ++ (.defaultAccess u.defPrivate :: genAccess u) ++ u.body.map .stmt ++ u.routines.map .routineDef

theorem genUses_eq (syms : List Sym) : genUses syms = (syms.filter isContainer).map
    (mkUse fun c => isort (names (syms.filter fun s => s.cls == .imported c.name))) := rfl

variable {u : Unit} {ds : List Sym} {items : List Item}

theorem ModText.decls (h : ModText u ds items) : declsOf items = ds := by
  rw [h.eq, genUses_eq]
  simp only [declsOf_append, declsOf_uses, declsOf_decls, declsOf_stmts, List.nil_append]
  rw [declsOf_nil_of (l := Item.defaultAccess u.defPrivate :: genAccess u) (by
    intro x hx s hc
    rcases List.mem_cons.mp hx with rfl | hx
    · cases hc
    · obtain ⟨_, _, rfl⟩ := mem_mkAccess hx; cases hc)]
  rw [declsOf_nil_of (l := u.routines.map Item.routineDef) (by
    intro x hx s hc; obtain ⟨_, _, rfl⟩ := List.mem_map.mp hx; cases hc)]
  simp only [List.append_nil]
  have : ds.map (nvm true) = ds := by
    conv => rhs; rw [← List.map_id ds]
    apply List.map_congr_left; intro s _; exact nvm_true s
  rw [this]

theorem ModText.stmts (h : ModText u ds items) : stmtsOf items = u.body := by
  rw [h.eq, genUses_eq]
  simp only [stmtsOf_append', stmtsOf_uses, stmtsOf_decls, stmtsOf_stmts', List.nil_append]
  rw [stmtsOf_nil_of (l := Item.defaultAccess u.defPrivate :: genAccess u) (by
    intro x hx s hc
    rcases List.mem_cons.mp hx with rfl | hx
    · cases hc
    · obtain ⟨_, _, rfl⟩ := mem_mkAccess hx; cases hc)]
  rw [stmtsOf_nil_of (l := u.routines.map Item.routineDef) (by
    intro x hx s hc; obtain ⟨_, _, rfl⟩ := List.mem_map.mp hx; cases hc)]
  simp

theorem ModText.routines (h : ModText u ds items) : routinesOf items = u.routines := by
  rw [h.eq, genUses_eq]
  simp only [routinesOf_append', routinesOf_routineDefs]
  rw [routinesOf_nil_of (l := (u.syms.filter isContainer).map _) (by
    intro x hx s hc; obtain ⟨_, _, rfl⟩ := List.mem_map.mp hx; cases hc)]
  rw [routinesOf_nil_of (l := (ds.map (nvm true)).map Item.decl) (by
    intro x hx s hc; obtain ⟨_, _, rfl⟩ := List.mem_map.mp hx; cases hc)]
  rw [routinesOf_nil_of (l := Item.defaultAccess u.defPrivate :: genAccess u) (by
    intro x hx s hc
    rcases List.mem_cons.mp hx with rfl | hx
    · cases hc
    · obtain ⟨_, _, rfl⟩ := mem_mkAccess hx; cases hc)]
  rw [routinesOf_nil_of (l := u.body.map Item.stmt) (by
    intro x hx s hc; obtain ⟨_, _, rfl⟩ := List.mem_map.mp hx; cases hc)]
  simp

theorem ModText.uses (h : ModText u ds items) : useSyms items items = (u.syms.filter isContainer).flatMap
    (blk (visOf items) fun c => isort (names (u.syms.filter fun s => s.cls == .imported c.name))) := by
  conv => lhs; arg 2; rw [h.eq, genUses_eq]
  simp only [useSyms_append, useSyms_uses, useSyms_decls, useSyms_stmts]
  rw [useSyms_nil_of items (l := Item.defaultAccess u.defPrivate :: genAccess u) (by
    intro x hx c w o hc
    rcases List.mem_cons.mp hx with rfl | hx
    · cases hc
    · obtain ⟨_, _, rfl⟩ := mem_mkAccess hx; cases hc)]
  rw [useSyms_nil_of items (l := u.routines.map Item.routineDef) (by
    intro x hx c w o hc; obtain ⟨_, _, rfl⟩ := List.mem_map.mp hx; cases hc)]
  simp

theorem ModText.defPrivate (h : ModText u ds items) : defPrivateOf items = u.defPrivate := by
  rw [h.eq, genUses_eq]
  rw [List.append_assoc, List.append_assoc, List.append_assoc]
  rw [defPrivateOf_append_of (by
    intro x hx q hc; obtain ⟨_, _, rfl⟩ := List.mem_map.mp hx; cases hc)]
  rw [defPrivateOf_append_of (by
    intro x hx q hc; obtain ⟨_, _, rfl⟩ := List.mem_map.mp hx; cases hc)]
  rfl

theorem ModText.explicit (h : ModText u ds items) :
    explicitOf true items = isort (accessLists u).1 ∧ explicitOf false items = isort (accessLists u).2 := by
  have key : ∀ p, explicitOf p items = explicitOf p (genAccess u) := by
    intro p
    rw [h.eq, genUses_eq]
    simp only [explicitOf_append]
    rw [explicitOf_nil_of p (l := (u.syms.filter isContainer).map _) (by
      intro x hx q ns hc; obtain ⟨_, _, rfl⟩ := List.mem_map.mp hx; cases hc)]
    rw [explicitOf_nil_of p (l := (ds.map (nvm true)).map Item.decl) (by
      intro x hx q ns hc; obtain ⟨_, _, rfl⟩ := List.mem_map.mp hx; cases hc)]
    rw [explicitOf_nil_of p (l := u.body.map Item.stmt) (by
      intro x hx q ns hc; obtain ⟨_, _, rfl⟩ := List.mem_map.mp hx; cases hc)]
    rw [explicitOf_nil_of p (l := u.routines.map Item.routineDef) (by
      intro x hx q ns hc; obtain ⟨_, _, rfl⟩ := List.mem_map.mp hx; cases hc)]
    simp [explicitOf]
  rw [key true, key false]
  unfold genAccess
  exact explicitOf_mkAccess _

end Decls
