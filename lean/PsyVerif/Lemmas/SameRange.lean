import PsyVerif.Model.SameRange
import PsyVerif.Lemmas.ArrayLowerSem
/-! # C06 lemmas: soundness of the linear normal form, of `is_lower_bound` / `same_range`, and of the loop
built with explicit `same_range` decisions -/
namespace C06
open MiniF

/-! ## linear normal form -/

def evalTerms : List (Nat × Int) → Store → Int
  | [], _ => 0
  | (x, c) :: rest, σ => c * σ (x, 0, 0) + evalTerms rest σ

def Lin.eval (p : Lin) (σ : Store) : Int := p.const + evalTerms p.terms σ

theorem evalTerms_addTerm (x : Nat) (c : Int) (l : List (Nat × Int)) (σ : Store) :
    evalTerms (addTerm x c l) σ = c * σ (x, 0, 0) + evalTerms l σ := by
  induction l with
  | nil => simp [addTerm, evalTerms]
  | cons t rest ih =>
    obtain ⟨y, d⟩ := t
    simp only [addTerm]
    split
    · next h => subst h; simp only [evalTerms, Int.add_mul]; omega
    · simp only [evalTerms, ih]; omega

theorem evalTerms_addScaled (k : Int) (p acc : List (Nat × Int)) (σ : Store) :
    evalTerms (addScaled k p acc) σ = k * evalTerms p σ + evalTerms acc σ := by
  induction p generalizing acc with
  | nil => simp [addScaled, evalTerms]
  | cons t rest ih =>
    obtain ⟨x, c⟩ := t
    simp only [addScaled, ih, evalTerms_addTerm, evalTerms, Int.mul_add, Int.mul_assoc]
    omega

theorem Lin.eval_scale (k : Int) (p : Lin) (σ : Store) : (p.scale k).eval σ = k * p.eval σ := by
  simp only [Lin.scale, Lin.eval, evalTerms_addScaled, evalTerms, Int.mul_add]; omega

theorem Lin.eval_add (p q : Lin) (σ : Store) : (p.add q).eval σ = p.eval σ + q.eval σ := by
  simp only [Lin.add, Lin.eval, evalTerms_addScaled, Int.one_mul]; omega

theorem evalTerms_allzero (l : List (Nat × Int)) (σ : Store) (h : l.all (fun t => t.2 == 0) = true) :
    evalTerms l σ = 0 := by
  induction l with
  | nil => rfl
  | cons t rest ih =>
    obtain ⟨x, c⟩ := t
    simp only [List.all_cons, Bool.and_eq_true, beq_iff_eq] at h
    simp only [evalTerms, ih h.2, h.1]; omega

theorem linNorm_sound (e : Expr) (p : Lin) (σ : Store) (h : linNorm e = some p) : eval e σ = p.eval σ := by
  induction e generalizing p with
  | lit n => simp only [linNorm, Option.some.injEq] at h; subst h; simp [eval, Lin.eval, evalTerms]
  | var x => simp only [linNorm, Option.some.injEq] at h; subst h; simp [eval, Lin.eval, evalTerms]
  | idx1 a i _ => simp [linNorm] at h
  | idx2 a i j _ _ => simp [linNorm] at h
  | un op e ih =>
    cases op <;> simp only [linNorm, Option.map_eq_some_iff] at h
    · obtain ⟨q, hq, rfl⟩ := h
      rw [Lin.eval_scale, ← ih q hq]; simp [eval, evalUn]
    · simpa [eval, evalUn] using ih p h
    · simp at h
    · simp at h
  | bin op a b iha ihb =>
    cases op <;> simp only [linNorm] at h <;> try (simp at h; done)
    · -- add
      cases ha : linNorm a with
      | none => simp [ha] at h
      | some pa =>
        cases hb : linNorm b with
        | none => simp [ha, hb] at h
        | some pb =>
          simp only [ha, hb, Option.bind_eq_bind, Option.bind_some, Option.some.injEq] at h
          subst h
          rw [Lin.eval_add, ← iha pa ha, ← ihb pb hb]; rfl
    · -- sub
      cases ha : linNorm a with
      | none => simp [ha] at h
      | some pa =>
        cases hb : linNorm b with
        | none => simp [ha, hb] at h
        | some pb =>
          simp only [ha, hb, Option.bind_eq_bind, Option.bind_some, Option.some.injEq] at h
          subst h
          rw [Lin.eval_add, Lin.eval_scale, ← iha pa ha, ← ihb pb hb]
          simp only [eval, evalBin]; omega
    · -- mul
      cases ha : linNorm a with
      | none => simp [ha] at h
      | some pa =>
        cases hb : linNorm b with
        | none => simp [ha, hb] at h
        | some pb =>
          simp only [ha, hb, Option.bind_eq_bind, Option.bind_some] at h
          have ea := iha pa ha
          have eb := ihb pb hb
          split at h
          · next hz =>
            simp only [Option.some.injEq] at h; subst h
            rw [Lin.eval_scale]
            simp only [eval, evalBin, ea, eb, Lin.eval, evalTerms_allzero _ σ hz, Int.add_zero]
          · split at h
            · next hz =>
              simp only [Option.some.injEq] at h; subst h
              rw [Lin.eval_scale]
              simp only [eval, evalBin, ea, eb, Lin.eval, evalTerms_allzero _ σ hz, Int.add_zero]
              exact Int.mul_comm _ _
            · simp at h

/-- what the theorems need from `SymbolicMaths.equal` -/
def EqSound (eq : Expr → Expr → Bool) : Prop := ∀ a b, eq a b = true → ∀ σ : Store, eval a σ = eval b σ

theorem linEq_sound : EqSound linEq := by
  intro a b h σ
  unfold linEq at h
  cases hp : linNorm (.bin .sub a b) with
  | none => simp [hp] at h
  | some p =>
    simp only [hp, Lin.isZero, Bool.and_eq_true, beq_iff_eq] at h
    have := linNorm_sound _ p σ hp
    simp only [eval, evalBin, Lin.eval, evalTerms_allzero _ σ h.2, h.1] at this
    omega

/-! ## bounds -/

theorem Bnd.eqv_sound {eq : Expr → Expr → Bool} (heq : EqSound eq) (D : Decls) (σ : Store) (b1 b2 : Bnd)
    (h : Bnd.eqv eq b1 b2 = true) : b1.val D σ = b2.val D σ := by
  cases b1 <;> cases b2 <;> simp only [Bnd.eqv, Bool.and_eq_true, beq_iff_eq] at h <;> try (simp at h; done)
  · obtain ⟨rfl, rfl⟩ := h; rfl
  · obtain ⟨rfl, rfl⟩ := h; rfl
  · exact heq _ _ h σ

theorem Bnd.eqv_e_left {eq : Expr → Expr → Bool} (lo : Expr) (b : Bnd) (h : Bnd.eqv eq (.e lo) b = true) :
    ∃ x, b = .e x ∧ eq lo x = true := by
  cases b <;> simp only [Bnd.eqv] at h <;> try (simp at h; done)
  exact ⟨_, rfl, h⟩

/-- **`is_lower_bound` is sound**: if it answers True for a range, the range starts at the run-time lower
bound of that dimension -/
theorem isLower_sound {eq : Expr → Expr → Bool} (heq : EqSound eq) (D : Decls) (σ : Store) (a : Acc) (i : Nat)
    (s t : Bnd) (p : Expr) (hD : a.shape = D a.arr) (hix : a.idx[i]? = some (.rng s t p))
    (h : isLower eq a i = true) : s.val D σ = (Bnd.lb a.arr i).val D σ := by
  unfold isLower at h
  simp only [hix, Idx.isRange, Bool.true_and] at h
  split at h
  · next hop =>
    cases s <;> simp only [isLBoundOp, Bool.and_eq_true, beq_iff_eq] at hop <;> try (simp at hop; done)
    obtain ⟨rfl, rfl⟩ := hop; rfl
  · rw [hD] at h
    cases hd : (D a.arr)[i]? with
    | none => simp [hd] at h
    | some d =>
      cases d <;> simp only [hd] at h <;> try (simp at h; done)
      · obtain ⟨x, rfl, hx⟩ := Bnd.eqv_e_left _ _ h
        simp only [Bnd.val, Bnd.resolve, hd, Option.map_some, Option.getD_some, DimDecl.lbE]
        exact (heq _ _ hx σ).symm
      · obtain ⟨x, rfl, hx⟩ := Bnd.eqv_e_left _ _ h
        simp only [Bnd.val, Bnd.resolve, hd, Option.map_some, Option.getD_some, DimDecl.lbE]
        exact (heq _ _ hx σ).symm

theorem startOf_sound {eq : Expr → Expr → Bool} (heq : EqSound eq) (D : Decls) (σ : Store) (a : Acc) (i : Nat)
    (s t : Bnd) (p : Expr) (r : Bnd) (hD : a.shape = D a.arr) (hix : a.idx[i]? = some (.rng s t p))
    (h : startOf a i (isLower eq a i) s = some r) : r.val D σ = s.val D σ := by
  unfold startOf at h
  split at h
  · next hl =>
    rw [isLower_sound heq D σ a i s t p hD hix hl]
    rw [hD] at h
    cases hd : (D a.arr)[i]? with
    | none => simp [hd] at h
    | some d =>
      cases d <;> simp only [hd, Option.some.injEq] at h <;> try (simp at h; done)
      all_goals (subst h; simp [Bnd.val, Bnd.resolve, hd, DimDecl.lbE])
  · simp only [Option.some.injEq] at h; subst h; rfl

/-- **`same_range` is sound for the start values**: when it answers True, the two ranges start at the same
value.  For the code at HEAD (`fixed = false`) this needs the side condition that two accesses to the SAME
array are compared in the same dimension position. -/
theorem sameRange_start_sound {eq : Expr → Expr → Bool} (heq : EqSound eq) (D : Decls) (σ : Store)
    (fixed sameStmt : Bool) (a1 a2 : Acc) (i1 i2 : Nat) (s1 t1 s2 t2 : Bnd) (p1 p2 : Expr)
    (hD1 : a1.shape = D a1.arr) (hD2 : a2.shape = D a2.arr)
    (h1 : a1.idx[i1]? = some (.rng s1 t1 p1)) (h2 : a2.idx[i2]? = some (.rng s2 t2 p2))
    (hcut : fixed = true ∨ (a1.arr = a2.arr → i1 = i2))
    (h : sameRange fixed eq sameStmt a1 i1 a2 i2 = some true) : s1.val D σ = s2.val D σ := by
  unfold sameRange at h
  simp only [h1, h2] at h
  split at h
  · next hc =>
    simp only [Bool.and_eq_true, beq_iff_eq, Bool.or_eq_true, Bool.not_eq_true'] at hc
    obtain ⟨⟨⟨hl1, harr⟩, hf⟩, hl2⟩ := hc
    have hi : i1 = i2 := by
      rcases hcut with hfx | hfx
      · rcases hf with hf | hf
        · rw [hfx] at hf; exact absurd hf (by decide)
        · exact hf
      · exact hfx harr
    rw [isLower_sound heq D σ a1 i1 s1 t1 p1 hD1 h1 hl1, isLower_sound heq D σ a2 i2 s2 t2 p2 hD2 h2 hl2,
      harr, hi]
  · cases hr1 : startOf a1 i1 (isLower eq a1 i1) s1 with
    | none => simp [hr1] at h
    | some r1 =>
      cases hr2 : startOf a2 i2 (isLower eq a2 i2) s2 with
      | none => simp [hr1, hr2] at h
      | some r2 =>
        simp only [hr1, hr2] at h
        have e1 := startOf_sound heq D σ a1 i1 s1 t1 p1 r1 hD1 h1 hr1
        have e2 := startOf_sound heq D σ a2 i2 s2 t2 p2 r2 hD2 h2 hr2
        by_cases hq : Bnd.eqv eq r1 r2 = true
        · rw [← e1, ← e2]; exact Bnd.eqv_sound heq D σ r1 r2 hq
        · simp [hq] at h

/-- when `same_range` answers True without taking the same-array shortcut, the steps were compared -/
theorem sameRange_step_sound {eq : Expr → Expr → Bool} (heq : EqSound eq) (σ : Store)
    (fixed sameStmt : Bool) (a1 a2 : Acc) (i1 i2 : Nat) (s1 t1 s2 t2 : Bnd) (p1 p2 : Expr)
    (h1 : a1.idx[i1]? = some (.rng s1 t1 p1)) (h2 : a2.idx[i2]? = some (.rng s2 t2 p2))
    (hno : (isLower eq a1 i1 && (a1.arr == a2.arr) && (!fixed || i1 == i2) && isLower eq a2 i2) = false)
    (h : sameRange fixed eq sameStmt a1 i1 a2 i2 = some true) : eval p1 σ = eval p2 σ := by
  unfold sameRange at h
  simp only [h1, h2, hno] at h
  apply heq
  revert h
  cases startOf a1 i1 (isLower eq a1 i1) s1 <;> cases startOf a2 i2 (isLower eq a2 i2) s2 <;> simp
  intro h
  split at h
  · simp at h
  · split at h
    · simpa using h
    · revert h
      cases stopOf eq a1 i1 t1 <;> cases stopOf eq a2 i2 t2 <;> simp
      intro h
      split at h
      · simp at h
      · simpa using h

/-- **the index expression is right in both cases** (any rank): in iteration `n` of the loop over the lhs
range (loop variable = start₁ + n·step) the expression put in place of the other range evaluates to
start₂ + n·step -/
theorem idxExprB_eval (D : Decls) (same : Bool) (idx : Nat) (s1 s2 : Bnd) (τ : Store) (n st : Int)
    (hidx : τ (idx, 0, 0) = s1.val D τ + n * st)
    (hsame : same = true → s1.val D τ = s2.val D τ) :
    eval (idxExprB D same idx s1 s2) τ = s2.val D τ + n * st := by
  unfold idxExprB
  split
  · next h => simp only [eval, hidx, hsame h]
  · simp only [eval, evalBin, hidx, Bnd.val]; omega

/-! ## the loop built with explicit decisions -/

theorem lowerD_eval (dec : Sec → Bool) (e : AExpr) (l : Sec) (idx : Nat) (σ τ : Store) (n : Nat) (V : Nat → Prop)
    (hdec : ∀ s ∈ e.secs, dec s = true → eval s.lo σ = eval l.lo σ)
    (hstride : ∀ s ∈ e.secs, s.st = l.st)
    (hidx : τ (idx, 0, 0) = eval l.lo σ + n * eval l.st σ)
    (hV : ∀ x ∈ e.svars ++ vars l.lo, V x) (hag : AgreeOn V τ σ)
    (hsec : ∀ s ∈ e.secs, τ (s.loc (eval s.lo σ + n * eval s.st σ) σ)
        = σ (s.loc (eval s.lo σ + n * eval s.st σ) σ)) :
    eval (e.lowerD dec idx l) τ = e.evalAt σ n := by
  induction e with
  | sc x =>
    simp only [AExpr.lowerD, AExpr.evalAt]
    exact eval_agree (fun y hy => hV y (by simp [AExpr.svars, hy])) hag
  | sec s =>
    have hst : s.st = l.st := hstride s (by simp [AExpr.secs])
    have hlo : eval s.lo τ = eval s.lo σ :=
      eval_agree (fun y hy => hV y (by simp [AExpr.svars, Sec.svars, hy])) hag
    have hllo : eval l.lo τ = eval l.lo σ := eval_agree (fun y hy => hV y (by simp [hy])) hag
    have hi : eval (idxExprD (dec s) idx l s) τ = eval s.lo σ + n * eval s.st σ := by
      unfold idxExprD
      split
      · next h => simp only [eval, hidx, hdec s (by simp [AExpr.secs]) h, hst]
      · simp only [eval, evalBin, hidx, hlo, hllo, hst]; omega
    simp only [AExpr.lowerD, AExpr.evalAt, Sec.at, Sec.eval_ref, hi]
    rw [Sec.loc_agree (σ := τ) (τ := σ) _ (fun y hy => hV y (by simp [AExpr.svars, Sec.svars, hy])) hag]
    exact hsec s (by simp [AExpr.secs])
  | un op a ih =>
    simp only [AExpr.lowerD, AExpr.evalAt, eval]
    rw [ih (fun s hs => hdec s (by simpa [AExpr.secs] using hs))
      (fun s hs => hstride s (by simpa [AExpr.secs] using hs))
      (fun y hy => hV y (by simpa [AExpr.svars] using hy))
      (fun s hs => hsec s (by simpa [AExpr.secs] using hs))]
  | bin op a b iha ihb =>
    simp only [AExpr.lowerD, AExpr.evalAt, eval]
    rw [iha (fun s hs => hdec s (by simp [AExpr.secs, hs])) (fun s hs => hstride s (by simp [AExpr.secs, hs]))
      (fun y hy => hV y (by simp only [AExpr.svars, List.mem_append] at hy ⊢; rcases hy with h | h <;> simp [h]))
      (fun s hs => hsec s (by simp [AExpr.secs, hs])),
      ihb (fun s hs => hdec s (by simp [AExpr.secs, hs])) (fun s hs => hstride s (by simp [AExpr.secs, hs]))
      (fun y hy => hV y (by simp only [AExpr.svars, List.mem_append] at hy ⊢; rcases hy with h | h <;> simp [h]))
      (fun s hs => hsec s (by simp [AExpr.secs, hs]))]

theorem applyAAD_iters (dec : Sec → Bool) (idx : Nat) (a : AAIn) (σ : Store)
    (hdec : ∀ s ∈ a.rhs.secs, dec s = true → eval s.lo σ = eval a.lhs.lo σ)
    (hstride : ∀ s ∈ a.rhs.secs, s.st = a.lhs.st)
    (hsame : ∀ s ∈ a.rhs.secs, s.arr = a.lhs.arr → s.fix.kind = a.lhs.fix.kind ∧ s.lo = a.lhs.lo)
    (hsc : a.lhs.arr ∉ a.rhs.svars ++ a.lhs.svars)
    (hidx : idx ∉ a.lhs.arr :: (a.lhs.svars ++ a.rhs.allvars))
    (hst : eval a.lhs.st σ ≠ 0) (n : Nat) :
    AgreeOn (fun y => y ≠ idx)
      (iters (exec (a.lhs.store (.var idx) (a.rhs.lowerD dec idx a.lhs))) idx (eval a.lhs.lo σ) (eval a.lhs.st σ) n 0 σ)
      (writeVals (fun k => a.lhs.loc (eval a.lhs.lo σ + k * eval a.lhs.st σ) σ)
        (fun k => a.rhs.evalAt σ k) n σ) := by
  induction n with
  | zero => exact AgreeOn.refl _ _
  | succ n ih =>
    rw [iters_succ_last]
    simp only [writeVals, Int.zero_add]
    generalize hτ : iters (exec (a.lhs.store (.var idx) (a.rhs.lowerD dec idx a.lhs))) idx (eval a.lhs.lo σ)
      (eval a.lhs.st σ) n 0 σ = τn at ih ⊢
    generalize hw : writeVals (fun k => a.lhs.loc (eval a.lhs.lo σ + k * eval a.lhs.st σ) σ)
      (fun k => a.rhs.evalAt σ k) n σ = wn at ih
    simp only [List.mem_cons, List.mem_append, not_or] at hidx hsc
    let τ := τn.set (idx, 0, 0) (eval a.lhs.lo σ + n * eval a.lhs.st σ)
    have hτw : AgreeOn (fun y => y ≠ idx) τ wn := by
      intro y hy i j
      show (τn.set _ _) _ = _
      rw [Store.set_other _ _ (loc_ne i j hy)]; exact ih y hy i j
    have hwσ : ∀ l : Loc, l.1 ≠ a.lhs.arr → wn l = σ l := by
      intro l hl
      rw [← hw]
      apply writeVals_other
      intro k _ h
      apply hl; rw [← h, Sec.loc_fst]
    have hτσ : AgreeOn (fun y => y ≠ idx ∧ y ≠ a.lhs.arr) τ σ := by
      intro y hy i j
      rw [hτw y hy.1 i j]; exact hwσ _ hy.2
    have hval : eval (a.rhs.lowerD dec idx a.lhs) τ = a.rhs.evalAt σ n := by
      apply lowerD_eval dec a.rhs a.lhs idx σ τ n (fun y => y ≠ idx ∧ y ≠ a.lhs.arr) hdec hstride
      · show (τn.set _ _) _ = _; rw [Store.set_same]
      · intro x hx
        simp only [List.mem_append] at hx
        constructor
        · intro h; subst h
          rcases hx with hx | hx
          · exact hidx.2.2 (AExpr.svars_sub_allvars _ _ hx)
          · exact hidx.2.1 (by simp [Sec.svars, hx])
        · intro h; subst h
          rcases hx with hx | hx
          · exact hsc.1 hx
          · exact hsc.2 (by simp [Sec.svars, hx])
      · exact hτσ
      · intro s hs
        have hsi : s.arr ≠ idx := by
          intro h; apply hidx.2.2; rw [← h]; exact AExpr.secs_arr_allvars _ _ hs
        have hl1 : (s.loc (eval s.lo σ + n * eval s.st σ) σ).1 = s.arr := Sec.loc_fst _ _ _
        generalize hL : s.loc (eval s.lo σ + n * eval s.st σ) σ = L at hl1
        obtain ⟨y, i, j⟩ := L
        simp only at hl1
        rw [hτw y (by rw [hl1]; exact hsi) i j]
        by_cases hA : s.arr = a.lhs.arr
        · rw [← hw]
          apply writeVals_other
          intro k hk
          have := hsame s hs hA
          rw [← hL, hstride s hs, this.2]
          exact Sec.loc_ne_of_sameRanges a.lhs s σ _ _ n k this.1 hst (by omega)
        · exact hwσ _ (by simp only; rw [hl1]; exact hA)
    rw [Sec.exec_store]
    have hloc : a.lhs.loc (eval (.var idx) τ) τ = a.lhs.loc (eval a.lhs.lo σ + n * eval a.lhs.st σ) σ := by
      have : eval (.var idx) τ = eval a.lhs.lo σ + n * eval a.lhs.st σ := by
        show (τn.set _ _) _ = _; rw [Store.set_same]
      rw [this]
      apply Sec.loc_agree _ _ hτσ
      intro x hx
      constructor
      · intro h; subst h; exact hidx.2.1 (by simp [Sec.svars, hx])
      · intro h; subst h; exact hsc.2 (by simp [Sec.svars, hx])
    rw [hloc, hval]
    exact hτw.set _ _

/-! ## from accesses to sections -/

theorem Acc.toSec_rng (D : Decls) (a : Acc) (s : Sec) (h : a.toSec D = some s) :
    ∃ b t p, a.idx[a.rpos]? = some (.rng b t p) ∧ s.lo = b.resolve D := by
  unfold Acc.toSec at h
  split at h
  · next b t p hidx =>
    simp only [Option.some.injEq] at h; subst h
    exact ⟨b, t, p, by simp [Acc.rpos, hidx, List.findIdx_cons, Idx.isRange], rfl⟩
  · next b t p j hidx =>
    simp only [Option.some.injEq] at h; subst h
    exact ⟨b, t, p, by simp [Acc.rpos, hidx, List.findIdx_cons, Idx.isRange], rfl⟩
  · next i b t p hidx =>
    simp only [Option.some.injEq] at h; subst h
    exact ⟨b, t, p, by simp [Acc.rpos, hidx, List.findIdx_cons, Idx.isRange], rfl⟩
  · simp at h

/-- the decision table built from `same_range` only says True for sections that start where the lhs starts -/
theorem decOf_sound {eq : Expr → Expr → Bool} (heq : EqSound eq) (D : Decls) (fixed : Bool) (l : Acc)
    (accs : List Acc) (ls s : Sec) (σ : Store)
    (hDl : l.shape = D l.arr) (hD : ∀ a ∈ accs, a.shape = D a.arr)
    (hcut : fixed = true ∨ ∀ a ∈ accs, l.arr = a.arr → l.rpos = a.rpos)
    (hl : l.toSec D = some ls) (h : decOf D fixed eq l accs s = true) : eval s.lo σ = eval ls.lo σ := by
  unfold decOf at h
  simp only [List.any_eq_true, Bool.and_eq_true, decide_eq_true_eq, beq_iff_eq] at h
  obtain ⟨a, ha, hsec, hsr⟩ := h
  obtain ⟨b2, t2, p2, hix2, hlo2⟩ := Acc.toSec_rng D a s hsec
  obtain ⟨b1, t1, p1, hix1, hlo1⟩ := Acc.toSec_rng D l ls hl
  have := sameRange_start_sound heq D σ fixed true l a l.rpos a.rpos b1 t1 b2 t2 p1 p2 hDl (hD a ha) hix1 hix2
    (by rcases hcut with h | h
        · exact Or.inl h
        · exact Or.inr (h a ha)) hsr
  rw [hlo1, hlo2]; exact this.symm

end C06
