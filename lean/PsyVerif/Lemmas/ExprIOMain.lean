import PsyVerif.Lemmas.ExprIOWriter
/-! The induction: every token list the fixed writer produces denotes, at the level its
position requires, the tree `norm e`. -/
namespace C02

/-- The operator / unary / literal / scalar-reference fragment. -/
def opFrag : Expr → Bool
  | .lit _ => true
  | .un _ e => opFrag e
  | .bin _ l r => opFrag l && opFrag r
  | .part _ .nil .nil => true
  | _ => false

theorem Good.render_of_body {c e ne} (h : Good (body c e) (natLevel e) ne) :
    Good (render .wide c e) (lvl c e) ne := by
  rw [render_eq]
  unfold lvl
  cases wrapped c e with
  | true => simpa [C02.wrap] using h.wrap
  | false => simpa [C02.wrap] using h

theorem sign_toks_of_unop {s : Sign} {u} (h : s.unop = some u) : s.toks = [.op u.tok] := by
  cases s <;> simp_all [Sign.unop, Sign.toks] <;> subst h <;> rfl

theorem sign_toks_of_none {s : Sign} (h : s.unop = none) : s.toks = [] := by
  cases s <;> simp_all [Sign.unop, Sign.toks]

theorem wf_not_rem {e : Expr} (h : wf .expr e = true) : ∀ b l r, e = .bin b l r → b ≠ .rem := by
  intro b l r he
  subst he
  simp [wf] at h
  exact h.1.1

theorem good_render : ∀ (e : Expr), opFrag e = true → wf .expr e = true → ∀ ne, norm e = some ne →
    ∀ c : Ctx, c.ok → Good (render .wide c e) (lvl c e) ne := by
  intro e
  induction e with
  | lit l =>
    intro _ _ ne hn c _
    apply Good.render_of_body
    simp only [norm, normLit] at hn
    cases hr : readLit l.tok with
    | none => simp [hr] at hn
    | some l' =>
      simp only [hr] at hn
      have g0 : Good [.lit l.tok] 9 (.lit l') := Good.lit hr
      rcases Option.eq_none_or_eq_some l.sign.unop with h | ⟨u, h⟩
      · simp only [h] at hn
        cases hn
        simpa [body, natLevel, natSign, h, sign_toks_of_none h] using g0
      · simp only [h] at hn
        cases hn
        have h9 : u.prec + 1 ≤ 9 := by cases u <;> decide
        simpa [body, natLevel, natSign, h, sign_toks_of_unop h] using Good.unary u g0 h9
  | un u x ih =>
    intro hf hw ne hn c _
    apply Good.render_of_body
    simp only [opFrag] at hf
    simp only [wf] at hw
    simp only [norm] at hn
    cases hx : norm x with
    | none => simp [hx] at hn
    | some nx =>
      simp only [hx, Option.map_some] at hn
      cases hn
      have ok : (⟨.un u, none⟩ : Ctx).ok := trivial
      have g := ih hf hw nx hx ⟨.un u, none⟩ ok
      have hl := need_le_lvl ⟨.un u, none⟩ ok x (wf_not_rem hw)
      exact Good.unary u g hl
  | bin b l r ihl ihr =>
    intro hf hw ne hn c _
    apply Good.render_of_body
    simp only [opFrag, Bool.and_eq_true] at hf
    simp only [wf, Bool.and_eq_true, bne_iff_ne, ne_eq] at hw
    obtain ⟨⟨hb, hwl⟩, hwr⟩ := hw
    simp only [norm] at hn
    cases hl : norm l with
    | none => simp [hl] at hn
    | some nl =>
      cases hr : norm r with
      | none => simp [hl, hr] at hn
      | some nr =>
        simp only [hl, hr] at hn
        cases hn
        have okl : (⟨.bin b false (decide (l = r)), childGp c⟩ : Ctx).ok := ⟨by simp, hb⟩
        have okr : (⟨.bin b true true, childGp c⟩ : Ctx).ok := ⟨by simp, hb⟩
        have gl := ihl hf.1 hwl nl hl _ okl
        have gr := ihr hf.2 hwr nr hr _ okr
        have nl' := need_le_lvl _ okl l (wf_not_rem hwl)
        have nr' := need_le_lvl _ okr r (wf_not_rem hwr)
        show Good (body c (.bin b l r)) b.prec (.bin b nl nr)
        simp only [body]
        cases b with
        | rem => exact absurd rfl hb
        | pow => exact Good.binOnce rfl rfl rfl (by decide) gl gr nl' nr'
        | eq => exact Good.binOnce rfl rfl rfl (by decide) gl gr nl' nr'
        | ne => exact Good.binOnce rfl rfl rfl (by decide) gl gr nl' nr'
        | gt => exact Good.binOnce rfl rfl rfl (by decide) gl gr nl' nr'
        | lt => exact Good.binOnce rfl rfl rfl (by decide) gl gr nl' nr'
        | ge => exact Good.binOnce rfl rfl rfl (by decide) gl gr nl' nr'
        | le => exact Good.binOnce rfl rfl rfl (by decide) gl gr nl' nr'
        | add => exact Good.binLoop rfl rfl rfl (by decide) gl gr nl' nr'
        | sub => exact Good.binLoop rfl rfl rfl (by decide) gl gr nl' nr'
        | mul => exact Good.binLoop rfl rfl rfl (by decide) gl gr nl' nr'
        | div => exact Good.binLoop rfl rfl rfl (by decide) gl gr nl' nr'
        | and => exact Good.binLoop rfl rfl rfl (by decide) gl gr nl' nr'
        | or => exact Good.binLoop rfl rfl rfl (by decide) gl gr nl' nr'
        | eqv => exact Good.binLoop rfl rfl rfl (by decide) gl gr nl' nr'
        | neqv => exact Good.binLoop rfl rfl rfl (by decide) gl gr nl' nr'
  | part n a nx _ _ =>
    intro hf _ ne hn c _
    cases a <;> cases nx <;> simp [opFrag] at hf
    simp only [norm] at hn
    cases hn
    apply Good.render_of_body
    simpa [body, render, natLevel] using (Good.name (n := n))
  | call f a _ => intro hf; simp [opFrag] at hf
  | nil => intro hf; simp [opFrag] at hf
  | cons k x r _ _ => intro hf; simp [opFrag] at hf

/-! ### the narrow writer agrees with the wide rule outside the class `exposed` -/

theorem render_narrow_eq_wide : ∀ (e : Expr) (c : Ctx), exposed c e = false →
    render .narrow c e = render .wide c e := by
  intro e
  induction e with
  | lit l =>
    intro c h
    simp only [render]
    simp only [exposed] at h
    rcases Option.eq_none_or_eq_some l.sign.unop with hu | ⟨u, hu⟩
    · simp [hu]
    · simp only [hu] at h ⊢
      simp only [bne_eq_false_iff_eq] at h
      rw [h]
  | un u x ih =>
    intro c h
    simp only [exposed, Bool.or_eq_false_iff, bne_eq_false_iff_eq] at h
    simp only [render, h.1, ih _ h.2]
  | bin b l r ihl ihr =>
    intro c h
    simp only [exposed, Bool.or_eq_false_iff] at h
    simp only [render, ihl _ h.1, ihr _ h.2, WMode.fixedBin]
  | part n a nx iha ihn =>
    intro c h
    simp only [exposed, Bool.or_eq_false_iff] at h
    simp only [render, iha _ h.1, ihn _ h.2]
  | call f a ih =>
    intro c h
    simp only [exposed] at h
    simp only [render, ih _ h]
  | nil => intro c _; rfl
  | cons k x r ihx ihr =>
    intro c h
    simp only [exposed, Bool.or_eq_false_iff] at h
    simp only [render, ihx _ h.1, ihr _ h.2]

/-- Where the two tests can differ at all: a `+`/`-` sign whose parent is `*` or `/`. -/
theorem exposed_only_under_mul (lit : Bool) (u : UnOp) (c : Ctx)
    (h : parenSignM .narrow lit u c ≠ parenSignM .wide lit u c) :
    u ≠ .not ∧ ∃ b right eqR, c.par = .bin b right eqR ∧ (b = .mul ∨ b = .div) := by
  obtain ⟨par, gp⟩ := c
  cases par with
  | none => simp [parenSignM, parenSign] at h
  | un v => simp [parenSignM, parenSign] at h
  | bin b right eqR =>
    have key : ¬ (u ≠ .not ∧ (b = .mul ∨ b = .div)) →
        parenSignM .narrow lit u ⟨.bin b right eqR, gp⟩ = parenSignM .wide lit u ⟨.bin b right eqR, gp⟩ := by
      intro hk
      clear h
      cases u <;> cases b <;> cases lit <;> cases right <;>
        simp_all [parenSignM, parenSign, BinOp.prec, UnOp.prec, BinOp.tok, UnOp.tok, OpTok.prec]
    by_cases hk : u ≠ .not ∧ (b = .mul ∨ b = .div)
    · exact ⟨hk.1, b, right, eqR, rfl, hk.2⟩
    · exact absurd (key hk) h

end C02
