import PsyVerif.Lemmas.ExprIOWriter
import PsyVerif.Lemmas.ExprIOAccess
/-! The induction: every token list the fixed writer produces denotes, at the level its
position requires, the tree `norm e` — for every sort of the encoding (expressions, argument
lists, member chains). -/
namespace C02

theorem Good.render_of_body {c e ne} (h : Good (body c e) (natLevel e) ne) :
    Good (render .wide c e) (lvl c e) ne := by
  rw [render_eq]
  unfold lvl
  cases wrapped c e with
  | true => simpa [C02.wrap] using h.wrap
  | false => simpa [C02.wrap] using h

theorem sign_toks_of_unop {s : Sign} {u} (h : s.unop = some u) : s.toks = [.op u.tok] := by
  cases s <;> simp_all [Sign.unop, Sign.toks] <;> subst h <;> rfl

theorem sign_toks_of_none {s : Sign} (h : s.unop = none) : s.toks = [] := by
  cases s <;> simp_all [Sign.unop, Sign.toks]

theorem wf_not_rem {e : Expr} (h : wf .expr e = true) : ∀ b l r, e = .bin b l r → b ≠ .rem := by
  intro b l r he
  subst he
  simp [wf] at h
  exact h.1.1

/-! ### shapes of the written text -/

def Tok.isStart : Tok → Bool
  | .lit _ | .lp | .name _ | .fn _ | .op _ => true
  | _ => false

/-- the text of an expression starts with a literal, `(`, a name or an operator (any writer) -/
theorem render_head (m : WMode) : ∀ (e : Expr) (c : Ctx), wf .expr e = true →
    ∃ t r, render m c e = t :: r ∧ t.isStart = true := by
  intro e
  induction e with
  | lit l =>
    intro c _
    simp only [render]
    rcases Option.eq_none_or_eq_some l.sign.unop with h | ⟨u, h⟩
    · simp only [h]; exact ⟨_, _, rfl, rfl⟩
    · simp only [h, sign_toks_of_unop h]
      cases parenSignM m true u c <;> exact ⟨_, _, rfl, rfl⟩
  | un u x _ =>
    intro c _
    simp only [render]
    cases parenSignM m false u c <;> exact ⟨_, _, rfl, rfl⟩
  | bin b l r ihl _ =>
    intro c hw
    simp only [wf, Bool.and_eq_true] at hw
    simp only [render]
    cases parenBin m.fixedBin b c with
    | true => exact ⟨_, _, rfl, rfl⟩
    | false =>
      obtain ⟨t, r', h1, h2⟩ := ihl ⟨.bin b false (decide (l = r)), childGp c⟩ hw.1.2
      refine ⟨t, r' ++ (Tok.op b.tok :: render m ⟨.bin b true true, childGp c⟩ r), ?_, h2⟩
      simp [C02.wrap, h1]
  | part n a nx _ _ => intro c _; simp only [render]; exact ⟨_, _, rfl, rfl⟩
  | call f a _ => intro c _; simp only [render]; exact ⟨_, _, rfl, rfl⟩
  | nil => intro c hw; simp [wf] at hw
  | cons k x r _ _ => intro c hw; simp [wf] at hw

theorem render_noKw (m : WMode) (e : Expr) (c : Ctx) (hw : wf .expr e = true) (R : List Tok) :
    NoKw (render m c e ++ R) := by
  obtain ⟨t, r, h1, h2⟩ := render_head m e c hw
  rw [h1]
  cases t <;> simp_all [Tok.isStart, NoKw]

theorem render_part (m : WMode) (c : Ctx) (n : Nat) (a nx : Expr) :
    render m c (.part n a nx) =
      .name n :: ((if a = .nil then [] else .lp :: render m .top a ++ [.rp]) ++
        (if nx = .nil then [] else .pct :: render m .top nx)) := by
  cases a <;> cases nx <;> simp [render]

def kwToks : Option Nat → List Tok
  | some k => [.kw k]
  | none => []

theorem render_cons (m : WMode) (c : Ctx) (kw : Option Nat) (x rest : Expr) :
    render m c (.cons kw x rest) =
      kwToks kw ++ render m .top x ++
        (if rest = .nil then [] else .comma :: render m .top rest) := by
  cases kw <;> cases rest <;> simp [render, kwToks]

/-! ### the statements, per sort -/

def SExpr (e : Expr) : Prop :=
  wf .expr e = true → ∀ ne, norm e = some ne → ∀ c : Ctx, c.ok → Good (render .wide c e) (lvl c e) ne

def SArgs (e : Expr) : Prop :=
  wf .args e = true → e ≠ .nil → ∀ ne, norm e = some ne →
    ∀ R', Parses .args (render .wide .top e ++ .rp :: R') (ne, .rp :: R')

def SChain (e : Expr) : Prop :=
  wf .chain e = true → e ≠ .nil → ∀ ne, norm e = some ne →
    ∀ R, NoLpPct R → Parses .parts (render .wide .top e ++ R) (ne, R)

theorem step_lit (l : Lit) : SExpr (.lit l) := by
  intro _ ne hn c _
  apply Good.render_of_body
  simp only [norm, normLit] at hn
  cases hr : readLit l.tok with
  | none => simp [hr] at hn
  | some l' =>
    simp only [hr] at hn
    have g0 : Good [.lit l.tok] 9 (.lit l') := Good.lit hr
    rcases Option.eq_none_or_eq_some l.sign.unop with h | ⟨u, h⟩
    · simp only [h] at hn
      cases hn
      simpa [body, natLevel, natSign, h, sign_toks_of_none h] using g0
    · simp only [h] at hn
      cases hn
      have h9 : u.prec + 1 ≤ 9 := by cases u <;> decide
      simpa [body, natLevel, natSign, h, sign_toks_of_unop h] using Good.unary u g0 h9

theorem step_un (u : UnOp) (x : Expr) (ih : SExpr x) : SExpr (.un u x) := by
  intro hw ne hn c _
  apply Good.render_of_body
  simp only [wf] at hw
  simp only [norm] at hn
  cases hx : norm x with
  | none => simp [hx] at hn
  | some nx =>
    simp only [hx, Option.map_some] at hn
    cases hn
    have ok : (⟨.un u, none⟩ : Ctx).ok := trivial
    have g := ih hw nx hx ⟨.un u, none⟩ ok
    have hl := need_le_lvl ⟨.un u, none⟩ ok x (wf_not_rem hw)
    exact Good.unary u g hl

theorem step_bin (b : BinOp) (l r : Expr) (ihl : SExpr l) (ihr : SExpr r) : SExpr (.bin b l r) := by
  intro hw ne hn c _
  apply Good.render_of_body
  simp only [wf, Bool.and_eq_true, bne_iff_ne, ne_eq] at hw
  obtain ⟨⟨hb, hwl⟩, hwr⟩ := hw
  simp only [norm] at hn
  cases hl : norm l with
  | none => simp [hl] at hn
  | some nl =>
    cases hr : norm r with
    | none => simp [hl, hr] at hn
    | some nr =>
      simp only [hl, hr] at hn
      cases hn
      have okl : (⟨.bin b false (decide (l = r)), childGp c⟩ : Ctx).ok := ⟨by simp, hb⟩
      have okr : (⟨.bin b true true, childGp c⟩ : Ctx).ok := ⟨by simp, hb⟩
      have gl := ihl hwl nl hl _ okl
      have gr := ihr hwr nr hr _ okr
      have nl' := need_le_lvl _ okl l (wf_not_rem hwl)
      have nr' := need_le_lvl _ okr r (wf_not_rem hwr)
      show Good (body c (.bin b l r)) b.prec (.bin b nl nr)
      simp only [body]
      cases b with
      | rem => exact absurd rfl hb
      | pow => exact Good.binOnce rfl rfl rfl (by decide) gl gr nl' nr'
      | eq => exact Good.binOnce rfl rfl rfl (by decide) gl gr nl' nr'
      | ne => exact Good.binOnce rfl rfl rfl (by decide) gl gr nl' nr'
      | gt => exact Good.binOnce rfl rfl rfl (by decide) gl gr nl' nr'
      | lt => exact Good.binOnce rfl rfl rfl (by decide) gl gr nl' nr'
      | ge => exact Good.binOnce rfl rfl rfl (by decide) gl gr nl' nr'
      | le => exact Good.binOnce rfl rfl rfl (by decide) gl gr nl' nr'
      | add => exact Good.binLoop rfl rfl rfl (by decide) gl gr nl' nr'
      | sub => exact Good.binLoop rfl rfl rfl (by decide) gl gr nl' nr'
      | mul => exact Good.binLoop rfl rfl rfl (by decide) gl gr nl' nr'
      | div => exact Good.binLoop rfl rfl rfl (by decide) gl gr nl' nr'
      | and => exact Good.binLoop rfl rfl rfl (by decide) gl gr nl' nr'
      | or => exact Good.binLoop rfl rfl rfl (by decide) gl gr nl' nr'
      | eqv => exact Good.binLoop rfl rfl rfl (by decide) gl gr nl' nr'
      | neqv => exact Good.binLoop rfl rfl rfl (by decide) gl gr nl' nr'

theorem noPct_of_noLpPct {R} (h : NoLpPct R) : NoPct R := by
  cases R with
  | nil => trivial
  | cons t r => cases t <;> simp_all [NoLpPct, NoPct]

theorem wf_args_cases {a : Expr} (h : wf .args a = true) : a = .nil ∨ ∃ k x r, a = .cons k x r := by
  cases a <;> simp_all [wf]

theorem wf_chain_cases {a : Expr} (h : wf .chain a = true) : a = .nil ∨ ∃ n x r, a = .part n x r := by
  cases a <;> simp_all [wf]

/-- R611/R612 data-ref: `name [(args)] [% chain]` -/
theorem step_chain (n : Nat) (a nx : Expr) (iha : SArgs a) (ihn : SChain nx) :
    SChain (.part n a nx) := by
  intro hw _ ne hn R hR
  simp only [wf, Bool.and_eq_true] at hw
  obtain ⟨hwa, hwn⟩ := hw
  simp only [norm] at hn
  cases hna : norm a with
  | none => simp [hna] at hn
  | some na =>
    cases hnn : norm nx with
    | none => simp [hna, hnn] at hn
    | some nnx =>
      simp only [hna, hnn] at hn
      cases hn
      rw [render_part]
      by_cases ha : a = .nil
      · subst ha
        have : na = .nil := by simpa [norm] using hna.symm
        subst this
        by_cases hx : nx = .nil
        · subst hx
          have : nnx = .nil := by simpa [norm] using hnn.symm
          subst this
          simpa using Parses.partsLeaf (n := n) hR
        · have := ihn hwn hx nnx hnn R hR
          simpa [hx] using Parses.partsMem (n := n) this
      · by_cases hx : nx = .nil
        · subst hx
          have : nnx = .nil := by simpa [norm] using hnn.symm
          subst this
          have := iha hwa ha na hna R
          simpa [ha] using Parses.partsIdx (n := n) this (noPct_of_noLpPct hR)
        · have h1 := iha hwa ha na hna (.pct :: (render .wide .top nx ++ R))
          have h2 := ihn hwn hx nnx hnn R hR
          simpa [ha, hx] using Parses.partsIdxMem (n := n) h1 h2

theorem render_part_ne_nil (m c n a nx) : render m c (.part n a nx) ≠ [] := by
  rw [render_part]; simp

/-- a designator in expression position -/
theorem step_part (n : Nat) (a nx : Expr) (iha : SArgs a) (ihn : SChain nx) :
    SExpr (.part n a nx) := by
  intro hw ne hn c _
  have hc := step_chain n a nx iha ihn (by simpa [wf] using hw) (by simp) ne hn
  have e0 : ∀ c', render .wide c' (.part n a nx) = render .wide .top (.part n a nx) := by
    intro c'; rw [render_part, render_part]
  have hd : ∃ r, render .wide c (.part n a nx) = .name n :: r := by rw [render_part]; exact ⟨_, rfl⟩
  obtain ⟨r, hr⟩ := hd
  show Good _ (lvl c (.part n a nx)) ne
  have hl : lvl c (.part n a nx) = 9 := by simp [lvl, wrapped, natLevel]
  rw [hl]
  refine Good.of_nat (Nat.le_refl _) ?_ ?_ (fun h9 => absurd h9 (by omega))
  · intro j R _; rw [hr]; rfl
  · intro R hF
    have := hc R hF.noLpPct
    rw [← e0 c, hr] at this
    rw [hr]
    exact Parses.exprParts this

/-- R1219 function-reference: `name ( args )` -/
theorem step_call (f : Nat) (a : Expr) (iha : SArgs a) : SExpr (.call f a) := by
  intro hw ne hn c _
  simp only [wf, Bool.and_eq_true] at hw
  obtain ⟨⟨hcons, hwa⟩, _⟩ := hw
  have ha : a ≠ .nil := by intro h; subst h; simp at hcons
  simp only [norm] at hn
  cases hna : norm a with
  | none => simp [hna] at hn
  | some na =>
    simp only [hna, Option.map_some] at hn
    cases hn
    have hl : lvl c (.call f a) = 9 := by simp [lvl, wrapped, natLevel]
    rw [hl]
    simp only [render]
    refine Good.of_nat (Nat.le_refl _) (fun _ _ _ => rfl) ?_ (fun h9 => absurd h9 (by omega))
    intro R _
    have := iha hwa ha na hna R
    have e : (Tok.fn f :: Tok.lp :: render .wide .top a ++ [Tok.rp]) ++ R =
        .fn f :: .lp :: (render .wide .top a ++ .rp :: R) := by simp
    rw [e]
    exact Parses.call this

/-- R1222 actual-arg-spec list: `[kw =] expr {, [kw =] expr}` up to the closing parenthesis -/
theorem step_cons (kw : Option Nat) (x rest : Expr) (ihx : SExpr x) (ihr : SArgs rest) :
    SArgs (.cons kw x rest) := by
  intro hw _ ne hn R'
  simp only [wf, Bool.and_eq_true] at hw
  obtain ⟨hwx, hwr⟩ := hw
  simp only [norm] at hn
  cases hnx : norm x with
  | none => simp [hnx] at hn
  | some nx =>
    cases hnr : norm rest with
    | none => simp [hnx, hnr] at hn
    | some nr =>
      simp only [hnx, hnr] at hn
      cases hn
      have g := ihx hwx nx hnx .top trivial
      rw [render_cons]
      by_cases hr : rest = .nil
      · subst hr
        have : nr = .nil := by simpa [norm] using hnr.symm
        subst this
        have px := g.1 0 (.rp :: R') (Nat.zero_le _) trivial
        cases kw with
        | none =>
          simpa [kwToks] using Parses.argsLast (render_noKw .wide x .top hwx _) px trivial
        | some k =>
          simpa [kwToks] using Parses.argsLastKw (k := k) px trivial
      · have pr := ihr hwr hr nr hnr R'
        have px := g.1 0 (.comma :: (render .wide .top rest ++ .rp :: R')) (Nat.zero_le _) trivial
        cases kw with
        | none =>
          simpa [hr, kwToks] using Parses.argsMore (render_noKw .wide x .top hwx _) px pr
        | some k =>
          simpa [hr, kwToks] using Parses.argsMoreKw (k := k) px pr

/-- **All sorts, all trees.** -/
theorem good_sorted : ∀ e : Expr, SExpr e ∧ SArgs e ∧ SChain e := by
  intro e
  induction e with
  | lit l => exact ⟨step_lit l, fun h => by simp [wf] at h, fun h => by simp [wf] at h⟩
  | un u x ih => exact ⟨step_un u x ih.1, fun h => by simp [wf] at h, fun h => by simp [wf] at h⟩
  | bin b l r ihl ihr =>
    exact ⟨step_bin b l r ihl.1 ihr.1, fun h => by simp [wf] at h, fun h => by simp [wf] at h⟩
  | part n a nx iha ihn =>
    exact ⟨step_part n a nx iha.2.1 ihn.2.2, fun h => by simp [wf] at h,
      step_chain n a nx iha.2.1 ihn.2.2⟩
  | call f a iha =>
    exact ⟨step_call f a iha.2.1, fun h => by simp [wf] at h, fun h => by simp [wf] at h⟩
  | nil => exact ⟨fun h => by simp [wf] at h, fun _ h => absurd rfl h, fun _ h => absurd rfl h⟩
  | cons k x r ihx ihr =>
    exact ⟨fun h => by simp [wf] at h, step_cons k x r ihx.1 ihr.2.1, fun h => by simp [wf] at h⟩

theorem good_render (e : Expr) (hw : wf .expr e = true) (ne : Expr) (hn : norm e = some ne)
    (c : Ctx) (hc : c.ok) : Good (render .wide c e) (lvl c e) ne :=
  (good_sorted e).1 hw ne hn c hc

/-! ### the narrow writer agrees with the wide rule outside the class `exposed` -/

theorem render_narrow_eq_wide : ∀ (e : Expr) (c : Ctx), exposed c e = false →
    render .narrow c e = render .wide c e := by
  intro e
  induction e with
  | lit l =>
    intro c h
    simp only [render]
    simp only [exposed] at h
    rcases Option.eq_none_or_eq_some l.sign.unop with hu | ⟨u, hu⟩
    · simp [hu]
    · simp only [hu] at h ⊢
      simp only [bne_eq_false_iff_eq] at h
      rw [h]
  | un u x ih =>
    intro c h
    simp only [exposed, Bool.or_eq_false_iff, bne_eq_false_iff_eq] at h
    simp only [render, h.1, ih _ h.2]
  | bin b l r ihl ihr =>
    intro c h
    simp only [exposed, Bool.or_eq_false_iff] at h
    simp only [render, ihl _ h.1, ihr _ h.2, WMode.fixedBin]
  | part n a nx iha ihn =>
    intro c h
    simp only [exposed, Bool.or_eq_false_iff] at h
    simp only [render, iha _ h.1, ihn _ h.2]
  | call f a ih =>
    intro c h
    simp only [exposed] at h
    simp only [render, ih _ h]
  | nil => intro c _; rfl
  | cons k x r ihx ihr =>
    intro c h
    simp only [exposed, Bool.or_eq_false_iff] at h
    simp only [render, ihx _ h.1, ihr _ h.2]

/-- Where the two tests can differ at all: a `+`/`-` sign whose parent is `*` or `/`. -/
theorem exposed_only_under_mul (lit : Bool) (u : UnOp) (c : Ctx)
    (h : parenSignM .narrow lit u c ≠ parenSignM .wide lit u c) :
    u ≠ .not ∧ ∃ b right eqR, c.par = .bin b right eqR ∧ (b = .mul ∨ b = .div) := by
  obtain ⟨par, gp⟩ := c
  cases par with
  | none => simp [parenSignM, parenSign] at h
  | un v => simp [parenSignM, parenSign] at h
  | bin b right eqR =>
    have key : ¬ (u ≠ .not ∧ (b = .mul ∨ b = .div)) →
        parenSignM .narrow lit u ⟨.bin b right eqR, gp⟩ = parenSignM .wide lit u ⟨.bin b right eqR, gp⟩ := by
      intro hk
      clear h
      cases u <;> cases b <;> cases lit <;> cases right <;>
        simp_all [parenSignM, parenSign, BinOp.prec, UnOp.prec, BinOp.tok, UnOp.tok, OpTok.prec]
    by_cases hk : u ≠ .not ∧ (b = .mul ∨ b = .div)
    · exact ⟨hk.1, b, right, eqR, rfl, hk.2⟩
    · exact absurd (key hk) h

end C02
