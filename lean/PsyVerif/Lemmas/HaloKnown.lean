import PsyVerif.Lemmas.HaloStep
/-! # C22 — `required()`: when it says "known", the `is_dirty` guard it drops would have fired -/
namespace C22

/-- a write information as `HaloWriteAccess` produces it -/
def WNorm (w : WriteInfo) : Prop := w.maxDepth = true → w.lit = 0

/-- an aggregated requirement list as `_create_depth_list` produces it -/
def ReqNorm (req : List HaloDepth) : Prop :=
  ∀ e ∈ req, ((e.maxDepth = true ∨ e.maxM1 = true) → e.lit = 0) ∧
    (e.maxDepth = false → e.maxM1 = false → 0 < e.lit ∨ e.var.isSome = true)

theorem evalDepth_le_evalDepths (H : Nat) (env : Nat → Nat) : ∀ (ds : List HaloDepth) (d : HaloDepth),
    d ∈ ds → evalDepth H env d ≤ evalDepths H env ds
  | [], _, h => by simp at h
  | x :: xs, d, h => by
    rw [evalDepths_cons]
    simp only [List.mem_cons] at h
    rcases h with rfl | h
    · omega
    · have := evalDepth_le_evalDepths H env xs d h
      omega

theorem evalDepth_norm (H : Nat) (env : Nat → Nat) (e : HaloDepth) (hH : 2 ≤ H) (henv : ExtOK env)
    (h1 : (e.maxDepth = true ∨ e.maxM1 = true) → e.lit = 0)
    (h2 : e.maxDepth = false → e.maxM1 = false → 0 < e.lit ∨ e.var.isSome = true) :
    1 ≤ evalDepth H env e ∧ e.lit ≤ evalDepth H env e := by
  obtain ⟨l, v, m, m1, a⟩ := e
  cases m <;> cases m1 <;> simp_all [evalDepth] <;> (try omega)
  cases v with
  | none => simp_all; omega
  | some v => have := henv v; simp; omega

theorem or3 (a b c : Nat) (P : Prop) (h : a ≤ c → b ≤ c → P) : c < a ∨ c < b ∨ P := by
  by_cases h1 : c < a
  · exact Or.inl h1
  · by_cases h2 : c < b
    · exact Or.inr (Or.inl h2)
    · exact Or.inr (Or.inr (h (by omega) (by omega)))

/-- **`known = True` is sound**: when `required()` answers "definitely required" (so the
generated exchange is not guarded by `is_dirty`), then for every halo depth `H ≥ 2`, all extents
and whatever was recorded before, the state recorded by the previous writer's marks is below the
depth of the exchange — the guard would have been true, dropping it changes nothing. -/
theorem required_known_sound (cfg : Cfg) (req : List HaloDepth) (w : WriteInfo)
    (h : required cfg req (some w) = (true, true)) (hw : WNorm w) (hreq : ReqNorm req)
    (hne : req ≠ []) (H : Nat) (env : Nat → Nat) (r : Nat) (hH : 2 ≤ H) (henv : ExtOK env) :
    recAfter H w r < evalDepths H env req := by
  obtain ⟨l, m, d⟩ := w
  unfold WNorm at hw
  simp only at hw
  rcases req with _ | ⟨r0, rs⟩
  · exact absurd rfl hne
  · have hr0 := hreq r0 (by simp)
    obtain ⟨hp0, hl0⟩ := evalDepth_norm H env r0 hH henv hr0.1 hr0.2
    have he0 : evalDepth H env r0 ≤ evalDepths H env (r0 :: rs) :=
      evalDepth_le_evalDepths H env _ r0 (by simp)
    cases m
    · -- the writer went to a literal depth (or did no redundant computation)
      by_cases hl : l = 0
      · subst hl
        cases d <;> simp [recAfter] <;> omega
      · by_cases hl1 : l = 1 ∧ d = true
        · obtain ⟨rfl, rfl⟩ := hl1
          simp [recAfter]; omega
        · -- clean depth `cd` known
          rcases rs with _ | ⟨r1, rs⟩
          · obtain ⟨rl, rv, rm, rm1, ra⟩ := r0
            have : recAfter H ⟨l, false, d⟩ r = if d then l - 1 else l := by
              cases d <;> simp [recAfter, hl]
            rw [this]
            cases d <;> cases rm <;> cases rm1 <;> cases rv <;> cases ra <;>
              simp [required, hl] at h hl1 <;> (repeat' (split at h)) <;>
              simp_all [evalDepth] <;> omega
          · have : recAfter H ⟨l, false, d⟩ r = if d then l - 1 else l := by
              cases d <;> simp [recAfter, hl]
            rw [this]
            have hx : ∃ x ∈ r0 :: r1 :: rs, (if d then l - 1 else l) < x.lit := by
              cases d <;> simp [required, hl] at h hl1 ⊢ <;> (repeat' (split at h)) <;>
                simp_all <;> exact or3 _ _ _ _ h
            obtain ⟨x, hxm, hxl⟩ := hx
            have hrx := hreq x hxm
            obtain ⟨_, hlx⟩ := evalDepth_norm H env x hH henv hrx.1 hrx.2
            have := evalDepth_le_evalDepths H env _ x hxm
            omega
    · -- the writer went to the maximum depth
      have hl := hw rfl
      subst hl
      cases d
      · simp [required] at h
      · have hmax : r0.maxDepth = true := by
          simp [required] at h
          (repeat' (split at h)) <;> simp_all
        have : evalDepth H env r0 = H := by simp [evalDepth, hmax]
        simp [recAfter]
        omega

theorem writeInfo_norm (k : Kern) (b : Bound) (a : Arg) : WNorm (writeInfo k b a) := by
  unfold WNorm writeInfo
  split
  · split <;> simp_all
  · simp

/-- entries of the accumulator of `_create_depth_list`: the `max-1` entry or a plain entry -/
def EntryNorm (e : HaloDepth) : Prop :=
  (e.maxM1 = true ∧ e.maxDepth = false ∧ e.lit = 0) ∨
  (e.maxM1 = false ∧ e.maxDepth = false ∧ (0 < e.lit ∨ e.var.isSome = true))

theorem mergeDepth_entryNorm (v : Option Nat) (l : Nat) : ∀ acc : List HaloDepth,
    (∀ e ∈ acc, EntryNorm e) → ∀ e ∈ mergeDepth acc v l, EntryNorm e
  | [], _ => by
    simp only [mergeDepth]
    split
    · rename_i hc
      intro e he
      simp at he
      subst he
      right
      refine ⟨rfl, rfl, ?_⟩
      simp at hc
      rcases hc with hc | hc
      · right; simpa using hc
      · left; exact hc
    · simp
  | d :: ds, h => by
    simp only [mergeDepth]
    split
    · rename_i hc
      intro e he
      simp at he
      rcases he with rfl | he
      · have hd := h d (by simp)
        simp at hc
        rcases hd with ⟨h1, _⟩ | ⟨h1, h2, h3⟩
        · rw [hc.1] at h1; cases h1
        · right
          refine ⟨h1, h2, ?_⟩
          rcases h3 with h3 | h3
          · left; simp; omega
          · right; exact h3
      · exact h e (by simp [he])
    · intro e he
      simp at he
      rcases he with rfl | he
      · exact h e (by simp)
      · exact mergeDepth_entryNorm v l ds (fun e he' => h e (by simp [he'])) e he

theorem foldl_dstep_entryNorm : ∀ (infos : List ReadInfo) (acc : List HaloDepth),
    (∀ e ∈ acc, EntryNorm e) → ∀ e ∈ infos.foldl dstep acc, EntryNorm e
  | [], acc, h => by simpa using h
  | j :: js, acc, h => by
    simp only [List.foldl_cons]
    apply foldl_dstep_entryNorm js
    unfold dstep
    split
    · exact h
    · exact mergeDepth_entryNorm _ _ acc h

/-- `_create_depth_list` produces normal requirement lists -/
theorem depthList_norm (infos : List ReadInfo) : ReqNorm (depthList infos) := by
  rw [depthList_eq]
  split
  · intro e he; simp at he; subst he; simp
  · split
    · intro e he; simp at he; subst he; simp
    · intro e he
      have := foldl_dstep_entryNorm infos _ (by
        split
        · intro e he; simp at he; subst he; left; simp
        · simp) e he
      rcases this with ⟨h1, h2, h3⟩ | ⟨h1, h2, h3⟩
      · simp [h1, h2, h3]
      · simp [h1, h2]
        exact h3

end C22
