import PsyVerif.Lemmas.DepTrace
/-! # C08 lemmas — the closed form `norm` is sound for subscripts without integer division, and the
two SymPy-route tests (`independent0`, `depDistance … = some 0`) are sound for such subscripts whenever the
non-loop-variable atoms have the same value in the two iterations. -/
namespace C08
open MiniF

/-- value of a term list under a valuation of the atoms -/
def sumT (ρ : Expr → Int) : List (Expr × Int) → Int
  | [] => 0
  | (a, c) :: ts => c * ρ a + sumT ρ ts

theorem sumT_append (ρ : Expr → Int) (ts us : List (Expr × Int)) :
    sumT ρ (ts ++ us) = sumT ρ ts + sumT ρ us := by
  induction ts with
  | nil => simp [sumT]
  | cons p ts ih => obtain ⟨a, c⟩ := p; simp only [List.cons_append, sumT, ih]; omega

theorem sumT_scaleT (ρ : Expr → Int) (k : Int) (ts : List (Expr × Int)) :
    sumT ρ (scaleT k ts) = k * sumT ρ ts := by
  induction ts with
  | nil => simp [sumT, scaleT]
  | cons p ts ih =>
    obtain ⟨a, c⟩ := p
    simp only [scaleT, sumT, ih, Int.mul_add, Int.mul_assoc]

theorem coef_append (ts us : List (Expr × Int)) (a : Expr) : coef (ts ++ us) a = coef ts a + coef us a := by
  induction ts with
  | nil => simp [coef]
  | cons p ts ih => obtain ⟨b, c⟩ := p; simp only [List.cons_append, coef, ih]; omega

theorem coef_scaleT (k : Int) (ts : List (Expr × Int)) (a : Expr) : coef (scaleT k ts) a = k * coef ts a := by
  induction ts with
  | nil => simp [coef, scaleT]
  | cons p ts ih =>
    obtain ⟨b, c⟩ := p
    simp only [scaleT, coef, ih, Int.mul_add]
    split <;> simp

theorem mem_scaleT {k : Int} {ts : List (Expr × Int)} {a : Expr} {c : Int} (h : (a, c) ∈ scaleT k ts) :
    ∃ c', (a, c') ∈ ts := by
  induction ts with
  | nil => simp [scaleT] at h
  | cons p ts ih =>
    obtain ⟨b, d⟩ := p
    simp only [scaleT, List.mem_cons, Prod.mk.injEq] at h
    rcases h with ⟨rfl, _⟩ | h
    · exact ⟨d, by simp⟩
    · obtain ⟨c', hc⟩ := ih h
      exact ⟨c', List.mem_cons_of_mem _ hc⟩

theorem coef_eq_zero_of_not_mem {ts : List (Expr × Int)} {a : Expr} (h : ∀ c, (a, c) ∉ ts) : coef ts a = 0 := by
  induction ts with
  | nil => rfl
  | cons p ts ih =>
    obtain ⟨b, d⟩ := p
    simp only [coef]
    have hb : b ≠ a := by
      intro he; subst he; exact h d (by simp)
    rw [if_neg hb, ih (fun c hc => h c (List.mem_cons_of_mem _ hc))]
    rfl

/-! ## terms with equal coefficients have equal values -/

theorem sumT_split (ρ : Expr → Int) (ts : List (Expr × Int)) (a : Expr) :
    sumT ρ ts = coef ts a * ρ a + sumT ρ (ts.filter fun p => p.1 ≠ a) := by
  induction ts with
  | nil => simp [sumT, coef]
  | cons p ts ih =>
    obtain ⟨b, c⟩ := p
    by_cases hb : b = a
    · subst hb
      simp only [sumT, coef, if_true, List.filter, ne_eq, not_true_eq_false, decide_false, ih, Int.add_mul]
      omega
    · simp only [sumT, coef, List.filter, ne_eq, hb, not_false_eq_true, decide_true, ih, if_false, Int.zero_add]
      omega

theorem coef_filter_ne (ts : List (Expr × Int)) (a b : Expr) :
    coef (ts.filter fun p => p.1 ≠ a) b = if b = a then 0 else coef ts b := by
  induction ts with
  | nil => simp [coef]
  | cons p ts ih =>
    obtain ⟨d, c⟩ := p
    by_cases hd : d = a
    · subst hd
      simp only [List.filter, ne_eq, not_true_eq_false, decide_false, ih, coef]
      split
      · rfl
      · rename_i hne
        rw [if_neg (fun h => hne h.symm)]; omega
    · simp only [List.filter, ne_eq, hd, not_false_eq_true, decide_true, coef, ih]
      by_cases hba : b = a
      · subst hba
        simp [hd]
      · simp [hba]

theorem sumT_zero_of_coef_zero (ρ : Expr → Int) :
    ∀ (n : Nat) (ts : List (Expr × Int)), ts.length ≤ n → (∀ a, coef ts a = 0) → sumT ρ ts = 0 := by
  intro n
  induction n with
  | zero =>
    intro ts hl _
    cases ts with
    | nil => rfl
    | cons p ts => simp at hl
  | succ n ih =>
    intro ts hl h0
    cases ts with
    | nil => rfl
    | cons p ts =>
      obtain ⟨a, c⟩ := p
      rw [sumT_split ρ _ a, h0 a, Int.zero_mul, Int.zero_add]
      apply ih
      · have : ((a, c) :: ts).filter (fun p => p.1 ≠ a) = ts.filter (fun p => p.1 ≠ a) := by
          simp [List.filter]
        rw [this]
        have := List.length_filter_le (fun p : Expr × Int => decide (p.1 ≠ a)) ts
        simp only [List.length_cons] at hl
        omega
      · intro b
        rw [coef_filter_ne]
        split
        · rfl
        · exact h0 b

theorem sumT_congr_coef (ρ : Expr → Int) (ts us : List (Expr × Int)) (h : ∀ a, coef ts a = coef us a) :
    sumT ρ ts = sumT ρ us := by
  have := sumT_zero_of_coef_zero ρ _ (ts ++ scaleT (-1) us) (Nat.le_refl _)
    (by intro a; rw [coef_append, coef_scaleT, h a]; omega)
  rw [sumT_append, sumT_scaleT] at this
  omega

/-- two valuations that differ only on atom `A`, by `δ` -/
theorem sumT_shift (ρ1 ρ2 : Expr → Int) (A : Expr) (δ : Int) (ts : List (Expr × Int))
    (h : ∀ p ∈ ts, ρ1 p.1 = ρ2 p.1 + (if p.1 = A then δ else 0)) :
    sumT ρ1 ts = sumT ρ2 ts + coef ts A * δ := by
  induction ts with
  | nil => simp [sumT, coef]
  | cons p ts ih =>
    obtain ⟨a, c⟩ := p
    have ha := h (a, c) (by simp)
    simp only at ha
    simp only [sumT, coef, ih (fun p hp => h p (List.mem_cons_of_mem _ hp)), ha]
    split
    · simp only [Int.mul_add, Int.add_mul]; omega
    · simp only [Int.add_zero, Int.zero_add]; omega

/-! ## soundness of `norm` without division -/

theorem smul_one (num : Int) (f : Lin) : f.smul num 1 = ⟨f.den * 1, scaleT num f.terms, num * f.k⟩ := by
  simp [Lin.smul]

/-- for a subscript without `/` the closed form has denominator 1 and the Fortran value (MOD calls, array
elements, products of non-constants ... are opaque atoms) -/
theorem norm_sound (e : Expr) (σ : Store) (h : hasDiv e = false) :
    (norm e).den = 1 ∧ eval e σ = sumT (fun a => eval a σ) (norm e).terms + (norm e).k := by
  induction e with
  | lit n => simp [norm, Lin.const, sumT, eval]
  | var x => simp [norm, Lin.atom, sumT]
  | idx1 a i _ => simp [norm, Lin.atom, sumT]
  | idx2 a i j _ _ => simp [norm, Lin.atom, sumT]
  | un op e ih =>
    simp only [hasDiv] at h
    obtain ⟨hd, he⟩ := ih h
    cases op with
    | neg =>
      simp only [norm, Lin.neg, hd, eval, evalUn, he, sumT_scaleT, true_and]
      omega
    | plus => simpa only [norm, eval, evalUn] using ⟨hd, he⟩
    | not => simp [norm, Lin.atom, sumT]
    | abs => simp [norm, Lin.atom, sumT]
  | bin op a b iha ihb =>
    simp only [hasDiv, Bool.or_eq_false_iff, beq_eq_false_iff_ne, ne_eq] at h
    obtain ⟨⟨hdiv, ha⟩, hb⟩ := h
    obtain ⟨hda, hea⟩ := iha ha
    obtain ⟨hdb, heb⟩ := ihb hb
    cases op with
    | add =>
      simp only [norm, Lin.add, hda, hdb, eval, evalBin, hea, heb, sumT_append, sumT_scaleT, true_and]
      omega
    | sub =>
      simp only [norm, Lin.sub, Lin.add, Lin.neg, hda, hdb, eval, evalBin, hea, heb, sumT_append, sumT_scaleT,
        true_and]
      omega
    | mul =>
      simp only [norm]
      split
      · rename_i hemp
        have : (norm a).terms = [] := by simpa using hemp
        rw [hda, smul_one]
        simp only [hdb, eval, evalBin, hea, heb, this, sumT, sumT_scaleT, Int.mul_one, true_and, Int.zero_add,
          Int.mul_add]
      · split
        · rename_i _ hemp
          have : (norm b).terms = [] := by simpa using hemp
          rw [hdb, smul_one]
          simp only [hda, eval, evalBin, hea, heb, this, sumT, sumT_scaleT, Int.mul_one, true_and, Int.zero_add,
            Int.mul_add, Int.add_mul, Int.mul_comm]
        · simp [Lin.atom, sumT]
    | div => exact absurd rfl hdiv
    | _ => simp [norm, Lin.atom, sumT]

theorem mem_smul {n d : Int} {f : Lin} {a : Expr} {c : Int} (h : (a, c) ∈ (f.smul n d).terms) :
    ∃ c', (a, c') ∈ f.terms := by
  unfold Lin.smul at h
  split at h <;> exact mem_scaleT h

/-- atoms of the closed form are sub-expressions: their variables are variables of the subscript -/
theorem norm_atom_vars (e : Expr) :
    ∀ a c, (a, c) ∈ (norm e).terms → ∀ x ∈ C08.evars a, x ∈ C08.evars e := by
  induction e with
  | lit n => intro a c h; simp [norm, Lin.const] at h
  | var y => intro a c h; simp only [norm, Lin.atom, List.mem_singleton, Prod.mk.injEq] at h; rw [h.1]; exact fun _ h => h
  | idx1 y i _ => intro a c h; simp only [norm, Lin.atom, List.mem_singleton, Prod.mk.injEq] at h; rw [h.1]; exact fun _ h => h
  | idx2 y i j _ _ => intro a c h; simp only [norm, Lin.atom, List.mem_singleton, Prod.mk.injEq] at h; rw [h.1]; exact fun _ h => h
  | un op e ih =>
    intro a c h x hx
    cases op with
    | neg =>
      simp only [norm, Lin.neg] at h
      obtain ⟨c', hc⟩ := mem_scaleT h
      exact ih a c' hc x hx
    | plus => exact ih a c (by simpa only [norm] using h) x hx
    | not => simp only [norm, Lin.atom, List.mem_singleton, Prod.mk.injEq] at h; rw [h.1] at hx; exact hx
    | abs => simp only [norm, Lin.atom, List.mem_singleton, Prod.mk.injEq] at h; rw [h.1] at hx; exact hx
  | bin op p q ihp ihq =>
    intro a c h x hx
    have hl : ∀ y, y ∈ C08.evars p → y ∈ C08.evars (.bin op p q) := fun y hy => by
      simp only [C08.evars]; exact List.mem_append_left _ hy
    have hr : ∀ y, y ∈ C08.evars q → y ∈ C08.evars (.bin op p q) := fun y hy => by
      simp only [C08.evars]; exact List.mem_append_right _ hy
    have hatom : (a, c) ∈ (Lin.atom (.bin op p q)).terms → x ∈ C08.evars (.bin op p q) := by
      intro h
      simp only [Lin.atom, List.mem_singleton, Prod.mk.injEq] at h
      rw [h.1] at hx; exact hx
    cases op with
    | add =>
      simp only [norm, Lin.add, List.mem_append] at h
      rcases h with h | h
      · obtain ⟨c', hc⟩ := mem_scaleT h; exact hl x (ihp a c' hc x hx)
      · obtain ⟨c', hc⟩ := mem_scaleT h; exact hr x (ihq a c' hc x hx)
    | sub =>
      simp only [norm, Lin.sub, Lin.add, Lin.neg, List.mem_append] at h
      rcases h with h | h
      · obtain ⟨c', hc⟩ := mem_scaleT h; exact hl x (ihp a c' hc x hx)
      · obtain ⟨c', hc⟩ := mem_scaleT h
        obtain ⟨c'', hc'⟩ := mem_scaleT hc
        exact hr x (ihq a c'' hc' x hx)
    | mul =>
      simp only [norm] at h
      split at h
      · obtain ⟨c', hc⟩ := mem_smul h; exact hr x (ihq a c' hc x hx)
      · split at h
        · obtain ⟨c', hc⟩ := mem_smul h; exact hl x (ihp a c' hc x hx)
        · exact hatom h
    | div =>
      simp only [norm] at h
      split at h
      · obtain ⟨c', hc⟩ := mem_smul h; exact hl x (ihp a c' hc x hx)
      · exact hatom h
    | _ => exact hatom (by simpa only [norm] using h)

theorem sameTerms_coef {f g : Lin} (hf : f.den = 1) (hg : g.den = 1) (h : sameTerms f g = true) :
    ∀ a, coef f.terms a = coef g.terms a := by
  intro a
  by_cases hm : ∃ c, (a, c) ∈ f.terms ++ g.terms
  · obtain ⟨c, hc⟩ := hm
    simp only [sameTerms, List.all_eq_true] at h
    have := h (a, c) hc
    simpa [hf, hg] using this
  · have hf0 : coef f.terms a = 0 :=
      coef_eq_zero_of_not_mem (fun c hc => hm ⟨c, List.mem_append_left _ hc⟩)
    have hg0 : coef g.terms a = 0 :=
      coef_eq_zero_of_not_mem (fun c hc => hm ⟨c, List.mem_append_right _ hc⟩)
    rw [hf0, hg0]

theorem sumT_congr_val (ρ1 ρ2 : Expr → Int) (ts : List (Expr × Int)) (h : ∀ p ∈ ts, ρ1 p.1 = ρ2 p.1) :
    sumT ρ1 ts = sumT ρ2 ts := by
  have := sumT_shift ρ1 ρ2 (.lit 0) 0 ts (fun p hp => by simp [h p hp])
  simpa using this

theorem eval_agree {a : Expr} {τ1 τ2 : Store}
    (h : ∀ x ∈ C08.evars a, ∀ p q, τ1 (x, p, q) = τ2 (x, p, q)) : eval a τ1 = eval a τ2 := by
  apply eval_congr (V := fun x => x ∈ C08.evars a)
  · intro x hx; rw [evars_eq]; exact hx
  · intro x hx p q; exact h x hx p q

/-- `_independent_0_var` is sound when the two stores agree on the variables of both subscripts -/
theorem indep0_sound {w o : Expr} (h : independent0 w o = true) (τ1 τ2 : Store)
    (hag : ∀ x, (x ∈ C08.evars w ∨ x ∈ C08.evars o) → ∀ p q, τ1 (x, p, q) = τ2 (x, p, q)) :
    eval w τ1 ≠ eval o τ2 := by
  have hw : hasDiv w = false := by
    simp only [independent0, Bool.and_eq_true, Bool.not_eq_eq_eq_not, Bool.not_true] at h; exact h.1.1.1
  have ho : hasDiv o = false := by
    simp only [independent0, Bool.and_eq_true, Bool.not_eq_eq_eq_not, Bool.not_true] at h; exact h.1.1.2
  obtain ⟨hdw, hew⟩ := norm_sound w τ1 hw
  obtain ⟨hdo, heo⟩ := norm_sound o τ2 ho
  simp only [independent0, Bool.and_eq_true, bne_iff_ne, ne_eq, hdw, hdo, Int.mul_one, hw, ho, Bool.not_false,
    true_and] at h
  obtain ⟨hst, hne, _⟩ := h
  have hc := sameTerms_coef hdw hdo hst
  have h1 : sumT (fun a => eval a τ1) (norm w).terms = sumT (fun a => eval a τ2) (norm w).terms := by
    apply sumT_congr_val
    intro p hp
    apply eval_agree
    intro x hx
    exact hag x (Or.inl (norm_atom_vars w p.1 p.2 hp x hx))
  have h2 := sumT_congr_coef (fun a => eval a τ2) _ _ hc
  rw [hew, heo, h1, h2]
  omega

/-- what a reported distance of zero means for the closed forms -/
theorem depDistance_zero_spec {i : Nat} {dn : List (Nat × Nat)} {w o : Expr} (h : depDistance i dn w o = some 0) :
    hasDiv w = false ∧ hasDiv o = false ∧ i ∈ C08.evars w ++ C08.evars o ∧
    nonAffine i (norm w) = false ∧ nonAffine i (norm o) = false ∧ coef (norm o).terms (.var i) ≠ 0 ∧
    sameTerms (norm w) (norm o) = true ∧ (norm w).k = (norm o).k := by
  unfold depDistance at h
  split at h
  case isTrue => exact absurd h (by simp)
  rename_i hdiv
  simp only [Bool.or_eq_true, not_or, Bool.not_eq_true] at hdiv
  obtain ⟨hw, ho⟩ := hdiv
  have hdw := (norm_sound w ⟨fun _ => 0⟩ hw).1
  have hdo := (norm_sound o ⟨fun _ => 0⟩ ho).1
  split at h
  case isFalse => exact absurd h (by simp)
  rename_i hmem
  split at h
  case h_1 => exact absurd h (by simp)
  simp only [hdw, hdo, Int.mul_one] at h
  split at h
  case isTrue => exact absurd h (by simp)
  rename_i hna
  split at h
  case isTrue => exact absurd h (by simp)
  rename_i hcg
  split at h
  case isTrue => exact absurd h (by simp)
  rename_i hst
  split at h
  case isFalse => exact absurd h (by simp)
  rename_i hmod
  simp only [Option.some.injEq] at h
  simp only [Bool.or_eq_true, not_or, Bool.not_eq_true] at hna
  have hst' : sameTerms (norm w) (norm o) = true := by simpa using hst
  have hcg' : coef (norm o).terms (.var i) ≠ 0 := by simpa using hcg
  have hmod' : ((norm w).k - (norm o).k) % coef (norm o).terms (.var i) = 0 := by simpa using hmod
  have hk : (norm w).k = (norm o).k := by
    have := Int.emod_add_mul_ediv ((norm w).k - (norm o).k) (coef (norm o).terms (.var i))
    rw [hmod', h] at this
    omega
  exact ⟨hw, ho, hmem, hna.1, hna.2, hcg', hst', hk⟩

/-- a distance of zero is only reported when both subscripts contain the loop variable as a linear atom -/
theorem dist0_mentions {i : Nat} {dn : List (Nat × Nat)} {w o : Expr}
    (h : depDistance i dn w o = some 0) : i ∈ C08.evars w ∧ i ∈ C08.evars o := by
  obtain ⟨hw, ho, _, _, _, hcg, hst, _⟩ := depDistance_zero_spec h
  have hdw := (norm_sound w ⟨fun _ => 0⟩ hw).1
  have hdo := (norm_sound o ⟨fun _ => 0⟩ ho).1
  have hc := sameTerms_coef hdw hdo hst
  have mem : ∀ e : Expr, coef (norm e).terms (.var i) ≠ 0 → i ∈ C08.evars e := by
    intro e hne
    by_cases hm : ∃ c, (Expr.var i, c) ∈ (norm e).terms
    · obtain ⟨c, hc⟩ := hm
      exact norm_atom_vars e (.var i) c hc i (by simp [C08.evars])
    · exact absurd (coef_eq_zero_of_not_mem (fun c hc => hm ⟨c, hc⟩)) hne
  exact ⟨mem w (by rw [hc]; exact hcg), mem o hcg⟩

/-- distance `0` is sound: if the two subscripts have equal values in two stores that agree on every variable
other than the loop variable, the loop variable has the same value in both -/
theorem dist0_sound {i : Nat} {dn : List (Nat × Nat)} {w o : Expr}
    (h : depDistance i dn w o = some 0) (τ1 τ2 : Store)
    (hag : ∀ x, x ≠ i → (x ∈ C08.evars w ∨ x ∈ C08.evars o) → ∀ p q, τ1 (x, p, q) = τ2 (x, p, q))
    (heq : eval w τ1 = eval o τ2) : τ1 (i, 0, 0) = τ2 (i, 0, 0) := by
  obtain ⟨hw, ho, _, hna1, _, hcg', hst', hk⟩ := depDistance_zero_spec h
  obtain ⟨hdw, hew⟩ := norm_sound w τ1 hw
  obtain ⟨hdo, heo⟩ := norm_sound o τ2 ho
  have hc := sameTerms_coef hdw hdo hst'
  -- valuations: atoms other than the loop variable evaluate equally
  have hshift : ∀ p ∈ (norm w).terms, (fun a => eval a τ1) p.1 =
      (fun a => eval a τ2) p.1 + (if p.1 = .var i then (τ1 (i, 0, 0) - τ2 (i, 0, 0)) else 0) := by
    intro p hp
    by_cases hpi : p.1 = .var i
    · simp only [hpi, if_true, eval]; omega
    · simp only [hpi, if_false, Int.add_zero]
      apply eval_agree
      intro x hx
      have hxi : x ≠ i := by
        intro he
        have := hna1
        simp only [nonAffine, List.any_eq_false, Bool.and_eq_true, bne_iff_ne, ne_eq, decide_eq_true_eq,
          not_and] at this
        exact this p hp hpi (he ▸ hx)
      exact hag x hxi (Or.inl (norm_atom_vars w p.1 p.2 hp x hx))
  have h1 := sumT_shift (fun a => eval a τ1) (fun a => eval a τ2) (.var i) (τ1 (i, 0, 0) - τ2 (i, 0, 0))
    (norm w).terms hshift
  have h2 := sumT_congr_coef (fun a => eval a τ2) _ _ hc
  rw [hew, heo, h1, h2, hk] at heq
  have hz : coef (norm w).terms (.var i) * (τ1 (i, 0, 0) - τ2 (i, 0, 0)) = 0 := by omega
  rw [hc] at hz
  rcases Int.mul_eq_zero.mp hz with h0 | h0
  · exact absurd h0 hcg'
  · omega

end C08
