import PsyVerif.Model.Builtins
import Mathlib.Tactic.Ring
import Mathlib.Algebra.Field.Rat
import Mathlib.Algebra.BigOperators.Group.List.Basic
/-! C20 — generic facts about the DoF loop of an LFRic built-in, proved once for every
expression, every upper bound and every field/scalar value; `Gen/BuiltinsThm.lean`
(regenerated on every run) instantiates them for each entry of `BUILTIN_MAP`. -/
namespace C20

theorem Env.ext' {a b : Env} (h1 : ∀ i d, a.fld i d = b.fld i d) (h2 : ∀ i, a.scal i = b.scal i)
    (h3 : ∀ d, a.rnd d = b.rnd d) (h4 : ∀ k, a.unk k = b.unk k) : a = b := by
  cases a; cases b
  simp only [Env.mk.injEq]
  exact ⟨funext fun i => funext fun d => h1 i d, funext h2, funext h3, funext h4⟩

/-- An expression evaluated at DoF `df` reads only element `df` of the fields, the scalars and the
opaque atoms. -/
theorem eval_congr {e1 e2 : Env} {df : Nat} (hf : ∀ i, e1.fld i df = e2.fld i df)
    (hs : ∀ i, e1.scal i = e2.scal i) (hu : ∀ k, e1.unk k = e2.unk k) (e : Expr) :
    eval e1 df e = eval e2 df e := by
  induction e with
  | fld i => exact hf i
  | scal i => exact hs i
  | unk k => exact hu k
  | lit n d => rfl
  | add a b iha ihb | sub a b iha ihb | mul a b iha ihb | div a b iha ihb | pow a b iha ihb
  | sign a b iha ihb | min a b iha ihb | max a b iha ihb | mod a b iha ihb =>
      simp only [eval, iha, ihb]
  | neg a iha | abs a iha | toInt a iha | toReal a iha => simp only [eval, iha]

theorem eval_setScal {env : Env} {t : Nat} {v : Rat} {df : Nat} (e : Expr) (h : usesScal t e = false) :
    eval (setScal env t v) df e = eval env df e := by
  induction e with
  | scal i =>
      have : i ≠ t := by simpa [usesScal] using h
      simp [eval, setScal, this]
  | fld i => rfl
  | unk k => rfl
  | lit n d => rfl
  | add a b iha ihb | sub a b iha ihb | mul a b iha ihb | div a b iha ihb | pow a b iha ihb
  | sign a b iha ihb | min a b iha ihb | max a b iha ihb | mod a b iha ihb =>
      simp only [usesScal, Bool.or_eq_false_iff] at h
      simp only [eval, iha h.1, ihb h.2]
  | neg a iha | abs a iha | toInt a iha | toReal a iha =>
      simp only [usesScal] at h
      simp only [eval, iha h]

/-! ## Integer built-ins stay inside the integers -/

def IsInt (q : Rat) : Prop := ∃ z : Int, q = (z : Rat)

theorem IsInt.neg {a : Rat} (h : IsInt a) : IsInt (-a) := by
  obtain ⟨z, rfl⟩ := h; exact ⟨-z, by push_cast; rfl⟩

theorem IsInt.fabs {a : Rat} (h : IsInt a) : IsInt (fabs a) := by
  unfold C20.fabs; split
  · exact h.neg
  · exact h

theorem eval_isInt (isInt : Nat → Bool) (env : Env) (df : Nat)
    (hf : ∀ i, isInt i = true → IsInt (env.fld i df)) (hs : ∀ i, isInt i = true → IsInt (env.scal i))
    (e : Expr) (h : intValued isInt e = true) : IsInt (eval env df e) := by
  induction e with
  | fld i => exact hf i h
  | scal i => exact hs i h
  | lit n d =>
      have hd : d = 1 := by simpa [intValued] using h
      subst hd
      exact ⟨n, by simp [eval]⟩
  | add a b iha ihb =>
      simp only [intValued, Bool.and_eq_true] at h
      obtain ⟨x, hx⟩ := iha h.1; obtain ⟨y, hy⟩ := ihb h.2
      exact ⟨x + y, by simp only [eval, hx, hy]; push_cast; rfl⟩
  | sub a b iha ihb =>
      simp only [intValued, Bool.and_eq_true] at h
      obtain ⟨x, hx⟩ := iha h.1; obtain ⟨y, hy⟩ := ihb h.2
      exact ⟨x - y, by simp only [eval, hx, hy]; push_cast; rfl⟩
  | mul a b iha ihb =>
      simp only [intValued, Bool.and_eq_true] at h
      obtain ⟨x, hx⟩ := iha h.1; obtain ⟨y, hy⟩ := ihb h.2
      exact ⟨x * y, by simp only [eval, hx, hy]; push_cast; rfl⟩
  | sign a b iha ihb =>
      simp only [intValued, Bool.and_eq_true] at h
      have ha := (iha h.1).fabs
      simp only [eval, fsign]; split
      · exact ha.neg
      · exact ha
  | min a b iha ihb =>
      simp only [intValued, Bool.and_eq_true] at h
      simp only [eval, fmin]; split
      · exact ihb h.2
      · exact iha h.1
  | max a b iha ihb =>
      simp only [intValued, Bool.and_eq_true] at h
      simp only [eval, fmax]; split
      · exact ihb h.2
      · exact iha h.1
  | neg a iha => exact (iha (by simpa [intValued] using h)).neg
  | abs a iha => exact (iha (by simpa [intValued] using h)).fabs
  | toReal a iha => exact iha (by simpa [intValued] using h)
  | toInt a _ => exact ⟨_, rfl⟩
  | div a b _ _ | pow a b _ _ | mod a b _ _ => simp [intValued] at h
  | unk k => simp [intValued] at h

/-! ## The loop visits every DoF of `lo .. lo+n-1` exactly once, in order, and no other -/

theorem visits_eq_range' (lo n : Nat) : visits lo n = List.range' lo n := by
  induction n with
  | zero => rfl
  | succ n ih => simp [visits, ih, List.range'_concat]

theorem loopN_eq_foldl (body : Stmt) (lo n : Nat) (env : Env) :
    loopN body lo n env = (visits lo n).foldl (fun e df => exec body df e) env := by
  induction n with
  | zero => rfl
  | succ n ih => simp [loopN, visits, List.foldl_append, ih]

theorem count_visits (lo n df : Nat) :
    (visits lo n).count df = if lo ≤ df ∧ df < lo + n then 1 else 0 := by
  induction n with
  | zero => simp [visits]
  | succ n ih =>
      simp only [visits, List.count_append, ih, List.count_singleton]
      by_cases h1 : lo ≤ df ∧ df < lo + n
      · have : ¬ (lo + n == df) = true := by simp; omega
        have h2 : lo ≤ df ∧ df < lo + (n + 1) := by omega
        simp [h1, h2, this]
      · by_cases h3 : lo + n = df
        · have h2 : lo ≤ df ∧ df < lo + (n + 1) := by omega
          simp [h1, h2, h3]
        · have h2 : ¬ (lo ≤ df ∧ df < lo + (n + 1)) := by omega
          have : ¬ (lo + n == df) = true := by simpa using h3
          simp [h1, h2, this]

/-! ## Element-wise built-ins: the loop realises the array assignment -/

theorem loop_fassign (t : Nat) (e : Expr) (n : Nat) (env : Env) :
    loopN (.fassign t e) 1 n env = Doc.apply (.arrayAssign t e) n env := by
  induction n with
  | zero =>
      apply Env.ext' <;> intros <;> simp [loopN, Doc.apply]
      omega
  | succ n ih =>
      simp only [loopN, ih, exec]
      have hev : eval (Doc.apply (.arrayAssign t e) n env) (1 + n) e = eval env (1 + n) e := by
        apply eval_congr
        · intro i
          simp only [Doc.apply]
          have : ¬ (i = t ∧ 1 ≤ 1 + n ∧ 1 + n ≤ n) := by omega
          simp [this]
        · intro i; rfl
        · intro k; rfl
      rw [hev]
      apply Env.ext' <;> intros <;> simp only [setFld, Doc.apply]
      rename_i i d
      by_cases h1 : i = t ∧ d = 1 + n
      · obtain ⟨rfl, rfl⟩ := h1
        rw [if_pos ⟨rfl, rfl⟩, if_pos ⟨rfl, by omega, by omega⟩]
      · rw [if_neg h1]
        by_cases h3 : i = t ∧ 1 ≤ d ∧ d ≤ n
        · rw [if_pos h3, if_pos (by omega)]
        · rw [if_neg h3, if_neg (by omega)]

theorem loop_rand (t : Nat) (n : Nat) (env : Env) :
    loopN (.rand t) 1 n env = Doc.apply (.randomFill t) n env := by
  induction n with
  | zero =>
      apply Env.ext' <;> intros <;> simp [loopN, Doc.apply]
      omega
  | succ n ih =>
      simp only [loopN, ih, exec]
      apply Env.ext' <;> intros <;> simp only [setFld, Doc.apply]
      rename_i i d
      by_cases h1 : i = t ∧ d = 1 + n
      · obtain ⟨rfl, rfl⟩ := h1
        rw [if_pos ⟨rfl, rfl⟩, if_pos ⟨rfl, by omega, by omega⟩]
      · rw [if_neg h1]
        by_cases h3 : i = t ∧ 1 ≤ d ∧ d ≤ n
        · rw [if_pos h3, if_pos (by omega)]
        · rw [if_neg h3, if_neg (by omega)]

/-! ## Element-wise loops: the iteration order is irrelevant (what an OpenMP `parallel do` relies on) -/

/-- Executing `f_t(df) = e` once for each DoF of a duplicate-free list, in *any* order, sets exactly those
DoFs to `e` evaluated on the initial values. -/
theorem foldl_fassign (t : Nat) (e : Expr) (l : List Nat) (hl : l.Nodup) (env : Env) :
    l.foldl (fun en df => exec (.fassign t e) df en) env
      = { env with fld := fun i d => if i = t ∧ d ∈ l then eval env d e else env.fld i d } := by
  induction l generalizing env with
  | nil => apply Env.ext' <;> intros <;> simp
  | cons a l ih =>
      have hnd := List.nodup_cons.mp hl
      rw [List.foldl_cons, ih hnd.2]
      apply Env.ext' <;> intros <;> simp only [exec, setFld]
      rename_i i d
      by_cases h1 : i = t ∧ d ∈ l
      · have hda : d ≠ a := fun h => hnd.1 (h ▸ h1.2)
        rw [if_pos h1, if_pos ⟨h1.1, List.mem_cons_of_mem _ h1.2⟩]
        apply eval_congr
        · intro j
          have : ¬ (j = t ∧ d = a) := fun h => hda h.2
          simp only [this, if_false]
        · intro j; rfl
        · intro k; rfl
      · rw [if_neg h1]
        by_cases h2 : i = t ∧ d = a
        · obtain ⟨rfl, rfl⟩ := h2
          rw [if_pos ⟨rfl, rfl⟩, if_pos ⟨rfl, List.mem_cons_self⟩]
        · rw [if_neg h2]
          have : ¬ (i = t ∧ d ∈ a :: l) := by
            intro h
            rcases List.mem_cons.mp h.2 with h3 | h3
            · exact h2 ⟨h.1, h3⟩
            · exact h1 ⟨h.1, h3⟩
          rw [if_neg this]

theorem loop_fassign_any_order (t : Nat) (e : Expr) (n : Nat) (l : List Nat) (hp : l.Perm (visits 1 n))
    (env : Env) :
    l.foldl (fun en df => exec (.fassign t e) df en) env = loopN (.fassign t e) 1 n env := by
  have hnd : (visits 1 n).Nodup := by rw [visits_eq_range']; exact List.nodup_range'
  rw [loopN_eq_foldl, foldl_fassign t e l (hp.nodup_iff.mpr hnd), foldl_fassign t e _ hnd]
  apply Env.ext' <;> intros <;> simp only [hp.mem_iff]

/-! ## Reductions: the accumulation loop is the sum over the DoFs visited -/

theorem sumOver_dofs_succ (f : Nat → Rat) (n : Nat) :
    sumOver f (dofs (n + 1)) = sumOver f (dofs n) + f (1 + n) := by
  simp [sumOver, dofs, List.range'_concat, List.sum_append]

/-- `s = s + e(df)` for `df = 1..n` adds `Σ_{df=1..n} e(df)` to `s` (for every accumulation
statement whose right-hand side is pointwise `s + e` with `e` not reading `s`). -/
theorem loop_accum (t : Nat) (rhs e : Expr)
    (h : ∀ env df, eval env df rhs = env.scal t + eval env df e) (hu : usesScal t e = false)
    (n : Nat) (env : Env) :
    loopN (.sassign t rhs) 1 n env
      = setScal env t (env.scal t + sumOver (fun df => eval env df e) (dofs n)) := by
  induction n with
  | zero =>
      apply Env.ext' <;> intros <;>
        simp only [loopN, setScal, sumOver, dofs, List.range'_zero, List.map_nil, List.sum_nil, add_zero]
      rename_i i
      by_cases hi : i = t <;> simp [hi]
  | succ n ih =>
      simp only [loopN, ih, exec, h, eval_setScal e hu, sumOver_dofs_succ]
      apply Env.ext' <;> intros <;> simp only [setScal]
      rename_i i
      by_cases hi : i = t
      · simp only [hi, if_true]; ring
      · simp only [hi, if_false]

/-- The order in which partial sums are combined is irrelevant on the exact domain (what an OpenMP
`reduction(+:s)` clause or the reproducible per-thread sums rely on). -/
theorem sumOver_perm (f : Nat → Rat) {l1 l2 : List Nat} (h : l1.Perm l2) : sumOver f l1 = sumOver f l2 :=
  (h.map f).sum_eq

theorem sumOver_append (f : Nat → Rat) (l1 l2 : List Nat) : sumOver f (l1 ++ l2) = sumOver f l1 + sumOver f l2 := by
  simp [sumOver, List.sum_append]

theorem sumOver_flatten (f : Nat → Rat) (chunks : List (List Nat)) :
    sumOver f chunks.flatten = (chunks.map (sumOver f)).sum := by
  induction chunks with
  | nil => simp [sumOver]
  | cons c cs ih => simp [List.flatten_cons, sumOver_append, ih]

/-- Unprotected accumulation by two threads (what a work-shared loop *without* a reduction clause may do):
both read the shared scalar, then both write `old + own contribution`; the later write wins. -/
def racyTwoThreads (s x y : Rat) : Rat :=
  let readA := s; let readB := s
  let _afterA := readA + x
  readB + y

/-! ## Loop fusion of two DoF loops -/

theorem eval_setFld_ne {E : Env} {t d d' : Nat} {v : Rat} (h : d ≠ d') (e : Expr) :
    eval (setFld E t d v) d' e = eval E d' e := by
  apply eval_congr
  · intro i
    have : ¬ (i = t ∧ d' = d) := fun hh => h hh.2.symm
    simp only [setFld, this, if_false]
  · intro i; rfl
  · intro k; rfl

theorem setFld_comm (E : Env) (t1 t2 d d' : Nat) (v1 v2 : Rat) (h : d ≠ d') :
    setFld (setFld E t1 d v1) t2 d' v2 = setFld (setFld E t2 d' v2) t1 d v1 := by
  apply Env.ext' <;> intros <;> simp only [setFld]
  rename_i i x
  by_cases h1 : i = t2 ∧ x = d' <;> by_cases h2 : i = t1 ∧ x = d
  · exact absurd (h2.2.symm.trans h1.2) h
  · rw [if_pos h1, if_neg h2, if_pos h1]
  · rw [if_neg h1, if_pos h2, if_pos h2]
  · rw [if_neg h1, if_neg h2, if_neg h2, if_neg h1]

theorem setFld_setScal_comm (E : Env) (t d u : Nat) (v w : Rat) :
    setScal (setFld E t d v) u w = setFld (setScal E u w) t d v := rfl

theorem setScal_comm (E : Env) (t u : Nat) (v w : Rat) (h : t ≠ u) :
    setScal (setScal E t v) u w = setScal (setScal E u w) t v := by
  apply Env.ext' <;> intros <;> simp only [setScal]
  rename_i i
  by_cases h1 : i = u <;> by_cases h2 : i = t
  · exact absurd (h2.symm.trans h1) h
  · rw [if_pos h1, if_neg h2, if_pos h1]
  · rw [if_neg h1, if_pos h2, if_pos h2]
  · rw [if_neg h1, if_neg h2, if_neg h2, if_neg h1]

/-- Iterations of two statements at *different* DoFs commute when the statements are scalar-independent. -/
theorem exec_comm (s1 s2 : Stmt) (d d' : Nat) (h : d ≠ d') (hi : scalIndep s1 s2) (E : Env) :
    exec s2 d' (exec s1 d E) = exec s1 d (exec s2 d' E) := by
  cases s1 with
  | fassign t1 e1 =>
    cases s2 with
    | fassign t2 e2 =>
        simp only [exec, eval_setFld_ne h, eval_setFld_ne (Ne.symm h)]
        exact setFld_comm E t1 t2 d d' _ _ h
    | sassign t2 e2 =>
        have hr : usesScal t2 e1 = false := by
          have := (hi t2).2 (by simp [Stmt.writesScal]); simpa [Stmt.readsScal] using this
        simp only [exec, eval_setFld_ne h, eval_setScal e1 hr]
        rfl
    | rand t2 =>
        simp only [exec, eval_setFld_ne (Ne.symm h)]
        exact setFld_comm E t1 t2 d d' _ _ h
  | sassign t1 e1 =>
    cases s2 with
    | fassign t2 e2 =>
        have hr : usesScal t1 e2 = false := by
          have := ((hi t1).1 (by simp [Stmt.writesScal])).1; simpa [Stmt.readsScal] using this
        simp only [exec, eval_setFld_ne (Ne.symm h), eval_setScal e2 hr]
        rfl
    | sassign t2 e2 =>
        have h12 := (hi t1).1 (by simp [Stmt.writesScal])
        have hne : t1 ≠ t2 := by
          intro hh; have := h12.2; simp [Stmt.writesScal, hh] at this
        have hr2 : usesScal t1 e2 = false := by simpa [Stmt.readsScal] using h12.1
        have hr1 : usesScal t2 e1 = false := by
          have := (hi t2).2 (by simp [Stmt.writesScal]); simpa [Stmt.readsScal] using this
        simp only [exec, eval_setScal e2 hr2, eval_setScal e1 hr1]
        exact setScal_comm E t1 t2 _ _ hne
    | rand t2 =>
        simp only [exec, eval_setFld_ne (Ne.symm h)]
        rfl
  | rand t1 =>
    cases s2 with
    | fassign t2 e2 =>
        simp only [exec, eval_setFld_ne h]
        exact setFld_comm E t1 t2 d d' _ _ h
    | sassign t2 e2 =>
        simp only [exec, eval_setFld_ne h]
        rfl
    | rand t2 =>
        simp only [exec]
        exact setFld_comm E t1 t2 d d' _ _ h

theorem loopN_exec_comm (s1 s2 : Stmt) (hi : scalIndep s1 s2) (n d : Nat) (hd : n < d) (E : Env) :
    loopN s2 1 n (exec s1 d E) = exec s1 d (loopN s2 1 n E) := by
  induction n with
  | zero => rfl
  | succ n ih =>
      simp only [loopN]
      rw [ih (by omega), exec_comm s1 s2 d (1 + n) (by omega) hi]

/-- Fusing `do df: s1` ; `do df: s2` into `do df: s1; s2` preserves the final state, for every upper bound and all
values, when the two statements are scalar-independent (no reduction variable of one is read or written by the
other).  Field dependences are pointwise by construction: `s2` at `df` reads only element `df`. -/
theorem fusion_sound (s1 s2 : Stmt) (hi : scalIndep s1 s2) (n : Nat) (E : Env) :
    loopL [s1, s2] 1 n E = loopN s2 1 n (loopN s1 1 n E) := by
  induction n with
  | zero => rfl
  | succ n ih =>
      simp only [loopL, execList, loopN, ih]
      rw [loopN_exec_comm s1 s2 hi n (1 + n) (by omega)]

/-! ## A built-in's generated code implements its documented formula -/

/-- For every upper bound `n` and all argument values, running the generated code over the DoFs
`1..n` yields exactly the state the documented formula describes for the DoFs `1..n`. -/
def Implements (c : Code) (d : Doc) : Prop := ∀ n env, c.run n env = d.apply n env

theorem implements_assign {t : Nat} {e e' : Expr} (h : ∀ env df, eval env df e = eval env df e') :
    Implements ⟨[], 1, .fassign t e⟩ (.arrayAssign t e') := by
  intro n env
  simp only [Code.run, execAll, Nat.add_sub_cancel, loop_fassign]
  apply Env.ext' <;> intros <;> simp only [Doc.apply, h]

theorem implements_rand {t : Nat} : Implements ⟨[], 1, .rand t⟩ (.randomFill t) := by
  intro n env
  simp only [Code.run, execAll, Nat.add_sub_cancel, loop_rand]

theorem implements_sum {t : Nat} {z rhs e : Expr} (hz : ∀ env, eval env 0 z = 0)
    (h : ∀ env df, eval env df rhs = env.scal t + eval env df e) (hu : usesScal t e = false) :
    Implements ⟨[.sassign t z], 1, .sassign t rhs⟩ (.sum t e) := by
  intro n env
  simp only [Code.run, execAll, exec, Nat.add_sub_cancel, loop_accum t rhs e h hu, hz]
  simp only [eval_setScal e hu]
  apply Env.ext' <;> intros <;> simp only [setScal, Doc.apply]
  rename_i i
  by_cases hi : i = t
  · simp [hi]
  · simp [hi]

/-- code and documentation leave the exact domain on the same inputs -/
def Stmt.rhs : Stmt → Expr
  | .fassign _ e | .sassign _ e => e
  | .rand _ => .lit 0 1

def Doc.rhs : Doc → Expr
  | .arrayAssign _ e | .sum _ e => e
  | .randomFill _ => .lit 0 1

def SameDomain (c : Code) (d : Doc) : Prop :=
  ∀ env df, definedAt env df c.body.rhs = definedAt env df d.rhs

/-- Everything C20 claims of one built-in (one entry of the generated table). -/
structure Correct (b : Builtin) : Prop where
  /-- code = documented formula, on every DoF range and for all values -/
  implements : Implements b.code b.doc
  /-- the loop bound generated under each DM × annexed setting is the documented range -/
  bounds : ∀ dm annexed, b.bound dm annexed = docBound dm annexed b.isReduction
  /-- exactly one argument is written and it is the documented (bold) one, and the one the code writes -/
  written : b.written = [b.doc.target] ∧ b.code.body.target = b.doc.target
  /-- a reduction (GH_SUM metadata) is documented as a SUM and vice versa -/
  reduction : b.isReduction = (match b.doc with | .sum _ _ => true | _ => false)
  domain : SameDomain b.code b.doc
  /-- the statement and its initialisation do not depend on the DM × annexed setting -/
  variants : ∀ c ∈ b.variants, c = b.code

/-- Consequence used as the headline statement: under every setting and every DoF layout the generated
code (with the bound it was generated with) produces the documented result on the documented range. -/
theorem Correct.run_eq {b : Builtin} (h : Correct b) (dm annexed : Bool) (L : Layout) (env : Env) :
    b.code.run ((b.bound dm annexed).value L) env
      = b.doc.apply ((docBound dm annexed b.isReduction).value L) env := by
  rw [h.bounds]; exact h.implements _ _

/-- pointwise equality of two expressions for all values -/
macro "c20_pointwise" : tactic => `(tactic| (
  intro env df
  first
    | rfl
    | (simp only [eval] <;> ring)
    | (simp only [eval] <;> push_cast <;> ring)
    | (simp only [eval] <;> norm_num <;> ring_nf)))

macro "c20_zero" : tactic => `(tactic| (intro env; simp [eval]))

macro "c20_domain" : tactic => `(tactic| (
  intro env df
  first
    | rfl
    | simp [Stmt.rhs, Doc.rhs, definedAt]
    | simp [Stmt.rhs, Doc.rhs, definedAt, eval, Bool.and_comm, Bool.and_left_comm, Bool.and_assoc]))

end C20
