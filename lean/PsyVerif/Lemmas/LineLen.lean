import PsyVerif.Model.LineLen
/-! Helper lemmas for C18: `lstrip`/`fnw`, `rfind`, `findBreak`, shape of the output of `loop`
and `processLine` as a rendering of a segmentation of the input line. -/
namespace C18

/-! ## lstrip / fnw -/

theorem lstrip_length_le (l : Line) : (lstrip l).length ≤ l.length := by
  induction l with
  | nil => simp [lstrip]
  | cons c cs ih => simp only [lstrip]; split <;> simp <;> omega

theorem fnw_le (l : Line) : fnw l ≤ l.length := by unfold fnw; omega

theorem drop_fnw (l : Line) : l.drop (fnw l) = lstrip l := by
  induction l with
  | nil => simp [lstrip, fnw]
  | cons c cs ih =>
    unfold fnw
    simp only [lstrip]
    split
    · have h := lstrip_length_le cs
      have : (c :: cs).length - (lstrip cs).length = (cs.length - (lstrip cs).length) + 1 := by
        simp; omega
      rw [this]; simpa [fnw] using ih
    · simp

theorem lstrip_idem (l : Line) : lstrip (lstrip l) = lstrip l := by
  induction l with
  | nil => simp [lstrip]
  | cons c cs ih =>
    simp only [lstrip]; split
    · exact ih
    · rename_i h; simp [lstrip, h]

theorem fnw_lstrip (l : Line) : fnw (lstrip l) = 0 := by
  unfold fnw; rw [lstrip_idem]; omega

/-- the first `fnw l` characters are white space, the next one (if any) is not -/
theorem lstrip_head_not_ws (l : Line) (c : Nat) (r : Line) (h : lstrip l = c :: r) : isWs c = false := by
  induction l with
  | nil => simp [lstrip] at h
  | cons d ds ih =>
    simp only [lstrip] at h; split at h
    · exact ih h
    · rename_i hd; cases h; simpa using hd

/-- appending to a line that has a non-blank character commutes with `lstrip` -/
theorem lstrip_append (a b : Line) (h : lstrip a ≠ []) : lstrip (a ++ b) = lstrip a ++ b := by
  induction a with
  | nil => simp [lstrip] at h
  | cons c cs ih =>
    simp only [lstrip, List.cons_append] at *
    split
    · rename_i hc; simp only [hc, if_true] at h; exact ih h
    · rfl

theorem lstrip_take (l : Line) (n : Nat) (h : fnw l < n) : lstrip (l.take n) = (lstrip l).take (n - fnw l) := by
  induction l generalizing n with
  | nil => simp [lstrip]
  | cons c cs ih =>
    cases n with
    | zero => omega
    | succ n =>
      have hl := lstrip_length_le cs
      unfold fnw at h ⊢
      simp only [lstrip, List.take_succ_cons] at *
      split
      · rename_i hc
        simp only [hc, if_true] at h
        have h1 : (c :: cs).length - (lstrip cs).length = (cs.length - (lstrip cs).length) + 1 := by
          simp; omega
        rw [h1] at h ⊢
        have := ih n (by unfold fnw; omega)
        unfold fnw at this
        rw [this]; congr 1; omega
      · simp

/-! ## isPrefix, rfind, findBreak -/

theorem isPrefix_iff (p s : Line) : isPrefix p s = true ↔ ∃ t, s = p ++ t := by
  induction p generalizing s with
  | nil => simp [isPrefix]
  | cons a as ih =>
    cases s with
    | nil => simp [isPrefix]
    | cons c cs =>
      simp only [isPrefix, Bool.and_eq_true, beq_iff_eq, ih, List.cons_append, List.cons.injEq]
      constructor
      · rintro ⟨rfl, t, rfl⟩; exact ⟨t, rfl, rfl⟩
      · rintro ⟨t, rfl, rfl⟩; exact ⟨rfl, t, rfl⟩

theorem rfind_spec (key : Line) (start stop : Nat) (l : Line) (i j : Nat)
    (h : rfind key start stop l i = some j) :
    i ≤ j ∧ start ≤ j ∧ j + key.length ≤ stop ∧ ∃ a b, l = a ++ key ++ b ∧ a.length = j - i := by
  induction l generalizing i with
  | nil => simp [rfind] at h
  | cons c cs ih =>
    simp only [rfind] at h
    split at h
    · rename_i j' hj
      cases h
      obtain ⟨h1, h2, h3, a, b, hab, hlen⟩ := ih _ hj
      refine ⟨by omega, h2, h3, c :: a, b, by simp [hab], by simp [hlen]; omega⟩
    · split at h
      · rename_i hc
        cases h
        simp only [Bool.and_eq_true, decide_eq_true_eq] at hc
        obtain ⟨⟨h1, h2⟩, h3⟩ := hc
        obtain ⟨t, ht⟩ := (isPrefix_iff _ _).mp h3
        exact ⟨Nat.le_refl _, h1, h2, [], t, by simp [ht], by simp⟩
      · cases h

theorem rfind_complete (key : Line) (hk : key ≠ []) (start stop : Nat) (l : Line) (i d : Nat)
    (h1 : start ≤ i + d) (h2 : i + d + key.length ≤ stop) (h3 : isPrefix key (l.drop d) = true) :
    ∃ j, rfind key start stop l i = some j := by
  induction l generalizing i d with
  | nil =>
    cases key with
    | nil => exact absurd rfl hk
    | cons a as => simp [isPrefix] at h3
  | cons c cs ih =>
    simp only [rfind]
    cases d with
    | zero =>
      cases hr : rfind key start stop cs (i + 1) with
      | some j => exact ⟨j, rfl⟩
      | none =>
        simp only [List.drop_zero] at h3
        have : (decide (start ≤ i) && decide (i + key.length ≤ stop) && isPrefix key (c :: cs)) = true := by
          simp [h3]; omega
        simp [this]
    | succ d =>
      obtain ⟨j, hj⟩ := ih (i + 1) d (by omega) (by omega) (by simpa using h3)
      exact ⟨j, by simp [hj]⟩


/-- what a successful `find_break_point` guarantees -/
theorem findBreak_spec (l : Line) (m : Nat) (keys : List Line) (bp : Nat)
    (h : findBreak l m keys = some bp) :
    ∃ key ∈ keys, fnw l + 1 + key.length ≤ bp ∧ bp ≤ m ∧ bp ≤ l.length ∧ key <:+ l.take bp := by
  induction keys with
  | nil => simp [findBreak] at h
  | cons key keys ih =>
    simp only [findBreak] at h
    split at h
    · rename_i idx hidx
      cases h
      obtain ⟨_, h2, h3, a, b, hab, hlen⟩ := rfind_spec _ _ _ _ _ _ hidx
      refine ⟨key, List.mem_cons_self, by omega, h3, ?_, ?_⟩
      · subst hab; simp; omega
      · subst hab
        have : (a ++ key ++ b).take (idx + key.length) = a ++ key := by
          have : idx + key.length = (a ++ key).length := by simp; omega
          rw [this, List.take_left']; rfl
        rw [this]; exact List.suffix_append a key
    · obtain ⟨k, hk, rest⟩ := ih h
      exact ⟨k, List.mem_cons_of_mem _ hk, rest⟩

theorem findBreak_some_of_rfind (l : Line) (m : Nat) (keys : List Line) (key : Line) (hk : key ∈ keys)
    (h : ∃ j, rfind key (fnw l + 1) m l 0 = some j) : ∃ bp, findBreak l m keys = some bp := by
  induction keys with
  | nil => cases hk
  | cons k ks ih =>
    simp only [findBreak]
    cases hr : rfind k (fnw l + 1) m l 0 with
    | some idx => exact ⟨_, rfl⟩
    | none =>
      rcases List.mem_cons.mp hk with rfl | hk'
      · obtain ⟨j, hj⟩ := h; rw [hj] at hr; cases hr
      · exact ih hk'

/-! ## segmentations -/

/-- how `loop` prints a segmentation of the remaining text -/
def render (cs ce : Line) : List Line → List Line
  | [] => []
  | [q] => [cs ++ q]
  | q :: q' :: qs => (cs ++ q ++ ce) :: render cs ce (q' :: qs)

/-- the segments `loop` can produce: non-empty, each printed line within the limit, every segment but the
last ends with one of the keys -/
def Segs (cs ce : Line) (keys : List Line) (L : Nat) : List Line → Prop
  | [] => True
  | [q] => q ≠ [] ∧ (cs ++ q).length ≤ L
  | q :: q' :: qs => q ≠ [] ∧ (cs ++ q ++ ce).length ≤ L ∧ (∃ key ∈ keys, key <:+ q) ∧ Segs cs ce keys L (q' :: qs)

theorem loop_shape (cs ce : Line) (keys : List Line) (L : Nat) (n : Nat) (r : Line) (ps : List Line)
    (h : loop cs ce keys L n r = .ok ps) :
    ∃ qs, r = qs.flatten ∧ ps = render cs ce qs ∧ Segs cs ce keys L qs ∧ (r ≠ [] → qs ≠ []) := by
  induction n generalizing r ps with
  | zero => simp [loop] at h
  | succ n ih =>
    simp only [loop] at h
    split at h
    · rename_i hlong
      split at h
      · cases h
      · rename_i bp hbp
        split at h
        · rename_i ps' hps
          cases h
          obtain ⟨qs, hr, hps', hseg, hne⟩ := ih _ _ hps
          obtain ⟨key, hkey, h1, h2, h3, h4⟩ := findBreak_spec _ _ _ _ hbp
          have hdrop : r.drop bp ≠ [] := by
            intro h0
            have : r.length ≤ bp := by simpa using List.drop_eq_nil_iff.mp h0
            omega
          have hqs := hne hdrop
          cases qs with
          | nil => exact absurd rfl hqs
          | cons q' qs =>
            refine ⟨r.take bp :: q' :: qs, ?_, ?_, ?_, by simp⟩
            · rw [List.flatten_cons, ← hr, List.take_append_drop]
            · simp [render, hps']
            · refine ⟨?_, ?_, ⟨key, hkey, h4⟩, hseg⟩
              · intro h0
                have : bp = 0 ∨ r = [] := by simpa using List.take_eq_nil_iff.mp h0
                rcases this with h | h
                · omega
                · subst h; simp at h3; omega
              · simp [List.length_take]; omega
        · cases h
    · split at h
      · rename_i he
        cases h
        have : r = [] := by simpa using he
        subst this
        exact ⟨[], by simp, by simp [render], trivial, by simp⟩
      · rename_i he
        cases h
        have hr : r ≠ [] := by simpa using he
        refine ⟨[r], by simp, by simp [render], ⟨hr, ?_⟩, by simp⟩
        simp; omega

theorem render_length (cs ce : Line) (keys : List Line) (L : Nat) (qs : List Line)
    (h : Segs cs ce keys L qs) : ∀ p ∈ render cs ce qs, p.length ≤ L := by
  induction qs with
  | nil => simp [render]
  | cons q qs ih =>
    cases qs with
    | nil => simp only [render, Segs] at *; intro p hp; simp at hp; subst hp; exact h.2
    | cons q' qs =>
      simp only [render, Segs] at *
      intro p hp
      rcases List.mem_cons.mp hp with rfl | hp
      · exact h.2.1
      · exact ih h.2.2.2 p hp


/-- Shape of the output for a line of type `t` that was actually split: a first segment `q1`
(containing the first non-blank character and at least one more), then the segments of `loop`. -/
def SplitShape (L : Nat) (t : Nat) (l' : Line) (ps : List Line) : Prop :=
  ∃ q1 qs, l' = q1 ++ qs.flatten ∧
    ps = (q1 ++ Gen.contEnd t) :: render (Gen.contStart t) (Gen.contEnd t) qs ∧
    (∃ key ∈ Gen.keyList t, fnw l' + 1 + key.length ≤ q1.length ∧ key <:+ q1) ∧
    (q1 ++ Gen.contEnd t).length ≤ L ∧
    Segs (Gen.contStart t) (Gen.contEnd t) (Gen.keyList t) L qs ∧
    (qs = [] → Gen.contEnd t = [])

theorem pieces_shape (L t : Nat) (l : Line) (bp : Nat) (ps : List Line) (hl : L ≤ l.length)
    (hb : findBreak l (L - (Gen.contEnd t).length) (Gen.keyList t) = some bp)
    (h : pieces (Gen.contStart t) (Gen.contEnd t) (Gen.keyList t) L l bp = .ok ps) :
    SplitShape L t l ps := by
  unfold pieces at h
  split at h
  · rename_i ps' hps
    cases h
    obtain ⟨qs, hr, hps', hseg, hne⟩ := loop_shape _ _ _ _ _ _ _ hps
    obtain ⟨key, hkey, h1, h2, h3, h4⟩ := findBreak_spec _ _ _ _ hb
    refine ⟨l.take bp, qs, ?_, by rw [hps'], ⟨key, hkey, ?_, h4⟩, ?_, hseg, ?_⟩
    · rw [← hr, List.take_append_drop]
    · simp [List.length_take]; omega
    · simp [List.length_take]; omega
    · intro hq
      subst hq
      have : l.drop bp = [] := by simpa using hr
      have : l.length ≤ bp := by simpa using List.drop_eq_nil_iff.mp this
      have : (Gen.contEnd t).length = 0 := by omega
      exact List.length_eq_zero_iff.mp this
  · cases h

theorem processLine_shape (L : Nat) (l : Line) (ps : List Line) (h : processLine L l = .ok ps) :
    (l.length ≤ L ∧ ps = [l]) ∨
    (L < l.length ∧ (lstrip l).length < L ∧ ps = [lstrip l]) ∨
    (L < l.length ∧ (SplitShape L (lineType l) l ps ∨ SplitShape L (lineType l) (lstrip l) ps)) := by
  unfold processLine at h
  split at h
  · rename_i hlong
    right
    simp only at h
    split at h
    · rename_i bp hbp
      right
      exact ⟨hlong, Or.inl (pieces_shape L _ l bp ps (by omega) hbp h)⟩
    · split at h
      · rename_i hshort
        cases h
        left; exact ⟨hlong, hshort, rfl⟩
      · rename_i hnshort
        split at h
        · rename_i bp hbp
          right
          exact ⟨hlong, Or.inr (pieces_shape L _ _ bp ps (by omega) hbp h)⟩
        · cases h
  · rename_i hshort
    cases h
    left; exact ⟨by omega, rfl⟩

end C18
