import PsyVerif.Lemmas.SymMaths
import Mathlib.Algebra.MvPolynomial.Funext
import Mathlib.Data.List.Sort
import Mathlib.Data.Finsupp.Multiset
/-! Completeness of the polynomial normal form of C17: the outputs of `normQ` are canonical (monomials sorted,
terms strictly sorted, coefficients non-zero) and a canonical polynomial that vanishes on every integer
valuation is the empty list (via `MvPolynomial.funext_set` over the infinite set ℤ ⊆ ℚ). -/
open MvPolynomial
namespace C17

/-! ### canonical forms -/

def MonoSorted (m : Mono) : Prop := m.Pairwise (· ≤ ·)

def Canon (p : Poly) : Prop :=
  (p.map Prod.fst).Pairwise (· < ·) ∧ ∀ t ∈ p, t.2 ≠ 0 ∧ MonoSorted t.1

theorem insVar_eq (v : Nat) (m : Mono) : insVar v m = m.orderedInsert (· ≤ ·) v := by
  induction m with
  | nil => rfl
  | cons w m ih => simp only [insVar, List.orderedInsert_cons, ih]

theorem insVar_sorted {v : Nat} {m : Mono} (h : MonoSorted m) : MonoSorted (insVar v m) := by
  rw [insVar_eq]; exact List.Pairwise.orderedInsert v m h

theorem mulMono_sorted (m1 : Mono) {m2 : Mono} (h : MonoSorted m2) : MonoSorted (mulMono m1 m2) := by
  induction m1 with
  | nil => simpa [mulMono] using h
  | cons v m ih =>
    simp only [mulMono, List.foldr_cons] at ih ⊢
    exact insVar_sorted ih

theorem monoLt_iff (m n : Mono) : monoLt m n = true ↔ m < n := by
  induction m generalizing n with
  | nil => cases n <;> simp [monoLt]
  | cons a m ih =>
    cases n with
    | nil => simp [monoLt]
    | cons b n => simp [monoLt, ih, List.cons_lt_cons_iff]

theorem mem_insTerm_fst {m : Mono} {c : Rat} {p : Poly} {t : Mono × Rat} (h : t ∈ insTerm m c p) :
    t.1 = m ∨ ∃ t' ∈ p, t'.1 = t.1 := by
  induction p with
  | nil =>
    simp only [insTerm] at h
    split at h
    · cases h
    · simp only [List.mem_singleton] at h; left; rw [h]
  | cons u p ih =>
    obtain ⟨m', c'⟩ := u
    simp only [insTerm] at h
    split at h
    · split at h
      · right; exact ⟨t, List.mem_cons_of_mem _ h, rfl⟩
      · rcases List.mem_cons.mp h with h | h
        · left; rw [h]
        · right; exact ⟨t, List.mem_cons_of_mem _ h, rfl⟩
    · split at h
      · split at h
        · right; exact ⟨t, h, rfl⟩
        · rcases List.mem_cons.mp h with h | h
          · left; rw [h]
          · right; exact ⟨t, h, rfl⟩
      · rcases List.mem_cons.mp h with h | h
        · right; exact ⟨(m', c'), List.mem_cons_self .., by rw [h]⟩
        · rcases ih h with h | ⟨t', ht', e⟩
          · left; exact h
          · right; exact ⟨t', List.mem_cons_of_mem _ ht', e⟩

theorem canon_nil : Canon [] := ⟨by simp, by simp⟩

theorem canon_tail {t : Mono × Rat} {p : Poly} (h : Canon (t :: p)) : Canon p :=
  ⟨(List.pairwise_cons.mp (by simpa using h.1)).2, fun u hu => h.2 u (List.mem_cons_of_mem _ hu)⟩

theorem insTerm_canon {m : Mono} (c : Rat) {p : Poly} (hm : MonoSorted m) (hp : Canon p) :
    Canon (insTerm m c p) := by
  induction p with
  | nil =>
    simp only [insTerm]
    split
    · exact canon_nil
    · next h => exact ⟨by simp, by simp [h, hm]⟩
  | cons u p ih =>
    obtain ⟨m', c'⟩ := u
    have hpw : (∀ k ∈ p.map Prod.fst, m' < k) ∧ (p.map Prod.fst).Pairwise (· < ·) := by
      simpa using hp.1
    have htail := canon_tail hp
    simp only [insTerm]
    split
    · next heq =>
      subst heq
      split
      · exact htail
      · next hne =>
        refine ⟨by simpa using hp.1, ?_⟩
        intro t ht
        rcases List.mem_cons.mp ht with h | h
        · subst h; exact ⟨hne, hm⟩
        · exact hp.2 t (List.mem_cons_of_mem _ h)
    · next hneq =>
      split
      · next hlt =>
        split
        · exact hp
        · next hc =>
          have hlt' : m < m' := (monoLt_iff _ _).mp hlt
          refine ⟨?_, ?_⟩
          · simp only [List.map_cons, List.pairwise_cons]
            refine ⟨?_, by simpa using hp.1⟩
            intro k hk
            rcases List.mem_cons.mp hk with h | h
            · rw [h]; exact hlt'
            · exact lt_trans hlt' (hpw.1 k h)
          · intro t ht
            rcases List.mem_cons.mp ht with h | h
            · subst h; exact ⟨hc, hm⟩
            · exact hp.2 t h
      · next hnlt =>
        have hnlt' : ¬ m < m' := fun h => hnlt ((monoLt_iff _ _).mpr h)
        have hgt : m' < m := lt_of_le_of_ne (not_lt.mp hnlt') (fun e => hneq e.symm)
        have ih' := ih htail
        refine ⟨?_, ?_⟩
        · simp only [List.map_cons, List.pairwise_cons]
          refine ⟨?_, ih'.1⟩
          intro k hk
          obtain ⟨t, ht, rfl⟩ := List.mem_map.mp hk
          rcases mem_insTerm_fst ht with h | ⟨t', ht', e⟩
          · rw [h]; exact hgt
          · rw [← e]; exact hpw.1 _ (List.mem_map.mpr ⟨t', ht', rfl⟩)
        · intro t ht
          rcases List.mem_cons.mp ht with h | h
          · subst h; exact hp.2 _ (List.mem_cons_self ..)
          · exact ih'.2 t h

theorem addPoly_canon {p q : Poly} (hp : ∀ t ∈ p, MonoSorted t.1) (hq : Canon q) : Canon (addPoly p q) := by
  induction p with
  | nil => simpa [addPoly] using hq
  | cons t p ih =>
    simp only [addPoly, List.foldr_cons] at ih ⊢
    exact insTerm_canon _ (hp t (List.mem_cons_self ..)) (ih (fun u hu => hp u (List.mem_cons_of_mem _ hu)))

theorem mulTerm_canon {m : Mono} (c : Rat) {q : Poly} (hq : ∀ t ∈ q, MonoSorted t.1) : Canon (mulTerm m c q) := by
  induction q with
  | nil => exact canon_nil
  | cons t q ih =>
    simp only [mulTerm, List.foldr_cons] at ih ⊢
    exact insTerm_canon _ (mulMono_sorted m (hq t (List.mem_cons_self ..)))
      (ih (fun u hu => hq u (List.mem_cons_of_mem _ hu)))

theorem mulPoly_canon (p : Poly) {q : Poly} (hq : ∀ t ∈ q, MonoSorted t.1) : Canon (mulPoly p q) := by
  induction p with
  | nil => exact canon_nil
  | cons t p ih =>
    simp only [mulPoly, List.foldr_cons] at ih ⊢
    exact addPoly_canon (fun u hu => ((mulTerm_canon t.2 hq).2 u hu).2) ih

theorem powPoly_canon (p : Poly) (k : Nat) : Canon (powPoly p k) := by
  induction k with
  | zero => exact ⟨by simp [powPoly], by simp [powPoly, MonoSorted]⟩
  | succ k ih => exact mulPoly_canon p (fun t ht => (ih.2 t ht).2)

theorem normQ_canon (e : IExpr) : ∀ {p : Poly}, normQ e = some p → Canon p := by
  induction e with
  | lit n => intro p h; simp only [normQ] at h; cases h; exact insTerm_canon _ (by simp [MonoSorted]) canon_nil
  | var v => intro p h; simp only [normQ] at h; cases h; exact ⟨by simp, by simp [MonoSorted]⟩
  | neg a ih =>
    intro p h
    simp only [normQ, Option.map_eq_some_iff] at h
    obtain ⟨q, hq, rfl⟩ := h
    exact mulTerm_canon _ (fun t ht => ((ih hq).2 t ht).2)
  | add a b iha ihb =>
    intro p h
    simp only [normQ] at h
    split at h
    · next p' q' hp hq => cases h; exact addPoly_canon (fun t ht => ((iha hp).2 t ht).2) (ihb hq)
    · cases h
  | sub a b iha ihb =>
    intro p h
    simp only [normQ] at h
    split at h
    · next p' q' hp hq =>
      cases h
      exact addPoly_canon (fun t ht => ((iha hp).2 t ht).2) (mulTerm_canon _ (fun t ht => ((ihb hq).2 t ht).2))
    · cases h
  | mul a b iha ihb =>
    intro p h
    simp only [normQ] at h
    split at h
    · next p' q' hp hq => cases h; exact mulPoly_canon _ (fun t ht => ((ihb hq).2 t ht).2)
    · cases h
  | div a b iha ihb =>
    intro p h
    simp only [normQ] at h
    split at h
    · next p' q' hp hq =>
      split at h
      · split at h
        · cases h
        · cases h; exact mulTerm_canon _ (fun t ht => ((iha hp).2 t ht).2)
      · cases h
    · cases h
  | pow a k ih =>
    intro p h
    simp only [normQ, Option.map_eq_some_iff] at h
    obtain ⟨q, hq, rfl⟩ := h
    exact powPoly_canon q k
  | mod a b => intro p h; simp [normQ] at h
  | min a b => intro p h; simp [normQ] at h
  | max a b => intro p h; simp [normQ] at h
  | arr1 f i => intro p h; simp [normQ] at h
  | arr2 f i j => intro p h; simp [normQ] at h
  | arr3 f i j k => intro p h; simp [normQ] at h
  | powe a b => intro p h; simp [normQ] at h

/-! ### totality of `normQ` on polynomial expressions -/

theorem normQ_total {e : IExpr} (h : isPoly e = true) : ∃ d, normQ e = some d := by
  induction e with
  | lit n => exact ⟨_, rfl⟩
  | var v => exact ⟨_, rfl⟩
  | neg a ih =>
    simp only [isPoly] at h
    obtain ⟨d, hd⟩ := ih h
    exact ⟨negPoly d, by simp [normQ, hd]⟩
  | add a b iha ihb =>
    simp only [isPoly, Bool.and_eq_true] at h
    obtain ⟨p, hp⟩ := iha h.1
    obtain ⟨q, hq⟩ := ihb h.2
    exact ⟨addPoly p q, by simp [normQ, hp, hq]⟩
  | sub a b iha ihb =>
    simp only [isPoly, Bool.and_eq_true] at h
    obtain ⟨p, hp⟩ := iha h.1
    obtain ⟨q, hq⟩ := ihb h.2
    exact ⟨addPoly p (negPoly q), by simp [normQ, hp, hq]⟩
  | mul a b iha ihb =>
    simp only [isPoly, Bool.and_eq_true] at h
    obtain ⟨p, hp⟩ := iha h.1
    obtain ⟨q, hq⟩ := ihb h.2
    exact ⟨mulPoly p q, by simp [normQ, hp, hq]⟩
  | pow a k ih =>
    simp only [isPoly] at h
    obtain ⟨d, hd⟩ := ih h
    exact ⟨powPoly d k, by simp [normQ, hd]⟩
  | div a b => simp [isPoly] at h
  | mod a b => simp [isPoly] at h
  | min a b => simp [isPoly] at h
  | max a b => simp [isPoly] at h
  | arr1 f i => simp [isPoly] at h
  | arr2 f i j => simp [isPoly] at h
  | arr3 f i j k => simp [isPoly] at h
  | powe a b => simp [isPoly] at h

theorem isPoly_wrapPow {t : IExpr} (h : isPoly t = true) (acc : Option Nat) : isPoly (wrapPow acc t) = true := by
  cases acc <;> simpa [wrapPow, isPoly] using h

theorem isPoly_toSymAux (brk : Bool) {e : IExpr} (h : isPoly e = true) :
    ∀ acc, isPoly (toSymAux brk e acc) = true := by
  induction e with
  | lit n => intro acc; exact isPoly_wrapPow (by simp [isPoly]) acc
  | var v => intro acc; exact isPoly_wrapPow (by simp [isPoly]) acc
  | neg a ih =>
    intro acc
    simp only [isPoly] at h
    exact isPoly_wrapPow (by simp [isPoly, ih h none]) acc
  | add a b iha ihb =>
    intro acc
    simp only [isPoly, Bool.and_eq_true] at h
    exact isPoly_wrapPow (by simp [isPoly, iha h.1 none, ihb h.2 none]) acc
  | sub a b iha ihb =>
    intro acc
    simp only [isPoly, Bool.and_eq_true] at h
    exact isPoly_wrapPow (by simp [isPoly, iha h.1 none, ihb h.2 none]) acc
  | mul a b iha ihb =>
    intro acc
    simp only [isPoly, Bool.and_eq_true] at h
    exact isPoly_wrapPow (by simp [isPoly, iha h.1 none, ihb h.2 none]) acc
  | pow a k ih =>
    intro acc
    simp only [isPoly] at h
    simp only [toSymAux]
    split
    · exact isPoly_wrapPow (by simp [isPoly, ih h none]) acc
    · exact ih h _
  | div a b => simp [isPoly] at h
  | mod a b => simp [isPoly] at h
  | min a b => simp [isPoly] at h
  | max a b => simp [isPoly] at h
  | arr1 f i => simp [isPoly] at h
  | arr2 f i j => simp [isPoly] at h
  | arr3 f i j k => simp [isPoly] at h
  | powe a b => simp [isPoly] at h

/-- the translated difference of two polynomial expressions is always in the domain of `normQ` -/
theorem normQ_diff_total (brk : Bool) {e1 e2 : IExpr} (h1 : isPoly e1 = true) (h2 : isPoly e2 = true) :
    ∃ d, normQ (.sub (toSym brk e1) (toSym brk e2)) = some d :=
  normQ_total (by simp [isPoly, toSym, isPoly_toSymAux brk h1 none, isPoly_toSymAux brk h2 none])

/-! ### a canonical polynomial vanishing on ℤ is empty -/

noncomputable def monoF : Mono → (ℕ →₀ ℕ)
  | [] => 0
  | v :: m => Finsupp.single v 1 + monoF m

theorem monoF_eq (m : Mono) : monoF m = Multiset.toFinsupp (m : Multiset ℕ) := by
  induction m with
  | nil => simp [monoF]
  | cons v m ih =>
    rw [monoF, ih, ← Multiset.cons_coe, ← Multiset.singleton_add, map_add, Multiset.toFinsupp_singleton]

theorem monoF_inj {m m' : Mono} (h : MonoSorted m) (h' : MonoSorted m') (e : monoF m = monoF m') : m = m' := by
  rw [monoF_eq, monoF_eq] at e
  have := Multiset.toFinsupp.injective e
  exact (Multiset.coe_eq_coe.mp this).eq_of_pairwise' h h'

noncomputable def toMv (p : Poly) : MvPolynomial ℕ ℚ := (p.map fun t => monomial (monoF t.1) t.2).sum

def qenv (x : ℕ → ℚ) : QEnv := ⟨x, fun _ _ => 0, fun _ _ _ => 0, fun _ _ _ _ => 0⟩

theorem prod_monoF (x : ℕ → ℚ) (m : Mono) : ((monoF m).prod fun n e => x n ^ e) = evalMono m (qenv x) := by
  induction m with
  | nil => simp [monoF, evalMono_nil]
  | cons v m ih =>
    rw [monoF, Finsupp.prod_add_index' (by simp) (by intros; exact pow_add ..), ih, evalMono_cons]
    simp [qenv]

theorem eval_toMv (x : ℕ → ℚ) (p : Poly) : eval x (toMv p) = evalPoly p (qenv x) := by
  induction p with
  | nil => simp [toMv, evalPoly_nil]
  | cons t p ih =>
    simp only [toMv, List.map_cons, List.sum_cons, map_add] at ih ⊢
    rw [ih, eval_monomial, prod_monoF, evalPoly_cons]

theorem coeff_toMv_of_ne {s : ℕ →₀ ℕ} {p : Poly} (h : ∀ t ∈ p, monoF t.1 ≠ s) : coeff s (toMv p) = 0 := by
  induction p with
  | nil => simp [toMv]
  | cons t p ih =>
    simp only [toMv, List.map_cons, List.sum_cons, coeff_add] at ih ⊢
    rw [ih (fun u hu => h u (List.mem_cons_of_mem _ hu)), coeff_monomial, if_neg (h t (List.mem_cons_self ..))]
    simp

theorem canon_zero {p : Poly} (hc : Canon p) (h : toMv p = 0) : p = [] := by
  cases p with
  | nil => rfl
  | cons t p =>
    exfalso
    have hpw : (∀ k ∈ p.map Prod.fst, t.1 < k) := (List.pairwise_cons.mp (by simpa using hc.1)).1
    have hrest : ∀ u ∈ p, monoF u.1 ≠ monoF t.1 := by
      intro u hu e
      have := monoF_inj (hc.2 u (List.mem_cons_of_mem _ hu)).2 (hc.2 t (List.mem_cons_self ..)).2 e
      have hlt := hpw u.1 (List.mem_map.mpr ⟨u, hu, rfl⟩)
      rw [this] at hlt
      exact lt_irrefl _ hlt
    have hco : coeff (monoF t.1) (toMv (t :: p)) = t.2 := by
      simp only [toMv, List.map_cons, List.sum_cons, coeff_add]
      have := coeff_toMv_of_ne hrest
      simp only [toMv] at this
      rw [this, coeff_monomial]; simp
    rw [h] at hco
    exact (hc.2 t (List.mem_cons_self ..)).1 (by simpa using hco.symm)

theorem evalMono_congr {ρ ρ' : QEnv} (h : ∀ v, ρ.var v = ρ'.var v) (m : Mono) : evalMono m ρ = evalMono m ρ' := by
  induction m with
  | nil => rfl
  | cons v m ih => rw [evalMono_cons, evalMono_cons, ih, h]

theorem evalPoly_congr {ρ ρ' : QEnv} (h : ∀ v, ρ.var v = ρ'.var v) (p : Poly) : evalPoly p ρ = evalPoly p ρ' := by
  induction p with
  | nil => rfl
  | cons t p ih => rw [evalPoly_cons, evalPoly_cons, ih, evalMono_congr h]

/-- a canonical polynomial that evaluates to 0 at every integer valuation is the empty polynomial -/
theorem canon_vanish_int {p : Poly} (hc : Canon p) (h : ∀ ρ : Env, evalPoly p (liftEnv ρ) = 0) : p = [] := by
  apply canon_zero hc
  apply MvPolynomial.funext_set (fun _ : ℕ => Set.range ((↑) : ℤ → ℚ))
    (fun _ => Set.infinite_range_of_injective Int.cast_injective)
  intro x hx
  have hz : ∀ n, ∃ z : ℤ, (z : ℚ) = x n := fun n => by simpa using hx n (Set.mem_univ n)
  choose z hz using hz
  rw [eval_toMv, map_zero]
  have := h ⟨z, fun _ _ => 0, fun _ _ _ => 0, fun _ _ _ _ => 0⟩
  rw [← this]
  exact evalPoly_congr (fun v => by simp [qenv, liftEnv, hz]) p

end C17
