import PsyVerif.Lemmas.HaloEdit
/-! # C22 — `rcEdit` preserves valid placement: assembly -/
namespace C22

variable (cfg : Cfg) (H : Nat) (env : Nat → Nat) (cont : Bool) (f : Nat)

theorem go_sub (g : Nat) : ∀ (X p : Sched), ∀ x ∈ removeStale.go cfg g p X, x ∈ X
  | [], _, x, h => by simp [removeStale.go] at h
  | .hex kind g' :: r, p, x, h => by
    simp only [removeStale.go] at h
    split at h
    · split at h
      · exact h
      · simp [h]
    · simp only [List.mem_cons] at h ⊢
      rcases h with h | h
      · exact Or.inl h
      · exact Or.inr (go_sub g r _ x h)
  | .loop k b :: r, p, x, h => by
    simp only [removeStale.go] at h
    split at h
    · split at h
      · exact h
      · simp only [List.mem_cons] at h ⊢
        rcases h with h | h
        · exact Or.inl h
        · exact Or.inr (go_sub g r _ x h)
    · simp only [List.mem_cons] at h ⊢
      rcases h with h | h
      · exact Or.inl h
      · exact Or.inr (go_sub g r _ x h)

theorem removeStale_sub (p : Sched) : ∀ (ws : List Nat) (X : Sched),
    ∀ x ∈ removeStale cfg p ws X, x ∈ X
  | [], _, x, h => by simpa [removeStale] using h
  | g :: ws, X, x, h => by
    simp only [removeStale] at h
    exact go_sub cfg g X p x (removeStale_sub p ws _ x h)

theorem createHex_snd_sub (k : Kern) (b : Bound) : ∀ (fs : List Nat) (pre rest : Sched),
    ∀ x ∈ (createHex cfg k b fs pre rest).2, x ∈ rest
  | [], _, _, x, h => by simpa [createHex] using h
  | g :: fs, pre, rest, x, h => by
    have hadd : x ∈ (createHex cfg k b fs (.hex .sync g :: pre) (restAfterDrop g k b rest)).2 →
        x ∈ rest := fun h' =>
      restAfterDrop_sub g k b rest x (createHex_snd_sub k b fs _ _ x h')
    cases hb : bwdDep g pre with
    | hex =>
      simp only [createHex, hb] at h
      exact createHex_snd_sub k b fs pre rest x h
    | none =>
      by_cases hreq : (hexRequired cfg g pre (.loop k b :: rest)).1 = true
      · simp only [createHex, hb, hreq, if_true] at h
        exact hadd h
      · simp only [createHex, hb, hreq, Bool.false_eq_true, if_false] at h
        exact createHex_snd_sub k b fs pre rest x h
    | writer kw bw aw =>
      by_cases hreq : (hexRequired cfg g pre (.loop k b :: rest)).1 = true
      · simp only [createHex, hb, hreq, if_true] at h
        exact hadd h
      · simp only [createHex, hb, hreq, Bool.false_eq_true, if_false] at h
        exact createHex_snd_sub k b fs pre rest x h

/-- fields written by the kernel (`update_halo_exchanges`, second half) -/
def writtenFields (k : Kern) : List Nat :=
  ((k.args.filter (fun a => a.access.writes)).map (·.field)).eraseDups

/-- the suffix after redundant computation on `loop k b` with reversed prefix `pre` -/
def rcSuffix (pre : Sched) (k : Kern) (b : Bound) (depth : Option Nat) (R : Sched) : Sched :=
  let b' := rcBound b depth
  let hs := newHexes cfg k b' (haloReadFields cfg k b') pre R
  let c := createHex cfg k b' (haloReadFields cfg k b') pre R
  hs.map hexSync ++ .loop k b' :: removeStale cfg (.loop k b' :: c.1) (writtenFields k) c.2

theorem rc_core_valid (pre : Sched) (k : Kern) (b : Bound) (depth : Option Nat) (R : Sched)
    (hval : rcValid k b depth = true)
    (hold : POK cfg H env cont f k b) (hnew : POK cfg H env cont f k (rcBound b depth))
    (hall : ∀ k b, Item.loop k b ∈ R → POK cfg H env cont f k b)
    (hv : ValidFrom cfg H env cont f pre (.loop k b :: R)) :
    ValidFrom cfg H env cont f pre (rcSuffix cfg pre k b depth R) := by
  simp only [ValidFrom] at hv
  obtain ⟨_, hvR⟩ := hv
  unfold rcSuffix
  simp only
  generalize hb' : rcBound b depth = b' at *
  generalize hfs : haloReadFields cfg k b' = fs
  have hfsnd : fs.Nodup := by rw [← hfs]; unfold haloReadFields; exact nodup_eraseDups _
  have hwnd : (writtenFields k).Nodup := nodup_eraseDups _
  have hnk := hnew.1.nodup
  have hfst := createHex_fst cfg k b' fs pre R
  obtain ⟨hS1a, hS1b⟩ := createHex_snd cfg f k b' fs pre R hfsnd
  generalize hhs : newHexes cfg k b' fs pre R = hs at *
  generalize hc : createHex cfg k b' fs pre R = c at *
  obtain ⟨pre', R'⟩ := c
  simp only at hfst hS1a hS1b ⊢
  subst hfst
  obtain ⟨hS2a, hS2b⟩ := removeStale_shape cfg f
    (.loop k b' :: ((hs.map hexSync).reverse ++ pre)) (writtenFields k) R' hwnd
  have hsubfs : ∀ g ∈ hs, g ∈ fs := by
    intro g hg; rw [← hhs] at hg; exact newHexes_sub cfg k b' fs pre R g hg
  apply validFrom_hexes
  · -- the new exchange of `f` is followed by the loop, which reads `f`
    intro hf
    have hf' := hsubfs f hf
    rw [← hfs] at hf'
    obtain ⟨a, hamem, hra, rfl⟩ := mem_haloReadFields.mp hf'
    have harg := argOf_of_mem hamem hnk
    have hr := hra_reads hra
    simp only [fwdReaders, harg, hr, if_true, headHra]
    exact hra
  · simp only [ValidFrom]
    constructor
    · -- the loop itself
      intro a harg hra
      obtain ⟨hamem, haf⟩ := argOf_some harg
      have hf' : f ∈ fs := by rw [← hfs]; exact mem_haloReadFields.mpr ⟨a, hamem, hra, haf⟩
      have hpost := createHex_post cfg k b' f fs pre R hf'
      rw [hc] at hpost
      simp only at hpost
      rcases hpost with h | ⟨rest0, hsub, h⟩
      · exact Or.inl h
      · right
        have hr := hra_reads hra
        have hfw : fwdReaders f (.loop k b' :: rest0) =
            (k, b', a) :: (if a.access.writes then [] else fwdReaders f rest0) := by
          simp [fwdReaders, harg, hr]
        refine ⟨fwdReaders f (.loop k b' :: rest0), by rw [hfw]; simp, ⟨?_, ?_⟩, ?_⟩
        · refine ⟨(k, b', a), _, hfw, hra, ?_⟩
          intro hw
          simp only at hw
          simp [hw]
        · intro x hx
          obtain ⟨hloop, hargx, _⟩ := fwdReaders_mem hx
          refine ⟨?_, hargx⟩
          simp only [List.mem_cons] at hloop
          rcases hloop with heq | hloop
          · injection heq with h1 h2
            rw [h1, h2]
            exact hnew
          · exact hall _ _ (hsub _ hloop)
        · rw [← hexDepth_eq]
          exact suff_of_required cfg H env _ _ h
    · -- the suffix
      cases harg : argOf k f with
      | none =>
        have hnf : ∀ a ∈ k.args, a.field ≠ f := argOf_none harg
        have hf1 : f ∉ hs := by
          intro hf
          have hf' := hsubfs f hf
          rw [← hfs] at hf'
          obtain ⟨a, hamem, _, haf⟩ := mem_haloReadFields.mp hf'
          exact hnf a hamem haf
        have hf2 : f ∉ writtenFields k := by
          intro hf
          obtain ⟨a, hamem, _, haf⟩ := (mem_written f).mp hf
          exact hnf a hamem haf
        have hd := dropOther_trans f (hS1a hf1) (hS2a hf2)
        have h1 := validFrom_dropOther cfg H env cont f hd _ hvR
        refine validFrom_congr cfg H env cont f _ _ _ ?_ h1
        apply rel_loop_nonwriter
        · intro a ha; rw [harg] at ha; cases ha
        · exact rel_hexes_other f hs pre hf1
      | some a =>
        obtain ⟨hamem, haf⟩ := argOf_some harg
        by_cases hw : a.access.writes = true
        · -- the loop writes `f`
          have hf2 : f ∈ writtenFields k := (mem_written f).mpr ⟨a, hamem, hw, haf⟩
          have hRR' : DropOther f R R' := by
            by_cases hf1 : f ∈ hs
            · obtain ⟨R1, h1, h2⟩ := hS1b hf1
              rw [restAfterDrop_eq, harg] at h2
              simp only [hw, if_true] at h2
              exact dropOther_trans f h1 h2
            · exact hS1a hf1
          obtain ⟨X1, hX1, hX2⟩ := hS2b hf2
          have hRX1 := dropOther_trans f hRR' hX1
          have h1 := validFrom_dropOther cfg H env cont f hRX1 _ hvR
          have hwf : b.lvl.wf := hold.1.bound.2.2
          have hlvl : lvlOf H b.lvl ≤ H := (hold.2 a harg).2.2.2
          have hmono := suff_mono cfg H env k b a depth hval hwf hlvl
          rw [hb'] at hmono
          have h2 := validFrom_go_self cfg H env cont f _ _ hmono X1
            (.loop k b :: pre) (.loop k b' :: ((hs.map hexSync).reverse ++ pre))
            (by simp [bwdDep, harg, hw]) (by simp [bwdDep, harg, hw])
            (by simp [bwdWriter, harg, hw]) (by simp [bwdWriter, harg, hw])
            (fun k' b'' h => hall k' b'' (dropOther_sub f hRX1 _ h)) h1
          exact validFrom_dropOther cfg H env cont f hX2 _ h2
        · -- the loop only reads `f`
          have hw' : a.access.writes = false := by simpa using hw
          have hf2 : f ∉ writtenFields k := by
            intro hf
            obtain ⟨a', hamem', hw'', haf'⟩ := (mem_written f).mp hf
            have := argOf_of_mem hamem' hnk
            rw [haf', harg] at this
            cases this
            rw [hw'] at hw''
            cases hw''
          by_cases hf1 : f ∈ hs
          · obtain ⟨R1, h1, h2⟩ := hS1b hf1
            rw [restAfterDrop_eq, harg] at h2
            simp only [hw', Bool.false_eq_true, if_false] at h2
            have ha1 := validFrom_dropOther cfg H env cont f h1 _ hvR
            have ha2 := validFrom_dropNextHex_self cfg H env cont f R1 (.loop k b :: pre)
              (.loop k b' :: ((hs.map hexSync).reverse ++ pre))
              (by simp [bwdDep, harg, hw', bwdDep_hexes_mem f hs pre hf1]) ha1
            exact validFrom_dropOther cfg H env cont f (dropOther_trans f h2 (hS2a hf2)) _ ha2
          · have hd := dropOther_trans f (hS1a hf1) (hS2a hf2)
            have h1 := validFrom_dropOther cfg H env cont f hd _ hvR
            refine validFrom_congr cfg H env cont f _ _ _ ?_ h1
            apply rel_loop_nonwriter
            · intro a' ha'; rw [harg] at ha'; cases ha'; exact hw'
            · exact rel_hexes_other f hs pre hf1

/-- the first reader after an exchange in front of the edited loop is still one PSyclone
considers for an exchange -/
theorem rc_core_head (pre : Sched) (k : Kern) (b : Bound) (depth : Option Nat) (R : Sched)
    (hnew : POK cfg H env cont f k (rcBound b depth))
    (hh : headHra cfg (fwdReaders f (.loop k b :: R))) :
    headHra cfg (fwdReaders f (rcSuffix cfg pre k b depth R)) := by
  unfold rcSuffix
  simp only
  generalize hb' : rcBound b depth = b' at *
  generalize hfs : haloReadFields cfg k b' = fs
  have hfsnd : fs.Nodup := by rw [← hfs]; unfold haloReadFields; exact nodup_eraseDups _
  have hwnd : (writtenFields k).Nodup := nodup_eraseDups _
  obtain ⟨hS1a, _⟩ := createHex_snd cfg f k b' fs pre R hfsnd
  generalize hhs : newHexes cfg k b' fs pre R = hs at *
  generalize hc : createHex cfg k b' fs pre R = c at *
  obtain ⟨pre', R'⟩ := c
  simp only at hS1a ⊢
  obtain ⟨hS2a, _⟩ := removeStale_shape cfg f (.loop k b' :: pre') (writtenFields k) R' hwnd
  rw [fwdReaders_hexes]
  split
  · trivial
  · rename_i hf1
    cases harg : argOf k f with
    | none =>
      have hnf : ∀ a ∈ k.args, a.field ≠ f := argOf_none harg
      have hf2 : f ∉ writtenFields k := by
        intro hf
        obtain ⟨a, hamem, _, haf⟩ := (mem_written f).mp hf
        exact hnf a hamem haf
      have hd := dropOther_trans f (hS1a hf1) (hS2a hf2)
      simp only [fwdReaders, harg] at hh ⊢
      rw [fwdReaders_dropOther f hd]
      exact hh
    | some a =>
      simp only [fwdReaders, harg]
      by_cases hr : a.access.reads = true
      · simp only [hr, if_true, headHra]
        rw [← hb']
        exact hra_rcBound cfg k b a depth hr
      · simp [hr, headHra]

/-- **Redundant computation preserves valid placement** (for field `f`). -/
theorem rcEdit_valid (s s' : Sched) (i : Nat) (depth : Option Nat)
    (hrc : rcEdit cfg s i depth = some s')
    (hall : ∀ k b, Item.loop k b ∈ s → POK cfg H env cont f k b)
    (hnew : ∀ k b R, s.drop i = .loop k b :: R → POK cfg H env cont f k (rcBound b depth))
    (hv : ValidFrom cfg H env cont f [] s) :
    ValidFrom cfg H env cont f [] s' ∧
    (∀ k b, Item.loop k b ∈ s' → POK cfg H env cont f k b) := by
  unfold rcEdit at hrc
  cases hd : s.drop i with
  | nil => rw [hd] at hrc; cases hrc
  | cons x R =>
    rw [hd] at hrc
    cases x with
    | hex kind g => cases hrc
    | loop k b =>
      simp only at hrc
      by_cases hval : rcValid k b depth = true
      · simp only [hval, Bool.not_true, Bool.false_eq_true, if_false] at hrc
        have hs : s = s.take i ++ .loop k b :: R := by rw [← hd]; exact (List.take_append_drop i s).symm
        have hnewk := hnew k b R hd
        have hold : POK cfg H env cont f k b := hall k b (by rw [hs]; simp)
        have hallR : ∀ k' b'', Item.loop k' b'' ∈ R → POK cfg H env cont f k' b'' :=
          fun k' b'' h => hall k' b'' (by rw [hs]; simp [h])
        have hfst := createHex_fst cfg k (rcBound b depth)
          (haloReadFields cfg k (rcBound b depth)) (s.take i).reverse R
        have hs' : s' = s.take i ++ rcSuffix cfg (s.take i).reverse k b depth R := by
          injection hrc with hrc
          rw [← hrc]
          unfold rcSuffix
          simp only
          have : (createHex cfg k (rcBound b depth) (haloReadFields cfg k (rcBound b depth))
              (s.take i).reverse R).1.reverse = s.take i ++
              (newHexes cfg k (rcBound b depth) (haloReadFields cfg k (rcBound b depth))
                (s.take i).reverse R).map hexSync := by
            rw [hfst]; simp
          show (createHex cfg k (rcBound b depth) (haloReadFields cfg k (rcBound b depth))
              (s.take i).reverse R).1.reverse ++ _ = _
          rw [this]
          simp [writtenFields, rcBound]
          exact ⟨rfl, rfl⟩
        constructor
        · rw [hs']
          rw [hs] at hv
          apply validFrom_prefix cfg H env cont f (.loop k b :: R) _ _ (s.take i) [] _ hv
          · exact rc_core_head cfg H env cont f _ k b depth R hnewk
          · intro hv0
            simp only [List.append_nil] at hv0 ⊢
            exact rc_core_valid cfg H env cont f _ k b depth R hval hold hnewk hallR hv0
        · intro k' b'' hmem
          rw [hs'] at hmem
          simp only [List.mem_append] at hmem
          rcases hmem with hmem | hmem
          · exact hall k' b'' (by rw [hs]; simp [hmem])
          · unfold rcSuffix at hmem
            simp only [List.mem_append, List.mem_map, List.mem_cons, hexSync] at hmem
            rcases hmem with ⟨g, _, hg⟩ | hmem | hmem
            · cases hg
            · injection hmem with h1 h2
              rw [h1, h2]
              exact hnewk
            · have hfsnd : (haloReadFields cfg k (rcBound b depth)).Nodup := by
                unfold haloReadFields; exact nodup_eraseDups _
              have hwnd : (writtenFields k).Nodup := nodup_eraseDups _
              -- every loop of the new suffix is a loop of the old one
              have hsub1 : ∀ x ∈ (createHex cfg k (rcBound b depth)
                  (haloReadFields cfg k (rcBound b depth)) (s.take i).reverse R).2, x ∈ R :=
                createHex_snd_sub cfg k (rcBound b depth) _ _ R
              have hsub2 := removeStale_sub cfg (.loop k (rcBound b depth) ::
                (createHex cfg k (rcBound b depth) (haloReadFields cfg k (rcBound b depth))
                  (s.take i).reverse R).1) (writtenFields k) _ _ hmem
              exact hallR k' b'' (hsub1 _ hsub2)
      · simp [hval] at hrc

/-- a valid placement is safe (for field `f`) -/
theorem valid_safe (s : Sched) (init : RState) (hH : 1 ≤ H) (henv : ExtOK env)
    (hall : ∀ k b, Item.loop k b ∈ s → POK cfg H env cont f k b)
    (hv : ValidFrom cfg H env cont f [] s)
    (hwf : wfState cfg cont init = true) (hi : init.inflight = none) :
    SafeF H env cont f (lower cfg s) init :=
  valid_run cfg H env cont f hH henv s [] init hv hall (inv_init cfg H env cont f s init hwf hi)

/-- the initial placement is valid -/
theorem placeExchanges_valid (loops : List (Kern × Bound))
    (hok : ∀ k b, (k, b) ∈ loops → POK cfg H env cont f k b) :
    ValidFrom cfg H env cont f [] (placeExchanges cfg loops) ∧
    (∀ k b, Item.loop k b ∈ placeExchanges cfg loops → POK cfg H env cont f k b) := by
  unfold placeExchanges
  rw [placeFrom_eq]
  simp only [List.reverse_nil, List.nil_append]
  exact ⟨placeTail_valid cfg H env cont f loops [] hok,
    fun k b h => hok k b (placeTail_loops cfg loops [] k b h)⟩

end C22
