import PsyVerif.Lemmas.HaloEdit
/-! # C22 — splitting a synchronous exchange into start/finish does not change the run -/
namespace C22

variable (cfg : Cfg)

/-- two reversed prefixes with the same previous writers -/
def BW (p1 p2 : Sched) : Prop := ∀ h, bwdWriter h p1 = bwdWriter h p2

theorem bw_cons {p1 p2 : Sched} (x : Item) (h : BW p1 p2) : BW (x :: p1) (x :: p2) := by
  intro g
  cases x with
  | hex kind g' => simpa [bwdWriter] using h g
  | loop k b =>
    simp only [bwdWriter]
    rw [h g]

theorem hexRequired_congr {p1 p2 : Sched} (h : BW p1 p2) (g : Nat) (X : Sched) :
    hexRequired cfg g p1 X = hexRequired cfg g p2 X := by
  unfold hexRequired
  rw [h g]

theorem findEnd_congr (g : Nat) : ∀ (X p1 p2 : Sched), BW p1 p2 →
    hexInfo.findEnd cfg g p1 X = hexInfo.findEnd cfg g p2 X
  | [], _, _, _ => rfl
  | .hex kind g' :: r, p1, p2, h => by
    simp only [hexInfo.findEnd]
    split
    · rw [hexRequired_congr cfg h]
    · exact findEnd_congr g r _ _ (bw_cons _ h)
  | .loop k b :: r, p1, p2, h => by
    simp only [hexInfo.findEnd]
    exact findEnd_congr g r _ _ (bw_cons _ h)

theorem hexInfo_congr (kind : HexKind) (g : Nat) {p1 p2 : Sched} (h : BW p1 p2) (X : Sched) :
    hexInfo cfg kind g p1 X = hexInfo cfg kind g p2 X := by
  cases kind with
  | start =>
    simp only [hexInfo]
    exact findEnd_congr cfg g X _ _ (bw_cons _ h)
  | sync => simp only [hexInfo]; rw [hexRequired_congr cfg h]
  | finish => simp only [hexInfo]; rw [hexRequired_congr cfg h]

theorem lowerFrom_congr : ∀ (X p1 p2 : Sched), BW p1 p2 →
    lowerFrom cfg p1 X = lowerFrom cfg p2 X
  | [], _, _, _ => rfl
  | .hex kind g :: r, p1, p2, h => by
    rw [lowerFrom_hex_any, lowerFrom_hex_any, hexInfo_congr cfg kind g h,
      lowerFrom_congr r _ _ (bw_cons _ h)]
  | .loop k b :: r, p1, p2, h => by
    rw [lowerFrom_loop, lowerFrom_loop, lowerFrom_congr r _ _ (bw_cons _ h)]

/-! ## The edited region -/

section
variable (f : Nat) (R : Sched)

/-- after the edit / before the edit -/
def asyncNew : Sched := .hex .start f :: .hex .finish f :: R
def asyncOld : Sched := .hex .sync f :: R

theorem fwdReaders_async (g : Nat) :
    fwdReaders g (asyncNew f R) = fwdReaders g (asyncOld f R) := by
  simp [asyncNew, asyncOld, fwdReaders]

theorem fwdReaders_async_app (g : Nat) (P : Sched) :
    fwdReaders g (P ++ asyncNew f R) = fwdReaders g (P ++ asyncOld f R) := by
  rw [fwdReaders_append, fwdReaders_append, fwdReaders_async]

theorem hexDepth_async_app (g : Nat) (P : Sched) :
    hexDepth g (P ++ asyncNew f R) = hexDepth g (P ++ asyncOld f R) := by
  unfold hexDepth
  rw [fwdReaders_async_app]

theorem hexRequired_async_app (g : Nat) (p P : Sched) :
    hexRequired cfg g p (P ++ asyncNew f R) = hexRequired cfg g p (P ++ asyncOld f R) := by
  unfold hexRequired
  rw [hexDepth_async_app]

theorem bw_async (p : Sched) : BW (.hex .finish f :: .hex .start f :: p) (.hex .sync f :: p) := by
  intro h; simp [bwdWriter]

theorem findEnd_async (g : Nat) (hg : g ≠ f) : ∀ (P p : Sched),
    hexInfo.findEnd cfg g p (P ++ asyncNew f R) = hexInfo.findEnd cfg g p (P ++ asyncOld f R)
  | [], p => by
    have hfg : (f == g) = false := by simpa using fun h => hg h.symm
    simp only [List.nil_append, asyncNew, asyncOld, hexInfo.findEnd, hfg, Bool.false_eq_true,
      if_false]
    exact findEnd_congr cfg g R _ _ (bw_async f p)
  | .hex kind g' :: P, p => by
    simp only [List.cons_append, hexInfo.findEnd]
    split
    · rw [hexDepth_async_app, hexRequired_async_app]
    · exact findEnd_async g hg P _
  | .loop k b :: P, p => by
    simp only [List.cons_append, hexInfo.findEnd]
    exact findEnd_async g hg P _

theorem hexInfo_async (kind : HexKind) (g : Nat) (p P : Sched)
    (h : ¬ (kind = .start ∧ g = f)) :
    hexInfo cfg kind g p (P ++ asyncNew f R) = hexInfo cfg kind g p (P ++ asyncOld f R) := by
  cases kind with
  | start =>
    simp only [hexInfo]
    exact findEnd_async cfg f R g (fun hg => h ⟨rfl, hg⟩) P _
  | sync => simp only [hexInfo]; rw [hexDepth_async_app, hexRequired_async_app]
  | finish => simp only [hexInfo]; rw [hexDepth_async_app, hexRequired_async_app]

/-- the lowered schedules differ exactly by the split exchange -/
theorem lower_async : ∀ (P pre : Sched), (∀ x ∈ P, x ≠ .hex .start f) →
    ∃ (A B : List LItem) (d : List HaloDepth) (c : Bool),
      lowerFrom cfg pre (P ++ asyncNew f R) =
        A ++ .hex .start f d c :: .hex .finish f d c :: B ∧
      lowerFrom cfg pre (P ++ asyncOld f R) = A ++ .hex .sync f d c :: B
  | [], pre, _ => by
    refine ⟨[], lowerFrom cfg (.hex .sync f :: pre) R, hexDepth f R,
      !(hexRequired cfg f pre R).2, ?_, ?_⟩
    · simp only [List.nil_append, asyncNew]
      rw [lowerFrom_hex_any, lowerFrom_hex_any,
        lowerFrom_congr cfg R _ _ (bw_async f pre)]
      have h1 : hexInfo cfg .start f pre (.hex .finish f :: R) =
          (hexDepth f R, !(hexRequired cfg f pre R).2) := by
        simp [hexInfo, hexInfo.findEnd, hexRequired, bwdWriter]
      have h2 : hexInfo cfg .finish f (.hex .start f :: pre) R =
          (hexDepth f R, !(hexRequired cfg f pre R).2) := by
        simp [hexInfo, hexRequired, bwdWriter]
      rw [h1, h2]
    · simp only [List.nil_append, asyncOld]
      rw [lowerFrom_hex]
  | .hex kind g :: P, pre, hP => by
    have hx : ¬ (kind = .start ∧ g = f) := by
      intro ⟨h1, h2⟩
      exact hP (.hex kind g) (by simp) (by rw [h1, h2])
    obtain ⟨A, B, d, c, h1, h2⟩ := lower_async P (.hex kind g :: pre)
      (fun x hx' => hP x (by simp [hx']))
    refine ⟨.hex kind g (hexInfo cfg kind g pre (P ++ asyncOld f R)).1
      (hexInfo cfg kind g pre (P ++ asyncOld f R)).2 :: A, B, d, c, ?_, ?_⟩
    · simp only [List.cons_append]
      rw [lowerFrom_hex_any, hexInfo_async cfg f R kind g pre P hx, h1]
    · simp only [List.cons_append]
      rw [lowerFrom_hex_any, h2]
  | .loop k b :: P, pre, hP => by
    obtain ⟨A, B, d, c, h1, h2⟩ := lower_async P (.loop k b :: pre)
      (fun x hx' => hP x (by simp [hx']))
    refine ⟨(.loop k b :: marks k b) ++ A, B, d, c, ?_, ?_⟩
    · simp only [List.cons_append]
      rw [lowerFrom_loop, h1]
      simp
    · simp only [List.cons_append]
      rw [lowerFrom_loop, h2]
      simp

end

/-! ## The run -/

/-- start immediately followed by finish behaves exactly like the synchronous exchange -/
theorem async_pair_step (H : Nat) (env : Nat → Nat) (cont : Bool) (f' : Nat) (s : RState)
    (f : Nat) (d : List HaloDepth) (c : Bool) :
    (match stepF H env cont f' s (.hex .start f d c) with
      | .ok s1 => stepF H env cont f' s1 (.hex .finish f d c)
      | .error e => .error e) = stepF H env cont f' s (.hex .sync f d c) := by
  obtain ⟨r, act, infl⟩ := s
  by_cases hf : f = f'
  · subst hf
    by_cases hrec : r > act.cd
    · simp [stepF, hrec]
    · cases infl with
      | some x => simp [stepF, hrec]
      | none =>
        by_cases hgo : (!c || decide (r < evalDepths H env d)) = true
        · simp [stepF, hrec, hgo]
        · simp only [Bool.not_eq_true] at hgo
          simp [stepF, hrec, hgo, exchanged]
  · have : (f != f') = true := by simpa using hf
    simp [stepF, this]

theorem asyncEdit_run (H : Nat) (env : Nat → Nat) (cont : Bool) (f' : Nat) (s s' : Sched) (i : Nat)
    (h : asyncEdit s i = some s')
    (hP : ∀ f R, s.drop i = .hex .sync f :: R → ∀ x ∈ s.take i, x ≠ .hex .start f)
    (init : RState) :
    runF H env cont f' (lower cfg s') init = runF H env cont f' (lower cfg s) init := by
  unfold asyncEdit at h
  cases hd : s.drop i with
  | nil => rw [hd] at h; cases h
  | cons x R =>
    rw [hd] at h
    cases x with
    | loop k b => cases h
    | hex kind f =>
      cases kind with
      | start => cases h
      | finish => cases h
      | sync =>
        simp only [Option.some.injEq] at h
        have hs : s = s.take i ++ asyncOld f R := by
          rw [asyncOld, ← hd]; exact (List.take_append_drop i s).symm
        have hs' : s' = s.take i ++ asyncNew f R := by rw [← h]; rfl
        obtain ⟨A, B, d, c, h1, h2⟩ := lower_async cfg f R (s.take i) [] (hP f R hd)
        unfold lower
        rw [hs']
        conv => rhs; rw [hs]
        rw [h1, h2, runF_append, runF_append]
        cases stepsF H env cont f' A init with
        | error e => rfl
        | ok s1 =>
          simp only
          rw [runF_cons, runF_cons]
          have := async_pair_step H env cont f' s1 f d c
          cases hst : stepF H env cont f' s1 (.hex .start f d c) with
          | error e =>
            rw [hst] at this
            simp only at this ⊢
            rw [← this]
          | ok s2 =>
            rw [hst] at this
            simp only at this ⊢
            rw [runF_cons, this]

end C22
