import PsyVerif.Lemmas.ExprIORules
/-! The fuel the driver gives `parse` (`fuelFor ts = 12 * (length ts + 1)`) is always enough:
whenever `P` succeeds with SOME fuel it succeeds with `phi m n`, `n` the number of tokens consumed. -/
namespace C02

/-- fuel sufficient for a call in mode `m` that consumes `n` tokens -/
def phi : Mode → Nat → Nat
  | .expr k, n => 12 * n + (9 - k) + 2
  | .cont _ _, n => 12 * n + 1
  | .args, n => 12 * n + 12
  | .parts, n => 12 * n + 1

/-- the result leaves a suffix no longer than the input and is reached with fuel `phi` -/
def Bnd (m : Mode) (ts : List Tok) (e : Expr) (R : List Tok) : Prop :=
  R.length ≤ ts.length ∧ ∀ g, phi m (ts.length - R.length) ≤ g → P g m ts = some (e, R)

abbrev IHf (f : Nat) : Prop := ∀ m ts e R, P f m ts = some (e, R) → Bnd m ts e R

theorem prefixTok_len {k ts u r0} (h : prefixTok k ts = some (u, r0)) : ts.length = r0.length + 1 := by
  cases ts with
  | nil => simp [prefixTok] at h
  | cons t r =>
    cases t <;> simp [prefixTok] at h
    obtain ⟨_, _, _, h2⟩ := h
    subst h2; simp

theorem stripKw_len (ts : List Tok) : (stripKw ts).length ≤ ts.length := by
  cases ts with
  | nil => simp [stripKw]
  | cons t r => cases t <;> simp [stripKw]

theorem succ_of_phi_le {m n g} (h : phi m n ≤ g) : ∃ g', g = g' + 1 := by
  refine ⟨g - 1, ?_⟩
  cases m <;> simp only [phi] at h <;> omega

theorem bnd_expr_lt {f k ts e R} (IH : IHf f) (hk : ¬ k ≥ 9)
    (h : P (f + 1) (.expr k) ts = some (e, R)) : Bnd (.expr k) ts e R := by
  rw [P_expr, if_neg hk] at h
  cases hp : prefixTok k ts with
  | some v =>
    obtain ⟨u, r0⟩ := v
    simp only [hp] at h
    cases h1 : P f (.expr (k + 1)) r0 with
    | none => simp [h1] at h
    | some v1 =>
      obtain ⟨x, r1⟩ := v1
      simp only [h1] at h
      have b1 := IH _ _ _ _ h1
      have b2 := IH _ _ _ _ h
      have hl := prefixTok_len hp
      simp only [Bnd, phi] at b1 b2 ⊢
      refine ⟨by omega, ?_⟩
      intro g hg
      obtain ⟨g', rfl⟩ : ∃ g', g = g' + 1 := ⟨g - 1, by omega⟩
      rw [P_expr, if_neg hk, hp]
      simp only [b1.2 g' (by omega), b2.2 g' (by omega)]
  | none =>
    simp only [hp] at h
    cases h1 : P f (.expr (k + 1)) ts with
    | none => simp [h1] at h
    | some v1 =>
      obtain ⟨x, r1⟩ := v1
      simp only [h1] at h
      have b1 := IH _ _ _ _ h1
      have b2 := IH _ _ _ _ h
      simp only [Bnd, phi] at b1 b2 ⊢
      refine ⟨by omega, ?_⟩
      intro g hg
      obtain ⟨g', rfl⟩ : ∃ g', g = g' + 1 := ⟨g - 1, by omega⟩
      rw [P_expr, if_neg hk, hp]
      simp only [b1.2 g' (by omega), b2.2 g' (by omega)]

theorem bnd_cont {f k x ts e R} (IH : IHf f)
    (h : P (f + 1) (.cont k x) ts = some (e, R)) : Bnd (.cont k x) ts e R := by
  rw [P_cont] at h
  have stop : ∀ ts', (e, R) = (x, ts') → ts' = ts →
      (∀ g, P (g + 1) (.cont k x) ts = some (x, ts)) → Bnd (.cont k x) ts e R := by
    intro ts' h1 h2 h3
    cases h1; subst h2
    refine ⟨Nat.le_refl _, ?_⟩
    intro g hg
    obtain ⟨g', rfl⟩ := succ_of_phi_le hg
    exact h3 g'
  match ts, h with
  | [], h => exact stop [] (by simpa using h.symm) rfl (fun g => by rw [P_cont])
  | .op o :: r, h =>
    simp only at h
    cases hb : binAt k o with
    | none =>
      simp only [hb] at h
      exact stop _ (by simpa using h.symm) rfl (fun g => by rw [P_cont]; simp [hb])
    | some b =>
      simp only [hb] at h
      cases h1 : P f (.expr (rhsLevel k)) r with
      | none => simp [h1] at h
      | some v1 =>
        obtain ⟨y, r1⟩ := v1
        simp only [h1] at h
        have b1 := IH _ _ _ _ h1
        by_cases hl : loops k = true
        · simp only [hl, if_true] at h
          have b2 := IH _ _ _ _ h
          simp only [Bnd, phi, List.length_cons] at b1 b2 ⊢
          refine ⟨by omega, ?_⟩
          intro g hg
          obtain ⟨g', rfl⟩ : ∃ g', g = g' + 1 := ⟨g - 1, by omega⟩
          rw [P_cont]
          simp only [hb, b1.2 g' (by omega), hl, if_true, b2.2 g' (by omega)]
        · simp only [hl] at h
          simp only [Bool.false_eq_true, if_false, Option.some.injEq, Prod.mk.injEq] at h
          obtain ⟨he, hR⟩ := h
          subst he; subst hR
          simp only [Bnd, phi, List.length_cons] at b1 ⊢
          refine ⟨by omega, ?_⟩
          intro g hg
          obtain ⟨g', rfl⟩ : ∃ g', g = g' + 1 := ⟨g - 1, by omega⟩
          rw [P_cont]
          simp only [hb, b1.2 g' (by omega), hl]
          simp
  | .lp :: _, h | .rp :: _, h | .comma :: _, h | .pct :: _, h | .name _ :: _, h | .fn _ :: _, h
  | .kw _ :: _, h | .lit _ :: _, h =>
    exact stop _ (by simpa using h.symm) rfl (fun g => by rw [P_cont])

theorem bnd_expr_ge {f k ts e R} (IH : IHf f) (hk : k ≥ 9)
    (h : P (f + 1) (.expr k) ts = some (e, R)) : Bnd (.expr k) ts e R := by
  rw [P_expr, if_pos hk] at h
  have k9 : 9 - k = 0 := by omega
  split at h
  · -- literal
    rename_i l r
    cases hl : readLit l with
    | none => simp [hl] at h
    | some x =>
      simp only [hl, Option.map_some, Option.some.injEq, Prod.mk.injEq] at h
      obtain ⟨he, hR⟩ := h
      subst he; subst hR
      simp only [Bnd, phi, List.length_cons]
      refine ⟨by omega, ?_⟩
      intro g hg
      obtain ⟨g', rfl⟩ : ∃ g', g = g' + 1 := ⟨g - 1, by omega⟩
      rw [P_expr, if_pos hk]
      simp [hl]
  · -- ( expr )
    rename_i r
    split at h
    · rename_i e0 r' h1
      simp only [Option.some.injEq, Prod.mk.injEq] at h
      obtain ⟨he, hR⟩ := h
      subst he; subst hR
      have b1 := IH _ _ _ _ h1
      simp only [Bnd, phi, List.length_cons] at b1 ⊢
      refine ⟨by omega, ?_⟩
      intro g hg
      obtain ⟨g', rfl⟩ : ∃ g', g = g' + 1 := ⟨g - 1, by omega⟩
      rw [P_expr, if_pos hk]
      simp only [b1.2 g' (by omega)]
    · simp at h
  · -- fn ( args )
    rename_i n r
    split at h
    · rename_i as r' h1
      simp only [Option.some.injEq, Prod.mk.injEq] at h
      obtain ⟨he, hR⟩ := h
      subst he; subst hR
      have b1 := IH _ _ _ _ h1
      simp only [Bnd, phi, List.length_cons] at b1 ⊢
      refine ⟨by omega, ?_⟩
      intro g hg
      obtain ⟨g', rfl⟩ : ∃ g', g = g' + 1 := ⟨g - 1, by omega⟩
      rw [P_expr, if_pos hk]
      simp only [b1.2 g' (by omega)]
    · simp at h
  · -- designator
    rename_i n r
    have b1 := IH _ _ _ _ h
    simp only [Bnd, phi] at b1 ⊢
    refine ⟨b1.1, ?_⟩
    intro g hg
    obtain ⟨g', rfl⟩ : ∃ g', g = g' + 1 := ⟨g - 1, by omega⟩
    rw [P_expr, if_pos hk]
    exact b1.2 g' (by omega)
  · simp at h

theorem bnd_args {f ts e R} (IH : IHf f)
    (h : P (f + 1) .args ts = some (e, R)) : Bnd .args ts e R := by
  rw [P_args] at h
  have hs := stripKw_len ts
  cases h1 : P f (.expr 0) (stripKw ts) with
  | none => simp [h1] at h
  | some v1 =>
    obtain ⟨x, r1⟩ := v1
    have b1 := IH _ _ _ _ h1
    simp only [h1] at h
    split at h
    · rename_i e0 r2 heq
      cases heq
      cases h2 : P f .args r2 with
      | none => simp [h2] at h
      | some v2 =>
        obtain ⟨rest, r3⟩ := v2
        have b2 := IH _ _ _ _ h2
        simp only [h2, Option.some.injEq, Prod.mk.injEq] at h
        obtain ⟨he, hR⟩ := h
        subst he; subst hR
        simp only [Bnd, phi, List.length_cons] at b1 b2 ⊢
        refine ⟨by omega, ?_⟩
        intro g hg
        obtain ⟨g', rfl⟩ : ∃ g', g = g' + 1 := ⟨g - 1, by omega⟩
        rw [P_args]
        simp only [b1.2 g' (by omega), b2.2 g' (by omega)]
    · rename_i e0 r2 hne heq
      cases heq
      simp only [Option.some.injEq, Prod.mk.injEq] at h
      obtain ⟨he, hR⟩ := h
      subst he; subst hR
      simp only [Bnd, phi] at b1 ⊢
      refine ⟨by omega, ?_⟩
      intro g hg
      obtain ⟨g', rfl⟩ : ∃ g', g = g' + 1 := ⟨g - 1, by omega⟩
      rw [P_args]
      simp only [b1.2 g' (by omega)]
    · simp at h

theorem bnd_parts {f ts e R} (IH : IHf f)
    (h : P (f + 1) .parts ts = some (e, R)) : Bnd .parts ts e R := by
  rw [P_parts] at h
  split at h
  · -- name ( args ) [% parts]
    rename_i n r0
    cases ha : P f .args r0 with
    | none => simp [ha] at h
    | some v =>
      have ba := IH _ _ _ _ ha
      simp only [ha] at h
      split at h
      · rename_i as r1 heq
        cases heq
        cases hp : P f .parts r1 with
        | none => simp [hp] at h
        | some w =>
          obtain ⟨nx, r2⟩ := w
          have bp := IH _ _ _ _ hp
          simp only [hp, Option.some.injEq, Prod.mk.injEq] at h
          obtain ⟨he, hR⟩ := h
          subst he; subst hR
          simp only [Bnd, phi, List.length_cons] at ba bp ⊢
          refine ⟨by omega, ?_⟩
          intro g hg
          obtain ⟨g', rfl⟩ : ∃ g', g = g' + 1 := ⟨g - 1, by omega⟩
          rw [P_parts]
          simp only [ba.2 g' (by omega), bp.2 g' (by omega)]
      · rename_i as r1 hne heq
        cases heq
        simp only [Option.some.injEq, Prod.mk.injEq] at h
        obtain ⟨he, hR⟩ := h
        subst he; subst hR
        simp only [Bnd, phi, List.length_cons] at ba ⊢
        refine ⟨by omega, ?_⟩
        intro g hg
        obtain ⟨g', rfl⟩ : ∃ g', g = g' + 1 := ⟨g - 1, by omega⟩
        rw [P_parts]
        simp only [ba.2 g' (by omega)]
      · simp at h
  · -- name % parts
    rename_i n r0
    cases hp : P f .parts r0 with
    | none => simp [hp] at h
    | some w =>
      obtain ⟨nx, r2⟩ := w
      have bp := IH _ _ _ _ hp
      simp only [hp, Option.some.injEq, Prod.mk.injEq] at h
      obtain ⟨he, hR⟩ := h
      subst he; subst hR
      simp only [Bnd, phi, List.length_cons] at bp ⊢
      refine ⟨by omega, ?_⟩
      intro g hg
      obtain ⟨g', rfl⟩ : ∃ g', g = g' + 1 := ⟨g - 1, by omega⟩
      rw [P_parts]
      simp only [bp.2 g' (by omega)]
  · -- name
    rename_i n r0 hne1 hne2
    simp only [Option.some.injEq, Prod.mk.injEq] at h
    obtain ⟨he, hR⟩ := h
    subst he; subst hR
    simp only [Bnd, phi, List.length_cons]
    refine ⟨by omega, ?_⟩
    intro g hg
    obtain ⟨g', rfl⟩ : ∃ g', g = g' + 1 := ⟨g - 1, by omega⟩
    rw [P_parts]
    split
    · rename_i heq; cases heq; exact (hne1 _ rfl).elim
    · rename_i heq; cases heq; exact (hne2 _ rfl).elim
    · rename_i heq; cases heq; rfl
    · rename_i hne3; exact absurd rfl (hne3 _ _)
  · simp at h

/-- **Fuel bound**: a successful parse is reproduced with fuel `phi m (tokens consumed)`. -/
theorem P_bound : ∀ f m ts e R, P f m ts = some (e, R) → Bnd m ts e R := by
  intro f
  induction f with
  | zero => intro m ts e R h; simp [P_zero] at h
  | succ f ih =>
    intro m ts e R h
    cases m with
    | expr k =>
      by_cases hk : k ≥ 9
      · exact bnd_expr_ge ih hk h
      · exact bnd_expr_lt ih hk h
    | cont k x => exact bnd_cont ih h
    | args => exact bnd_args ih h
    | parts => exact bnd_parts ih h

/-- The driver's `parse` (fuel `12 * (tokens + 1)`) returns whatever `P` returns with any fuel. -/
theorem parse_complete {f ts e} (h : P f (.expr 0) ts = some (e, [])) : parse ts = some e := by
  have b := P_bound f _ ts e [] h
  have : P (fuelFor ts) (.expr 0) ts = some (e, []) := by
    apply b.2
    simp only [phi, fuelFor, List.length_nil]
    omega
  simp [parse, this]

end C02
