import PsyVerif.Lemmas.DeclsWrite
/-! C03, routine scope: `gen_decls` on the canonical (re-read) table reproduces the declarations. -/
namespace Decls

/-- what the text keeps of a symbol: in a module everything, in a routine not the visibility -/
def nvm (m : Bool) : Sym → Sym := normVis m

variable {m : Bool}

theorem nv_cls (s : Sym) : (nvm m s).cls = s.cls := by cases m <;> simp [nvm, normVis]
theorem nv_name (s : Sym) : (nvm m s).name = s.name := by cases m <;> simp [nvm, normVis]
theorem nv_ideps (s : Sym) : (nvm m s).ideps = s.ideps := by cases m <;> simp [nvm, normVis]
theorem nv_idem (s : Sym) : nvm m (nvm m s) = nvm m s := by cases m <;> simp [nvm, normVis]
theorem nvm_true (s : Sym) : nvm true s = s := by simp [nvm, normVis]

theorem ofCls_append (a b : List Sym) (c : Cls) : ofCls (a ++ b) c = ofCls a c ++ ofCls b c := by
  simp [ofCls, List.filter_append]

theorem ofCls_map_nv (l : List Sym) (c : Cls) : ofCls (l.map (nvm m)) c = (ofCls l c).map (nvm m) := by
  simp only [ofCls, List.filter_map]
  have : ((fun s => s.cls == c) ∘ (nvm m)) = (fun s => s.cls == c) := by
    funext s; simp [nv_cls]
  rw [this]

theorem ofCls_nil_of {l : List Sym} {c : Cls} (h : ∀ s ∈ l, s.cls ≠ c) : ofCls l c = [] := by
  apply List.filter_eq_nil_iff.mpr
  intro s hs
  simpa using h s hs

theorem ofCls_self_of {l : List Sym} {c : Cls} (h : ∀ s ∈ l, s.cls = c) : ofCls l c = l := by
  apply List.filter_eq_self.mpr
  intro s hs
  simpa using h s hs

theorem cls_of_mem_ofCls {l : List Sym} {c : Cls} {s : Sym} (h : s ∈ ofCls l c) : s.cls = c := by
  simpa using (List.mem_filter.mp h).2

theorem names_map_nv (l : List Sym) : names (l.map (nvm m)) = names l := by
  simp [names, List.map_map, Function.comp_def, nv_name]

theorem filterMap_findSym_self {l : List Sym} (hnd : (names l).Nodup) :
    (names l).filterMap (findSym l) = l := by
  have key : ∀ (k : List Sym), (∀ s ∈ k, s ∈ l) → (names k).filterMap (findSym l) = k := by
    intro k
    induction k with
    | nil => intro _; rfl
    | cons s r ih =>
      intro h
      simp only [names, List.map_cons]
      rw [List.filterMap_cons_some (findSym_of_mem hnd (h s (by simp)))]
      congr 1
      exact ih (fun t ht => h t (List.mem_cons_of_mem _ ht))
  exact key l (fun _ h => h)

/-- the five segments of the written declarations, class by class -/
structure Segs where
  I : List Sym
  P : List Sym
  A : List Sym
  T : List Sym
  O : List Sym
  hI : ∀ s ∈ I, s.cls = .iface
  hP : ∀ s ∈ P, s.cls = .param
  hA : ∀ s ∈ A, s.cls = .arg
  hT : ∀ s ∈ T, s.cls = .dtype
  hO : ∀ s ∈ O, s.cls = .other

def Segs.all (g : Segs) : List Sym := g.I ++ g.P ++ g.A ++ g.T ++ g.O

theorem Segs.ofCls_iface (g : Segs) : ofCls g.all .iface = g.I := by
  simp only [Segs.all, ofCls_append]
  rw [ofCls_self_of g.hI, ofCls_nil_of (fun s h => by rw [g.hP s h]; decide),
    ofCls_nil_of (fun s h => by rw [g.hA s h]; decide), ofCls_nil_of (fun s h => by rw [g.hT s h]; decide),
    ofCls_nil_of (fun s h => by rw [g.hO s h]; decide)]
  simp

theorem Segs.ofCls_param (g : Segs) : ofCls g.all .param = g.P := by
  simp only [Segs.all, ofCls_append]
  rw [ofCls_self_of g.hP, ofCls_nil_of (fun s h => by rw [g.hI s h]; decide),
    ofCls_nil_of (fun s h => by rw [g.hA s h]; decide), ofCls_nil_of (fun s h => by rw [g.hT s h]; decide),
    ofCls_nil_of (fun s h => by rw [g.hO s h]; decide)]
  simp

theorem Segs.ofCls_arg (g : Segs) : ofCls g.all .arg = g.A := by
  simp only [Segs.all, ofCls_append]
  rw [ofCls_self_of g.hA, ofCls_nil_of (fun s h => by rw [g.hI s h]; decide),
    ofCls_nil_of (fun s h => by rw [g.hP s h]; decide), ofCls_nil_of (fun s h => by rw [g.hT s h]; decide),
    ofCls_nil_of (fun s h => by rw [g.hO s h]; decide)]
  simp

theorem Segs.ofCls_dtype (g : Segs) : ofCls g.all .dtype = g.T := by
  simp only [Segs.all, ofCls_append]
  rw [ofCls_self_of g.hT, ofCls_nil_of (fun s h => by rw [g.hI s h]; decide),
    ofCls_nil_of (fun s h => by rw [g.hP s h]; decide), ofCls_nil_of (fun s h => by rw [g.hA s h]; decide),
    ofCls_nil_of (fun s h => by rw [g.hO s h]; decide)]
  simp

theorem Segs.ofCls_other (g : Segs) : ofCls g.all .other = g.O := by
  simp only [Segs.all, ofCls_append]
  rw [ofCls_self_of g.hO, ofCls_nil_of (fun s h => by rw [g.hI s h]; decide),
    ofCls_nil_of (fun s h => by rw [g.hP s h]; decide), ofCls_nil_of (fun s h => by rw [g.hA s h]; decide),
    ofCls_nil_of (fun s h => by rw [g.hT s h]; decide)]
  simp

theorem Segs.declarable (g : Segs) : ∀ s ∈ g.all, s.cls.declarable = true := by
  intro s hs
  simp only [Segs.all, List.mem_append] at hs
  rcases hs with (((h | h) | h) | h) | h
  · rw [g.hI s h]; rfl
  · rw [g.hP s h]; rfl
  · rw [g.hA s h]; rfl
  · rw [g.hT s h]; rfl
  · rw [g.hO s h]; rfl

/-- the re-read table: `use` symbols `H` (containers / imports), derived types, the other declarations -/
def canonTab (H D : List Sym) : List Sym := H ++ D.filter isDtype ++ D.filter (fun s => !isDtype s)

theorem ofCls_canonTab {H D : List Sym} (hH : ∀ s ∈ H, s.cls.declarable = false) {c : Cls}
    (hc : c.declarable = true) : ofCls (canonTab H D) c = ofCls D c := by
  have h1 : ofCls H c = [] := ofCls_nil_of (fun s hs he => by have := hH s hs; rw [he, hc] at this; cases this)
  simp only [canonTab, ofCls_append, h1, List.nil_append]
  simp only [ofCls, List.filter_filter]
  by_cases hd : c = .dtype
  · subst hd
    have e1 : D.filter (fun s => (s.cls == Cls.dtype && isDtype s)) = D.filter (fun s => s.cls == Cls.dtype) := by
      apply List.filter_congr; intro s _; simp [isDtype]
    have e2 : D.filter (fun s => (s.cls == Cls.dtype && !isDtype s)) = [] := by
      apply List.filter_eq_nil_iff.mpr; intro s _; simp [isDtype]
    rw [e1, e2]; simp
  · have e1 : D.filter (fun s => (s.cls == c && isDtype s)) = [] := by
      apply List.filter_eq_nil_iff.mpr; intro s _
      simp only [isDtype, Bool.and_eq_true, beq_iff_eq, not_and]
      intro h1 h2; exact hd (h1 ▸ h2)
    have e2 : D.filter (fun s => (s.cls == c && !isDtype s)) = D.filter (fun s => s.cls == c) := by
      apply List.filter_congr; intro s _
      simp only [isDtype]
      by_cases h : s.cls = c
      · have : s.cls ≠ .dtype := fun h2 => hd (h ▸ h2)
        simp [h, hd]
      · simp [h]
    rw [e1, e2]; simp

theorem mem_canonTab {H D : List Sym} {s : Sym} (h : s ∈ canonTab H D) : s ∈ H ∨ s ∈ D := by
  simp only [canonTab, List.mem_append, List.mem_filter] at h
  rcases h with (h | h) | h
  · left; exact h
  · right; exact h.1
  · right; exact h.1

/-- **write_canonical_id** for the declarations: `gen_decls` on the re-read table of a routine
reproduces the declarations of the first write, in the same order. -/
theorem genDecls_canonical {u : Unit} (w : Wf u) {ds : List Sym} (hd : genDecls u = .ok ds)
    (u' : Unit) (hm' : u'.isModule = true → ofCls u.syms .arg = []) (H : List Sym)
    (hH : ∀ s ∈ H, s.cls.declarable = false ∧ s.cls ≠ .unresolved ∧ s.cls ≠ .routineBad)
    (hs : u'.syms = canonTab H (ds.map (nvm m))) : genDecls u' = .ok (ds.map (nvm m)) := by
  obtain ⟨order, ho, rfl, _, _, _⟩ := genDecls_ok hd
  obtain ⟨hperm, hPperm, hPnames⟩ := paramSyms_perm w ho
  have hPcls : ∀ s ∈ paramSyms u.syms order, s.cls = .param := fun s hs =>
    cls_of_mem_ofCls (hPperm.subset hs)
  let g : Segs :=
    { I := (ofCls u.syms .iface).map (nvm m), P := (paramSyms u.syms order).map (nvm m), A := (ofCls u.syms .arg).map (nvm m),
      T := (ofCls u.syms .dtype).map (nvm m), O := (ofCls u.syms .other).map (nvm m),
      hI := by intro s hs; obtain ⟨t, ht, rfl⟩ := List.mem_map.mp hs; rw [nv_cls]; exact cls_of_mem_ofCls ht
      hP := by intro s hs; obtain ⟨t, ht, rfl⟩ := List.mem_map.mp hs; rw [nv_cls]; exact hPcls t ht
      hA := by intro s hs; obtain ⟨t, ht, rfl⟩ := List.mem_map.mp hs; rw [nv_cls]; exact cls_of_mem_ofCls ht
      hT := by intro s hs; obtain ⟨t, ht, rfl⟩ := List.mem_map.mp hs; rw [nv_cls]; exact cls_of_mem_ofCls ht
      hO := by intro s hs; obtain ⟨t, ht, rfl⟩ := List.mem_map.mp hs; rw [nv_cls]; exact cls_of_mem_ofCls ht }
  have hD : (ofCls u.syms .iface ++ paramSyms u.syms order ++ ofCls u.syms .arg ++ ofCls u.syms .dtype
      ++ ofCls u.syms .other).map (nvm m) = g.all := by simp [Segs.all, g]
  rw [hD] at hs ⊢
  have hHd : ∀ s ∈ H, s.cls.declarable = false := fun s hs => (hH s hs).1
  have hof : ∀ c, c.declarable = true → ofCls u'.syms c = ofCls g.all c := fun c hc => by
    rw [hs]; exact ofCls_canonTab hHd hc
  have hcls : ∀ s ∈ u'.syms, s.cls ≠ .unresolved ∧ s.cls ≠ .routineBad := by
    intro s hsm
    rw [hs] at hsm
    rcases mem_canonTab hsm with h | h
    · exact (hH s h).2
    · have := g.declarable s h
      constructor <;> (intro hc; rw [hc] at this; cases this)
  have hparams : u'.syms.filter isParam = g.P := by
    have : u'.syms.filter isParam = ofCls u'.syms .param := rfl
    rw [this, hof _ rfl, g.ofCls_param]
  have hPn : names g.P = order := by simp only [g]; rw [names_map_nv, hPnames]
  have hond : order.Nodup := hperm.nodup_iff.mpr (names_filter_nodup w.nodup isParam)
  -- the dependency graph of the re-read table, in the written order
  have hgraph : paramGraph u'.syms = (paramSyms u.syms order).map
      (fun s => (s.name, s.ideps.filter fun d => order.contains d)) := by
    unfold paramGraph
    simp only [hparams, hPn]
    simp only [g, List.map_map]
    apply List.map_congr_left
    intro s _
    simp [nv_name, nv_ideps]
  have hkeys : pkeys (paramGraph u'.syms) = order := by
    rw [hgraph]; simp only [pkeys, List.map_map]
    have : (Prod.fst ∘ fun s : Sym => (s.name, s.ideps.filter fun d => order.contains d)) = (·.name) := rfl
    rw [this]; exact hPnames
  have hresp := orderAux_respects _ _ _ _ (by rw [pkeys_paramGraph]; exact names_filter_nodup w.nodup isParam) ho
  have hord : orderParams (paramGraph u'.syms) = some order := by
    have := orderAux_sorted_id (paramGraph u'.syms).length [] (paramGraph u'.syms)
      (by rw [hkeys]; exact hond) (Nat.le_refl _) (by
        intro pre e post hsplit d hdm
        right
        have hemem : e ∈ paramGraph u'.syms := by rw [hsplit]; simp
        rw [hgraph] at hemem
        obtain ⟨s, hsP, rfl⟩ := List.mem_map.mp hemem
        have hsu : s ∈ u.syms.filter isParam := hPperm.subset hsP
        obtain ⟨hd1, hd2⟩ := List.mem_filter.mp hdm
        have hdo : d ∈ order := by simpa using hd2
        have hmem0 : (s.name, s.ideps.filter fun d => (names (u.syms.filter isParam)).contains d)
            ∈ paramGraph u.syms := List.mem_map.mpr ⟨s, hsu, rfl⟩
        have hin0 : d ∈ s.ideps.filter fun d => (names (u.syms.filter isParam)).contains d :=
          List.mem_filter.mpr ⟨hd1, by simpa using hperm.subset hdo⟩
        rcases hresp _ _ d hmem0 hin0 with h0 | ⟨_, hlt⟩
        · simp at h0
        · have hsk : order = pkeys pre ++ s.name :: pkeys post := by
            rw [← hkeys, hsplit]; simp [pkeys]
          rw [hsk] at hlt hond
          have hnotpre : s.name ∉ pkeys pre := by
            intro hc
            exact (List.nodup_append.mp hond).2.2 s.name hc s.name (by simp) rfl
          by_contra hdp
          rw [List.idxOf_append_of_notMem hdp, List.idxOf_append_of_notMem hnotpre, List.idxOf_cons_self] at hlt
          omega)
    unfold orderParams
    rw [this, hkeys]
  have hpsyms : paramSyms u'.syms order = g.P := by
    unfold paramSyms
    rw [hparams, ← hPn]
    exact filterMap_findSym_self (by rw [hPn]; exact hond)
  unfold genDecls
  have c1 : (u'.syms.any fun s => s.cls == Cls.unresolved) = false := by
    apply List.any_eq_false.mpr; intro s hs; simpa using (hcls s hs).1
  have c2 : (u'.syms.any fun s => s.cls == Cls.routineBad) = false := by
    apply List.any_eq_false.mpr; intro s hs; simpa using (hcls s hs).2
  have c3 : (u'.isModule && !(ofCls u'.syms .arg).isEmpty) = false := by
    cases hmod : u'.isModule with
    | false => rfl
    | true =>
      have : ofCls u'.syms .arg = [] := by
        rw [hof _ rfl, g.ofCls_arg]; simp only [g]; rw [hm' hmod]; rfl
      simp [this]
  simp only [c1, c2, c3, Bool.false_and, Bool.false_eq_true, if_false, hord]
  rw [hof _ rfl, hof _ rfl, hof _ rfl, hof _ rfl, hpsyms, g.ofCls_iface, g.ofCls_arg, g.ofCls_dtype, g.ofCls_other]
  rfl

/-- routine scope -/
abbrev nv : Sym → Sym := nvm false

end Decls
