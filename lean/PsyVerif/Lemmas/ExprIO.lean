import PsyVerif.Model.ExprIO
/-! Lemmas about the parser model `C02.P`: unfolding equations, fuel monotonicity, and the
derived "grammar rules" for `Parses`. -/
namespace C02

theorem P_zero (m ts) : P 0 m ts = none := by simp [P]

theorem P_expr (f k ts) : P (f + 1) (.expr k) ts =
    (if k ≥ 9 then
      match ts with
      | .lit l :: r => (readLit l).map fun x => (.lit x, r)
      | .lp :: r =>
        match P f (.expr 0) r with
        | some (e, .rp :: r') => some (e, r')
        | _ => none
      | .fn n :: .lp :: r =>
        match P f .args r with
        | some (as, .rp :: r') => some (.call n as, r')
        | _ => none
      | .name _ :: _ => P f .parts ts
      | _ => none
    else
      match prefixTok k ts with
      | some (u, r) =>
        match P f (.expr (k + 1)) r with
        | some (x, r') => P f (.cont k (.un u x)) r'
        | none => none
      | none =>
        match P f (.expr (k + 1)) ts with
        | some (x, r') => P f (.cont k x) r'
        | none => none) := by
  rfl

theorem P_cont (f k x ts) : P (f + 1) (.cont k x) ts =
    (match ts with
    | .op o :: r =>
      match binAt k o with
      | some b =>
        match P f (.expr (rhsLevel k)) r with
        | some (y, r') => if loops k then P f (.cont k (.bin b x y)) r' else some (.bin b x y, r')
        | none => none
      | none => some (x, ts)
    | _ => some (x, ts)) := by
  rfl

def stripKw : List Tok → List Tok
  | .kw _ :: r => r
  | ts => ts

def kwOf : List Tok → Option Nat
  | .kw k :: _ => some k
  | _ => none

theorem P_args (f ts) : P (f + 1) .args ts =
    (match P f (.expr 0) (stripKw ts) with
    | some (e, .comma :: r) =>
      match P f .args r with
      | some (rest, r') => some (.cons (kwOf ts) e rest, r')
      | none => none
    | some (e, r) => some (.cons (kwOf ts) e .nil, r)
    | none => none) := by
  cases ts with
  | nil => rfl
  | cons t r => cases t <;> rfl

theorem P_parts (f ts) : P (f + 1) .parts ts =
    (match ts with
    | .name n :: .lp :: r =>
      match P f .args r with
      | some (as, .rp :: .pct :: r') =>
        match P f .parts r' with
        | some (nx, r'') => some (.part n as nx, r'')
        | none => none
      | some (as, .rp :: r') => some (.part n as .nil, r')
      | _ => none
    | .name n :: .pct :: r =>
      match P f .parts r with
      | some (nx, r') => some (.part n .nil nx, r')
      | none => none
    | .name n :: r => some (.part n .nil .nil, r)
    | _ => none) := by
  rfl

/-- More fuel never changes a successful parse. -/
theorem P_mono : ∀ f m ts r, P f m ts = some r → P (f + 1) m ts = some r := by
  intro f
  induction f with
  | zero => intro m ts r h; simp [P_zero] at h
  | succ f ih =>
    intro m ts r h
    cases m with
    | expr k =>
      rw [P_expr] at h ⊢
      grind
    | cont k x =>
      rw [P_cont] at h ⊢
      match ts with
      | [] => simpa using h
      | .op o :: r' =>
        simp only at h ⊢
        cases hb : binAt k o with
        | none => simpa [hb] using h
        | some b =>
          simp only [hb] at h ⊢
          cases hy : P f (.expr (rhsLevel k)) r' with
          | none => simp [hy] at h
          | some v =>
            obtain ⟨y, r2⟩ := v
            simp only [hy] at h
            simp only [ih _ _ _ hy]
            by_cases hl : loops k = true
            · simp only [hl, if_true] at h ⊢
              exact ih _ _ _ h
            · simp only [hl] at h ⊢
              exact h
      | .lp :: _ | .rp :: _ | .comma :: _ | .pct :: _ | .name _ :: _ | .fn _ :: _ | .kw _ :: _
      | .lit _ :: _ => simpa using h
    | args =>
      rw [P_args] at h ⊢
      grind
    | parts =>
      rw [P_parts] at h ⊢
      split at h
      · rename_i n r0
        cases ha : P f .args r0 with
        | none => simp [ha] at h
        | some v =>
          have ha' := ih _ _ _ ha
          simp only [ha] at h
          simp only [ha']
          split at h
          · rename_i as r1 heq
            cases hp : P f .parts r1 with
            | none => simp [hp] at h
            | some w =>
              have hp' := ih _ _ _ hp
              cases heq
              simp only [hp] at h
              simp only [hp']
              exact h
          · rename_i as r1 hne heq
            cases heq
            exact h
          · simp at h
      · rename_i n r0
        cases hp : P f .parts r0 with
        | none => simp [hp] at h
        | some w =>
          have hp' := ih _ _ _ hp
          simp only [hp] at h
          simp only [hp']
          exact h
      · exact h
      · simp at h

end C02
