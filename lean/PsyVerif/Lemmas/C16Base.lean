import PsyVerif.Model.SymTab
import Std.Data.String.ToNat
import Mathlib.Data.List.Perm.Subperm
import Mathlib.Data.List.Nodup
/-! Helper lemmas for C16 (symbol tables): names and `next_available_name`, association lists, the table
invariant `TInv` and its preservation by every primitive and by the loops of `merge`. -/
namespace C16


/-! ## helper lemmas: names -/

theorem lowerC_digit {c : Char} (h : c.isDigit) : lowerC c.toNat = c.toNat := by
  have : 48 ≤ c.toNat ∧ c.toNat ≤ 57 := by
    simp only [Char.isDigit, Bool.and_eq_true, decide_eq_true_eq] at h
    have h1 : '0'.val ≤ c.val := h.1
    have h2 := h.2
    rw [UInt32.le_iff_toNat_le] at h1 h2
    have e1 : '0'.val.toNat = 48 := by decide
    have e2 : '9'.val.toNat = 57 := by decide
    rw [e1] at h1; rw [e2] at h2
    exact ⟨h1, h2⟩
  unfold lowerC; split <;> omega

theorem lower_digits (n : Nat) : lower (digits n) = digits n := by
  unfold lower digits
  rw [List.map_map]
  apply List.map_congr_left
  intro c hc
  exact lowerC_digit (Nat.isDigit_of_mem_toDigits (by omega) (by omega) hc)

theorem digits_inj {m n : Nat} (h : digits m = digits n) : m = n := by
  unfold digits at h
  have h2 : Nat.toDigits 10 m = Nat.toDigits 10 n :=
    List.map_injective_iff.mpr (fun a b hab => Char.toNat_inj.mp hab) h
  apply Nat.repr_injective
  simp [Nat.repr, h2]

theorem lower_cand_succ (root : Name) (i : Nat) :
    lower (cand root (i+1)) = lower root ++ 95 :: digits (i+1) := by
  simp only [cand, lower, List.map_append, List.map_cons]
  congr 1
  · congr 1
    exact lower_digits (i+1)

theorem lower_cand_inj (root : Name) {i j : Nat} (h : lower (cand root i) = lower (cand root j)) : i = j := by
  cases i with
  | zero =>
    cases j with
    | zero => rfl
    | succ j =>
      rw [lower_cand_succ] at h
      have := congrArg List.length h
      simp [cand, lower] at this
  | succ i =>
    cases j with
    | zero =>
      rw [lower_cand_succ] at h
      have := congrArg List.length h
      simp [cand, lower] at this
    | succ j =>
      rw [lower_cand_succ, lower_cand_succ] at h
      have h1 := List.append_cancel_left h
      injection h1 with _ h2
      exact digits_inj h2


/-! ### next_available_name: the loop stops and its result is fresh -/

theorem nextIdx_below (ex : List Name) (root : Name) : ∀ f i j, i ≤ j → j < nextIdx ex root f i →
    lower (cand root j) ∈ ex := by
  intro f; induction f with
  | zero => intro i j h1 h2; simp [nextIdx] at h2; omega
  | succ f ih =>
    intro i j h1 h2
    simp only [nextIdx] at h2
    split at h2
    · rename_i hmem
      by_cases hji : j = i
      · subst hji; exact hmem
      · exact ih (i+1) j (by omega) h2
    · omega

theorem nextIdx_stop (ex : List Name) (root : Name) : ∀ f i,
    lower (cand root (nextIdx ex root f i)) ∉ ex ∨ nextIdx ex root f i = i + f := by
  intro f; induction f with
  | zero => intro i; right; simp [nextIdx]
  | succ f ih =>
    intro i
    simp only [nextIdx]
    split
    · rcases ih (i+1) with h | h
      · left; exact h
      · right; omega
    · left; assumption

theorem pigeon (ex : List Name) (root : Name) (n : Nat)
    (h : ∀ j, j < n → lower (cand root j) ∈ ex) : n ≤ ex.length := by
  have hnd : ((List.range n).map (fun j => lower (cand root j))).Nodup :=
    List.Nodup.map_on (fun a _ b _ hab => lower_cand_inj root hab) List.nodup_range
  have hsub : (List.range n).map (fun j => lower (cand root j)) ⊆ ex := by
    intro x hx
    simp only [List.mem_map, List.mem_range] at hx
    obtain ⟨j, hj, rfl⟩ := hx
    exact h j hj
  have := (List.subperm_of_subset hnd hsub).length_le
  simpa using this

theorem nextIdx_le (ex : List Name) (root : Name) : nextIdx ex root (ex.length + 1) 0 ≤ ex.length :=
  pigeon ex root _ (fun j hj => nextIdx_below ex root _ 0 j (Nat.zero_le _) hj)

theorem nextIdx_fresh (ex : List Name) (root : Name) :
    lower (cand root (nextIdx ex root (ex.length + 1) 0)) ∉ ex := by
  rcases nextIdx_stop ex root (ex.length + 1) 0 with h | h
  · exact h
  · have := nextIdx_le ex root; omega

theorem nextName_fresh (ex : List Name) (root : Name) : lower (nextName ex root) ∉ ex := by
  unfold nextName; exact nextIdx_fresh ex _

/-! ### association lists -/

theorem hasKey_iff {e : Ents} {k : Name} : hasKey e k = true ↔ k ∈ keys e := by
  induction e with
  | nil => simp [hasKey, keys]
  | cons p r ih =>
    obtain ⟨a, s⟩ := p
    simp only [hasKey, keys, List.map_cons, List.mem_cons, Bool.or_eq_true, beq_iff_eq]
    simp only [keys] at ih
    rw [ih]; constructor
    · rintro (h | h); exact Or.inl h.symm; exact Or.inr h
    · rintro (h | h); exact Or.inl h.symm; exact Or.inr h

theorem hasKey_false_iff {e : Ents} {k : Name} : hasKey e k = false ↔ k ∉ keys e := by
  rw [← hasKey_iff]; simp

theorem getKey_some_mem {e : Ents} {k : Name} {s : Sym} (h : getKey e k = some s) : (k, s) ∈ e := by
  induction e with
  | nil => simp [getKey] at h
  | cons p r ih =>
    obtain ⟨a, s'⟩ := p
    simp only [getKey] at h
    split at h
    · rename_i hk; simp at hk; cases h; subst hk; simp
    · exact List.mem_cons_of_mem _ (ih h)

theorem getKey_none_iff {e : Ents} {k : Name} : getKey e k = none ↔ k ∉ keys e := by
  induction e with
  | nil => simp [getKey, keys]
  | cons p r ih =>
    obtain ⟨a, s'⟩ := p
    simp only [getKey, keys, List.map_cons, List.mem_cons, not_or]
    simp only [keys] at ih
    split
    · rename_i hk; simp at hk; simp [hk]
    · rename_i hk; simp at hk; rw [ih]; constructor
      · intro h; exact ⟨fun h' => hk h'.symm, h⟩
      · intro h; exact h.2

theorem getKey_isSome_eq_hasKey (e : Ents) (k : Name) : (getKey e k).isSome = hasKey e k := by
  induction e with
  | nil => simp [getKey, hasKey]
  | cons p r ih =>
    obtain ⟨a, s'⟩ := p
    simp only [getKey, hasKey]
    split
    · rename_i hk; simp [hk]
    · rename_i hk; simp [hk, ih]

theorem unique_of_nodup {e : Ents} (hn : (keys e).Nodup) {k : Name} {a b : Sym}
    (ha : (k, a) ∈ e) (hb : (k, b) ∈ e) : a = b := by
  induction e with
  | nil => simp at ha
  | cons p r ih =>
    simp only [keys, List.map_cons, List.nodup_cons] at hn
    rcases List.mem_cons.mp ha with ha | ha <;> rcases List.mem_cons.mp hb with hb | hb
    · rw [← ha] at hb; injection hb with _ h2; exact h2.symm ▸ rfl
    · exfalso; apply hn.1; rw [← ha]; exact List.mem_map.mpr ⟨_, hb, rfl⟩
    · exfalso; apply hn.1; rw [← hb]; exact List.mem_map.mpr ⟨_, ha, rfl⟩
    · exact ih hn.2 ha hb

theorem mem_delKey {e : Ents} {k : Name} {p : Name × Sym} (h : p ∈ delKey e k) : p ∈ e := by
  induction e with
  | nil => simp [delKey] at h
  | cons q r ih =>
    obtain ⟨a, s⟩ := q
    simp only [delKey] at h
    split at h
    · exact List.mem_cons_of_mem _ h
    · rcases List.mem_cons.mp h with h | h
      · exact h ▸ List.mem_cons_self
      · exact List.mem_cons_of_mem _ (ih h)

theorem mem_delKey_of_ne {e : Ents} {k : Name} {p : Name × Sym} (h : p ∈ e) (hne : p.1 ≠ k) :
    p ∈ delKey e k := by
  induction e with
  | nil => simp at h
  | cons q r ih =>
    obtain ⟨a, s⟩ := q
    simp only [delKey]
    rcases List.mem_cons.mp h with h | h
    · subst h
      split
      · rename_i hk; simp at hk; exact absurd hk hne
      · exact List.mem_cons_self
    · split
      · exact h
      · exact List.mem_cons_of_mem _ (ih h)

theorem keys_delKey_sublist (e : Ents) (k : Name) : (keys (delKey e k)).Sublist (keys e) := by
  induction e with
  | nil => simp [delKey, keys]
  | cons q r ih =>
    obtain ⟨a, s⟩ := q
    simp only [delKey]
    split
    · simp [keys]
    · simp only [keys, List.map_cons]; exact List.Sublist.cons_cons _ ih

theorem not_mem_keys_delKey {e : Ents} (hn : (keys e).Nodup) (k : Name) : k ∉ keys (delKey e k) := by
  induction e with
  | nil => simp [delKey, keys]
  | cons q r ih =>
    obtain ⟨a, s⟩ := q
    simp only [keys, List.map_cons, List.nodup_cons] at hn
    simp only [delKey]
    split
    · rename_i hk; simp at hk; subst hk; exact hn.1
    · rename_i hk; simp at hk
      simp only [keys, List.map_cons, List.mem_cons, not_or]
      exact ⟨fun h => hk h.symm, ih hn.2⟩

theorem getId_some {e : Ents} {i : Nat} {s : Sym} (h : getId e i = some s) :
    s.id = i ∧ ∃ k, (k, s) ∈ e := by
  induction e with
  | nil => simp [getId] at h
  | cons q r ih =>
    obtain ⟨a, s'⟩ := q
    simp only [getId] at h
    split at h
    · rename_i hk; simp at hk; cases h; exact ⟨hk, a, List.mem_cons_self⟩
    · obtain ⟨h1, k, h2⟩ := ih h; exact ⟨h1, k, List.mem_cons_of_mem _ h2⟩

theorem keys_updKey (e : Ents) (k : Name) (f : Sym → Sym) : keys (updKey e k f) = keys e := by
  induction e with
  | nil => simp [updKey, keys]
  | cons q r ih =>
    obtain ⟨a, s⟩ := q
    simp only [updKey]
    split
    · simp [keys]
    · simp only [keys, List.map_cons] at ih ⊢; rw [ih]

theorem mem_updKey {e : Ents} {k : Name} {f : Sym → Sym} {p : Name × Sym} (h : p ∈ updKey e k f) :
    p ∈ e ∨ ∃ s, (p.1, s) ∈ e ∧ p.2 = f s := by
  induction e with
  | nil => simp [updKey] at h
  | cons q r ih =>
    obtain ⟨a, s⟩ := q
    simp only [updKey] at h
    split at h
    · rcases List.mem_cons.mp h with h | h
      · right; exact ⟨s, by rw [h]; exact List.mem_cons_self, by rw [h]⟩
      · left; exact List.mem_cons_of_mem _ h
    · rcases List.mem_cons.mp h with h | h
      · left; rw [h]; exact List.mem_cons_self
      · rcases ih h with h | ⟨s', h1, h2⟩
        · left; exact List.mem_cons_of_mem _ h
        · right; exact ⟨s', List.mem_cons_of_mem _ h1, h2⟩

theorem ids_updKey (e : Ents) (k : Name) (f : Sym → Sym) (hf : ∀ s, (f s).id = s.id) :
    ids (updKey e k f) = ids e := by
  induction e with
  | nil => simp [updKey, ids]
  | cons q r ih =>
    obtain ⟨a, s⟩ := q
    simp only [updKey]
    split
    · simp [ids, hf]
    · simp only [ids, List.map_cons] at ih ⊢; rw [ih]

/-! ### the invariant of one table -/

structure TInv (t : Table) : Prop where
  /-- every key is the lower-cased name of its symbol -/
  keyName : ∀ p ∈ t.ents, p.1 = lower p.2.name
  /-- keys (hence names, case-insensitively) are distinct -/
  nodup : (keys t.ents).Nodup
  /-- tags refer to symbols of this table -/
  tags : ∀ g ∈ t.tags, g.2 ∈ ids t.ents

theorem TInv_empty (n : Option Nat) : TInv { node := n } :=
  ⟨by simp, by simp [keys], by simp⟩

theorem TInv_of_ents_eq {t t' : Table} (h : TInv t) (he : t'.ents = t.ents) (ht : t'.tags = t.tags) : TInv t' :=
  ⟨by rw [he]; exact h.keyName, by rw [he]; exact h.nodup, by rw [he, ht]; exact h.tags⟩

theorem addSym_inv {t t' : Table} {ct : List Name} {s : Sym} {tag : Option Name}
    (h : TInv t) (hr : addSym t ct s tag = .ok t') : TInv t' := by
  unfold addSym at hr
  split at hr
  · cases hr
  · rename_i hk
    have hk' : lower s.name ∉ keys t.ents := by
      apply hasKey_false_iff.mp; simpa using hk
    have hbase : (∀ p ∈ t.ents ++ [(lower s.name, s)], p.1 = lower p.2.name) ∧
        (keys (t.ents ++ [(lower s.name, s)])).Nodup := by
      constructor
      · intro p hp
        rcases List.mem_append.mp hp with hp | hp
        · exact h.keyName p hp
        · simp at hp; subst hp; rfl
      · simp only [keys, List.map_append, List.map_cons, List.map_nil]
        apply List.Nodup.append h.nodup (by simp)
        intro a ha hb; simp at hb; subst hb; exact hk' ha
    have hids : ∀ i ∈ ids t.ents, i ∈ ids (t.ents ++ [(lower s.name, s)]) := by
      intro i hi; simp only [ids, List.map_append, List.mem_append]; exact Or.inl hi
    split at hr
    · split at hr
      · cases hr
      · cases hr
        refine ⟨hbase.1, hbase.2, ?_⟩
        intro g hg
        rcases List.mem_append.mp hg with hg | hg
        · exact hids _ (h.tags g hg)
        · simp at hg; subst hg; simp [ids]
    · cases hr
      exact ⟨hbase.1, hbase.2, fun g hg => hids _ (h.tags g hg)⟩

/-- the entry that `delKey` removes is the entry of the symbol found by identity -/
theorem ids_after_rename {e : Ents} (hk : ∀ p ∈ e, p.1 = lower p.2.name) (hn : (keys e).Nodup)
    {s : Sym} {k : Name} (hs : (k, s) ∈ e) (x : Name × Sym) (hx : x.2.id = s.id) :
    ∀ i ∈ ids e, i ∈ ids (delKey e (lower s.name) ++ [x]) := by
  intro i hi
  simp only [ids, List.mem_map] at hi
  obtain ⟨p, hp, rfl⟩ := hi
  simp only [ids, List.map_append, List.mem_append, List.mem_map]
  by_cases hpk : p.1 = lower s.name
  · right
    have hks : k = lower s.name := hk _ hs
    have : p.2 = s := by
      apply unique_of_nodup hn (k := lower s.name)
      · rw [← hpk]; exact hp
      · rw [← hks]; exact hs
    exact ⟨x, by simp, by rw [this, hx]⟩
  · left; exact ⟨p, mem_delKey_of_ne hp hpk, rfl⟩

theorem renameSym_inv {t t' : Table} {i : Nat} {nn : Name} {dry : Bool}
    (h : TInv t) (hr : renameSym t i nn dry = .ok t') : TInv t' := by
  unfold renameSym at hr
  split at hr
  · cases hr
  · rename_i s hs
    obtain ⟨hid, k, hmem⟩ := getId_some hs
    split at hr
    · cases hr
    · split at hr
      · cases hr
      · rename_i hk
        have hk' : lower nn ∉ keys t.ents := by apply hasKey_false_iff.mp; simpa using hk
        split at hr
        · cases hr; exact h
        · cases hr
          refine ⟨?_, ?_, ?_⟩
          · intro p hp
            rcases List.mem_append.mp hp with hp | hp
            · exact h.keyName p (mem_delKey hp)
            · simp at hp; subst hp; rfl
          · simp only [keys, List.map_append, List.map_cons, List.map_nil]
            apply List.Nodup.append ((keys_delKey_sublist _ _).nodup h.nodup) (by simp)
            intro a ha hb; simp at hb; subst hb
            exact hk' ((keys_delKey_sublist _ _).subset ha)
          · intro g hg
            exact ids_after_rename h.keyName h.nodup hmem _ rfl _ (h.tags g hg)

theorem removeSym_inv {t t' : Table} {s : Sym} (h : TInv t) (hr : removeSym t s = .ok t') : TInv t' := by
  unfold removeSym at hr
  split at hr
  · cases hr
  · split at hr
    · cases hr
    · rename_i s' hs'
      split at hr
      · cases hr
      · rename_i hid
        split at hr
        · cases hr
        · cases hr
          refine ⟨fun p hp => h.keyName p (mem_delKey hp), (keys_delKey_sublist _ _).nodup h.nodup, ?_⟩
          intro g hg
          simp only [List.mem_filter] at hg
          have hgi := h.tags g hg.1
          simp only [ids, List.mem_map] at hgi ⊢
          obtain ⟨p, hp, hpi⟩ := hgi
          refine ⟨p, mem_delKey_of_ne hp ?_, hpi⟩
          intro hpk
          have : p.2 = s' := unique_of_nodup h.nodup (by rw [← hpk]; exact hp) (getKey_some_mem hs')
          have hne : g.2 ≠ s.id := by simpa using hg.2
          have hid' : s'.id = s.id := by simpa using hid
          apply hne; rw [← hpi, this, hid']

theorem swapSym_inv {t t' : Table} {o n : Sym} (h : TInv t) (hr : swapSym t o n = .ok t') : TInv t' := by
  unfold swapSym at hr
  split at hr
  · cases hr
  · split at hr
    · cases hr
    · rename_i t1 h1
      exact addSym_inv (removeSym_inv h h1) hr

theorem updKey_inv {t : Table} {k : Name} {f : Sym → Sym} (h : TInv t)
    (hf : ∀ s, (f s).id = s.id ∧ (f s).name = s.name) : TInv { t with ents := updKey t.ents k f } := by
  refine ⟨?_, ?_, ?_⟩
  · intro p hp
    rcases mem_updKey hp with hp | ⟨s, h1, h2⟩
    · exact h.keyName p hp
    · have := h.keyName _ h1
      simp only at this
      rw [this, h2, (hf s).2]
  · show (keys (updKey t.ents k f)).Nodup
    rw [keys_updKey]; exact h.nodup
  · show ∀ g ∈ t.tags, g.2 ∈ ids (updKey t.ents k f)
    rw [ids_updKey _ _ _ (fun s => (hf s).1)]; exact h.tags

/-! ### merge keeps the invariant of both tables, whatever happens -/

def PInv (r : MR) : Prop := TInv r.self ∧ TInv r.other

theorem setKind_inv {t : Table} (h : TInv t) (k : Name) (kd : Kind) : TInv (setKind t k kd) :=
  updKey_inv h (fun _ => ⟨rfl, rfl⟩)

theorem specAll_inv : ∀ (ks : List Name) {t : Table}, TInv t → TInv (specAll t ks) := by
  intro ks; induction ks with
  | nil => intro t h; exact h
  | cons k r ih => intro t h; exact ih (setKind_inv h k .intrinsic)

theorem renameFresh_inv {cx : MergeCtx} {self other t' : Table} {i : Nat} {root : Name}
    (hs : TInv self) (h : renameFresh cx self other i root = .ok t') : TInv t' :=
  renameSym_inv hs h

theorem importLoop_inv (cx : MergeCtx) (c : Sym) : ∀ (l : List Sym) {self other : Table}, TInv self →
    TInv other → PInv (importLoop cx c l self other) := by
  intro l; induction l with
  | nil => intro s o hs ho; exact ⟨hs, ho⟩
  | cons i r ih =>
    intro s o hs ho
    simp only [importLoop]
    split
    · exact ⟨hs, ho⟩
    · rename_i self' hstep
      have hs' : TInv self' := by
        split at hstep
        · split at hstep
          · exact renameFresh_inv hs hstep
          · cases hstep; exact hs
        · cases hstep; exact hs
      split
      · exact ⟨hs', ho⟩
      · exact ih hs' (updKey_inv ho (fun _ => ⟨rfl, rfl⟩))

theorem containerLoop_inv (cx : MergeCtx) : ∀ (l : List Sym) {self other : Table}, TInv self →
    TInv other → PInv (containerLoop cx l self other) := by
  intro l; induction l with
  | nil => intro s o hs ho; exact ⟨hs, ho⟩
  | cons c r ih =>
    intro s o hs ho
    simp only [containerLoop]
    split
    · exact ⟨hs, ho⟩
    · rename_i self' hstep
      have hs' : TInv self' := by
        split at hstep
        · split at hstep
          · split at hstep
            · cases hstep
            · rename_i s1 h1
              exact addSym_inv (renameFresh_inv hs h1) hstep
          · split at hstep
            · cases hstep; exact updKey_inv hs (fun _ => ⟨rfl, rfl⟩)
            · cases hstep; exact hs
        · exact addSym_inv hs hstep
      have h1 := importLoop_inv cx c (importedFrom o.ents c.id) hs' ho
      generalize hres : importLoop cx c (importedFrom o.ents c.id) self' o = res at h1
      obtain ⟨e, s', o'⟩ := res
      cases e with
      | none => exact ih h1.1 h1.2
      | some e => exact h1

theorem handleClash_inv (cx : MergeCtx) {self other : Table} (hs : TInv self) (ho : TInv other) (o : Sym) :
    PInv (handleClash cx self other o) := by
  unfold handleClash
  split
  · repeat' split
    all_goals exact ⟨hs, ho⟩
  · split
    · exact ⟨hs, ho⟩
    · split
      · exact ⟨hs, ho⟩
      · dsimp only
        split
        · rename_i other' h1
          have ho' := renameSym_inv ho h1
          split
          · rename_i self' h2; exact ⟨addSym_inv hs h2, ho'⟩
          · exact ⟨hs, ho'⟩
        · split
          · exact ⟨hs, ho⟩
          · rename_i self' h2
            have hs' := renameSym_inv hs h2
            split
            · rename_i self'' h3; exact ⟨addSym_inv hs' h3, ho⟩
            · exact ⟨hs', ho⟩
        · exact ⟨hs, ho⟩

theorem symbolLoop_inv (cx : MergeCtx) : ∀ (l : List Sym) {self other : Table}, TInv self →
    TInv other → PInv (symbolLoop cx l self other) := by
  intro l; induction l with
  | nil => intro s o hs ho; exact ⟨hs, ho⟩
  | cons a r ih =>
    intro s o hs ho
    simp only [symbolLoop]
    split
    · exact ih hs ho
    · split
      · rename_i self' h1; exact ih (addSym_inv hs h1) ho
      · have h1 := handleClash_inv cx hs ho a
        generalize hres : handleClash cx s o a = res at h1
        obtain ⟨e, s', o'⟩ := res
        cases e with
        | none => exact ih h1.1 h1.2
        | some e => exact h1

theorem mergeTables_inv (cx : MergeCtx) {self other : Table} (hs : TInv self) (ho : TInv other) :
    PInv (mergeTables cx self other).1 := by
  unfold mergeTables
  split
  · exact ⟨hs, ho⟩
  · rename_i ks hks
    dsimp only
    have h2 := containerLoop_inv cx (containersOf (specAll other ks).ents) (specAll_inv ks hs) (specAll_inv ks ho)
    generalize containerLoop cx (containersOf (specAll other ks).ents) (specAll self ks) (specAll other ks) = r2 at h2
    obtain ⟨e2, s2, o2⟩ := r2
    cases e2 with
    | some e => exact h2
    | none =>
      dsimp only
      have h3 := symbolLoop_inv cx (o2.ents.map Prod.snd) h2.1 h2.2
      generalize symbolLoop cx (o2.ents.map Prod.snd) s2 o2 = r3 at h3
      obtain ⟨e3, s3, o3⟩ := r3
      cases e3 with
      | some e => exact h3
      | none => exact h3

theorem swapProps_inv {t : Table} (h : TInv t) (s1 s2 : Sym) : TInv (swapProps t s1 s2).2 := by
  unfold swapProps
  have h1 : TInv { t with ents := updKey t.ents (lower s1.name) fun s => { s with iface := s2.iface } } :=
    updKey_inv h (fun _ => ⟨rfl, rfl⟩)
  repeat' split
  all_goals first
    | exact h
    | exact h1
    | exact TInv_of_ents_eq (updKey_inv h1 (k := lower s2.name) (f := fun s => { s with iface := s1.iface })
        (fun _ => ⟨rfl, rfl⟩)) rfl rfl

def firstHit : List Ents → Name → Option Sym
  | [], _ => none
  | e :: r, k => match getKey e k with
    | some s => some s
    | none => firstHit r k

theorem getKey_append (a b : Ents) (k : Name) :
    getKey (a ++ b) k = match getKey a k with | some s => some s | none => getKey b k := by
  induction a with
  | nil => simp [getKey]
  | cons p r ih =>
    obtain ⟨x, s⟩ := p
    simp only [List.cons_append, getKey]
    split
    · rfl
    · exact ih

theorem getKey_filter (acc e : Ents) (k : Name) (h : hasKey acc k = false) :
    getKey (e.filter (fun p => !hasKey acc p.1)) k = getKey e k := by
  induction e with
  | nil => simp [getKey]
  | cons p r ih =>
    obtain ⟨x, s⟩ := p
    simp only [List.filter_cons]
    by_cases hx : x = k
    · subst hx; simp [h, getKey]
    · split
      · simp only [getKey]; rw [ih]
      · simp only [getKey]
        have : (x == k) = false := by simpa using hx
        rw [this]; simpa using ih

theorem getKey_mergeDicts (r : List Ents) : ∀ (acc : Ents) (k : Name),
    getKey (mergeDicts acc r) k = match getKey acc k with | some s => some s | none => firstHit r k := by
  induction r with
  | nil => intro acc k; simp only [mergeDicts, firstHit]; cases getKey acc k <;> rfl
  | cons e r ih =>
    intro acc k
    simp only [mergeDicts, firstHit]
    rw [ih, getKey_append]
    cases hacc : getKey acc k with
    | some s => rfl
    | none =>
      have : hasKey acc k = false := by rw [← getKey_isSome_eq_hasKey, hacc]; rfl
      simp only [getKey_filter acc e k this]

/-- **lookup is innermost-first**: `lookup` (which indexes the merged dictionary built by `get_symbols`)
returns the entry of the first table of the scope chain — the table itself, then the tables of the
enclosing scoping nodes from the inside out, not beyond `scope_limit` — that has the normalised name,
and raises `KeyError` iff none of them has it. -/
theorem firstHit_none_iff {l : List Ents} {k : Name} : firstHit l k = none ↔ ∀ e ∈ l, k ∉ keys e := by
  induction l with
  | nil => simp [firstHit]
  | cons e r ih =>
    simp only [firstHit, List.mem_cons, forall_eq_or_imp]
    cases he : getKey e k with
    | some s =>
      simp only [reduceCtorEq, false_iff, not_and]
      intro h; exact absurd (getKey_none_iff.mpr h) (by simp [he])
    | none => simp only [ih]; exact ⟨fun h => ⟨getKey_none_iff.mp he, h⟩, fun h => h.2⟩

/-- what "first table that has the key" means: position `n` in the chain holds the key, no table before it does -/
theorem firstHit_some_spec {l : List Ents} {k : Name} {s : Sym} (h : firstHit l k = some s) :
    ∃ n, n < l.length ∧ getKey (l.getD n []) k = some s ∧ ∀ m, m < n → k ∉ keys (l.getD m []) := by
  induction l with
  | nil => simp [firstHit] at h
  | cons e r ih =>
    simp only [firstHit] at h
    cases he : getKey e k with
    | some s' =>
      rw [he] at h; cases h
      exact ⟨0, by simp, by simpa using he, by intro m hm; omega⟩
    | none =>
      rw [he] at h
      obtain ⟨n, h1, h2, h3⟩ := ih h
      refine ⟨n+1, by simp; omega, by simpa using h2, ?_⟩
      intro m hm
      cases m with
      | zero => simpa using getKey_none_iff.mp he
      | succ m => simpa using h3 m (by omega)

theorem keys_mergeDicts_nil {l : List Ents} {k : Name} (h : k ∉ keys (mergeDicts [] l)) :
    ∀ e ∈ l, k ∉ keys e := by
  have := getKey_none_iff.mpr h
  rw [getKey_mergeDicts] at this
  simp only [getKey] at this
  exact firstHit_none_iff.mp this

/-- **freshness and termination of `next_available_name`**: the returned name clashes (case-insensitively)
neither with this table, nor — unless `shadowing` — with any enclosing scope, nor with `other_table`; and
the search loop stopped by its own test after at most `|existing names|` increments (no fuel exhaustion). -/
theorem addSym_ids {t t' : Table} {ct : List Name} {s : Sym} {tag : Option Name}
    (hr : addSym t ct s tag = .ok t') : ids t'.ents = ids t.ents ++ [s.id] := by
  unfold addSym at hr
  repeat' split at hr
  all_goals first
    | (cases hr; done)
    | (cases hr; simp [ids])

theorem renameSym_ids_mono {t t' : Table} {i : Nat} {nn : Name} {dry : Bool} (h : TInv t)
    (hr : renameSym t i nn dry = .ok t') : ∀ j ∈ ids t.ents, j ∈ ids t'.ents := by
  unfold renameSym at hr
  split at hr
  · cases hr
  · rename_i s hs
    obtain ⟨hid, k, hmem⟩ := getId_some hs
    repeat' split at hr
    all_goals first
      | (cases hr; done)
      | (cases hr; intro j hj; exact hj)
      | (cases hr; exact ids_after_rename h.keyName h.nodup hmem _ rfl)

end C16
