import PsyVerif.Model.Decls
import Mathlib.Data.List.Basic
import Mathlib.Data.List.Nodup
/-! Lemmas about `Decls.mergeScopes` (model of `routine_node`'s merging of inner scopes through
`SymbolTable.merge/_handle_symbol_clash`): names stay distinct, every symbol object keeps its
identity and kind, only `free` symbols are renamed, and new names avoid the host scope. -/
namespace Decls

variable {N : Type} [DecidableEq N]

theorem mnames_renameNm_of_not_mem {old n : N} {l : List (MSym N)} (h : old ∉ mnames l) :
    renameNm old n l = l := by
  induction l with
  | nil => rfl
  | cons s r ih =>
    simp only [mnames, List.map_cons, List.mem_cons, not_or] at h
    simp only [renameNm]
    rw [if_neg (fun hc => h.1 hc.symm)]
    congr 1
    exact ih h.2

theorem renameNm_nodup {old n : N} {l : List (MSym N)} (hnd : (mnames l).Nodup) (hn : n ∉ mnames l) :
    (mnames (renameNm old n l)).Nodup ∧ (∀ m, m ∈ mnames (renameNm old n l) → m = n ∨ (m ∈ mnames l ∧ m ≠ old))
      ∧ (old ∈ mnames l → old ∉ mnames (renameNm old n l) ∨ old = n) := by
  induction l with
  | nil => simp [renameNm, mnames]
  | cons s r ih =>
    simp only [mnames, List.map_cons, List.nodup_cons, List.mem_cons, not_or] at hnd hn
    by_cases hs : s.name = old
    · simp only [renameNm, if_pos hs]
      have hold : old ∉ mnames r := by rw [← hs]; exact hnd.1
      refine ⟨?_, ?_, ?_⟩
      · simp only [mnames, List.map_cons, List.nodup_cons]
        exact ⟨hn.2, hnd.2⟩
      · intro m hm
        simp only [mnames, List.map_cons, List.mem_cons] at hm
        rcases hm with rfl | hm
        · left; rfl
        · right
          refine ⟨by simp only [mnames, List.map_cons, List.mem_cons]; right; exact hm, ?_⟩
          intro hc; subst hc; exact hold hm
      · intro _
        by_cases hon : old = n
        · right; exact hon
        · left
          simp only [mnames, List.map_cons, List.mem_cons, not_or]
          exact ⟨hon, hold⟩
    · simp only [renameNm, if_neg hs]
      obtain ⟨i1, i2, i3⟩ := ih hnd.2 hn.2
      refine ⟨?_, ?_, ?_⟩
      · simp only [mnames, List.map_cons, List.nodup_cons]
        refine ⟨?_, i1⟩
        intro hc
        rcases i2 _ hc with h | h
        · exact hn.1 h.symm
        · exact hnd.1 h.1
      · intro m hm
        simp only [mnames, List.map_cons, List.mem_cons] at hm
        rcases hm with rfl | hm
        · right; exact ⟨by simp [mnames], hs⟩
        · rcases i2 m hm with h | h
          · left; exact h
          · right; exact ⟨by simp only [mnames, List.map_cons, List.mem_cons]; right; exact h.1, h.2⟩
      · intro hin
        simp only [mnames, List.map_cons, List.mem_cons] at hin
        rcases hin with h | h
        · exact absurd h.symm hs
        · rcases i3 h with h' | h'
          · left
            simp only [mnames, List.map_cons, List.mem_cons, not_or]
            exact ⟨fun hc => hs hc.symm, h'⟩
          · right; exact h'

/-- provenance of an entry of the merged table: same object, same kind, same CodeBlock names, and
either the same name or — only for `free` symbols whose name does not occur (case-insensitively) in a
CodeBlock of their own scope — a new name that does not hide a host-scope name -/
def Prov (norm : N → N) (outer : List N) (x s' : MSym N) : Prop :=
  x.id = s'.id ∧ x.kind = s'.kind ∧ x.cb = s'.cb ∧
    (s'.name = x.name ∨ (x.kind = .free ∧ ¬ mentioned norm x.cb x.name ∧ s'.name ∉ outer))

theorem Prov.refl (norm : N → N) (outer : List N) (x : MSym N) : Prov norm outer x x :=
  ⟨rfl, rfl, rfl, Or.inl rfl⟩

theorem Prov.trans {norm : N → N} {outer : List N} {a b c : MSym N} (h1 : Prov norm outer a b)
    (h2 : Prov norm outer b c) : Prov norm outer a c := by
  obtain ⟨i1, k1, c1, n1⟩ := h1
  obtain ⟨i2, k2, c2, n2⟩ := h2
  refine ⟨i1.trans i2, k1.trans k2, c1.trans c2, ?_⟩
  rcases n2 with h | ⟨hk, hm, h⟩
  · rcases n1 with h' | ⟨hk', hm', h'⟩
    · left; rw [h, h']
    · right; exact ⟨hk', hm', by rw [h]; exact h'⟩
  · rcases n1 with h' | ⟨hk', hm', _⟩
    · right; exact ⟨by rw [k1]; exact hk, by rw [c1, ← h']; exact hm, h⟩
    · right; exact ⟨hk', hm', h⟩

theorem renameNm_prov {norm : N → N} {outer : List N} {old n : N} (hn : n ∉ outer) {l : List (MSym N)}
    (hfree : ∀ s ∈ l, s.name = old → s.kind = .free ∧ ¬ mentioned norm s.cb s.name) :
    ∀ s' ∈ renameNm old n l, ∃ x ∈ l, Prov norm outer x s' := by
  induction l with
  | nil => intro s' h; simp [renameNm] at h
  | cons s r ih =>
    intro s' h
    by_cases hs : s.name = old
    · simp only [renameNm, if_pos hs, List.mem_cons] at h
      rcases h with rfl | h
      · exact ⟨s, by simp, rfl, rfl, rfl, Or.inr ⟨(hfree s (by simp) hs).1, (hfree s (by simp) hs).2, hn⟩⟩
      · exact ⟨s', by simp [h], Prov.refl _ _ _⟩
    · simp only [renameNm, if_neg hs, List.mem_cons] at h
      rcases h with rfl | h
      · exact ⟨s', by simp, Prov.refl _ _ _⟩
      · obtain ⟨x, hx, hp⟩ := ih (fun t ht => hfree t (List.mem_cons_of_mem _ ht)) s' h
        exact ⟨x, List.mem_cons_of_mem _ hx, hp⟩

omit [DecidableEq N] in
theorem meq_of_name_eq {l : List (MSym N)} (hnd : (mnames l).Nodup) {a b : MSym N} (ha : a ∈ l) (hb : b ∈ l)
    (h : a.name = b.name) : a = b := by
  induction l with
  | nil => simp at ha
  | cons x r ih =>
    simp only [mnames, List.map_cons, List.nodup_cons] at hnd
    have hx : ∀ y ∈ r, y.name ≠ x.name := fun y hy hc => hnd.1 (List.mem_map.mpr ⟨y, hy, hc⟩)
    rcases List.mem_cons.mp ha with ha | ha <;> rcases List.mem_cons.mp hb with hb | hb
    · rw [ha, hb]
    · have : b.name = x.name := by rw [← ha]; exact h.symm
      exact absurd this (hx b hb)
    · have : a.name = x.name := by rw [← hb]; exact h
      exact absurd this (hx a ha)
    · exact ih hnd.2 ha hb

/-- the CodeBlocks of an inner scope are among the CodeBlocks below the node of the receiving table -/
def CbSub (cbSelf : List N) (l : List (MSym N)) : Prop := ∀ s ∈ l, ∀ c ∈ s.cb, c ∈ cbSelf

theorem not_mentioned_of_sub {norm : N → N} {cbSelf cb : List N} {n : N} (hsub : ∀ c ∈ cb, c ∈ cbSelf)
    (h : ¬ mentioned norm cbSelf n) : ¬ mentioned norm cb n := by
  intro hc
  apply h
  unfold mentioned at hc ⊢
  obtain ⟨c, hcm, hcn⟩ := List.mem_map.mp hc
  exact List.mem_map.mpr ⟨c, hsub c hcm, hcn⟩

variable (fresh : List N → N → N) (hfresh : ∀ ex root, fresh ex root ∉ ex) (norm : N → N)

include hfresh in
theorem mergeOne_nodup {outer cbSelf : List N} {st st' : MState N} {o : MSym N}
    (hnd : (mnames st.self).Nodup) (h : mergeOne fresh norm outer cbSelf st o = some st') :
    (mnames st'.self).Nodup := by
  unfold mergeOne at h
  split at h
  · rename_i hf
    cases h
    have : o.name ∉ mnames st.self := by
      intro hc
      obtain ⟨s, hs, hsn⟩ := List.mem_map.mp hc
      have := List.find?_eq_none.mp hf s hs
      simp [hsn] at this
    simp only [mnames, List.map_append, List.map_cons, List.map_nil]
    exact List.Nodup.append hnd (by simp) (by simpa [mnames] using this)
  · rename_i s hf
    have hsn : s.name = o.name := by simpa using List.find?_some hf
    have hsmem : s ∈ st.self := List.mem_of_find?_eq_some hf
    split at h
    · cases h; exact hnd
    · have hfr := hfresh (mnames st.self ++ outer ++ st.otherNames) o.name
      simp only [List.mem_append, not_or] at hfr
      split at h
      · cases h
        simp only [mnames, List.map_append, List.map_cons, List.map_nil]
        exact List.Nodup.append hnd (by simp) (by simpa [mnames] using hfr.1.1)
      · split at h
        · cases h
          obtain ⟨i1, i2, i3⟩ := renameNm_nodup (old := s.name) hnd hfr.1.1
          simp only [mnames, List.map_append, List.map_cons, List.map_nil]
          refine List.Nodup.append i1 (by simp) ?_
          intro x0 hc hx2
          have hx3 := List.mem_singleton.mp hx2
          subst hx3
          have hsin : s.name ∈ mnames st.self := List.mem_map.mpr ⟨s, hsmem, rfl⟩
          rcases i2 _ hc with h1 | h1
          · apply hfr.1.1
            rw [← h1, ← hsn]; exact hsin
          · exact h1.2 hsn.symm
        · cases h

include hfresh in
theorem mergeOne_prov {outer cbSelf : List N} {st st' : MState N} {o : MSym N}
    (hnd : (mnames st.self).Nodup) (hsub : CbSub cbSelf st.self)
    (h : mergeOne fresh norm outer cbSelf st o = some st') :
    ∀ s' ∈ st'.self, (∃ x ∈ st.self, Prov norm outer x s') ∨ Prov norm outer o s' := by
  unfold mergeOne at h
  split at h
  · cases h
    intro s' hs'
    rcases List.mem_append.mp hs' with h1 | h1
    · left; exact ⟨s', h1, Prov.refl _ _ _⟩
    · right; have h1' := List.mem_singleton.mp h1; subst h1'; exact Prov.refl _ _ _
  · rename_i s hf
    have hsmem : s ∈ st.self := List.mem_of_find?_eq_some hf
    split at h
    · cases h; intro s' hs'; left; exact ⟨s', hs', Prov.refl _ _ _⟩
    · have hfr := hfresh (mnames st.self ++ outer ++ st.otherNames) o.name
      simp only [List.mem_append, not_or] at hfr
      split at h
      · rename_i hk
        cases h
        intro s' hs'
        rcases List.mem_append.mp hs' with h1 | h1
        · left; exact ⟨s', h1, Prov.refl _ _ _⟩
        · right; have h1' := List.mem_singleton.mp h1; subst h1'
          exact ⟨rfl, rfl, rfl, Or.inr ⟨hk.1, hk.2, hfr.1.2⟩⟩
      · split at h
        · rename_i hk
          cases h
          intro s' hs'
          rcases List.mem_append.mp hs' with h1 | h1
          · left
            refine renameNm_prov hfr.1.2 ?_ s' h1
            intro t ht htn
            rw [meq_of_name_eq hnd ht hsmem htn]
            exact ⟨hk.1, not_mentioned_of_sub (hsub s hsmem) hk.2⟩
          · right; have h1' := List.mem_singleton.mp h1; subst h1'; exact Prov.refl _ _ _
        · cases h

omit [DecidableEq N] in
theorem cbSub_of_prov {norm : N → N} {outer cbSelf : List N} {l l' : List (MSym N)} (h : CbSub cbSelf l)
    (hp : ∀ s' ∈ l', ∃ x ∈ l, x.cb = s'.cb) : CbSub cbSelf l' := by
  intro s' hs' c hc
  obtain ⟨x, hx, hxc⟩ := hp s' hs'
  exact h x hx c (by rw [hxc]; exact hc)

include hfresh in
/-- one `merge(other)`: distinct names are kept and every entry has a provenance -/
theorem mergeGo_spec {outer cbSelf : List N} : ∀ (other : List (MSym N)) (st st' : MState N),
    (mnames st.self).Nodup → CbSub cbSelf st.self → CbSub cbSelf other →
    mergeGo fresh norm outer cbSelf other st = some st' →
    (mnames st'.self).Nodup ∧ ∀ s' ∈ st'.self, ∃ x ∈ st.self ++ other, Prov norm outer x s' := by
  intro other
  induction other with
  | nil =>
    intro st st' hnd _ _ h
    simp only [mergeGo] at h; cases h
    exact ⟨hnd, fun s' hs' => ⟨s', by simp [hs'], Prov.refl _ _ _⟩⟩
  | cons o r ih =>
    intro st st' hnd hs1 hs2 h
    simp only [mergeGo] at h
    split at h
    · cases h
    · rename_i st1 h1
      have hnd1 := mergeOne_nodup fresh hfresh norm hnd h1
      have hp1 := mergeOne_prov fresh hfresh norm hnd hs1 h1
      have hsub1 : CbSub cbSelf st1.self := by
        intro s' hs' c hc
        rcases hp1 s' hs' with ⟨x, hx, hq⟩ | hq
        · exact hs1 x hx c (by rw [hq.2.2.1]; exact hc)
        · exact hs2 o (by simp) c (by rw [hq.2.2.1]; exact hc)
      obtain ⟨i1, i2⟩ := ih st1 st' hnd1 hsub1 (fun s hs => hs2 s (List.mem_cons_of_mem _ hs)) h
      refine ⟨i1, ?_⟩
      intro s' hs'
      obtain ⟨x, hx, hp⟩ := i2 s' hs'
      rcases List.mem_append.mp hx with hx | hx
      · rcases hp1 x hx with ⟨y, hy, hq⟩ | hq
        · exact ⟨y, by simp [hy], hq.trans hp⟩
        · exact ⟨o, by simp, hq.trans hp⟩
      · exact ⟨x, by simp [hx], hp⟩

include hfresh in
theorem mergeTable_spec {outer cbSelf : List N} {self other r : List (MSym N)} (hnd : (mnames self).Nodup)
    (hs1 : CbSub cbSelf self) (hs2 : CbSub cbSelf other)
    (h : mergeTable fresh norm outer cbSelf self other = some r) :
    (mnames r).Nodup ∧ ∀ s' ∈ r, ∃ x ∈ self ++ other, Prov norm outer x s' := by
  unfold mergeTable at h
  cases hg : mergeGo fresh norm outer cbSelf other { self := self, otherNames := mnames other } with
  | none => simp [hg] at h
  | some st' =>
    simp [hg] at h; subst h
    exact mergeGo_spec fresh hfresh norm other _ st' hnd hs1 hs2 hg

include hfresh in
theorem mergeScopes_spec {outer cbSelf : List N} : ∀ (inner : List (List (MSym N))) (self r : List (MSym N)),
    (mnames self).Nodup → CbSub cbSelf self → CbSub cbSelf inner.flatten →
    mergeScopes fresh norm outer cbSelf self inner = some r →
    (mnames r).Nodup ∧ ∀ s' ∈ r, ∃ x ∈ self ++ inner.flatten, Prov norm outer x s' := by
  intro inner
  induction inner with
  | nil =>
    intro self r hnd _ _ h
    simp only [mergeScopes] at h; cases h
    exact ⟨hnd, fun s' hs' => ⟨s', by simp [hs'], Prov.refl _ _ _⟩⟩
  | cons t ts ih =>
    intro self r hnd hs1 hs2 h
    simp only [mergeScopes] at h
    split at h
    · cases h
    · rename_i self1 h1
      have hst : CbSub cbSelf t := fun s hs => hs2 s (by simp [hs])
      have hsts : CbSub cbSelf ts.flatten := fun s hs => hs2 s (by simp [hs])
      obtain ⟨j1, j2⟩ := mergeTable_spec fresh hfresh norm hnd hs1 hst h1
      have hsub1 : CbSub cbSelf self1 := by
        intro s' hs' c hc
        obtain ⟨x, hx, hq⟩ := j2 s' hs'
        rcases List.mem_append.mp hx with hx | hx
        · exact hs1 x hx c (by rw [hq.2.2.1]; exact hc)
        · exact hst x hx c (by rw [hq.2.2.1]; exact hc)
      obtain ⟨i1, i2⟩ := ih self1 r j1 hsub1 hsts h
      refine ⟨i1, ?_⟩
      intro s' hs'
      obtain ⟨x, hx, hp⟩ := i2 s' hs'
      rcases List.mem_append.mp hx with hx | hx
      · obtain ⟨y, hy, hq⟩ := j2 x hx
        refine ⟨y, ?_, hq.trans hp⟩
        rcases List.mem_append.mp hy with hy | hy
        · simp [hy]
        · simp only [List.flatten_cons, List.mem_append]; right; left; exact hy
      · refine ⟨x, ?_, hp⟩
        simp only [List.flatten_cons, List.mem_append]; right; right; exact hx

/-! ### completeness: every input symbol survives the merge -/

/-- `x` survives as an entry with a provenance, or it is an imported / unresolved duplicate that was
dropped because an entry of that name denoting the same entity is already in the table -/
def Survives (norm : N → N) (outer : List N) (l : List (MSym N)) (x : MSym N) : Prop :=
  (∃ s' ∈ l, Prov norm outer x s') ∨
    (x.kind = .shared ∧ ∃ s' ∈ l, s'.kind = .shared ∧ s'.name = x.name)

theorem renameNm_complete {norm : N → N} {outer : List N} {old n : N} (hn : n ∉ outer) {l : List (MSym N)}
    (hfree : ∀ s ∈ l, s.name = old → s.kind = .free ∧ ¬ mentioned norm s.cb s.name) :
    ∀ x ∈ l, ∃ s' ∈ renameNm old n l, Prov norm outer x s' := by
  induction l with
  | nil => intro x hx; simp at hx
  | cons s r ih =>
    intro x hx
    by_cases hs : s.name = old
    · simp only [renameNm, if_pos hs]
      rcases List.mem_cons.mp hx with rfl | hx
      · exact ⟨{ x with name := n }, by simp, rfl, rfl, rfl,
          Or.inr ⟨(hfree x (by simp) hs).1, (hfree x (by simp) hs).2, hn⟩⟩
      · exact ⟨x, List.mem_cons_of_mem _ hx, Prov.refl _ _ _⟩
    · simp only [renameNm, if_neg hs]
      rcases List.mem_cons.mp hx with rfl | hx
      · exact ⟨x, by simp, Prov.refl _ _ _⟩
      · obtain ⟨s', hs', hp⟩ := ih (fun t ht => hfree t (List.mem_cons_of_mem _ ht)) x hx
        exact ⟨s', List.mem_cons_of_mem _ hs', hp⟩

theorem Survives.step {norm : N → N} {outer : List N} {l l' : List (MSym N)} {x : MSym N}
    (h : Survives norm outer l x) (hstep : ∀ y ∈ l, ∃ s' ∈ l', Prov norm outer y s') :
    Survives norm outer l' x := by
  rcases h with ⟨s', hs', hp⟩ | ⟨hk, s', hs', hsk, hsn⟩
  · obtain ⟨s'', hs'', hq⟩ := hstep s' hs'
    exact Or.inl ⟨s'', hs'', hp.trans hq⟩
  · obtain ⟨s'', hs'', hq⟩ := hstep s' hs'
    refine Or.inr ⟨hk, s'', hs'', by rw [← hq.2.1]; exact hsk, ?_⟩
    rcases hq.2.2.2 with h1 | ⟨h1, _⟩
    · rw [h1]; exact hsn
    · rw [hsk] at h1; cases h1

include hfresh in
theorem mergeOne_complete {outer cbSelf : List N} {st st' : MState N} {o : MSym N}
    (hnd : (mnames st.self).Nodup) (hsub : CbSub cbSelf st.self)
    (h : mergeOne fresh norm outer cbSelf st o = some st') :
    (∀ x ∈ st.self, ∃ s' ∈ st'.self, Prov norm outer x s') ∧ Survives norm outer st'.self o := by
  unfold mergeOne at h
  split at h
  · cases h
    exact ⟨fun x hx => ⟨x, List.mem_append_left _ hx, Prov.refl _ _ _⟩,
      Or.inl ⟨o, List.mem_append_right _ (List.mem_singleton.mpr rfl), Prov.refl _ _ _⟩⟩
  · rename_i s hf
    have hsmem : s ∈ st.self := List.mem_of_find?_eq_some hf
    have hsn : s.name = o.name := by simpa using List.find?_some hf
    split at h
    · rename_i hk
      cases h
      exact ⟨fun x hx => ⟨x, hx, Prov.refl _ _ _⟩, Or.inr ⟨hk.2, s, hsmem, hk.1, hsn⟩⟩
    · have hfr := hfresh (mnames st.self ++ outer ++ st.otherNames) o.name
      simp only [List.mem_append, not_or] at hfr
      split at h
      · rename_i hk
        cases h
        refine ⟨fun x hx => ⟨x, List.mem_append_left _ hx, Prov.refl _ _ _⟩,
          Or.inl ⟨{ o with name := fresh (mnames st.self ++ outer ++ st.otherNames) o.name },
            List.mem_append_right _ (List.mem_singleton.mpr rfl), ?_⟩⟩
        exact ⟨rfl, rfl, rfl, Or.inr ⟨hk.1, hk.2, hfr.1.2⟩⟩
      · split at h
        · rename_i hk
          cases h
          refine ⟨?_, Or.inl ⟨o, List.mem_append_right _ (List.mem_singleton.mpr rfl), Prov.refl _ _ _⟩⟩
          intro x hx
          obtain ⟨s', hs', hp⟩ := renameNm_complete (norm := norm) (outer := outer) (old := s.name) hfr.1.2 (by
            intro t ht htn
            rw [meq_of_name_eq hnd ht hsmem htn]
            exact ⟨hk.1, not_mentioned_of_sub (hsub s hsmem) hk.2⟩) x hx
          exact ⟨s', List.mem_append_left _ hs', hp⟩
        · cases h

include hfresh in
theorem mergeGo_complete {outer cbSelf : List N} : ∀ (other : List (MSym N)) (st st' : MState N),
    (mnames st.self).Nodup → CbSub cbSelf st.self → CbSub cbSelf other →
    mergeGo fresh norm outer cbSelf other st = some st' →
    (∀ x ∈ st.self, ∃ s' ∈ st'.self, Prov norm outer x s') ∧ ∀ x ∈ other, Survives norm outer st'.self x := by
  intro other
  induction other with
  | nil =>
    intro st st' _ _ _ h
    simp only [mergeGo] at h; cases h
    exact ⟨fun x hx => ⟨x, hx, Prov.refl _ _ _⟩, fun x hx => by simp at hx⟩
  | cons o r ih =>
    intro st st' hnd hs1 hs2 h
    simp only [mergeGo] at h
    split at h
    · cases h
    · rename_i st1 h1
      have hnd1 := mergeOne_nodup fresh hfresh norm hnd h1
      have hp1 := mergeOne_prov fresh hfresh norm hnd hs1 h1
      obtain ⟨c1, c2⟩ := mergeOne_complete fresh hfresh norm hnd hs1 h1
      have hsub1 : CbSub cbSelf st1.self := by
        intro s' hs' c hc
        rcases hp1 s' hs' with ⟨x, hx, hq⟩ | hq
        · exact hs1 x hx c (by rw [hq.2.2.1]; exact hc)
        · exact hs2 o (by simp) c (by rw [hq.2.2.1]; exact hc)
      obtain ⟨i1, i2⟩ := ih st1 st' hnd1 hsub1 (fun s hs => hs2 s (List.mem_cons_of_mem _ hs)) h
      refine ⟨?_, ?_⟩
      · intro x hx
        obtain ⟨s1, hs1m, hq⟩ := c1 x hx
        obtain ⟨s2, hs2m, hq2⟩ := i1 s1 hs1m
        exact ⟨s2, hs2m, hq.trans hq2⟩
      · intro x hx
        rcases List.mem_cons.mp hx with rfl | hx
        · exact c2.step i1
        · exact i2 x hx

include hfresh in
theorem mergeTable_complete {outer cbSelf : List N} {self other r : List (MSym N)} (hnd : (mnames self).Nodup)
    (hs1 : CbSub cbSelf self) (hs2 : CbSub cbSelf other)
    (h : mergeTable fresh norm outer cbSelf self other = some r) :
    ∀ x ∈ self ++ other, Survives norm outer r x := by
  unfold mergeTable at h
  cases hg : mergeGo fresh norm outer cbSelf other { self := self, otherNames := mnames other } with
  | none => simp [hg] at h
  | some st' =>
    simp [hg] at h; subst h
    obtain ⟨c1, c2⟩ := mergeGo_complete fresh hfresh norm other _ st' hnd hs1 hs2 hg
    intro x hx
    rcases List.mem_append.mp hx with hx | hx
    · exact Or.inl (c1 x hx)
    · exact c2 x hx

include hfresh in
theorem mergeScopes_complete {outer cbSelf : List N} : ∀ (inner : List (List (MSym N))) (self r : List (MSym N)),
    (mnames self).Nodup → CbSub cbSelf self → CbSub cbSelf inner.flatten →
    mergeScopes fresh norm outer cbSelf self inner = some r →
    (∀ x ∈ self, ∃ s' ∈ r, Prov norm outer x s') ∧ ∀ x ∈ inner.flatten, Survives norm outer r x := by
  intro inner
  induction inner with
  | nil =>
    intro self r _ _ _ h
    simp only [mergeScopes] at h; cases h
    exact ⟨fun x hx => ⟨x, hx, Prov.refl _ _ _⟩, fun x hx => by simp at hx⟩
  | cons t ts ih =>
    intro self r hnd hs1 hs2 h
    simp only [mergeScopes] at h
    split at h
    · cases h
    · rename_i self1 h1
      have hst : CbSub cbSelf t := fun s hs => hs2 s (by simp [hs])
      have hsts : CbSub cbSelf ts.flatten := fun s hs => hs2 s (by simp [hs])
      obtain ⟨j1, j2⟩ := mergeTable_spec fresh hfresh norm hnd hs1 hst h1
      have k1 := mergeTable_complete fresh hfresh norm hnd hs1 hst h1
      have hsub1 : CbSub cbSelf self1 := by
        intro s' hs' c hc
        obtain ⟨x, hx, hq⟩ := j2 s' hs'
        rcases List.mem_append.mp hx with hx | hx
        · exact hs1 x hx c (by rw [hq.2.2.1]; exact hc)
        · exact hst x hx c (by rw [hq.2.2.1]; exact hc)
      obtain ⟨i1, i2⟩ := ih self1 r j1 hsub1 hsts h
      refine ⟨?_, ?_⟩
      · intro x hx
        -- members of the receiving table are never dropped
        unfold mergeTable at h1
        cases hg : mergeGo fresh norm outer cbSelf t { self := self, otherNames := mnames t } with
        | none => simp [hg] at h1
        | some st' =>
          simp [hg] at h1; subst h1
          obtain ⟨c1, _⟩ := mergeGo_complete fresh hfresh norm t _ st' hnd hs1 hst hg
          obtain ⟨s1, hs1m, hq⟩ := c1 x hx
          obtain ⟨s2, hs2m, hq2⟩ := i1 s1 hs1m
          exact ⟨s2, hs2m, hq.trans hq2⟩
      · intro x hx
        simp only [List.flatten_cons, List.mem_append] at hx
        rcases hx with hx | hx
        · exact (k1 x (by simp [hx])).step i1
        · exact i2 x hx

/-- with distinct names, a written name denotes the symbol object it was written for -/
theorem resolve_of_nodup {l : List (MSym N)} (hnd : (mnames l).Nodup) {s : MSym N} (hs : s ∈ l) :
    resolve l s.name = some s.id := by
  unfold resolve
  cases hf : l.find? (fun x => x.name = s.name) with
  | none =>
    have := List.find?_eq_none.mp hf s hs
    simp at this
  | some t =>
    have ht : t ∈ l := List.mem_of_find?_eq_some hf
    have htn : t.name = s.name := by simpa using List.find?_some hf
    rw [meq_of_name_eq hnd ht hs htn]; rfl

end Decls
