import PsyVerif.Lemmas.AD
/-! # C19: array-section assignments

`sec ev cnt lhs ts` evaluates all right-hand sides first.  Under the acceptance rule `secOK`
(every RHS reference to the LHS array has the LHS subscripts) and conformability `secInj`
(every reference addresses pairwise distinct elements), the array-notation adjoint emitted by
`AssignmentTrans` (`adjSec`) is the transpose.  The proof never permutes statements: the
emitted program is a composition of elementary updates, so its transpose is the reversed
composition; that reversed composition is shown to be the TL statement by computing both
pointwise (`fold_set_pointwise`). -/
namespace C19
open MiniF

variable {S : Finset Loc}

/-- a fold of single-location updates over pairwise distinct locations, each new value depending
only on the old value at its own location and on locations that are never written -/
theorem fold_set_pointwise (L : Int → Loc) (f : Int → Store → Int) :
    ∀ (es : List Int) (a : Store), (es.map L).Nodup →
      (∀ e ∈ es, ∀ acc : Store, (∀ l, (l = L e ∨ ∀ e' ∈ es, l ≠ L e') → acc l = a l) → f e acc = f e a) →
      (∀ e ∈ es, (es.foldl (fun acc e => acc.set (L e) (f e acc)) a) (L e) = f e a) ∧
      (∀ l, (∀ e ∈ es, l ≠ L e) → (es.foldl (fun acc e => acc.set (L e) (f e acc)) a) l = a l) := by
  intro es
  induction es with
  | nil => intro a _ _; exact ⟨by simp, by simp⟩
  | cons e rest ih =>
    intro a hnd hloc
    rw [List.map_cons, List.nodup_cons] at hnd
    obtain ⟨hnot, hnd'⟩ := hnd
    have hne : ∀ e' ∈ rest, L e' ≠ L e := by
      intro e' he' h; exact hnot (h ▸ List.mem_map_of_mem he')
    -- values are insensitive to the first update
    have hstable : ∀ e' ∈ rest, ∀ acc : Store,
        (∀ l, (l = L e' ∨ ∀ e'' ∈ rest, l ≠ L e'') → acc l = (a.set (L e) (f e a)) l) → f e' acc = f e' a := by
      intro e' he' acc hacc
      apply hloc e' (by simp [he'])
      intro l hl
      rcases hl with hl | hl
      · rw [hacc l (Or.inl hl), hl, Store.set_other _ _ (hne e' he')]
      · have h1 : l ≠ L e := hl e (by simp)
        rw [hacc l (Or.inr (fun e'' he'' => hl e'' (by simp [he'']))), Store.set_other _ _ h1]
    have hbase : ∀ e' ∈ rest, f e' (a.set (L e) (f e a)) = f e' a :=
      fun e' he' => hstable e' he' _ (fun _ _ => rfl)
    have ih' := ih (a.set (L e) (f e a)) hnd'
      (fun e' he' acc hacc => by rw [hstable e' he' acc hacc, hbase e' he'])
    simp only [List.foldl_cons]
    refine ⟨?_, ?_⟩
    · intro e' he'
      rcases List.mem_cons.mp he' with h | h
      · subst h
        rw [ih'.2 (L e') (fun e'' he'' => (hne e'' he'').symm), Store.set_same]
      · rw [ih'.1 e' h, hbase e' h]
    · intro l hl
      rw [ih'.2 l (fun e' he' => hl e' (by simp [he'])), Store.set_other _ _ (hl e (by simp))]

/-- two stores that agree on the written locations and elsewhere are equal -/
theorem store_ext_on (L : Int → Loc) (es : List Int) (R1 R2 : Store)
    (h1 : ∀ e ∈ es, R1 (L e) = R2 (L e)) (h2 : ∀ l, (∀ e ∈ es, l ≠ L e) → R1 l = R2 l) : R1 = R2 := by
  apply Store.ext; funext l
  by_cases h : ∃ e ∈ es, l = L e
  · obtain ⟨e, he, rfl⟩ := h; exact h1 e he
  · exact h2 l (fun e he hl => h ⟨e, he, hl⟩)

/-- right-hand sides only look at the locations of their references -/
theorem rhsVal_congr (M : List Term) (ρ b b' : Store)
    (h : ∀ t ∈ M, b (t.ref.loc ρ) = b' (t.ref.loc ρ)) : rhsVal M ρ b = rhsVal M ρ b' := by
  induction M with
  | nil => rfl
  | cons t M ih =>
    simp only [rhsVal, Term.val]
    rw [h t (by simp), ih (fun u hu => h u (by simp [hu]))]

theorem loc_ne_of_arr_ne {r r' : ARef} (h : r.arr ≠ r'.arr) (ρ ρ' : Store) : r.loc ρ ≠ r'.loc ρ' := by
  intro hc; exact h (congrArg Prod.fst hc)

section
variable (ev : Nat) (ρ : Store)

/-- passive store of element `e` -/
abbrev ρe (e : Int) : Store := ρ.set (ev, 0, 0) e

/-- elementary updates over the elements: `y(e) += k(e)·x(e)` -/
theorem fold_addmul_pointwise (y x : ARef) (k : Int → Int) (es : List Int) (a : Store)
    (hy : (es.map fun e => y.loc (ρe ev ρ e)).Nodup) (hxy : x.arr ≠ y.arr) :
    (∀ e ∈ es, (es.foldl (fun acc e => addmul (y.loc (ρe ev ρ e)) (x.loc (ρe ev ρ e)) (k e) acc) a)
        (y.loc (ρe ev ρ e)) = a (y.loc (ρe ev ρ e)) + k e * a (x.loc (ρe ev ρ e))) ∧
    (∀ l, (∀ e ∈ es, l ≠ y.loc (ρe ev ρ e)) →
      (es.foldl (fun acc e => addmul (y.loc (ρe ev ρ e)) (x.loc (ρe ev ρ e)) (k e) acc) a) l = a l) := by
  have := fold_set_pointwise (fun e => y.loc (ρe ev ρ e))
    (fun e acc => acc (y.loc (ρe ev ρ e)) + k e * acc (x.loc (ρe ev ρ e))) es a hy
    (by
      intro e _ acc hacc
      rw [hacc _ (Or.inl rfl), hacc (x.loc (ρe ev ρ e)) (Or.inr (fun e' _ => loc_ne_of_arr_ne hxy _ _))])
  exact this

/-- scalings over the elements: `x(e) := c(e)·x(e)` -/
theorem fold_scale_pointwise (x : ARef) (c : Int → Int) (es : List Int) (a : Store)
    (hx : (es.map fun e => x.loc (ρe ev ρ e)).Nodup) :
    (∀ e ∈ es, (es.foldl (fun acc e => scale (x.loc (ρe ev ρ e)) (c e) acc) a)
        (x.loc (ρe ev ρ e)) = c e * a (x.loc (ρe ev ρ e))) ∧
    (∀ l, (∀ e ∈ es, l ≠ x.loc (ρe ev ρ e)) →
      (es.foldl (fun acc e => scale (x.loc (ρe ev ρ e)) (c e) acc) a) l = a l) := by
  have := fold_set_pointwise (fun e => x.loc (ρe ev ρ e))
    (fun e acc => c e * acc (x.loc (ρe ev ρ e))) es a hx
    (by intro e _ acc hacc; rw [hacc _ (Or.inl rfl)])
  exact this

/-- RHS-first evaluation, pointwise -/
theorem secSem_pointwise (cnt : Expr) (l : ARef) (ts : List Term) (a : Store)
    (hl : (secLocs ev cnt l ρ).Nodup) :
    (∀ e ∈ secIdx (eval cnt ρ), (secSem ev cnt l ts ρ a) (l.loc (ρe ev ρ e)) = rhsVal ts (ρe ev ρ e) a) ∧
    (∀ loc, (∀ e ∈ secIdx (eval cnt ρ), loc ≠ l.loc (ρe ev ρ e)) → (secSem ev cnt l ts ρ a) loc = a loc) := by
  have := fold_set_pointwise (fun e => l.loc (ρe ev ρ e)) (fun e _ => rhsVal ts (ρe ev ρ e) a)
    (secIdx (eval cnt ρ)) a hl (fun _ _ _ _ => rfl)
  exact this

theorem nodup_reverse_map {α β : Type} (f : α → β) (es : List α) (h : (es.map f).Nodup) :
    (es.reverse.map f).Nodup := by
  rw [List.map_reverse]; exact List.nodup_reverse.mpr h

/-- the adjoint statement of one non-increment term is a composition of elementary updates -/
theorem secSem_adjTerm (cnt : Expr) (lhs : ARef) (t : Term) (a : Store)
    (hy : (secLocs ev cnt t.ref ρ).Nodup) (hxy : lhs.arr ≠ t.ref.arr) :
    secSem ev cnt t.ref [⟨false, .lit 1, t.ref⟩, ⟨t.neg, t.coef, lhs⟩] ρ a =
      (secIdx (eval cnt ρ)).foldl
        (fun acc e => addmul (t.ref.loc (ρe ev ρ e)) (lhs.loc (ρe ev ρ e)) (t.k (ρe ev ρ e)) acc) a := by
  have h1 := secSem_pointwise ev ρ cnt t.ref [⟨false, .lit 1, t.ref⟩, ⟨t.neg, t.coef, lhs⟩] a hy
  have h2 := fold_addmul_pointwise ev ρ t.ref lhs (fun e => t.k (ρe ev ρ e)) (secIdx (eval cnt ρ)) a hy hxy
  apply store_ext_on (fun e => t.ref.loc (ρe ev ρ e)) (secIdx (eval cnt ρ))
  · intro e he
    rw [h1.1 e he, h2.1 e he]
    simp [rhsVal, Term.val, Term.k, eval]
  · intro l hl
    rw [h1.2 l hl, h2.2 l hl]

/-- the last emitted statement(s) scale every `x(e)` by the sum of the increment coefficients -/
theorem sem_adjSecTail (cnt : Expr) (lhs : ARef) (incs : List Term) (y : Store)
    (hx : (secLocs ev cnt lhs ρ).Nodup) :
    sem (seqs (adjSecTail ev cnt lhs incs)) ρ y =
      (secIdx (eval cnt ρ)).foldl
        (fun acc e => scale (lhs.loc (ρe ev ρ e)) (ksum incs (ρe ev ρ e)) acc) y := by
  have h2 := fold_scale_pointwise ev ρ lhs (fun e => ksum incs (ρe ev ρ e)) (secIdx (eval cnt ρ)) y hx
  -- a section statement whose right-hand side is `ksum · x(e)`
  have key : ∀ ts : List Term, (∀ e a', rhsVal ts (ρe ev ρ e) a' = ksum incs (ρe ev ρ e) * a' (lhs.loc (ρe ev ρ e))) →
      secSem ev cnt lhs ts ρ y = (secIdx (eval cnt ρ)).foldl
        (fun acc e => scale (lhs.loc (ρe ev ρ e)) (ksum incs (ρe ev ρ e)) acc) y := by
    intro ts hts
    have h1 := secSem_pointwise ev ρ cnt lhs ts y hx
    apply store_ext_on (fun e => lhs.loc (ρe ev ρ e)) (secIdx (eval cnt ρ))
    · intro e he; rw [h1.1 e he, h2.1 e he, hts]
    · intro l hl; rw [h1.2 l hl, h2.2 l hl]
  unfold adjSecTail
  match incs with
  | [] =>
    simp only [seqs, sem]
    exact key [] (fun e a' => by simp [rhsVal, ksum])
  | [t] =>
    by_cases hb : (isBareRef t && !t.neg) = true
    · simp only [hb, if_true, seqs, sem]
      simp only [Bool.and_eq_true, Bool.not_eq_true', isBareRef, beq_iff_eq] at hb
      symm
      apply store_ext_on (fun e => lhs.loc (ρe ev ρ e)) (secIdx (eval cnt ρ))
      · intro e he
        rw [h2.1 e he]
        simp [ksum, Term.k, hb.1, hb.2, eval]
      · intro l hl; rw [h2.2 l hl]
    · simp only [hb, Bool.false_eq_true, if_false, seqs, sem]
      exact key _ (fun e a' => rhsVal_deferred lhs [t] (ρe ev ρ e) a')
  | t :: u :: L =>
    simp only [seqs, sem]
    exact key _ (fun e a' => rhsVal_deferred lhs (t :: u :: L) (ρe ev ρ e) a')

/-- splitting by the array-notation increment test, under the acceptance rule -/
theorem rhsVal_splitS (lhs : ARef) (ts : List Term) (ρ' a : Store) (hok : secOK lhs ts = true) :
    rhsVal ts ρ' a = ksum (ts.filter (isIncS lhs)) ρ' * a (lhs.loc ρ')
      + rhsVal (ts.filter (fun t => !isIncS lhs t)) ρ' a := by
  induction ts with
  | nil => simp [rhsVal, ksum]
  | cons t ts ih =>
    simp only [secOK, List.all_cons, Bool.and_eq_true] at hok
    have ih' := ih (by simpa [secOK] using hok.2)
    by_cases h : isIncS lhs t = true
    · have href : t.ref = lhs := by
        have := hok.1
        simp only [isIncS] at h
        simpa [h] using this
      simp only [List.filter_cons, h, if_true, Bool.not_true, Bool.false_eq_true, if_false, rhsVal, ksum, ih',
        Term.val, href]
      ring
    · have h' : isIncS lhs t = false := by simpa using h
      simp only [List.filter_cons, h', Bool.false_eq_true, if_false, Bool.not_false, if_true, rhsVal, ih']
      ring

/-- pointwise value of the reversed composition of the transposed elementary updates -/
theorem fold_terms_pointwise (lhs : ARef) (es : List Int)
    (hx : (es.map fun e => lhs.loc (ρe ev ρ e)).Nodup) :
    ∀ (M : List Term) (b : Store), (∀ t ∈ M, lhs.arr ≠ t.ref.arr) →
      let R := M.foldl (fun acc t => es.foldl
        (fun acc e => addmul (lhs.loc (ρe ev ρ e)) (t.ref.loc (ρe ev ρ e)) (t.k (ρe ev ρ e)) acc) acc) b
      (∀ e ∈ es, R (lhs.loc (ρe ev ρ e)) = b (lhs.loc (ρe ev ρ e)) + rhsVal M (ρe ev ρ e) b) ∧
      (∀ l, (∀ e ∈ es, l ≠ lhs.loc (ρe ev ρ e)) → R l = b l) := by
  intro M
  induction M with
  | nil => intro b _; simp [rhsVal]
  | cons t M ih =>
    intro b hM
    have ht : lhs.arr ≠ t.ref.arr := hM t (by simp)
    have h1 := fold_addmul_pointwise ev ρ lhs t.ref (fun e => t.k (ρe ev ρ e)) es b hx (Ne.symm ht)
    have ih' := ih (es.foldl
        (fun acc e => addmul (lhs.loc (ρe ev ρ e)) (t.ref.loc (ρe ev ρ e)) (t.k (ρe ev ρ e)) acc) b)
      (fun u hu => hM u (by simp [hu]))
    simp only [List.foldl_cons]
    refine ⟨?_, ?_⟩
    · intro e he
      rw [ih'.1 e he, h1.1 e he]
      have : rhsVal M (ρe ev ρ e) (es.foldl
          (fun acc e => addmul (lhs.loc (ρe ev ρ e)) (t.ref.loc (ρe ev ρ e)) (t.k (ρe ev ρ e)) acc) b)
          = rhsVal M (ρe ev ρ e) b := by
        apply rhsVal_congr
        intro u hu
        exact h1.2 _ (fun e' _ => (loc_ne_of_arr_ne (hM u (by simp [hu])) _ _).symm)
      rw [this]
      simp only [rhsVal, Term.val]
      ring
    · intro l hl
      rw [ih'.2 l hl, h1.2 l hl]

end

/-- **Array-section lemma**: for an accepted (`secOK`), conformable (`secInj`) section assignment the
array-notation adjoint emitted by `AssignmentTrans` is the transpose. -/
theorem isAdj_sec (ev : Nat) (cnt : Expr) (lhs : ARef) (ts : List Term) (ρ : Store)
    (hok : secOK lhs ts = true) (hinj : secInj ev cnt lhs ts ρ = true)
    (hS : ∀ e ∈ secIdx (eval cnt ρ), lhs.loc (ρ.set (ev, 0, 0) e) ∈ S ∧
            ∀ t ∈ ts, t.ref.loc (ρ.set (ev, 0, 0) e) ∈ S) :
    IsAdj S (sem (.sec ev cnt lhs ts) ρ) (sem (seqs (adjSec ev cnt lhs ts)) ρ) := by
  simp only [secInj, Bool.and_eq_true, decide_eq_true_eq, List.all_eq_true] at hinj
  obtain ⟨hx, hys⟩ := hinj
  let es := secIdx (eval cnt ρ)
  let others := ts.filter (fun t => !isIncS lhs t)
  let incs := ts.filter (isIncS lhs)
  have hoth : ∀ t ∈ others, lhs.arr ≠ t.ref.arr ∧ t ∈ ts := by
    intro t ht
    have := List.mem_filter.mp ht
    refine ⟨?_, this.1⟩
    have h2 : isIncS lhs t = false := by simpa using this.2
    simp only [isIncS, beq_eq_false_iff_ne, ne_eq] at h2
    exact fun h => h2 h.symm
  -- the emitted program as a composition of elementary updates
  have eAdj : sem (seqs (adjSec ev cnt lhs ts)) ρ = fun y =>
      es.foldl (fun acc e => scale (lhs.loc (ρe ev ρ e)) (ksum incs (ρe ev ρ e)) acc)
        (others.foldl (fun acc t => es.foldl
          (fun acc e => addmul (t.ref.loc (ρe ev ρ e)) (lhs.loc (ρe ev ρ e)) (t.k (ρe ev ρ e)) acc) acc) y) := by
    funext y
    simp only [adjSec]
    rw [sem_seqs, List.foldl_append, List.foldl_map, ← sem_seqs, sem_adjSecTail ev ρ cnt lhs _ _ hx]
    congr 1
    apply List.foldl_ext
    intro acc t ht
    simp only [adjSecTerm, sem]
    exact secSem_adjTerm ev ρ cnt lhs t acc (hys t (hoth t ht).2) (hoth t ht).1
  -- its transpose by construction: reversed composition of the transposed updates
  have hxrev : (es.reverse.map fun e => lhs.loc (ρe ev ρ e)).Nodup := nodup_reverse_map _ _ hx
  have hT : IsAdj S
      (fun x => others.reverse.foldl (fun acc t => es.reverse.foldl
          (fun acc e => addmul (lhs.loc (ρe ev ρ e)) (t.ref.loc (ρe ev ρ e)) (t.k (ρe ev ρ e)) acc) acc)
        (es.reverse.foldl (fun acc e => scale (lhs.loc (ρe ev ρ e)) (ksum incs (ρe ev ρ e)) acc) x))
      (sem (seqs (adjSec ev cnt lhs ts)) ρ) := by
    rw [eAdj]
    have hD := IsAdj.foldl (S := S)
      (fun (e : Int) => scale (lhs.loc (ρe ev ρ e)) (ksum incs (ρe ev ρ e)))
      (fun (e : Int) => scale (lhs.loc (ρe ev ρ e)) (ksum incs (ρe ev ρ e))) es.reverse
      (fun e he => isAdj_scale (hS e (List.mem_reverse.mp he)).1 _)
    rw [List.reverse_reverse] at hD
    have hG := IsAdj.foldl (S := S)
      (fun (t : Term) (acc : Store) => es.reverse.foldl
        (fun acc e => addmul (lhs.loc (ρe ev ρ e)) (t.ref.loc (ρe ev ρ e)) (t.k (ρe ev ρ e)) acc) acc)
      (fun (t : Term) (acc : Store) => es.foldl
        (fun acc e => addmul (t.ref.loc (ρe ev ρ e)) (lhs.loc (ρe ev ρ e)) (t.k (ρe ev ρ e)) acc) acc)
      others.reverse
      (fun t ht => by
        have htm := (hoth t (List.mem_reverse.mp ht)).2
        have h := IsAdj.foldl (S := S)
          (fun (e : Int) => addmul (lhs.loc (ρe ev ρ e)) (t.ref.loc (ρe ev ρ e)) (t.k (ρe ev ρ e)))
          (fun (e : Int) => addmul (t.ref.loc (ρe ev ρ e)) (lhs.loc (ρe ev ρ e)) (t.k (ρe ev ρ e))) es.reverse
          (fun e he => isAdj_addmul (hS e (List.mem_reverse.mp he)).1
            ((hS e (List.mem_reverse.mp he)).2 t htm) _)
        rw [List.reverse_reverse] at h
        exact h)
    rw [List.reverse_reverse] at hG
    exact IsAdj.comp hD hG
  -- and that reversed composition IS the TL statement (pointwise)
  have eTL : sem (.sec ev cnt lhs ts) ρ = fun x => others.reverse.foldl (fun acc t => es.reverse.foldl
          (fun acc e => addmul (lhs.loc (ρe ev ρ e)) (t.ref.loc (ρe ev ρ e)) (t.k (ρe ev ρ e)) acc) acc)
        (es.reverse.foldl (fun acc e => scale (lhs.loc (ρe ev ρ e)) (ksum incs (ρe ev ρ e)) acc) x) := by
    funext x
    have h1 := secSem_pointwise ev ρ cnt lhs ts x hx
    have hD := fold_scale_pointwise ev ρ lhs (fun e => ksum incs (ρe ev ρ e)) es.reverse x hxrev
    have hF := fold_terms_pointwise ev ρ lhs es.reverse hxrev others.reverse
      (es.reverse.foldl (fun acc e => scale (lhs.loc (ρe ev ρ e)) (ksum incs (ρe ev ρ e)) acc) x)
      (fun t ht => (hoth t (List.mem_reverse.mp ht)).1)
    simp only [sem]
    apply store_ext_on (fun e => lhs.loc (ρe ev ρ e)) es
    · intro e he
      have he' : e ∈ es.reverse := List.mem_reverse.mpr he
      rw [h1.1 e he, hF.1 e he', hD.1 e he', rhsVal_splitS lhs ts _ x hok, rhsVal_reverse]
      congr 1
      apply rhsVal_congr
      intro t ht
      symm
      exact hD.2 _ (fun e' _ => (loc_ne_of_arr_ne (hoth t ht).1 _ _).symm)
    · intro l hl
      have hl' : ∀ e ∈ es.reverse, l ≠ lhs.loc (ρe ev ρ e) := fun e he => hl e (List.mem_reverse.mp he)
      rw [h1.2 l hl, hF.2 l hl', hD.2 l hl']
  rw [eTL]
  exact hT

end C19
