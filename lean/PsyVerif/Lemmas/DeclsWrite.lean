import PsyVerif.Lemmas.DeclsRead
/-! Writer side of C03 (routine scope): the canonical table of a written text is written as that
text again (`write_canonical_id`). -/
namespace Decls

/-! ### projections of a text that contains only `use`, declarations and statements -/

def plainItem : Item → Bool
  | .use .. => true | .decl _ => true | .stmt _ => true | _ => false

theorem explicitOf_plain (p : Bool) {l : List Item} (h : ∀ x ∈ l, plainItem x = true) : explicitOf p l = [] := by
  induction l with
  | nil => rfl
  | cons x r ih =>
    have hx := h x (by simp)
    have hr := ih (fun y hy => h y (List.mem_cons_of_mem _ hy))
    cases x <;> simp_all [explicitOf, plainItem]

theorem defPrivateOf_plain {l : List Item} (h : ∀ x ∈ l, plainItem x = true) : defPrivateOf l = false := by
  induction l with
  | nil => rfl
  | cons x r ih =>
    have hx := h x (by simp)
    have hr := ih (fun y hy => h y (List.mem_cons_of_mem _ hy))
    cases x <;> simp_all [defPrivateOf, plainItem]

theorem routinesOf_plain {l : List Item} (h : ∀ x ∈ l, plainItem x = true) : routinesOf l = [] := by
  induction l with
  | nil => rfl
  | cons x r ih =>
    have hx := h x (by simp)
    have hr := ih (fun y hy => h y (List.mem_cons_of_mem _ hy))
    cases x <;> simp_all [routinesOf, plainItem]

theorem declsOf_append (a b : List Item) : declsOf (a ++ b) = declsOf a ++ declsOf b := by
  induction a with
  | nil => rfl
  | cons x r ih => cases x <;> simp [declsOf, ih]

theorem stmtsOf_append' (a b : List Item) : stmtsOf (a ++ b) = stmtsOf a ++ stmtsOf b := by
  induction a with
  | nil => rfl
  | cons x r ih => cases x <;> simp [stmtsOf, ih]

theorem useSyms_append (it a b : List Item) : useSyms it (a ++ b) = useSyms it a ++ useSyms it b := by
  induction a with
  | nil => rfl
  | cons x r ih => cases x <;> simp [useSyms, ih]

theorem declsOf_decls (l : List Sym) : declsOf (l.map .decl) = l := by
  induction l with
  | nil => rfl
  | cons x r ih => simp [declsOf, ih]

theorem stmtsOf_stmts' (l : List Nat) : stmtsOf (l.map .stmt) = l := by
  induction l with
  | nil => rfl
  | cons x r ih => simp [stmtsOf, ih]

theorem declsOf_stmts (l : List Nat) : declsOf (l.map .stmt) = [] := by
  induction l with
  | nil => rfl
  | cons x r ih => simp [declsOf, ih]

theorem stmtsOf_decls (l : List Sym) : stmtsOf (l.map .decl) = [] := by
  induction l with
  | nil => rfl
  | cons x r ih => simp [stmtsOf, ih]

theorem useSyms_decls (it : List Item) (l : List Sym) : useSyms it (l.map .decl) = [] := by
  induction l with
  | nil => rfl
  | cons x r ih => simp [useSyms, ih]

theorem useSyms_stmts (it : List Item) (l : List Nat) : useSyms it (l.map .stmt) = [] := by
  induction l with
  | nil => rfl
  | cons x r ih => simp [useSyms, ih]

/-! ### the `use` block of one container -/

def headSym (c : Sym) : Sym := { name := c.name, cls := .container (containerWild c) }

def impSyms (v : Name → Bool) (c : Name) (only : List Name) : List Sym :=
  only.map fun n => { name := n, cls := .imported c, pub := v n }

/-- symbols created by the reader for `use c, only: I c` -/
def blk (v : Name → Bool) (I : Sym → List Name) (c : Sym) : List Sym := headSym c :: impSyms v c.name (I c)

def mkUse (I : Sym → List Name) (c : Sym) : Item := .use c.name (containerWild c) (I c)

theorem useSyms_uses (it : List Item) (I : Sym → List Name) (cs : List Sym) :
    useSyms it (cs.map (mkUse I)) = cs.flatMap (blk (visOf it) I) := by
  induction cs with
  | nil => rfl
  | cons c r ih => simp [useSyms, mkUse, blk, headSym, impSyms, ih]

theorem declsOf_uses (I : Sym → List Name) (cs : List Sym) : declsOf (cs.map (mkUse I)) = [] := by
  induction cs with
  | nil => rfl
  | cons c r ih => simp [declsOf, mkUse, ih]

theorem stmtsOf_uses (I : Sym → List Name) (cs : List Sym) : stmtsOf (cs.map (mkUse I)) = [] := by
  induction cs with
  | nil => rfl
  | cons c r ih => simp [stmtsOf, mkUse, ih]

def isImp (c : Name) (s : Sym) : Bool := s.cls == .imported c

theorem filter_imp_impSyms_same (v : Name → Bool) (c : Name) (only : List Name) :
    (impSyms v c only).filter (isImp c) = impSyms v c only := by
  apply List.filter_eq_self.mpr
  intro s hs
  obtain ⟨n, _, rfl⟩ := List.mem_map.mp hs
  simp [isImp]

theorem filter_imp_impSyms_ne (v : Name → Bool) {c c' : Name} (h : c' ≠ c) (only : List Name) :
    (impSyms v c' only).filter (isImp c) = [] := by
  apply List.filter_eq_nil_iff.mpr
  intro s hs
  obtain ⟨n, _, rfl⟩ := List.mem_map.mp hs
  simp [isImp, h]

theorem names_impSyms (v : Name → Bool) (c : Name) (only : List Name) : names (impSyms v c only) = only := by
  simp [names, impSyms, List.map_map, Function.comp_def]

theorem filter_imp_blocks_notin (v : Name → Bool) (I : Sym → List Name) (c : Name) :
    ∀ cs : List Sym, c ∉ names cs → (cs.flatMap (blk v I)).filter (isImp c) = [] := by
  intro cs
  induction cs with
  | nil => intro _; rfl
  | cons c2 r ih =>
    intro h
    simp only [names, List.map_cons, List.mem_cons, not_or] at h
    simp only [List.flatMap_cons, List.filter_append, blk]
    rw [List.filter_cons_of_neg (by simp [isImp, headSym])]
    rw [filter_imp_impSyms_ne v (fun hc => h.1 hc.symm), ih h.2]; rfl

theorem filter_imp_blocks (v : Name → Bool) (I : Sym → List Name) :
    ∀ cs : List Sym, (names cs).Nodup → ∀ c ∈ cs,
      names ((cs.flatMap (blk v I)).filter (isImp c.name)) = I c := by
  intro cs
  induction cs with
  | nil => intro _ c hc; simp at hc
  | cons c2 r ih =>
    intro hnd c hc
    simp only [names, List.map_cons, List.nodup_cons] at hnd
    simp only [List.flatMap_cons, List.filter_append, blk]
    rw [List.filter_cons_of_neg (by simp [isImp, headSym])]
    rcases List.mem_cons.mp hc with rfl | hc
    · rw [filter_imp_impSyms_same, filter_imp_blocks_notin v I c.name r hnd.1]
      simp [names_impSyms]
    · have hne : c2.name ≠ c.name := fun h => hnd.1 (h ▸ List.mem_map.mpr ⟨c, hc, rfl⟩)
      rw [filter_imp_impSyms_ne v hne]
      simpa using ih hnd.2 c hc

theorem filter_container_blocks (v : Name → Bool) (I : Sym → List Name) (cs : List Sym) :
    (cs.flatMap (blk v I)).filter isContainer = cs.map headSym := by
  induction cs with
  | nil => rfl
  | cons c r ih =>
    simp only [List.flatMap_cons, List.filter_append, blk, List.map_cons]
    rw [List.filter_cons_of_pos (by simp [isContainer, headSym])]
    have : (impSyms v c.name (I c)).filter isContainer = [] := by
      apply List.filter_eq_nil_iff.mpr
      intro s hs
      obtain ⟨n, _, rfl⟩ := List.mem_map.mp hs
      simp [isContainer]
    rw [this, ih]; rfl

/-- `gen_use` on the re-read table reproduces the `use` statements -/
theorem genUses_canonical (v : Name → Bool) (I : Sym → List Name) (cs E : List Sym) (hnd : (names cs).Nodup)
    (hE : ∀ s ∈ E, s.cls.declarable = true) :
    genUses (cs.flatMap (blk v I) ++ E) = cs.map (mkUse (fun c => isort (I c))) := by
  have hEc : E.filter isContainer = [] := by
    apply List.filter_eq_nil_iff.mpr
    intro s hs
    have := hE s hs
    cases hc : s.cls <;> simp_all [isContainer, Cls.declarable]
  have hEi : ∀ c, E.filter (isImp c) = [] := by
    intro c
    apply List.filter_eq_nil_iff.mpr
    intro s hs
    have := hE s hs
    cases hc : s.cls <;> simp_all [isImp, Cls.declarable]
  unfold genUses
  rw [List.filter_append, hEc, List.append_nil, filter_container_blocks, List.map_map]
  apply List.map_congr_left
  intro c hc
  simp only [Function.comp, mkUse, headSym, containerWild]
  congr 1
  have : ((cs.flatMap (blk v I) ++ E).filter fun s => s.cls == Cls.imported c.name)
      = (cs.flatMap (blk v I)).filter (isImp c.name) := by
    rw [List.filter_append]
    have := hEi c.name
    unfold isImp at this
    rw [this, List.append_nil]; rfl
  rw [this, filter_imp_blocks v I cs hnd c hc]

end Decls
