import PsyVerif.Lemmas.HaloEdit2
/-! # C22 — colouring a loop does not change the halo logic -/
namespace C22

variable (cfg : Cfg) (H : Nat) (env : Nat → Nat) (cont : Bool) (f : Nat)

/-- the bound after `Dynamo0p3ColourTrans` -/
def colBound (b : Bound) : Bound := ⟨b.lvl, true⟩

theorem hra_col (k : Kern) (b : Bound) (a : Arg) (hd : k.dofKernel = false)
    (hok : (colBound b).ok cfg k) :
    haloReadAccess cfg k (colBound b) a = haloReadAccess cfg k b a := by
  obtain ⟨lvl, col⟩ := b
  obtain ⟨dof, args⟩ := k
  obtain ⟨h1, h2, h3⟩ := hok
  simp only at hd
  subst hd
  generalize haw : Kern.allWrites ⟨false, args⟩ = aw at *
  cases lvl <;> cases col <;> cases aw <;>
    simp_all [haloReadAccess, colBound, Level.isHalo]

theorem readInfo_col (k : Kern) (b : Bound) (a : Arg) (hd : k.dofKernel = false)
    (hok : (colBound b).ok cfg k) : readInfo k (colBound b) a = readInfo k b a := by
  obtain ⟨lvl, col⟩ := b
  obtain ⟨dof, args⟩ := k
  obtain ⟨h1, h2, h3⟩ := hok
  simp only at hd
  subst hd
  generalize haw : Kern.allWrites ⟨false, args⟩ = aw at *
  cases lvl <;> cases col <;> cases aw <;>
    simp_all [readInfo, colBound, Level.isHalo]

theorem writeInfo_col (k : Kern) (b : Bound) (a : Arg) :
    writeInfo k (colBound b) a = writeInfo k b a := rfl

/-! ## Schedules that differ by colouring loops `(k0, b0)` -/

section
variable (k0 : Kern) (b0 : Bound)

/-- `X'` is `X` with some occurrences of the loop `(k0, b0)` coloured -/
inductive ColS : Sched → Sched → Prop
  | nil : ColS [] []
  | same (x : Item) {X X' : Sched} : ColS X X' → ColS (x :: X) (x :: X')
  | col {X X' : Sched} : ColS X X' → ColS (.loop k0 b0 :: X) (.loop k0 (colBound b0) :: X')

/-- the corresponding relation on reader lists -/
inductive ColR : List Reader → List Reader → Prop
  | nil : ColR [] []
  | same (r : Reader) {L L' : List Reader} : ColR L L' → ColR (r :: L) (r :: L')
  | col (a : Arg) {L L' : List Reader} : ColR L L' →
      ColR ((k0, b0, a) :: L) ((k0, colBound b0, a) :: L')

theorem colS_refl : ∀ X : Sched, ColS k0 b0 X X
  | [] => .nil
  | x :: X => .same x (colS_refl X)

theorem colS_fwdReaders {X X' : Sched} (h : ColS k0 b0 X X') :
    ColR k0 b0 (fwdReaders f X) (fwdReaders f X') := by
  induction h with
  | nil => exact .nil
  | same x _ ih =>
    cases x with
    | hex kind g =>
      simp only [fwdReaders]
      split
      · exact .nil
      · exact ih
    | loop k b =>
      simp only [fwdReaders]
      cases argOf k f with
      | none => exact ih
      | some a =>
        simp only
        split
        · split
          · exact .same _ .nil
          · exact .same _ ih
        · exact .nil
  | col _ ih =>
    simp only [fwdReaders]
    cases argOf k0 f with
    | none => exact ih
    | some a =>
      simp only
      split
      · split
        · exact .col a .nil
        · exact .col a ih
      · exact .nil

theorem colR_headHra (hd : k0.dofKernel = false) (hok : (colBound b0).ok cfg k0)
    {L L' : List Reader} (h : ColR k0 b0 L L') (hh : headHra cfg L) : headHra cfg L' := by
  cases h with
  | nil => trivial
  | same r _ => exact hh
  | col a _ =>
    simp only [headHra] at hh ⊢
    rw [hra_col cfg k0 b0 a hd hok]
    exact hh

theorem colS_rel {p p' : Sched} (h : ColS k0 b0 p p') : Rel f p p' := by
  induction h with
  | nil => exact rel_refl f []
  | same x _ ih => exact rel_cons f x ih
  | col _ ih =>
    obtain ⟨h1, h2⟩ := ih
    cases ha : argOf k0 f with
    | none => simpa [Rel, bwdDep, bwdWriter, ha] using ⟨h1, h2⟩
    | some a =>
      by_cases hw : a.access.writes = true
      · simp [Rel, bwdDep, bwdWriter, ha, hw, writeInfo_col]
      · simpa [Rel, bwdDep, bwdWriter, ha, hw] using ⟨h1, h2⟩

/-- colouring of one reader -/
def colReader (r : Reader) : Reader :=
  if r.1 = k0 ∧ r.2.1 = b0 then (k0, colBound b0, r.2.2) else r

theorem colReader_info (hd : k0.dofKernel = false) (hok : (colBound b0).ok cfg k0) (r : Reader) :
    infoOf (colReader k0 b0 r) = infoOf r := by
  unfold colReader
  split
  · rename_i h
    obtain ⟨k, b, a⟩ := r
    obtain ⟨rfl, rfl⟩ := h
    exact readInfo_col cfg k b a hd hok
  · rfl

theorem colReader_good (hd : k0.dofKernel = false) (hok : (colBound b0).ok cfg k0)
    (hP : POK cfg H env cont f k0 (colBound b0)) {L : List Reader}
    (hg : GoodList cfg H env cont f L) : GoodList cfg H env cont f (L.map (colReader k0 b0)) := by
  obtain ⟨r1, rs, rfl, hra, hrs⟩ := hg.head
  constructor
  · refine ⟨colReader k0 b0 r1, rs.map (colReader k0 b0), by simp, ?_, ?_⟩
    · unfold colReader
      split
      · rename_i h
        obtain ⟨k, b, a⟩ := r1
        obtain ⟨rfl, rfl⟩ := h
        rw [hra_col cfg k b a hd hok]
        exact hra
      · exact hra
    · intro hw
      have : r1.2.2.access.writes = true := by
        unfold colReader at hw
        split at hw <;> exact hw
      simp [hrs this]
  · intro x hx
    simp only [List.mem_map] at hx
    obtain ⟨r, hr, rfl⟩ := hx
    obtain ⟨h1, h2⟩ := hg.facts r hr
    unfold colReader
    split
    · rename_i h
      obtain ⟨k, b, a⟩ := r
      obtain ⟨rfl, rfl⟩ := h
      exact ⟨hP, h2⟩
    · exact ⟨h1, h2⟩

theorem validFrom_col (hd : k0.dofKernel = false) (hok : (colBound b0).ok cfg k0)
    (hP : POK cfg H env cont f k0 (colBound b0)) {X X' : Sched} (hX : ColS k0 b0 X X') :
    ∀ (p p' : Sched), ColS k0 b0 p p' →
    ValidFrom cfg H env cont f p X → ValidFrom cfg H env cont f p' X' := by
  induction hX with
  | nil => intro p p' _ _; simp [ValidFrom]
  | same x hXX ih =>
    intro p p' hp hv
    cases x with
    | hex kind g =>
      simp only [ValidFrom] at hv ⊢
      refine ⟨fun hg => ?_, ih _ _ (.same _ hp) hv.2⟩
      obtain ⟨hk, hh⟩ := hv.1 hg
      exact ⟨hk, colR_headHra cfg k0 b0 hd hok (colS_fwdReaders f k0 b0 hXX) hh⟩
    | loop k b =>
      simp only [ValidFrom] at hv ⊢
      refine ⟨fun a ha hra => ?_, ih _ _ (.same _ hp) hv.2⟩
      exact readOK_congr cfg H env cont f (colS_rel f k0 b0 hp) k b a (hv.1 a ha hra)
  | col hXX ih =>
    intro p p' hp hv
    simp only [ValidFrom] at hv ⊢
    refine ⟨fun a ha hra => ?_, ih _ _ (.col hp) hv.2⟩
    rw [hra_col cfg k0 b0 a hd hok] at hra
    have hrel := colS_rel f k0 b0 hp
    rcases hv.1 a ha hra with hx | ⟨L, hL, hg, hs⟩
    · exact Or.inl (hrel.1.mp hx)
    · by_cases hx : bwdDep f p = .hex
      · exact Or.inl (hrel.1.mp hx)
      · right
        refine ⟨L.map (colReader k0 b0), ?_, colReader_good cfg H env cont f k0 b0 hd hok hP hg, ?_⟩
        · have := List.mem_map_of_mem (f := colReader k0 b0) hL
          simpa [colReader] using this
        · rw [← hrel.2 hx]
          have : (L.map (colReader k0 b0)).map infoOf = L.map infoOf := by
            rw [List.map_map]
            apply List.map_congr_left
            intro r _
            exact colReader_info cfg k0 b0 hd hok r
          rw [this]
          exact hs

theorem colS_prefix : ∀ (P : Sched) {X X' : Sched}, ColS k0 b0 X X' → ColS k0 b0 (P ++ X) (P ++ X')
  | [], _, _, h => h
  | x :: P, _, _, h => .same x (colS_prefix P h)

end

/-- **Colouring preserves valid placement** (`Dynamo0p3ColourTrans`: only the name of the upper
bound changes, `ncells`→`ncolour`, `cell_halo`→`colour_halo`). -/
theorem colourEdit_valid (s s' : Sched) (i : Nat) (hc : colourEdit s i = some s')
    (hall : ∀ k b, Item.loop k b ∈ s → POK cfg H env cont f k b)
    (hnew : ∀ k b R, s.drop i = .loop k b :: R → POK cfg H env cont f k (colBound b))
    (hv : ValidFrom cfg H env cont f [] s) :
    ValidFrom cfg H env cont f [] s' ∧
    (∀ k b, Item.loop k b ∈ s' → POK cfg H env cont f k b) := by
  unfold colourEdit at hc
  cases hd : s.drop i with
  | nil => rw [hd] at hc; cases hc
  | cons x R =>
    rw [hd] at hc
    cases x with
    | hex kind g => cases hc
    | loop k b =>
      simp only at hc
      by_cases hcond : (k.dofKernel || b.coloured) = true
      · simp [hcond] at hc
      · simp only [hcond, Bool.false_eq_true, if_false, Option.some.injEq] at hc
        have hdof : k.dofKernel = false := by
          cases h : k.dofKernel
          · rfl
          · simp [h] at hcond
        have hs : s = s.take i ++ .loop k b :: R := by
          rw [← hd]; exact (List.take_append_drop i s).symm
        have hP := hnew k b R hd
        have hcs : ColS k b s s' := by
          rw [← hc]
          conv => lhs; rw [hs]
          exact colS_prefix k b _ (.col (colS_refl k b R))
        constructor
        · exact validFrom_col cfg H env cont f k b hdof hP.1.bound hP hcs [] [] .nil hv
        · intro k' b' hmem
          rw [← hc] at hmem
          simp only [List.mem_append, List.mem_cons] at hmem
          rcases hmem with hmem | hmem | hmem
          · exact hall k' b' (by rw [hs]; simp [hmem])
          · injection hmem with h1 h2
            rw [h1, h2]
            exact hP
          · exact hall k' b' (by rw [hs]; simp [hmem])

end C22
