import PsyVerif.Model.DepSig
/-! # C08 lemmas — signature tables: a well-formed table is injective and free of prefix overlaps -/
namespace C08

theorem sigOf_mem {tab : SigTab} {x : Nat} {s : Sig} (h : sigOf tab x = some s) : (x, s) ∈ tab := by
  induction tab with
  | nil => simp [sigOf] at h
  | cons p rest ih =>
    obtain ⟨y, t⟩ := p
    simp only [sigOf] at h
    split at h
    · rename_i hy
      simp only [Option.some.injEq] at h
      subst hy; subst h
      exact List.mem_cons_self
    · exact List.mem_cons_of_mem _ (ih h)

theorem nodupB_cons {α : Type} [DecidableEq α] {a : α} {as : List α} (h : nodupB (a :: as) = true) :
    a ∉ as ∧ nodupB as = true := by
  simpa [nodupB] using h

/-- two ids with the same signature are the same id -/
theorem sigOf_inj {tab : SigTab} (hnd : nodupB (tab.map (·.2)) = true) {x y : Nat} {s : Sig}
    (hx : sigOf tab x = some s) (hy : sigOf tab y = some s) : x = y := by
  induction tab with
  | nil => simp [sigOf] at hx
  | cons p rest ih =>
    obtain ⟨z, t⟩ := p
    simp only [List.map_cons] at hnd
    obtain ⟨hnot, hrest⟩ := nodupB_cons hnd
    simp only [sigOf] at hx hy
    split at hx <;> split at hy
    · rename_i h1 h2; exact h1.symm.trans h2
    · rename_i h1 h2
      simp only [Option.some.injEq] at hx
      subst hx
      exact absurd (List.mem_map.mpr ⟨(y, t), sigOf_mem hy, rfl⟩) hnot
    · rename_i h1 h2
      simp only [Option.some.injEq] at hy
      subst hy
      exact absurd (List.mem_map.mpr ⟨(x, t), sigOf_mem hx, rfl⟩) hnot
    · exact ih hrest hx hy

theorem sigTabOk_noPrefix {tab : SigTab} (hok : sigTabOk tab = true) {x y : Nat} {s t : Sig}
    (hx : sigOf tab x = some s) (hy : sigOf tab y = some t) : s.properPrefix t = false := by
  simp only [sigTabOk, Bool.and_eq_true, List.all_eq_true, Bool.not_eq_eq_eq_not, Bool.not_true] at hok
  exact hok.2 _ (sigOf_mem hx) _ (sigOf_mem hy)

theorem sigTabOk_nodup {tab : SigTab} (hok : sigTabOk tab = true) : nodupB (tab.map (·.2)) = true := by
  simp only [sigTabOk, Bool.and_eq_true] at hok
  exact hok.1.2

/-- the HEAD test is the by-key test with the full signature as key -/
theorem staleSubscriptBy_sigKey (lvars : List Nat) (all accs : List Access) :
    staleSubscriptBy sigKey lvars all accs = staleSubscript lvars all accs := by
  simp only [staleSubscriptBy, staleSubscript, isWritten, sigKey]
  congr 1; funext a; congr 1; funext s; congr 1; funext y; congr 1
  congr 1; funext b
  by_cases h : b.var = y <;> simp [h, Bool.and_comm]

end C08
