import PsyVerif.Model.Decls
import Mathlib.Data.List.Basic
import Mathlib.Data.List.Perm.Basic
import Mathlib.Data.List.Nodup
/-! Lemmas about `Decls.orderParams` (model of `FortranWriter._gen_parameter_decls`):
permutation, dependency order, and the exact characterisation of the refusal. -/
namespace Decls

theorem pickReady_spec {d : List Name} {g : PGraph} {e} (h : pickReady d g = some e) :
    e ∈ g ∧ ready d e = true := by
  induction g with
  | nil => simp [pickReady] at h
  | cons x rest ih =>
    simp only [pickReady] at h
    split at h
    · cases h; exact ⟨by simp, by assumption⟩
    · have := ih h; exact ⟨List.mem_cons_of_mem _ this.1, this.2⟩

theorem pickReady_none {d : List Name} {g : PGraph} (h : pickReady d g = none) :
    ∀ e ∈ g, ready d e = false := by
  induction g with
  | nil => intro e he; simp at he
  | cons x rest ih =>
    simp only [pickReady] at h
    split at h
    · cases h
    · intro e he
      rcases List.mem_cons.mp he with rfl | he
      · simpa using ‹¬ ready d e = true›
      · exact ih h e he

theorem pkeys_filter (g : PGraph) (m : Name) :
    pkeys (g.filter (fun x => x.1 != m)) = (pkeys g).filter (· != m) := by
  simp [pkeys, List.filter_map]; rfl

theorem filter_length_lt {g : PGraph} {m : Name} (hm : m ∈ pkeys g) :
    (g.filter (fun x => x.1 != m)).length < g.length := by
  apply List.length_filter_lt_length_iff_exists.mpr
  obtain ⟨e, he, rfl⟩ := List.mem_map.mp hm
  exact ⟨e, he, by simp⟩

theorem entry_unique {g : PGraph} (hnd : (pkeys g).Nodup) {m ds ds'}
    (h1 : (m, ds) ∈ g) (h2 : (m, ds') ∈ g) : ds = ds' := by
  induction g with
  | nil => simp at h1
  | cons e rest ih =>
    simp only [pkeys, List.map_cons, List.nodup_cons] at hnd
    rcases List.mem_cons.mp h1 with h1 | h1 <;> rcases List.mem_cons.mp h2 with h2 | h2
    · rw [← h1] at h2; cases h2; rfl
    · exfalso; apply hnd.1; rw [← h1]; exact List.mem_map.mpr ⟨_, h2, rfl⟩
    · exfalso; apply hnd.1; rw [← h2]; exact List.mem_map.mpr ⟨_, h1, rfl⟩
    · exact ih hnd.2 h1 h2

/-- every constant is emitted exactly once -/
theorem orderAux_perm : ∀ (fuel : Nat) (d : List Name) (g : PGraph) (out : List Name),
    (pkeys g).Nodup → orderAux fuel d g = some out → out.Perm (pkeys g) := by
  intro fuel
  induction fuel with
  | zero =>
    intro d g out _ h
    cases g with
    | nil => simp [orderAux] at h; subst h; simp [pkeys]
    | cons e r => simp [orderAux] at h
  | succ n ih =>
    intro d g out hnd h
    cases g with
    | nil => simp [orderAux] at h; subst h; simp [pkeys]
    | cons e0 r0 =>
      simp only [orderAux] at h
      split at h
      · cases h
      · rename_i e hp
        split at h
        · cases h
        · rename_i out' hrec
          cases h
          have hmem : e.1 ∈ pkeys (e0 :: r0) := List.mem_map.mpr ⟨e, (pickReady_spec hp).1, rfl⟩
          have hnd' : (pkeys ((e0 :: r0).filter (fun x => x.1 != e.1))).Nodup := by
            rw [pkeys_filter]; exact hnd.filter _
          have := ih _ _ _ hnd' hrec
          rw [pkeys_filter, ← List.Nodup.erase_eq_filter hnd] at this
          exact (List.Perm.cons e.1 this).trans (List.perm_cons_erase hmem).symm

/-- `d` is declared before `m` by the list `out` -/
def Before (out : List Name) (d m : Name) : Prop := d ∈ out ∧ out.idxOf d < out.idxOf m

/-- each constant comes after the local constants it depends on (or they were declared already) -/
theorem orderAux_respects : ∀ (fuel : Nat) (dcl : List Name) (g : PGraph) (out : List Name),
    (pkeys g).Nodup → orderAux fuel dcl g = some out →
    ∀ m ds d, (m, ds) ∈ g → d ∈ ds → d ∈ dcl ∨ Before out d m := by
  intro fuel
  induction fuel with
  | zero =>
    intro dcl g out _ h m ds d hm _
    cases g with
    | nil => simp at hm
    | cons e r => simp [orderAux] at h
  | succ n ih =>
    intro dcl g out hnd h m ds d hm hd
    cases g with
    | nil => simp at hm
    | cons e0 r0 =>
      simp only [orderAux] at h
      split at h
      · cases h
      · rename_i e hp
        split at h
        · cases h
        · rename_i out' hrec
          cases h
          obtain ⟨heg, hready⟩ := pickReady_spec hp
          have hnd' : (pkeys ((e0 :: r0).filter (fun x => x.1 != e.1))).Nodup := by
            rw [pkeys_filter]; exact hnd.filter _
          have hperm := orderAux_perm _ _ _ _ hnd' hrec
          by_cases hme : m = e.1
          · -- the picked entry: all its inputs are declared
            subst hme
            have : ds = e.2 := entry_unique hnd hm (by cases e; exact heg)
            subst this
            left
            have := List.all_eq_true.mp hready d hd
            simpa using this
          · have hm' : (m, ds) ∈ (e0 :: r0).filter (fun x => x.1 != e.1) :=
              List.mem_filter.mpr ⟨hm, by simpa using hme⟩
            have hmout : m ∈ out' := hperm.symm.subset (List.mem_map.mpr ⟨_, hm', rfl⟩)
            have he_notin : e.1 ∉ out' := by
              intro hc
              have := hperm.subset hc
              rw [pkeys_filter] at this
              simpa using (List.mem_filter.mp this).2
            rcases ih _ _ _ hnd' hrec m ds d hm' hd with h1 | ⟨h1, h2⟩
            · rcases List.mem_cons.mp h1 with rfl | h1
              · right
                refine ⟨by simp, ?_⟩
                rw [List.idxOf_cons_self, List.idxOf_cons_ne _ (Ne.symm hme)]
                omega
              · left; exact h1
            · right
              have hde : d ≠ e.1 := fun hc => he_notin (hc ▸ h1)
              refine ⟨List.mem_cons_of_mem _ h1, ?_⟩
              rw [List.idxOf_cons_ne _ (Ne.symm hde), List.idxOf_cons_ne _ (Ne.symm hme)]
              omega

/-- an admissible declaration order of `g` given the names `dcl` already declared -/
def Admissible (dcl : List Name) (g : PGraph) (σ : List Name) : Prop :=
  σ.Perm (pkeys g) ∧ ∀ m ds d, (m, ds) ∈ g → d ∈ ds → d ∈ dcl ∨ Before σ d m

theorem idxOf_erase_lt {σ : List Name} (hnd : σ.Nodup) {a b x : Name} (ha : a ≠ x) (hb : b ≠ x)
    (hain : a ∈ σ) (h : σ.idxOf a < σ.idxOf b) : (σ.erase x).idxOf a < (σ.erase x).idxOf b := by
  induction σ with
  | nil => simp at hain
  | cons c r ih =>
    have hnd' := (List.nodup_cons.mp hnd).2
    by_cases hcx : c = x
    · subst hcx
      rw [List.erase_cons_head]
      rw [List.idxOf_cons_ne _ (Ne.symm ha), List.idxOf_cons_ne _ (Ne.symm hb)] at h
      omega
    · rw [List.erase_cons_tail (by simpa using hcx)]
      by_cases hca : c = a
      · subst hca
        by_cases hcb : c = b
        · subst hcb; simp at h
        · rw [List.idxOf_cons_self, List.idxOf_cons_ne _ hcb]; omega
      · by_cases hcb : c = b
        · subst hcb
          rw [List.idxOf_cons_self] at h; omega
        · rw [List.idxOf_cons_ne _ hca, List.idxOf_cons_ne _ hcb] at h ⊢
          have hain' : a ∈ r := by
            rcases List.mem_cons.mp hain with h1 | h1
            · exact absurd h1.symm hca
            · exact h1
          have := ih hnd' hain' (by omega)
          omega

/-- the loop raises only when no admissible order exists -/
theorem orderAux_none : ∀ (fuel : Nat) (dcl : List Name) (g : PGraph),
    (pkeys g).Nodup → g.length ≤ fuel → orderAux fuel dcl g = none → ¬ ∃ σ, Admissible dcl g σ := by
  intro fuel
  induction fuel with
  | zero =>
    intro dcl g _ hl h
    cases g with
    | nil => simp [orderAux] at h
    | cons e r => simp at hl
  | succ n ih =>
    intro dcl g hnd hl h
    cases g with
    | nil => simp [orderAux] at h
    | cons e0 r0 =>
      simp only [orderAux] at h
      split at h
      · -- nothing is ready: the first element of any admissible order would be ready
        rename_i hp
        rintro ⟨σ, hperm, hdep⟩
        cases σ with
        | nil => have := hperm.length_eq; simp [pkeys] at this
        | cons a σ' =>
          have ha : a ∈ pkeys (e0 :: r0) := hperm.subset (by simp)
          obtain ⟨⟨a', ds⟩, hmem, rfl⟩ := List.mem_map.mp ha
          have hnr := pickReady_none hp _ hmem
          have : ready dcl (a', ds) = true := by
            simp only [ready, List.all_eq_true]
            intro d hd
            rcases hdep a' ds d hmem hd with h1 | ⟨_, h2⟩
            · simpa using h1
            · simp at h2
          rw [this] at hnr; cases hnr
      · rename_i e hp
        split at h
        · rename_i hrec
          obtain ⟨heg, _⟩ := pickReady_spec hp
          have hmem : e.1 ∈ pkeys (e0 :: r0) := List.mem_map.mpr ⟨e, heg, rfl⟩
          have hnd' : (pkeys ((e0 :: r0).filter (fun x => x.1 != e.1))).Nodup := by
            rw [pkeys_filter]; exact hnd.filter _
          have hlen : ((e0 :: r0).filter (fun x => x.1 != e.1)).length ≤ n := by
            have := filter_length_lt hmem; omega
          have hno := ih _ _ hnd' hlen hrec
          rintro ⟨σ, hperm, hdep⟩
          apply hno
          have hσnd : σ.Nodup := hperm.nodup_iff.mpr hnd
          refine ⟨σ.erase e.1, ?_, ?_⟩
          · rw [pkeys_filter, ← List.Nodup.erase_eq_filter hnd]
            exact hperm.erase _
          · intro m ds d hm hd
            obtain ⟨hm1, hm2⟩ := List.mem_filter.mp hm
            have hme : m ≠ e.1 := by simpa using hm2
            rcases hdep m ds d hm1 hd with h1 | ⟨h1, h2⟩
            · left; exact List.mem_cons_of_mem _ h1
            · by_cases hde : d = e.1
              · left; simp [hde]
              · right
                exact ⟨(List.mem_erase_of_ne hde).mpr h1, idxOf_erase_lt hσnd hde hme h1 h2⟩
        · cases h

/-- if the list order already satisfies the dependencies, the loop keeps it -/
theorem orderAux_sorted_id : ∀ (fuel : Nat) (dcl : List Name) (g : PGraph),
    (pkeys g).Nodup → g.length ≤ fuel →
    (∀ pre e post, g = pre ++ e :: post → ∀ d ∈ e.2, d ∈ dcl ∨ d ∈ pkeys pre) →
    orderAux fuel dcl g = some (pkeys g) := by
  intro fuel
  induction fuel with
  | zero =>
    intro dcl g _ hl _
    cases g with
    | nil => simp [orderAux, pkeys]
    | cons e r => simp at hl
  | succ n ih =>
    intro dcl g hnd hl hs
    cases g with
    | nil => simp [orderAux, pkeys]
    | cons e0 r0 =>
      have hready : ready dcl e0 = true := by
        simp only [ready, List.all_eq_true]
        intro d hd
        rcases hs [] e0 r0 rfl d hd with h | h
        · simpa using h
        · simp [pkeys] at h
      have hpick : pickReady dcl (e0 :: r0) = some e0 := by simp [pickReady, hready]
      have hnd0 : e0.1 ∉ pkeys r0 ∧ (pkeys r0).Nodup := by
        simpa only [pkeys, List.map_cons, List.nodup_cons] using hnd
      have hfilt : (e0 :: r0).filter (fun x => x.1 != e0.1) = r0 := by
        rw [List.filter_cons_of_neg (by simp)]
        apply List.filter_eq_self.mpr
        intro x hx
        have : x.1 ≠ e0.1 := fun hc => hnd0.1 (hc ▸ List.mem_map.mpr ⟨x, hx, rfl⟩)
        simpa using this
      have hrec := ih (e0.1 :: dcl) r0 hnd0.2 (by simp at hl; omega) (by
          intro pre e post hg d hd
          rcases hs (e0 :: pre) e post (by rw [hg]; rfl) d hd with h | h
          · left; exact List.mem_cons_of_mem _ h
          · simp only [pkeys, List.map_cons, List.mem_cons] at h
            rcases h with h | h
            · left; simp [h]
            · right; exact h)
      simp only [orderAux, hpick, hfilt, hrec]
      simp [pkeys]

end Decls
