import PsyVerif.Model.LoopTrans
import PsyVerif.Lemmas.MiniFSem
import PsyVerif.Lemmas.LoopTransHoist
import PsyVerif.Lemmas.LoopTransFuse
/-! # C05 — ReplaceInductionVariablesTrans: substituting a scalar by its defining expression -/
namespace C05
open MiniF

/-- variables used as array base in an expression / a statement -/
def arrsE : Expr → List Nat
  | .lit _ => []
  | .var _ => []
  | .idx1 a i => a :: arrsE i
  | .idx2 a i j => a :: (arrsE i ++ arrsE j)
  | .un _ e => arrsE e
  | .bin _ a b => arrsE a ++ arrsE b

def arrsS : Stmt → List Nat
  | .skip => []
  | .seq a b => arrsS a ++ arrsS b
  | .assign _ e => arrsE e
  | .store1 a i e => a :: (arrsE i ++ arrsE e)
  | .store2 a i j e => a :: (arrsE i ++ arrsE j ++ arrsE e)
  | .ite c t f => arrsE c ++ arrsS t ++ arrsS f
  | .loop _ lo hi st b => arrsE lo ++ arrsE hi ++ arrsE st ++ arrsS b

/-- relation between the store `τ` of the substituted code and the store `τ'` of the original
code: equal except at `x`, and in `τ'` the scalar `x` holds the value of `e` -/
def SubRel (x : Nat) (e : Expr) (τ τ' : Store) : Prop :=
  AgreeOn (fun y => y ≠ x) τ τ' ∧ τ' (x, 0, 0) = eval e τ'

theorem eval_substE_rel {x : Nat} {e : Expr} {τ τ' : Store} (hxe : x ∉ evars e)
    (h : SubRel x e τ τ') (a : Expr) (harr : x ∉ arrsE a) : eval (substE x e a) τ = eval a τ' := by
  have hee : eval e τ = eval e τ' :=
    eval_congr (V := fun y => y ≠ x) (fun y hy hyx => hxe (hyx ▸ hy)) h.1
  induction a with
  | lit n => rfl
  | var y =>
    simp only [substE]
    split
    · rename_i hy; subst hy; rw [hee]; exact h.2.symm
    · rename_i hy; exact h.1 y hy 0 0
  | idx1 arr i ih =>
    simp only [arrsE, List.mem_cons, not_or] at harr
    simp only [substE, eval, ih harr.2]
    exact h.1 arr (fun hh => harr.1 hh.symm) _ _
  | idx2 arr i j ihi ihj =>
    simp only [arrsE, List.mem_cons, List.mem_append, not_or] at harr
    simp only [substE, eval, ihi harr.2.1, ihj harr.2.2]
    exact h.1 arr (fun hh => harr.1 hh.symm) _ _
  | un op a ih =>
    simp only [arrsE] at harr
    simp only [substE, eval, ih harr]
  | bin op a b iha ihb =>
    simp only [arrsE, List.mem_append, not_or] at harr
    simp only [substE, eval, iha harr.1, ihb harr.2]

theorem SubRel.set {x : Nat} {e : Expr} {τ τ' : Store} (h : SubRel x e τ τ') (y : Nat) (i j val : Int)
    (hyx : y ≠ x) (hye : y ∉ evars e) : SubRel x e (τ.set (y, i, j) val) (τ'.set (y, i, j) val) := by
  refine ⟨h.1.set _ _, ?_⟩
  rw [Store.set_apply, if_neg (fun hh => hyx (congrArg Prod.fst hh).symm)]
  rw [h.2]
  apply eval_congr (V := fun z => z ∈ evars e) (fun z hz => hz)
  intro z hz i' j'
  rw [Store.set_apply, if_neg]
  intro hh
  have hzy : z = y := congrArg Prod.fst hh
  exact hye (hzy ▸ hz)

theorem iters_subrel {x : Nat} {e : Expr} {F F' : Store → Store} (w : Nat) (lo st : Int)
    (hwx : w ≠ x) (hwe : w ∉ evars e)
    (hF : ∀ τ τ', SubRel x e τ τ' → SubRel x e (F τ) (F' τ')) :
    ∀ n k τ τ', SubRel x e τ τ' → SubRel x e (iters F w lo st n k τ) (iters F' w lo st n k τ') := by
  intro n
  induction n with
  | zero => intro k τ τ' h; exact h
  | succ n ih => intro k τ τ' h; exact ih _ _ _ (hF _ _ (h.set w 0 0 _ hwx hwe))

/-- **substitution lemma**: running the substituted statement is the same, outside `x`, as running
the original statement in a store where `x` holds the value of `e` -/
theorem exec_substS {x : Nat} {e : Expr} (hxe : x ∉ evars e) (s : Stmt) (hxw : x ∉ wvars s)
    (hew : ∀ r ∈ evars e, r ∉ wvars s) (harr : x ∉ arrsS s) :
    ∀ τ τ', SubRel x e τ τ' → SubRel x e (exec (substS x e s) τ) (exec s τ') := by
  induction s with
  | skip => intro τ τ' h; exact h
  | seq a b iha ihb =>
    simp only [wvars, List.mem_append, not_or] at hxw
    simp only [arrsS, List.mem_append, not_or] at harr
    intro τ τ' h
    exact ihb hxw.2 (fun r hr hw => hew r hr (by simp [wvars, hw])) harr.2 _ _
      (iha hxw.1 (fun r hr hw => hew r hr (by simp [wvars, hw])) harr.1 _ _ h)
  | assign y a =>
    simp only [wvars, List.mem_singleton] at hxw
    simp only [arrsS] at harr
    intro τ τ' h
    simp only [substS, exec, eval_substE_rel hxe h a harr]
    exact h.set y 0 0 _ (fun hh => hxw hh.symm) (fun hy => hew y hy (by simp [wvars]))
  | store1 arr i a =>
    simp only [wvars, List.mem_singleton] at hxw
    simp only [arrsS, List.mem_cons, List.mem_append, not_or] at harr
    intro τ τ' h
    simp only [substS, exec, eval_substE_rel hxe h a harr.2.2, eval_substE_rel hxe h i harr.2.1]
    exact h.set arr _ 0 _ (fun hh => hxw hh.symm) (fun hy => hew arr hy (by simp [wvars]))
  | store2 arr i j a =>
    simp only [wvars, List.mem_singleton] at hxw
    simp only [arrsS, List.mem_cons, List.mem_append, not_or] at harr
    intro τ τ' h
    simp only [substS, exec, eval_substE_rel hxe h a harr.2.2, eval_substE_rel hxe h i harr.2.1.1,
      eval_substE_rel hxe h j harr.2.1.2]
    exact h.set arr _ _ _ (fun hh => hxw hh.symm) (fun hy => hew arr hy (by simp [wvars]))
  | ite c t f iht ihf =>
    simp only [wvars, List.mem_append, not_or] at hxw
    simp only [arrsS, List.mem_append, not_or] at harr
    intro τ τ' h
    simp only [substS, exec, eval_substE_rel hxe h c harr.1.1]
    split
    · exact iht hxw.1 (fun r hr hw => hew r hr (by simp [wvars, hw])) harr.1.2 _ _ h
    · exact ihf hxw.2 (fun r hr hw => hew r hr (by simp [wvars, hw])) harr.2 _ _ h
  | loop w lo hi st b ih =>
    simp only [wvars, List.mem_cons, not_or] at hxw
    simp only [arrsS, List.mem_append, not_or] at harr
    intro τ τ' h
    have hwe : w ∉ evars e := fun hy => hew w hy (by simp [wvars])
    simp only [substS, exec, runIters_eq_iters, eval_substE_rel hxe h lo harr.1.1.1,
      eval_substE_rel hxe h hi harr.1.1.2, eval_substE_rel hxe h st harr.1.2]
    apply SubRel.set _ w 0 0 _ (fun hh => hxw.1 hh.symm) hwe
    exact iters_subrel w _ _ (fun hh => hxw.1 hh.symm) hwe
      (ih hxw.2 (fun r hr hw => hew r hr (by simp [wvars, hw])) harr.2) _ _ _ _ h

/-- substitution of a scalar in an expression is evaluation in the updated store -/
theorem eval_substE_set (v : Nat) (r : Expr) (τ : Store) (a : Expr) (harr : v ∉ arrsE a) :
    eval (substE v r a) τ = eval a (τ.set (v, 0, 0) (eval r τ)) := by
  induction a with
  | lit n => rfl
  | var y =>
    simp only [substE, eval]
    split
    · rename_i hy; subst hy; rw [Store.set_same]
    · rename_i hy; rw [Store.set_apply, if_neg (fun hh => hy (congrArg Prod.fst hh))]; rfl
  | idx1 arr i ih =>
    simp only [arrsE, List.mem_cons, not_or] at harr
    simp only [substE, eval, ih harr.2]
    rw [Store.set_apply, if_neg (fun hh => harr.1 (congrArg Prod.fst hh).symm)]
  | idx2 arr i j ihi ihj =>
    simp only [arrsE, List.mem_cons, List.mem_append, not_or] at harr
    simp only [substE, eval, ihi harr.2.1, ihj harr.2.2]
    rw [Store.set_apply, if_neg (fun hh => harr.1 (congrArg Prod.fst hh).symm)]
  | un op a ih =>
    simp only [arrsE] at harr
    simp only [substE, eval, ih harr]
  | bin op a b iha ihb =>
    simp only [arrsE, List.mem_append, not_or] at harr
    simp only [substE, eval, iha harr.1, ihb harr.2]

/-- **one replacement step is sound when the loop runs at least once** -/
theorem replaceIV_step_sound (v x : Nat) (lo hi st e : Expr) (p q : Stmt)
    (hxe : x ∉ evars e) (hxv : x ≠ v)
    (hxh : x ∉ evars lo ∧ x ∉ evars hi ∧ x ∉ evars st)
    (hxp : x ∉ rvars p ∧ x ∉ wvars p) (hxq : x ∉ wvars q) (harr : x ∉ arrsS q) (hve : v ∉ arrsE e)
    (hep : ∀ r ∈ evars e, r ∉ wvars p ∧ r ∉ wvars q)
    (hvw : v ∉ wvars p ∧ v ∉ wvars q)
    (hst : ∀ r ∈ evars st, r ≠ v ∧ r ∉ wvars p ∧ r ∉ wvars q)
    (σ : Store) (hn : 0 < trip (eval lo σ) (eval hi σ) (eval st σ)) :
    ∀ l : Loc, (l.1 = x → l = (x, 0, 0)) →
      (exec (.seq (.loop v lo hi st (.seq p (substS x e q)))
                  (.assign x (substE v (.bin .sub (.var v) st) e))) σ) l
        = (exec (.loop v lo hi st (.seq p (.seq (.assign x e) q))) σ) l := by
  generalize hlo0 : eval lo σ = lo0 at hn
  generalize hhi0 : eval hi σ = hi0 at hn
  generalize hst0 : eval st σ = st0 at hn
  generalize hN : trip lo0 hi0 st0 = N at hn
  let F := exec (.seq p (substS x e q))
  let F' := exec (.seq p (.seq (.assign x e) q))
  have hF'w : ∀ y, y ∉ wvars p → y ≠ x → y ∉ wvars q → y ∉ wvars (.seq p (.seq (.assign x e) q)) := by
    intro y h1 h2 h3
    simp [wvars, h1, h2, h3]
  -- one iteration
  have step : ∀ ρ ρ' c, AgreeOn (fun y => y ≠ x) ρ ρ' →
      SubRel x e (F (ρ.set (v, 0, 0) c)) (F' (ρ'.set (v, 0, 0) c)) := by
    intro ρ ρ' c h
    have h1 : AgreeOn (fun y => y ≠ x) (exec p (ρ.set (v, 0, 0) c)) (exec p (ρ'.set (v, 0, 0) c)) :=
      exec_congr (s := p) (V := fun y => y ≠ x) (fun y hy hyx => hxp.1 (hyx ▸ hy)) (h.set _ _)
    have h2 : SubRel x e (exec p (ρ.set (v, 0, 0) c))
        ((exec p (ρ'.set (v, 0, 0) c)).set (x, 0, 0) (eval e (exec p (ρ'.set (v, 0, 0) c)))) := by
      refine ⟨?_, ?_⟩
      · intro y hy i j
        rw [Store.set_apply, if_neg (fun hh => hy (congrArg Prod.fst hh))]
        exact h1 y hy i j
      · rw [Store.set_same]
        apply eval_congr (V := fun z => z ∈ evars e) (fun z hz => hz)
        intro z hz i j
        rw [Store.set_apply, if_neg]
        intro hh
        have hzx : z = x := congrArg Prod.fst hh
        exact hxe (hzx ▸ hz)
    exact exec_substS hxe q hxq (fun r hr => (hep r hr).2) harr _ _ h2
  have key : ∀ n k ρ ρ', AgreeOn (fun y => y ≠ x) ρ ρ' →
      AgreeOn (fun y => y ≠ x) (iters F v lo0 st0 n k ρ) (iters F' v lo0 st0 n k ρ') := by
    intro n
    induction n with
    | zero => intro k ρ ρ' h; exact h
    | succ n ih => intro k ρ ρ' h; exact ih _ _ _ (step ρ ρ' _ h).1
  obtain ⟨m, rfl⟩ : ∃ m, N = m + 1 := ⟨N - 1, by omega⟩
  -- the two final stores
  generalize hc : lo0 + ((0 : Int) + (m : Nat)) * st0 = c
  generalize hV : lo0 + ((0 : Int) + ((m + 1 : Nat) : Int)) * st0 = V
  have hVc : V - st0 = c := by rw [← hV, ← hc]; push_cast; ring
  have hS := step (iters F v lo0 st0 m 0 σ) (iters F' v lo0 st0 m 0 σ) c (key m 0 σ σ (AgreeOn.refl _ σ))
  generalize hT : F ((iters F v lo0 st0 m 0 σ).set (v, 0, 0) c) = T at hS
  generalize hT' : F' ((iters F' v lo0 st0 m 0 σ).set (v, 0, 0) c) = T' at hS
  have hR : exec (.loop v lo hi st (.seq p (.seq (.assign x e) q))) σ = T'.set (v, 0, 0) V := by
    show runIters F' v (eval lo σ) (eval st σ) (trip (eval lo σ) (eval hi σ) (eval st σ)) 0 σ = _
    rw [hlo0, hhi0, hst0, hN, runIters_eq_iters, iters_succ_last, hc, hT', hV]
  have hL : exec (.loop v lo hi st (.seq p (substS x e q))) σ = T.set (v, 0, 0) V := by
    show runIters F v (eval lo σ) (eval st σ) (trip (eval lo σ) (eval hi σ) (eval st σ)) 0 σ = _
    rw [hlo0, hhi0, hst0, hN, runIters_eq_iters, iters_succ_last, hc, hT, hV]
  -- T' agrees with σ on the variables of the step expression, and holds the last index in v
  have hT'frame : ∀ y, y ∉ wvars p → y ≠ x → y ∉ wvars q → ∀ i j, ((y, i, j) : Loc) ≠ (v, 0, 0) →
      T' (y, i, j) = σ (y, i, j) := by
    intro y h1 h2 h3 i j hl
    rw [← hT']
    show (exec (.seq p (.seq (.assign x e) q)) _) (y, i, j) = _
    rw [exec_frame (hF'w y h1 h2 h3), Store.set_apply, if_neg hl]
    exact iters_frame_loc i j hl (hF'w y h1 h2 h3) lo0 st0 m 0 σ
  have hT'v : T' (v, 0, 0) = c := by
    rw [← hT']
    show (exec (.seq p (.seq (.assign x e) q)) _) (v, 0, 0) = _
    rw [exec_frame (hF'w v hvw.1 hxv.symm hvw.2), Store.set_same]
  intro l hl
  show ((exec (.loop v lo hi st (.seq p (substS x e q))) σ).set (x, 0, 0)
    (eval (substE v (.bin .sub (.var v) st) e) (exec (.loop v lo hi st (.seq p (substS x e q))) σ))) l = _
  rw [hL, hR]
  by_cases hlx : l = (x, 0, 0)
  · subst hlx
    rw [Store.set_same, Store.set_apply, if_neg (fun hh => hxv (congrArg Prod.fst hh)), hS.2,
      eval_substE_set v _ _ e hve]
    -- value of the step expression in the final store
    have hstL : eval st (T.set (v, 0, 0) V) = st0 := by
      rw [← hst0]
      apply eval_congr (V := fun z => z ∈ evars st) (fun z hz => hz)
      intro z hz i j
      have hzv := (hst z hz).1
      have hzx : z ≠ x := fun hh => hxh.2.2 (hh ▸ hz)
      rw [Store.set_apply, if_neg (fun hh => hzv (congrArg Prod.fst hh)), hS.1 z hzx i j]
      exact hT'frame z (hst z hz).2.1 hzx (hst z hz).2.2 i j (fun hh => hzv (congrArg Prod.fst hh))
    have hsub : eval (.bin .sub (.var v) st) (T.set (v, 0, 0) V) = c := by
      show (T.set (v, 0, 0) V) (v, 0, 0) - eval st (T.set (v, 0, 0) V) = c
      rw [hstL, Store.set_same, hVc]
    rw [hsub]
    apply eval_congr (V := fun z => z ∈ evars e) (fun z hz => hz)
    intro z hz i j
    have hzx : z ≠ x := fun hh => hxe (hh ▸ hz)
    simp only [Store.set_apply]
    split
    · rename_i hh; rw [hh, hT'v]
    · rename_i hh; exact hS.1 z hzx i j
  · have hlx1 : l.1 ≠ x := fun hh => hlx (hl hh)
    rw [Store.set_apply, if_neg hlx]
    simp only [Store.set_apply]
    split
    · rfl
    · obtain ⟨y, i, j⟩ := l
      exact hS.1 y hlx1 i j

end C05
