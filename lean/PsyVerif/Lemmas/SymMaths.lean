import PsyVerif.Model.SymMaths
import Mathlib.Tactic.Ring
import Mathlib.Tactic.FieldSimp
import Mathlib.Data.Rat.Floor
import Mathlib.Algebra.Order.Field.Rat
/-! Helper lemmas for C17: soundness of the polynomial normal form w.r.t. `evalQ`, value preservation of
the SymPyWriter translation on the fragment, linear solving. -/
namespace C17

theorem evalMono_nil (ρ : QEnv) : evalMono [] ρ = 1 := rfl
theorem evalMono_cons (v : Nat) (m : Mono) (ρ : QEnv) : evalMono (v :: m) ρ = ρ.var v * evalMono m ρ := rfl
theorem evalPoly_nil (ρ : QEnv) : evalPoly [] ρ = 0 := rfl
theorem evalPoly_cons (t : Mono × Rat) (p : Poly) (ρ : QEnv) :
    evalPoly (t :: p) ρ = t.2 * evalMono t.1 ρ + evalPoly p ρ := rfl

theorem evalMono_insVar (v : Nat) (m : Mono) (ρ : QEnv) :
    evalMono (insVar v m) ρ = ρ.var v * evalMono m ρ := by
  induction m with
  | nil => rfl
  | cons w m ih =>
    simp only [insVar]
    split
    · rfl
    · simp only [evalMono_cons, ih]; ring

theorem evalMono_mulMono (m1 m2 : Mono) (ρ : QEnv) :
    evalMono (mulMono m1 m2) ρ = evalMono m1 ρ * evalMono m2 ρ := by
  induction m1 with
  | nil => simp [mulMono, evalMono_nil]
  | cons v m ih =>
    simp only [mulMono, List.foldr_cons] at ih ⊢
    rw [evalMono_insVar, ih, evalMono_cons]; ring

theorem evalPoly_insTerm (m : Mono) (c : Rat) (p : Poly) (ρ : QEnv) :
    evalPoly (insTerm m c p) ρ = c * evalMono m ρ + evalPoly p ρ := by
  induction p with
  | nil =>
    simp only [insTerm]
    split
    · next h => simp [h, evalPoly_nil]
    · simp [evalPoly_cons, evalPoly_nil]
  | cons t p ih =>
    obtain ⟨m', c'⟩ := t
    simp only [insTerm]
    split
    · next h =>
      subst h
      split
      · next h0 =>
        simp only [evalPoly_cons]
        have : c * evalMono m ρ + c' * evalMono m ρ = (c + c') * evalMono m ρ := by ring
        rw [← add_assoc, this, h0]; ring
      · simp only [evalPoly_cons]; ring
    · split
      · split
        · next h0 => simp [h0]
        · simp only [evalPoly_cons]
      · simp only [evalPoly_cons, ih]; ring

theorem evalPoly_addPoly (p q : Poly) (ρ : QEnv) :
    evalPoly (addPoly p q) ρ = evalPoly p ρ + evalPoly q ρ := by
  induction p with
  | nil => simp [addPoly, evalPoly_nil]
  | cons t p ih =>
    simp only [addPoly, List.foldr_cons] at ih ⊢
    rw [evalPoly_insTerm, ih, evalPoly_cons]; ring

theorem evalPoly_mulTerm (m : Mono) (c : Rat) (q : Poly) (ρ : QEnv) :
    evalPoly (mulTerm m c q) ρ = c * evalMono m ρ * evalPoly q ρ := by
  induction q with
  | nil => simp [mulTerm, evalPoly_nil]
  | cons t q ih =>
    simp only [mulTerm, List.foldr_cons] at ih ⊢
    rw [evalPoly_insTerm, ih, evalPoly_cons, evalMono_mulMono]; ring

theorem evalPoly_mulPoly (p q : Poly) (ρ : QEnv) :
    evalPoly (mulPoly p q) ρ = evalPoly p ρ * evalPoly q ρ := by
  induction p with
  | nil => simp [mulPoly, evalPoly_nil]
  | cons t p ih =>
    simp only [mulPoly, List.foldr_cons] at ih ⊢
    rw [evalPoly_addPoly, evalPoly_mulTerm, ih, evalPoly_cons]; ring

theorem evalPoly_powPoly (p : Poly) (k : Nat) (ρ : QEnv) :
    evalPoly (powPoly p k) ρ = evalPoly p ρ ^ k := by
  induction k with
  | zero => simp [powPoly, evalPoly_cons, evalPoly_nil, evalMono_nil]
  | succ k ih => simp only [powPoly, evalPoly_mulPoly, ih]; ring

theorem evalPoly_negPoly (p : Poly) (ρ : QEnv) : evalPoly (negPoly p) ρ = - evalPoly p ρ := by
  simp [negPoly, evalPoly_mulTerm, evalMono_nil]

theorem evalPoly_constPoly (c : Rat) (ρ : QEnv) : evalPoly (constPoly c) ρ = c := by
  simp [constPoly, evalPoly_insTerm, evalMono_nil, evalPoly_nil]

theorem constOf_sound {q : Poly} {c : Rat} (h : constOf q = some c) (ρ : QEnv) : evalPoly q ρ = c := by
  unfold constOf at h
  split at h
  · cases h; rfl
  · cases h; simp [evalPoly_cons, evalPoly_nil, evalMono_nil]
  · cases h

theorem normQ_sound (e : IExpr) : ∀ {p : Poly}, normQ e = some p → ∀ ρ : QEnv, evalPoly p ρ = evalQ e ρ := by
  induction e with
  | lit n => intro p h ρ; simp only [normQ] at h; cases h; simp [evalPoly_constPoly, evalQ]
  | var v => intro p h ρ; simp only [normQ] at h; cases h; simp [evalPoly_cons, evalPoly_nil, evalMono_cons, evalMono_nil, evalQ]
  | neg a ih =>
    intro p h ρ
    simp only [normQ, Option.map_eq_some_iff] at h
    obtain ⟨q, hq, rfl⟩ := h
    simp [evalPoly_negPoly, ih hq, evalQ]
  | add a b iha ihb =>
    intro p h ρ
    simp only [normQ] at h
    split at h
    · next p' q' hp hq => cases h; simp [evalPoly_addPoly, iha hp, ihb hq, evalQ]
    · cases h
  | sub a b iha ihb =>
    intro p h ρ
    simp only [normQ] at h
    split at h
    · next p' q' hp hq => cases h; simp [evalPoly_addPoly, evalPoly_negPoly, iha hp, ihb hq, evalQ]; ring
    · cases h
  | mul a b iha ihb =>
    intro p h ρ
    simp only [normQ] at h
    split at h
    · next p' q' hp hq => cases h; simp [evalPoly_mulPoly, iha hp, ihb hq, evalQ]
    · cases h
  | div a b iha ihb =>
    intro p h ρ
    simp only [normQ] at h
    split at h
    · next p' q' hp hq =>
      split at h
      · next c hc =>
        split at h
        · cases h
        · next hc0 =>
          cases h
          have := constOf_sound hc ρ
          rw [ihb hq] at this
          simp only [evalPoly_mulTerm, evalMono_nil, iha hp, evalQ, this]
          field_simp
      · cases h
    · cases h
  | pow a k ih =>
    intro p h ρ
    simp only [normQ, Option.map_eq_some_iff] at h
    obtain ⟨q, hq, rfl⟩ := h
    simp [evalPoly_powPoly, ih hq, evalQ]
  | mod a b => intro p h; simp [normQ] at h
  | min a b => intro p h; simp [normQ] at h
  | max a b => intro p h; simp [normQ] at h
  | arr1 f i => intro p h; simp [normQ] at h
  | arr2 f i j => intro p h; simp [normQ] at h
  | arr3 f i j k => intro p h; simp [normQ] at h
  | powe a b => intro p h; simp [normQ] at h


/-! ### the translation is value preserving on the fragment -/

theorem toSymAux_wrap {brk : Bool} {a : IExpr} (h : (brk || !isPow a) = true) (acc : Option Nat) :
    toSymAux brk a acc = wrapPow acc (toSymAux brk a none) := by
  cases acc with
  | none => rfl
  | some k =>
    cases a <;> simp_all [toSymAux, wrapPow, isPow]

theorem cast_imin (a b : Int) : ((imin a b : Int) : Rat) = qmin a b := by
  unfold imin qmin
  by_cases h : a ≤ b
  · have : (a : Rat) ≤ b := by exact_mod_cast h
    simp [h, this]
  · have : ¬ (a : Rat) ≤ b := by exact_mod_cast h
    simp [h, this]

theorem cast_imax (a b : Int) : ((imax a b : Int) : Rat) = qmax a b := by
  unfold imax qmax
  by_cases h : a ≤ b
  · have : (a : Rat) ≤ b := by exact_mod_cast h
    simp [h, this]
  · have : ¬ (a : Rat) ≤ b := by exact_mod_cast h
    simp [h, this]

theorem liftEnv_f1 (ρ : Env) (f : Nat) (z : Int) : (liftEnv ρ).f1 f (z : Rat) = (ρ.f1 f z : Rat) := by
  simp [liftEnv]

theorem liftEnv_f2 (ρ : Env) (f : Nat) (y z : Int) :
    (liftEnv ρ).f2 f (y : Rat) (z : Rat) = (ρ.f2 f y z : Rat) := by
  simp [liftEnv]

theorem liftEnv_f3 (ρ : Env) (f : Nat) (x y z : Int) :
    (liftEnv ρ).f3 f (x : Rat) (y : Rat) (z : Rat) = (ρ.f3 f x y z : Rat) := by
  simp [liftEnv]

theorem hom_aux (brk : Bool) (ρ : Env) (e : IExpr) (h : frag brk e = true) :
    evalQ (toSymAux brk e none) (liftEnv ρ) = (evalF e ρ : Rat) := by
  induction e with
  | lit n => simp [toSymAux, wrapPow, evalQ, evalF]
  | var v => simp [toSymAux, wrapPow, evalQ, evalF, liftEnv]
  | neg a ih =>
    simp only [frag] at h
    simp [toSymAux, wrapPow, evalQ, evalF, ih h]
  | add a b iha ihb =>
    simp only [frag, Bool.and_eq_true] at h
    simp [toSymAux, wrapPow, evalQ, evalF, iha h.1, ihb h.2]
  | sub a b iha ihb =>
    simp only [frag, Bool.and_eq_true] at h
    simp [toSymAux, wrapPow, evalQ, evalF, iha h.1, ihb h.2]
  | mul a b iha ihb =>
    simp only [frag, Bool.and_eq_true] at h
    simp [toSymAux, wrapPow, evalQ, evalF, iha h.1, ihb h.2]
  | div a b => simp [frag] at h
  | mod a b => simp [frag] at h
  | pow a k ih =>
    simp only [frag, Bool.and_eq_true] at h
    have ih := ih h.2
    cases brk with
    | true => simp [toSymAux, wrapPow, evalQ, evalF, ih]
    | false =>
      simp only [toSymAux, Bool.false_eq_true, if_false]
      rw [toSymAux_wrap h.1]
      simp [wrapPow, evalQ, evalF, ih]
  | min a b iha ihb =>
    simp only [frag, Bool.and_eq_true] at h
    simp [toSymAux, wrapPow, evalQ, evalF, iha h.1, ihb h.2, cast_imin]
  | max a b iha ihb =>
    simp only [frag, Bool.and_eq_true] at h
    simp [toSymAux, wrapPow, evalQ, evalF, iha h.1, ihb h.2, cast_imax]
  | arr1 f i ih =>
    simp only [frag] at h
    simp only [toSymAux, wrapPow, evalQ, evalF, ih h, liftEnv_f1]
  | arr2 f i j ihi ihj =>
    simp only [frag, Bool.and_eq_true] at h
    simp only [toSymAux, wrapPow, evalQ, evalF, ihi h.1, ihj h.2, liftEnv_f2]
  | arr3 f i j k ihi ihj ihk =>
    simp only [frag, Bool.and_eq_true] at h
    simp only [toSymAux, wrapPow, evalQ, evalF, ihi h.1.1, ihj h.1.2, ihk h.2, liftEnv_f3]
  | powe a b => simp [frag] at h


/-! ### solving linear equations -/

theorem evalPoly_filter_split (f : Mono × Rat → Bool) (p : Poly) (ρ : QEnv) :
    evalPoly (p.filter f) ρ + evalPoly (p.filter (fun t => !f t)) ρ = evalPoly p ρ := by
  induction p with
  | nil => simp [evalPoly_nil]
  | cons t p ih =>
    by_cases h : f t = true
    · simp only [List.filter_cons, h, Bool.not_true, if_true, Bool.false_eq_true, if_false, evalPoly_cons, ← ih]; ring
    · simp only [Bool.not_eq_true] at h
      simp only [List.filter_cons, h, Bool.not_false, if_true, Bool.false_eq_true, if_false, evalPoly_cons, ← ih]; ring

theorem evalMono_setQ {x : Nat} {m : Mono} (h : m.contains x = false) (ρ : QEnv) (q : Rat) :
    evalMono m (ρ.set x q) = evalMono m ρ := by
  induction m with
  | nil => rfl
  | cons v m ih =>
    simp only [List.contains_cons, Bool.or_eq_false_iff, beq_eq_false_iff_ne, ne_eq] at h
    have hv : v ≠ x := fun e => h.1 e.symm
    simp only [evalMono_cons, ih h.2]
    simp [QEnv.set, hv]

theorem evalPoly_setQ {x : Nat} {p : Poly} (h : ∀ t ∈ p, t.1.contains x = false) (ρ : QEnv) (q : Rat) :
    evalPoly p (ρ.set x q) = evalPoly p ρ := by
  induction p with
  | nil => rfl
  | cons t p ih =>
    simp only [evalPoly_cons]
    rw [evalMono_setQ (h t (List.mem_cons_self ..)), ih (fun t ht => h t (List.mem_cons_of_mem _ ht))]

theorem liftEnv_set (ρ : Env) (x : Nat) (z : Int) : liftEnv (ρ.set x z) = (liftEnv ρ).set x (z : Rat) := by
  simp only [liftEnv, Env.set, QEnv.set]
  congr 1
  funext v
  split <;> rfl

/-- the value `-rest/a` of the unknown makes a polynomial `a*x + rest` (rest free of `x`) vanish, for every
rational valuation -/
theorem solve_coreQ {x : Nat} {d : Poly} {a : Rat} (ha : a ≠ 0)
    (hx : d.filter (fun t => t.1.contains x) = [([x], a)]) (ρ : QEnv) :
    evalPoly d (ρ.set x (evalPoly (mulTerm [] (-1 / a) (d.filter (fun t => !t.1.contains x))) ρ)) = 0 := by
  rw [← evalPoly_filter_split (fun t => t.1.contains x) d, hx]
  have hrest : ∀ t ∈ d.filter (fun t => !t.1.contains x), t.1.contains x = false := by
    intro t ht
    have := (List.mem_filter.mp ht).2
    simpa using this
  rw [evalPoly_setQ hrest]
  rw [evalPoly_mulTerm, evalMono_nil]
  simp only [evalPoly_cons, evalPoly_nil, evalMono_cons, evalMono_nil]
  have hv : ∀ q, (ρ.set x q).var x = q := by intro q; simp [QEnv.set]
  rw [hv]
  field_simp
  ring

theorem solve_core {x : Nat} {d : Poly} {a : Rat} (ha : a ≠ 0)
    (hx : d.filter (fun t => t.1.contains x) = [([x], a)]) (ρ : Env) (z : Int)
    (hz : evalPoly (mulTerm [] (-1 / a) (d.filter (fun t => !t.1.contains x))) (liftEnv ρ) = (z : Rat)) :
    evalPoly d (liftEnv (ρ.set x z)) = 0 := by
  rw [liftEnv_set, ← hz]
  exact solve_coreQ ha hx (liftEnv ρ)

/-! ### integer powers -/

theorem qzpow_eq_zpow (q : Rat) (z : Int) : qzpow q z = q ^ z := by
  unfold qzpow
  cases z with
  | ofNat n => simp
  | negSucc n =>
    have h1 : ¬ (0 : Int) ≤ Int.negSucc n := by omega
    rw [if_neg h1]
    have h2 : (-Int.negSucc n).toNat = n + 1 := by omega
    rw [h2, zpow_negSucc]

end C17
