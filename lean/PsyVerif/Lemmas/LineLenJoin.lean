import PsyVerif.Lemmas.LineLen
/-! Lemmas about the specification `logical` (C18): how the state machine `step` treats the pieces
`process` produces for one line. -/
namespace C18

/-! ## scan -/

theorem scan_none_fst (q : Q) (a : Line) (h : (scan q a).2.1 = none) : (scan q a).1 = a := by
  induction a generalizing q with
  | nil => simp [scan]
  | cons c cs ih =>
    simp only [scan] at h ⊢
    split
    · rename_i hc; simp [hc] at h
    · rename_i hc; simp only [hc, if_false] at h; simp [ih _ h]

theorem scan_append (q : Q) (a b : Line) (h : (scan q a).2.1 = none) :
    scan q (a ++ b) = (a ++ (scan (scan q a).2.2 b).1, (scan (scan q a).2.2 b).2.1, (scan (scan q a).2.2 b).2.2) := by
  induction a generalizing q with
  | nil => simp [scan]
  | cons c cs ih =>
    simp only [scan, List.cons_append] at h ⊢
    split
    · rename_i hc; simp [hc] at h
    · rename_i hc; simp only [hc, if_false] at h; simp [ih _ h]

theorem scan_prefix_none (q : Q) (a b : Line) (h : (scan q (a ++ b)).2.1 = none) :
    (scan q a).2.1 = none ∧ (scan (scan q a).2.2 b).2.1 = none := by
  induction a generalizing q with
  | nil => simpa [scan] using h
  | cons c cs ih =>
    simp only [scan, List.cons_append] at h ⊢
    split
    · rename_i hc; simp [hc] at h
    · rename_i hc; simp only [hc, if_false] at h; exact ih _ h

theorem scan_amp (q : Q) : scan q [38] = ([38], none, q) := by
  cases q <;> simp [scan, Q.next]

/-! ## splitCont -/

theorem splitCont_snoc (p : Line) : splitCont (p ++ [38]) = some p := by
  simp [splitCont, isWs]

theorem splitCont_snoc_blank_amp (p : Line) : splitCont (p ++ [32, 38]) = some (p ++ [32]) := by
  have : p ++ [32, 38] = (p ++ [32]) ++ [38] := by simp
  rw [this, splitCont_snoc]

theorem lastNonWs_snoc (b : Line) (c : Nat) : lastNonWs (b ++ [c]) = !isWs c := by
  simp [lastNonWs]

theorem exists_snoc (b : Line) (h : b ≠ []) : ∃ b' c, b = b' ++ [c] :=
  ⟨b.dropLast, b.getLast h, (List.dropLast_concat_getLast h).symm⟩

theorem splitCont_append (a b : Line) (hb : b ≠ []) (hl : lastNonWs b = true) :
    splitCont (a ++ b) = (splitCont b).map (a ++ ·) := by
  obtain ⟨b', c, rfl⟩ := exists_snoc b hb
  rw [lastNonWs_snoc] at hl
  have hc : isWs c = false := by simpa using hl
  simp only [splitCont, List.reverse_append, List.reverse_cons, List.reverse_nil, List.nil_append,
    List.cons_append, List.dropWhile_cons, hc]
  simp only [Bool.false_eq_true, if_false]
  by_cases h38 : c = 38
  · subst h38; simp
  · split
    · rename_i heq; cases heq; exact absurd rfl h38
    · split
      · rename_i heq; cases heq; exact absurd rfl h38
      · rfl

theorem lastNonWs_append (a b : Line) (hb : b ≠ []) : lastNonWs (a ++ b) = lastNonWs b := by
  obtain ⟨b', c, rfl⟩ := exists_snoc b hb
  rw [← List.append_assoc, lastNonWs_snoc, lastNonWs_snoc]


/-! ## run -/

theorem run_single (st : St) (l : Line) : run st [l] = step st l := by
  simp [run]

theorem run_cons (st : St) (l : Line) (ls : List Line) :
    run st (l :: ls) = ((run (step st l).1 ls).1, (step st l).2 ++ (run (step st l).1 ls).2) := rfl

theorem run_append (st : St) (a b : List Line) :
    run st (a ++ b) = ((run (run st a).1 b).1, (run st a).2 ++ (run (run st a).1 b).2) := by
  induction a generalizing st with
  | nil => simp [run]
  | cons l ls ih => simp only [List.cons_append, run_cons, ih, List.append_assoc]

/-! ## code lines -/

theorem classify_code (l : Line) (c : Nat) (r : Line) (h : lstrip l = c :: r) (hc : c ≠ 33) : classify l = 4 := by
  unfold classify; rw [h]
  split
  · rename_i heq; cases heq
  · rename_i heq; cases heq; exact absurd rfl hc
  · rfl

theorem lstrip_amp (q : Line) : lstrip (38 :: q) = 38 :: q := by simp [lstrip, isWs]

theorem step_amp_piece (txt : Line) (q : Q) (p : Line) :
    step ⟨some (txt, q), .none⟩ (38 :: p) =
      match splitCont (scan q p).1 with
      | some b => (⟨some (txt ++ b, (scan q p).2.2), .none⟩, optComment (scan q p).2.1)
      | none => (⟨none, .none⟩, optComment (scan q p).2.1 ++ [.stmt (txt ++ (scan q p).1)]) := by
  have hc : classify (38 :: p) = 4 := classify_code _ 38 p (lstrip_amp p) (by decide)
  simp only [step, hc, stepCode, content, lstrip_amp, contentOf, stmtQ, stmtText, flushAux, Option.isSome,
    if_true, List.nil_append]
  cases splitCont (scan q p).1 <;> rfl

theorem run_code_rest (qs : List Line) (hne : qs ≠ []) (txt : Line) (q : Q)
    (hscan : (scan q qs.flatten).2.1 = none) (hl : lastNonWs qs.flatten = true)
    (hseg : ∀ x ∈ qs, x ≠ []) :
    run ⟨some (txt, q), .none⟩ (render [38] [38] qs) =
      match splitCont qs.flatten with
      | some b => (⟨some (txt ++ b, (scan q qs.flatten).2.2), .none⟩, [])
      | none => (⟨none, .none⟩, [.stmt (txt ++ qs.flatten)]) := by
  induction qs generalizing txt q with
  | nil => exact absurd rfl hne
  | cons q0 rest ih =>
    cases rest with
    | nil =>
      simp only [render, List.flatten_cons, List.flatten_nil, List.append_nil] at hscan hl ⊢
      rw [run_single]
      show step _ (38 :: q0) = _
      rw [step_amp_piece, scan_none_fst _ _ hscan, hscan]
      simp [optComment]
    | cons q1 rest' =>
      have hR : (q1 :: rest').flatten ≠ [] := by
        have := hseg q1 (by simp)
        simp [this]
      simp only [List.flatten_cons] at hscan hl
      rw [← List.flatten_cons] at hscan hl
      obtain ⟨hs0, hsR⟩ := scan_prefix_none _ _ _ hscan
      simp only [render, run_cons]
      have hstep : step ⟨some (txt, q), .none⟩ ([38] ++ q0 ++ [38]) =
          (⟨some (txt ++ q0, (scan q q0).2.2), .none⟩, []) := by
        show step _ (38 :: (q0 ++ [38])) = _
        rw [step_amp_piece, scan_append _ _ _ hs0, scan_amp]
        simp [splitCont_snoc, optComment]
      rw [hstep]
      rw [lastNonWs_append _ _ hR] at hl
      rw [ih (by simp) _ _ hsR hl (fun x hx => hseg x (List.mem_cons_of_mem _ hx))]
      rw [List.flatten_cons (L := q1 :: rest'), splitCont_append _ _ hR hl, scan_append _ _ _ hs0]
      cases splitCont (q1 :: rest').flatten <;> simp


theorem lstrip_length (l : Line) : (lstrip l).length = l.length - fnw l := by
  have := lstrip_length_le l
  unfold fnw; omega

/-- the first segment contains the first non-blank character and `k-1` more -/
theorem lstrip_first_seg (l' q1 R : Line) (k : Nat) (hl' : l' = q1 ++ R) (hq1 : fnw l' + k ≤ q1.length) (hk : 0 < k) :
    k ≤ (lstrip q1).length ∧ lstrip l' = lstrip q1 ++ R := by
  have htake : l'.take q1.length = q1 := by subst hl'; simp
  have h1 := lstrip_take l' q1.length (by omega)
  rw [htake] at h1
  have hlen : (lstrip q1).length = q1.length - fnw l' := by
    rw [h1, List.length_take, lstrip_length]
    have : q1.length ≤ l'.length := by subst hl'; simp
    omega
  have hne : lstrip q1 ≠ [] := by
    intro h0; rw [h0] at hlen; simp at hlen; omega
  exact ⟨by omega, by rw [hl', lstrip_append _ _ hne]⟩

theorem contentOf_append (p : Bool) (s t : Line) (hs : s ≠ []) : contentOf p (s ++ t) = contentOf p s ++ t := by
  cases s with
  | nil => exact absurd rfl hs
  | cons c r =>
    cases p with
    | false => simp [contentOf]
    | true =>
      simp only [contentOf, if_true, List.cons_append]
      split
      · rename_i heq; cases heq; simp
      · rename_i hn
        split
        · rename_i heq; cases heq; exact absurd rfl (hn _)
        · simp

theorem classify_code_inv (l : Line) (h : classify l = 4) : ∃ c r, lstrip l = c :: r ∧ c ≠ 33 := by
  unfold classify at h
  split at h
  · cases h
  · simp only at h
    split at h
    · cases h
    · split at h <;> cases h
  · rename_i h1 h2
    cases hs : lstrip l with
    | nil => exact absurd hs h1
    | cons c r => exact ⟨c, r, rfl, fun hc => h2 r (by rw [hs, hc])⟩

theorem run_code_line (st : St) (l' q1 : Line) (qs : List Line) (hl' : l' = q1 ++ qs.flatten)
    (hq1 : fnw l' + 2 ≤ q1.length) (hcls : classify l' = 4) (hqs : qs ≠ []) (hseg : ∀ x ∈ qs, x ≠ [])
    (hsafe : (scan (stmtQ st) (content st l')).2.1 = none) (hlast : lastNonWs l' = true) :
    run st ((q1 ++ [38]) :: render [38] [38] qs) = step st l' := by
  obtain ⟨hlen, hls⟩ := lstrip_first_seg l' q1 qs.flatten 2 hl' hq1 (by omega)
  have hne : lstrip q1 ≠ [] := by intro h0; rw [h0] at hlen; simp at hlen
  obtain ⟨c, r, hcr, hc⟩ := classify_code_inv l' hcls
  have hR : qs.flatten ≠ [] := by
    cases qs with
    | nil => exact absurd rfl hqs
    | cons x xs => have := hseg x (by simp); simp [this]
  -- the first piece
  have hcont : content st l' = content st q1 ++ qs.flatten := by
    unfold content; rw [hls, contentOf_append _ _ _ hne]
  have hcont1 : content st (q1 ++ [38]) = content st q1 ++ [38] := by
    unfold content; rw [lstrip_append _ _ hne, contentOf_append _ _ _ hne]
  rw [hcont] at hsafe
  obtain ⟨hsC, hsR⟩ := scan_prefix_none _ _ _ hsafe
  have hcls1 : classify (q1 ++ [38]) = 4 := by
    cases hq : lstrip q1 with
    | nil => exact absurd hq hne
    | cons c1 r1 =>
      rw [hq] at hls; rw [hcr] at hls
      simp only [List.cons_append, List.cons.injEq] at hls
      apply classify_code _ c1 (r1 ++ [38]) (by rw [lstrip_append _ _ hne, hq]; rfl)
      rw [← hls.1]; exact hc
  have hstep1 : step st (q1 ++ [38]) =
      (⟨some (stmtText st ++ content st q1, (scan (stmtQ st) (content st q1)).2.2), .none⟩, flushAux st.aux) := by
    simp only [step, hcls1, stepCode, hcont1]
    rw [scan_append _ _ _ hsC, scan_amp]
    simp [splitCont_snoc, optComment]
  rw [run_cons, hstep1]
  have hlR : lastNonWs qs.flatten = true := by rw [hl', lastNonWs_append _ _ hR] at hlast; exact hlast
  rw [run_code_rest qs hqs _ _ hsR hlR hseg]
  simp only [step, hcls, stepCode, hcont]
  rw [scan_append _ _ _ hsC, scan_none_fst _ _ hsR, hsR, splitCont_append _ _ hR hlR]
  cases splitCont qs.flatten <;> simp [optComment]


/-! ## comment lines -/

theorem isPrefix_append (p a b : Line) (h : isPrefix p a = true) : isPrefix p (a ++ b) = true := by
  obtain ⟨t, rfl⟩ := (isPrefix_iff _ _).mp h
  exact (isPrefix_iff _ _).mpr ⟨t ++ b, by simp⟩

/-- `classify` as a function of the line without its indentation -/
def classifyS (s : Line) : Nat :=
  match s with
  | [] => 0
  | 33 :: rest =>
    let low := (33 :: rest).map lower
    if isPrefix [33, 36, 111, 109, 112] low then 1
    else if isPrefix [33, 36, 97, 99, 99] low then 2
    else 3
  | _ => 4

theorem classify_eq (l : Line) : classify l = classifyS (lstrip l) := rfl

theorem classifyS_bang (r : Line) : classifyS (33 :: r) =
    if isPrefix [33, 36, 111, 109, 112] ((33 :: r).map lower) then 1
    else if isPrefix [33, 36, 97, 99, 99] ((33 :: r).map lower) then 2 else 3 := rfl

theorem classifyS_head (s : Line) (h : classifyS s = 1 ∨ classifyS s = 2 ∨ classifyS s = 3) :
    ∃ r, s = 33 :: r := by
  unfold classifyS at h
  split at h
  · simp at h
  · exact ⟨_, rfl⟩
  · simp at h

theorem classifyS_prefix_comment (s1 R : Line) (hs : s1 ≠ []) (h : classifyS (s1 ++ R) = 3) : classifyS s1 = 3 := by
  obtain ⟨r, hr⟩ := classifyS_head _ (Or.inr (Or.inr h))
  cases s1 with
  | nil => exact absurd rfl hs
  | cons c r1 =>
    simp only [List.cons_append, List.cons.injEq] at hr
    obtain ⟨rfl, rfl⟩ := hr
    change classifyS (33 :: (r1 ++ R)) = 3 at h
    rw [classifyS_bang] at h
    rw [classifyS_bang]
    have e : List.map lower (33 :: (r1 ++ R)) = List.map lower (33 :: r1) ++ List.map lower R := by simp
    rw [e] at h
    split at h
    · cases h
    · rename_i h1
      split at h
      · cases h
      · rename_i h2
        have h1' : ¬ isPrefix [33, 36, 111, 109, 112] (List.map lower (33 :: r1)) = true :=
          fun hh => h1 (isPrefix_append _ _ _ hh)
        have h2' : ¬ isPrefix [33, 36, 97, 99, 99] (List.map lower (33 :: r1)) = true :=
          fun hh => h2 (isPrefix_append _ _ _ hh)
        rw [if_neg h1', if_neg h2']

theorem classify_com_piece (q : Line) : classify (33 :: 38 :: 32 :: q) = 3 := by
  simp [classify, lstrip, isWs, isPrefix, lower]

theorem step_com_piece (stmt : Option (Line × Q)) (t q : Line) :
    step ⟨stmt, .com t⟩ (33 :: 38 :: 32 :: q) = (⟨stmt, .com (t ++ q)⟩, []) := by
  have hl : lstrip (33 :: 38 :: 32 :: q) = 33 :: 38 :: 32 :: q := by simp [lstrip, isWs]
  simp only [step, classify_com_piece, stepComment, hl, comCont, isPrefix]
  simp

theorem run_com_rest (qs : List Line) (stmt : Option (Line × Q)) (t : Line) :
    run ⟨stmt, .com t⟩ (render [33, 38, 32] [] qs) = (⟨stmt, .com (t ++ qs.flatten)⟩, []) := by
  induction qs generalizing t with
  | nil => simp [render, run]
  | cons q0 rest ih =>
    cases rest with
    | nil =>
      simp only [render, run_single, List.flatten_cons, List.flatten_nil, List.append_nil]
      exact step_com_piece stmt t q0
    | cons q1 rest' =>
      simp only [render, run_cons, List.append_nil]
      have := step_com_piece stmt t q0
      simp only [List.cons_append, List.nil_append] at this ⊢
      rw [this, ih]
      simp

theorem comCont_append (s1 R : Line) (hlen : 2 ≤ s1.length) (hno : s1 ≠ [33, 38]) :
    comCont (s1 ++ R) = (comCont s1).map (· ++ R) := by
  match s1, hlen, hno with
  | [a, b], _, hno =>
    have : ¬ (a = 33 ∧ b = 38) := by rintro ⟨rfl, rfl⟩; exact hno rfl
    have h1 : isPrefix [33, 38, 32] ([a, b] ++ R) = false := by
      cases R with
      | nil => simp [isPrefix]
      | cons c R =>
        simp only [isPrefix, List.cons_append, List.nil_append]
        by_cases ha : a = 33
        · have hb : b ≠ 38 := fun hb => this ⟨ha, hb⟩
          simp [ha, Ne.symm hb]
        · simp [Ne.symm ha]
    have h2 : isPrefix [33, 38, 32] [a, b] = false := by simp [isPrefix]
    simp only [List.cons_append, List.nil_append] at h1
    simp [comCont, h1, h2]
  | a :: b :: c :: r, _, _ =>
    simp only [comCont, isPrefix, List.cons_append]
    split <;> simp_all

theorem run_comment_line (st : St) (l' q1 : Line) (qs : List Line) (hl' : l' = q1 ++ qs.flatten)
    (hq1 : fnw l' + 2 ≤ q1.length) (hcls : classify l' = 3) (hno : lstrip q1 ≠ [33, 38]) :
    run st (q1 :: render [33, 38, 32] [] qs) = step st l' := by
  obtain ⟨hlen, hls⟩ := lstrip_first_seg l' q1 qs.flatten 2 hl' hq1 (by omega)
  have hne : lstrip q1 ≠ [] := by intro h0; rw [h0] at hlen; simp at hlen
  have hcls1 : classify q1 = 3 := by
    rw [classify_eq] at hcls ⊢
    rw [hls] at hcls
    exact classifyS_prefix_comment _ _ hne hcls
  have hcc := comCont_append (lstrip q1) qs.flatten hlen hno
  rw [run_cons]
  simp only [step, hcls, hcls1, stepComment, hls, hcc]
  cases hcom : comCont (lstrip q1) with
  | none =>
    simp only [Option.map_none]
    rw [run_com_rest]; simp
  | some rest1 =>
    cases haux : st.aux with
    | none => simp only [Option.map_some]; rw [run_com_rest]; simp
    | dir k s => simp only [Option.map_some]; rw [run_com_rest]; simp
    | com t => simp only [Option.map_some]; rw [run_com_rest]; simp


/-! ## directive lines: the lexer -/

def blank (s : LexSt) : LexSt := ⟨flushTok s, []⟩

theorem lexStep_32 (s : LexSt) : lexStep s 32 = blank s := by simp [lexStep, isWs, blank]

theorem blank_blank (s : LexSt) : blank (blank s) = blank s := by simp [blank, flushTok]

theorem flushTok_blank (s : LexSt) : flushTok (blank s) = flushTok s := by simp [blank, flushTok]

theorem lexFeed_append (s : LexSt) (a b : Line) : lexFeed s (a ++ b) = lexFeed (lexFeed s a) b := by
  simp [lexFeed, List.foldl_append]

theorem lexFeed_cons (s : LexSt) (c : Nat) (b : Line) : lexFeed s (c :: b) = lexFeed (lexStep s c) b := rfl

theorem lexFeed_nil (s : LexSt) : lexFeed s [] = s := rfl

/-- a blank in front of a character that does not extend the current token changes nothing -/
theorem lexStep_blank (s : LexSt) (c : Nat) (h : joins s.cur c = false) : lexStep (blank s) c = lexStep s c := by
  unfold lexStep
  by_cases hw : isWs c = true
  · simp [hw, flushTok_blank]
  · simp only [hw, if_false, h, Bool.false_eq_true]
    have : joins (blank s).cur c = false := by simp [blank, joins]
    simp [this, flushTok_blank]

theorem lexFeed_blank (s : LexSt) (c : Nat) (b : Line) (h : joins s.cur c = false) :
    lexFeed (blank s) (c :: b) = lexFeed s (c :: b) := by
  rw [lexFeed_cons, lexFeed_cons, lexStep_blank s c h]

def keyCh (k : Nat) : Prop := k = 32 ∨ k = 44 ∨ k = 41 ∨ k = 61

/-- after a key character the next character starts a new token (for `=`: unless it is `=` or `>`) -/
theorem joins_after_key (s : LexSt) (k c : Nat) (hk : keyCh k) (hc : k = 61 → c ≠ 61 ∧ c ≠ 62) :
    joins (lexStep s k).cur c = false := by
  rcases hk with rfl | rfl | rfl | rfl
  · simp [lexStep, isWs, joins]
  · simp [lexStep, isWs, joins, wordCh, isPunct]
  · simp [lexStep, isWs, joins, wordCh, isPunct]
  · obtain ⟨h1, h2⟩ := hc rfl
    by_cases hcur : s.cur = [61]
    · simp [lexStep, isWs, joins, wordCh, isPunct, hcur]
    · simp [lexStep, isWs, joins, wordCh, isPunct, hcur, h1, h2]

/-! ## cutBang, noCompoundEq -/

theorem cutBang_none_fst (a : Line) (h : (cutBang a).2 = none) : (cutBang a).1 = a := by
  induction a with
  | nil => rfl
  | cons c cs ih =>
    simp only [cutBang] at h ⊢
    split
    · rename_i hc; simp [hc] at h
    · rename_i hc; simp only [hc, if_false] at h; simp [ih h]

theorem cutBang_append (a b : Line) : (cutBang (a ++ b)).2 = none ↔ (cutBang a).2 = none ∧ (cutBang b).2 = none := by
  induction a with
  | nil => simp [cutBang]
  | cons c cs ih =>
    simp only [cutBang, List.cons_append]
    split
    · simp
    · simpa using ih

theorem noCompoundEq_suffix (a b : Line) (h : noCompoundEq (a ++ b) = true) : noCompoundEq b = true := by
  induction a with
  | nil => simpa using h
  | cons c cs ih =>
    cases hcs : cs ++ b with
    | nil =>
      have : b = [] := by cases cs <;> simp_all
      subst this; rfl
    | cons d r =>
      simp only [List.cons_append, hcs, noCompoundEq, Bool.and_eq_true] at h
      rw [hcs] at ih; exact ih h.2

theorem noCompoundEq_mid (p : Line) (a b : Nat) (r : Line) (h : noCompoundEq (p ++ a :: b :: r) = true) :
    a = 61 → b ≠ 61 ∧ b ≠ 62 := by
  have := noCompoundEq_suffix p _ h
  simp only [noCompoundEq, Bool.and_eq_true, Bool.not_eq_true', Bool.and_eq_false_iff, Bool.or_eq_false_iff] at this
  intro ha; subst ha
  rcases this.1 with h1 | h1
  · simp at h1
  · simpa using h1


/-! ## directive lines: the pieces -/

def sent (k : Nat) : Line := if k = 1 then [33, 36, 111, 109, 112] else [33, 36, 97, 99, 99]

theorem step_dir_piece (stmt : Option (Line × Q)) (k : Nat) (hk : k = 1 ∨ k = 2) (s : LexSt) (p : Line)
    (hp : (cutBang p).2 = none) :
    step ⟨stmt, .dir k s⟩ (sent k ++ 38 :: 32 :: p) =
      match splitCont (32 :: p) with
      | some b => (⟨stmt, .dir k (lexFeed s (b ++ [32]))⟩, [])
      | none => (⟨stmt, .none⟩, [.dir k (flushTok (lexFeed s (32 :: p)))]) := by
  have hcb : cutBang (32 :: p) = (32 :: p, none) := by
    simp [cutBang, cutBang_none_fst p hp, hp]
  rcases hk with rfl | rfl
  · have hl : lstrip (sent 1 ++ 38 :: 32 :: p) = 33 :: 36 :: 111 :: 109 :: 112 :: 38 :: 32 :: p := by
      simp [sent, lstrip, isWs]
    have hc : classify (sent 1 ++ 38 :: 32 :: p) = 1 := by
      simp [classify, hl, isPrefix, lower]
    simp only [step, hc, stepDir, hl, List.drop_succ_cons, List.drop_zero, dirIsCont, dirBody, dirStart,
      if_true, hcb, Bool.true_and, decide_true, optComment, List.append_nil, List.nil_append]
    cases splitCont (32 :: p) <;> simp
  · have hl : lstrip (sent 2 ++ 38 :: 32 :: p) = 33 :: 36 :: 97 :: 99 :: 99 :: 38 :: 32 :: p := by
      simp [sent, lstrip, isWs]
    have hc : classify (sent 2 ++ 38 :: 32 :: p) = 2 := by
      simp [classify, hl, isPrefix, lower]
    simp only [step, hc, stepDir, hl, List.drop_succ_cons, List.drop_zero, dirIsCont, dirBody, dirStart,
      if_true, hcb, Bool.true_and, decide_true, optComment, List.append_nil, List.nil_append]
    cases splitCont (32 :: p) <;> simp

theorem splitCont_some_prefix (x b : Line) (h : splitCont x = some b) : ∃ t, x = b ++ 38 :: t := by
  unfold splitCont at h
  split at h
  · rename_i rest heq
    cases h
    have := List.takeWhile_append_dropWhile (p := isWs) (l := x.reverse)
    rw [heq] at this
    generalize x.reverse.takeWhile isWs = tw at this
    have h2 := congrArg List.reverse this
    simp only [List.reverse_append, List.reverse_cons, List.reverse_reverse] at h2
    exact ⟨tw.reverse, by rw [← h2]; simp⟩
  · cases h

/-- the segments of a directive line: every segment but the last ends with a key character, and a
segment ending with `=` is not followed by `=` or `>` -/
def DirSegs : List Line → Prop
  | [] => True
  | [_] => True
  | q :: q' :: qs => (∃ p k, q = p ++ [k] ∧ keyCh k ∧ ∀ c r, q' = c :: r → k = 61 → c ≠ 61 ∧ c ≠ 62) ∧
      DirSegs (q' :: qs)

theorem run_dir_rest (k : Nat) (hk : k = 1 ∨ k = 2) (qs : List Line) (hne : qs ≠ []) (stmt : Option (Line × Q))
    (sIn : LexSt) (hbang : (cutBang qs.flatten).2 = none) (hl : lastNonWs qs.flatten = true)
    (hseg : ∀ x ∈ qs, x ≠ []) (hkeys : DirSegs qs)
    (hb : ∀ c r, qs.flatten = c :: r → joins sIn.cur c = false) :
    run ⟨stmt, .dir k (blank sIn)⟩ (render (sent k ++ [38, 32]) [32, 38] qs) =
      match splitCont qs.flatten with
      | some b => (⟨stmt, .dir k (blank (lexFeed sIn b))⟩, [])
      | none => (⟨stmt, .none⟩, [.dir k (flushTok (lexFeed sIn qs.flatten))]) := by
  induction qs generalizing sIn with
  | nil => exact absurd rfl hne
  | cons q0 rest ih =>
    have hq0 : q0 ≠ [] := hseg q0 (by simp)
    obtain ⟨c0, r0, hq0c⟩ : ∃ c r, q0 = c :: r := by
      cases q0 with
      | nil => exact absurd rfl hq0
      | cons c r => exact ⟨c, r, rfl⟩
    have hj : joins sIn.cur c0 = false := hb c0 (r0 ++ rest.flatten) (by simp [hq0c])
    cases rest with
    | nil =>
      simp only [render, List.flatten_cons, List.flatten_nil, List.append_nil] at hbang hl ⊢
      rw [run_single]
      have : sent k ++ [38, 32] ++ q0 = sent k ++ 38 :: 32 :: q0 := by simp
      rw [this, step_dir_piece stmt k hk _ q0 hbang]
      have hsc : splitCont (32 :: q0) = (splitCont q0).map ([32] ++ ·) := splitCont_append [32] q0 hq0 hl
      rw [hsc]
      cases hs : splitCont q0 with
      | none =>
        simp only [Option.map_none]
        rw [lexFeed_cons, lexStep_32, blank_blank, hq0c, lexFeed_blank _ _ _ hj]
      | some b =>
        simp only [Option.map_some]
        have : lexFeed (blank sIn) ([32] ++ b ++ [32]) = blank (lexFeed sIn b) := by
          have e : [32] ++ b ++ [32] = 32 :: (b ++ [32]) := by simp
          rw [e, lexFeed_cons, lexStep_32, blank_blank, lexFeed_append]
          cases b with
          | nil => simp [lexFeed, lexStep_32, blank_blank]
          | cons c r =>
            obtain ⟨t, ht⟩ := splitCont_some_prefix _ _ hs
            have : c = c0 := by rw [hq0c] at ht; simp at ht; exact ht.1.symm
            subst this
            rw [lexFeed_blank _ _ _ hj]
            simp [lexFeed, lexStep_32]
        rw [this]
    | cons q1 rest' =>
      have hR : (q1 :: rest').flatten ≠ [] := by
        have := hseg q1 (by simp)
        simp [this]
      simp only [List.flatten_cons] at hbang hl
      rw [← List.flatten_cons] at hbang hl
      obtain ⟨hb0, hbR⟩ := (cutBang_append _ _).mp hbang
      rw [lastNonWs_append _ _ hR] at hl
      obtain ⟨⟨p, k0, hpk, hkey, hnext⟩, hkeys'⟩ := hkeys
      simp only [render, run_cons]
      have e1 : sent k ++ [38, 32] ++ q0 ++ [32, 38] = sent k ++ 38 :: 32 :: (q0 ++ [32, 38]) := by simp
      have hp : (cutBang (q0 ++ [32, 38])).2 = none := (cutBang_append _ _).mpr ⟨hb0, by simp [cutBang]⟩
      have e2 : splitCont (32 :: (q0 ++ [32, 38])) = some (32 :: q0 ++ [32]) := by
        have : 32 :: (q0 ++ [32, 38]) = (32 :: q0) ++ [32, 38] := by simp
        rw [this, splitCont_snoc_blank_amp]
      have e3 : lexFeed (blank sIn) (32 :: q0 ++ [32] ++ [32]) = blank (lexFeed sIn q0) := by
        rw [List.append_assoc, List.cons_append, lexFeed_cons, lexStep_32, blank_blank, lexFeed_append, hq0c,
          lexFeed_blank _ _ _ hj]
        simp [lexFeed, lexStep_32, blank_blank]
      rw [e1, step_dir_piece stmt k hk _ _ hp, e2]
      simp only [e3]
      have hb' : ∀ c r, (q1 :: rest').flatten = c :: r → joins (lexFeed sIn q0).cur c = false := by
        intro c r hcr
        rw [hpk, lexFeed_append, lexFeed_cons, lexFeed_nil]
        apply joins_after_key _ _ _ hkey
        have hq1 : q1 ≠ [] := hseg q1 (by simp)
        cases q1 with
        | nil => exact absurd rfl hq1
        | cons c' r' =>
          simp at hcr
          exact hnext c r' (by rw [hcr.1])
      rw [ih (by simp) (lexFeed sIn q0) hbR hl (fun x hx => hseg x (List.mem_cons_of_mem _ hx)) hkeys' hb']
      rw [List.flatten_cons (L := q1 :: rest'), splitCont_append _ _ hR hl]
      cases splitCont (q1 :: rest').flatten <;> simp [lexFeed_append]


/-! ## directive lines: the first piece -/

theorem sent_mem_not_key (k : Nat) (x : Nat) (hx : x ∈ sent k) : ¬ keyCh x ∧ x ≠ 38 := by
  unfold sent at hx
  unfold keyCh
  split at hx <;> simp at hx <;> omega

theorem lower_key (k0 : Nat) (h : keyCh k0) : lower k0 = k0 := by
  rcases h with rfl | rfl | rfl | rfl <;> decide

theorem sent_length (k : Nat) : (sent k).length = 5 := by unfold sent; split <;> rfl

theorem suffix_last (a b p : Line) (k0 : Nat) (h : a ++ b = p ++ [k0]) (hb : b ≠ []) : ∃ p', b = p' ++ [k0] := by
  obtain ⟨b', c, rfl⟩ := exists_snoc b hb
  rw [← List.append_assoc] at h
  have := List.append_inj_right' h rfl
  simp at this; subst this
  exact ⟨b', rfl⟩

theorem lstrip_suffix (l : Line) : ∃ w, l = w ++ lstrip l :=
  ⟨l.take (fnw l), by rw [← drop_fnw, List.take_append_drop]⟩

theorem first_seg_long (k : Nat) (S1 R p : Line) (k0 : Nat) (hS : S1 = p ++ [k0]) (hkey : keyCh k0)
    (hpre : isPrefix (sent k) ((S1 ++ R).map lower) = true) : 6 ≤ S1.length ∧ S1.drop 5 ≠ [38] := by
  obtain ⟨t, ht⟩ := (isPrefix_iff _ _).mp hpre
  have h6 : 6 ≤ S1.length := by
    by_cases hlen : S1.length ≤ 5
    case neg => omega
    exfalso
    have h1 := congrArg (List.take S1.length) ht
    rw [List.map_append, List.take_append_of_le_length (by simp), List.take_of_length_le (by simp),
      List.take_append_of_le_length (by rw [sent_length]; exact hlen)] at h1
    have hm : lower k0 ∈ List.map lower S1 := by rw [hS]; simp
    rw [h1, lower_key _ hkey] at hm
    exact (sent_mem_not_key k k0 (List.mem_of_mem_take hm)).1 hkey
  refine ⟨h6, fun h38 => ?_⟩
  have := List.take_append_drop 5 S1
  rw [h38, hS] at this
  have := List.append_inj_right' this rfl
  simp at this
  subst this
  unfold keyCh at hkey; omega

theorem cutBang_dirBody (a : Line) (h : (cutBang a).2 = none) : (cutBang (dirBody a)).2 = none := by
  unfold dirBody
  split
  · cases a with
    | nil => simpa using h
    | cons c r =>
      simp only [cutBang] at h
      split at h
      · simp at h
      · simpa using h
  · exact h

theorem dir_rest_append (r1 X : Line) (h : r1 ≠ []) :
    dirIsCont (r1 ++ X) = dirIsCont r1 ∧ dirBody (r1 ++ X) = dirBody r1 ++ X := by
  cases r1 with
  | nil => exact absurd rfl h
  | cons c r' =>
    by_cases hc : c = 38
    · subst hc; simp [dirIsCont, dirBody]
    · have h1 : ∀ y, dirIsCont (c :: y) = false := by
        intro y; unfold dirIsCont; split
        · rename_i heq; cases heq; exact absurd rfl hc
        · rfl
      simp [dirBody, h1]

theorem classifyS_long (S1 X Y : Line) (h5 : 5 ≤ S1.length) : classifyS (S1 ++ X) = classifyS (S1 ++ Y) := by
  match S1, h5 with
  | a :: b :: c :: d :: e :: r, _ =>
    by_cases ha : a = 33
    · subst ha
      simp only [List.cons_append, classifyS_bang, List.map_cons, isPrefix]
    · have h4 : ∀ y, classifyS (a :: y) = 4 := by
        intro y; unfold classifyS; split
        · rename_i heq; cases heq
        · rename_i heq; cases heq; exact absurd rfl ha
        · rfl
      simp [h4]

theorem classifyS_sent (k : Nat) (hk : k = 1 ∨ k = 2) (s : Line) (h : classifyS s = k) :
    isPrefix (sent k) (s.map lower) = true := by
  obtain ⟨r, rfl⟩ := classifyS_head s (by rcases hk with rfl | rfl <;> simp [h])
  rw [classifyS_bang] at h
  rcases hk with rfl | rfl
  · split at h
    · rename_i h1; exact h1
    · split at h <;> cases h
  · split at h
    · cases h
    · split at h
      · rename_i h2; exact h2
      · cases h

theorem run_dir_line (st : St) (k : Nat) (hk : k = 1 ∨ k = 2) (l' q1 p : Line) (k0 : Nat) (qs : List Line)
    (hl' : l' = q1 ++ qs.flatten) (hq1 : fnw l' + 2 ≤ q1.length) (hcls : classify l' = k)
    (hpk : q1 = p ++ [k0]) (hkey : keyCh k0)
    (hbnd : ∀ c r, qs.flatten = c :: r → k0 = 61 → c ≠ 61 ∧ c ≠ 62)
    (hqs : qs ≠ []) (hseg : ∀ x ∈ qs, x ≠ []) (hkeys : DirSegs qs)
    (hbang : (cutBang ((lstrip l').drop 5)).2 = none) (hlast : lastNonWs l' = true) :
    run st ((q1 ++ [32, 38]) :: render (sent k ++ [38, 32]) [32, 38] qs) = step st l' := by
  obtain ⟨hlen, hls⟩ := lstrip_first_seg l' q1 qs.flatten 2 hl' hq1 (by omega)
  have hne : lstrip q1 ≠ [] := by intro h0; rw [h0] at hlen; simp at hlen
  have hR : qs.flatten ≠ [] := by
    cases qs with
    | nil => exact absurd rfl hqs
    | cons x xs => have := hseg x (by simp); simp [this]
  obtain ⟨w, hw⟩ := lstrip_suffix q1
  obtain ⟨p1, hp1⟩ := suffix_last w (lstrip q1) p k0 (by rw [← hw, hpk]) hne
  have hclsS : classifyS (lstrip q1 ++ qs.flatten) = k := by rw [← hls, ← classify_eq]; exact hcls
  obtain ⟨h6, h38⟩ := first_seg_long k (lstrip q1) qs.flatten p1 k0 hp1 hkey (classifyS_sent k hk _ hclsS)
  have hr1 : (lstrip q1).drop 5 ≠ [] := by
    intro h0
    have := List.drop_eq_nil_iff.mp h0
    omega
  -- the rest of the first segment after the sentinel, and the directive text in it
  have hdrop : ∀ X, (lstrip q1 ++ X).drop 5 = (lstrip q1).drop 5 ++ X := fun X =>
    List.drop_append_of_le_length (by omega)
  obtain ⟨hic, hbody⟩ := dir_rest_append ((lstrip q1).drop 5) qs.flatten hr1
  obtain ⟨hic1, hbody1⟩ := dir_rest_append ((lstrip q1).drop 5) [32, 38] hr1
  have hb1ne : dirBody ((lstrip q1).drop 5) ≠ [] := by
    cases hr : (lstrip q1).drop 5 with
    | nil => exact absurd hr hr1
    | cons c r' =>
      by_cases hc : c = 38
      · subst hc
        have : r' ≠ [] := by intro h0; subst h0; exact h38 hr
        simpa [dirBody, dirIsCont] using this
      · have h1 : dirIsCont (c :: r') = false := by
          unfold dirIsCont; split
          · rename_i heq; cases heq; exact absurd rfl hc
          · rfl
        simp [dirBody, h1]
  -- the directive text of the first segment ends with the key character
  obtain ⟨pb, hpb⟩ : ∃ pb, dirBody ((lstrip q1).drop 5) = pb ++ [k0] := by
    have hsuf : ∃ a, lstrip q1 = a ++ dirBody ((lstrip q1).drop 5) := by
      unfold dirBody; split
      · exact ⟨(lstrip q1).take 6, by rw [List.drop_drop]; exact (List.take_append_drop 6 _).symm⟩
      · exact ⟨(lstrip q1).take 5, (List.take_append_drop 5 _).symm⟩
    obtain ⟨a, ha⟩ := hsuf
    exact suffix_last a _ p1 k0 (by rw [← ha, hp1]) hb1ne
  rw [hls, hdrop] at hbang
  obtain ⟨hbg0, hbgR⟩ := (cutBang_append _ _).mp hbang
  have hbg1 := cutBang_dirBody _ hbg0
  have hlR : lastNonWs qs.flatten = true := by rw [hl', lastNonWs_append _ _ hR] at hlast; exact hlast
  -- first piece
  have hcls1 : classify (q1 ++ [32, 38]) = k := by
    rw [classify_eq, lstrip_append _ _ hne, classifyS_long _ _ qs.flatten (by omega)]; exact hclsS
  have hcb1 : cutBang (dirBody ((lstrip q1).drop 5) ++ [32, 38]) = (dirBody ((lstrip q1).drop 5) ++ [32, 38], none) := by
    have h2 : (cutBang (dirBody ((lstrip q1).drop 5) ++ [32, 38])).2 = none :=
      (cutBang_append _ _).mpr ⟨hbg1, by simp [cutBang]⟩
    exact Prod.ext (cutBang_none_fst _ h2) h2
  have hstep1 : step st (q1 ++ [32, 38]) =
      (⟨st.stmt, .dir k (blank (lexFeed (dirStart st.aux k (dirIsCont ((lstrip q1).drop 5))).1
          (dirBody ((lstrip q1).drop 5))))⟩,
       (dirStart st.aux k (dirIsCont ((lstrip q1).drop 5))).2) := by
    have hsd : step st (q1 ++ [32, 38]) = stepDir st k (q1 ++ [32, 38]) := by
      unfold step; rw [hcls1]; rcases hk with rfl | rfl <;> rfl
    rw [hsd]
    simp only [stepDir, lstrip_append _ _ hne, hdrop, hic1, hbody1, hcb1, splitCont_snoc_blank_amp]
    simp [optComment, lexFeed, lexStep_32, blank_blank]
  rw [run_cons, hstep1]
  have hbnd' : ∀ c r, qs.flatten = c :: r →
      joins (lexFeed (dirStart st.aux k (dirIsCont ((lstrip q1).drop 5))).1 (dirBody ((lstrip q1).drop 5))).cur c = false := by
    intro c r hcr
    rw [hpb, lexFeed_append, lexFeed_cons, lexFeed_nil]
    exact joins_after_key _ _ _ hkey (hbnd c r hcr)
  rw [run_dir_rest k hk qs hqs st.stmt _ hbgR hlR hseg hkeys hbnd']
  -- the whole line
  have hsd : step st l' = stepDir st k l' := by
    unfold step; rw [hcls]; rcases hk with rfl | rfl <;> rfl
  rw [hsd]
  have hcbR : cutBang (dirBody ((lstrip q1).drop 5) ++ qs.flatten) = (dirBody ((lstrip q1).drop 5) ++ qs.flatten, none) := by
    have h2 := (cutBang_append _ _).mpr ⟨hbg1, hbgR⟩
    exact Prod.ext (cutBang_none_fst _ h2) h2
  simp only [stepDir, hls, hdrop, hic, hbody, hcbR, splitCont_append _ _ hR hlR]
  cases splitCont qs.flatten <;> simp [optComment, lexFeed, lexStep_32]


/-! ## line types of the implementation versus classes of the specification (table facts) -/

theorem lower_ne_bang (c : Nat) (h : c ≠ 33) : lower c ≠ 33 := by
  unfold lower; split
  · rename_i hc; simp at hc; omega
  · exact h

theorem lineType_of_bang (l r : Line) (h : lstrip l = 33 :: r) : lineType l = classifyS (33 :: r) := by
  rw [classifyS_bang]
  simp only [lineType, matchesAny, h, Gen.statPrefixes, Gen.statIgnoreCase, Gen.ompPrefixes, Gen.ompIgnoreCase,
    Gen.accPrefixes, Gen.accIgnoreCase, Gen.commentPrefixes, Gen.commentIgnoreCase, if_true, List.map_cons,
    List.any_cons, List.any_nil, isPrefix, Bool.or_false]
  simp [lower, isPrefix]

theorem lineType_of_code (l : Line) (c : Nat) (r : Line) (h : lstrip l = c :: r) (hc : c ≠ 33) :
    lineType l = 0 ∨ lineType l = 4 := by
  have := lower_ne_bang c hc
  have h1 : (33 == lower c) = false := by simp; exact fun h => this h.symm
  have h2 : (33 == c) = false := by simp; exact fun h => hc h.symm
  simp only [lineType, matchesAny, h, Gen.statIgnoreCase, Gen.ompPrefixes, Gen.ompIgnoreCase,
    Gen.accPrefixes, Gen.accIgnoreCase, Gen.commentPrefixes, Gen.commentIgnoreCase, if_true, List.map_cons,
    List.any_cons, List.any_nil, isPrefix, Bool.or_false, Bool.false_eq_true, if_false, h1, h2, Bool.false_and]
  split
  · left; rfl
  · right; rfl

/-! ## `step` only looks at the line without its indentation -/

theorem step_lstrip (st : St) (l : Line) : step st (lstrip l) = step st l := by
  simp only [step, classify_eq, stepDir, stepComment, stepCode, content, lstrip_idem]

theorem Segs_nonempty (cs ce : Line) (keys : List Line) (L : Nat) (qs : List Line) (h : Segs cs ce keys L qs) :
    ∀ x ∈ qs, x ≠ [] := by
  induction qs with
  | nil => simp
  | cons q rest ih =>
    cases rest with
    | nil => simp only [Segs] at h; intro x hx; simp at hx; subst hx; exact h.1
    | cons q' rest' =>
      simp only [Segs] at h
      intro x hx
      rcases List.mem_cons.mp hx with rfl | hx
      · exact h.1
      · exact ih h.2.2.2 x hx

theorem key_dir (k : Nat) (hk : k = 1 ∨ k = 2) (key q : Line) (hkey : key ∈ Gen.keyList k) (hs : key <:+ q) :
    ∃ p k0, q = p ++ [k0] ∧ keyCh k0 := by
  obtain ⟨p, hp⟩ := hs
  have : key = [32] ∨ key = [44] ∨ key = [41] ∨ key = [61] := by
    rcases hk with rfl | rfl <;> simpa [Gen.keyList] using hkey
  unfold keyCh
  rcases this with rfl | rfl | rfl | rfl
  · exact ⟨p, 32, hp.symm, by simp⟩
  · exact ⟨p, 44, hp.symm, by simp⟩
  · exact ⟨p, 41, hp.symm, by simp⟩
  · exact ⟨p, 61, hp.symm, by simp⟩

theorem Segs_dir (k : Nat) (hk : k = 1 ∨ k = 2) (cs ce : Line) (L : Nat) (qs : List Line)
    (h : Segs cs ce (Gen.keyList k) L qs) (hn : noCompoundEq qs.flatten = true) : DirSegs qs := by
  induction qs with
  | nil => trivial
  | cons q rest ih =>
    cases rest with
    | nil => trivial
    | cons q' rest' =>
      simp only [Segs] at h
      obtain ⟨_, _, ⟨key, hkey, hsuf⟩, hrest⟩ := h
      obtain ⟨p, k0, hq, hk0⟩ := key_dir k hk key q hkey hsuf
      refine ⟨⟨p, k0, hq, hk0, ?_⟩, ih hrest ?_⟩
      · intro c r hc
        subst hq hc
        simp only [List.flatten_cons, List.append_assoc, List.cons_append, List.nil_append] at hn
        exact noCompoundEq_mid p k0 c _ hn
      · simp only [List.flatten_cons] at hn ⊢
        exact noCompoundEq_suffix q _ hn


/-! ## one split line -/

theorem classifyS_vals (r : Line) : classifyS (33 :: r) = 1 ∨ classifyS (33 :: r) = 2 ∨ classifyS (33 :: r) = 3 := by
  rw [classifyS_bang]; split
  · left; rfl
  · split
    · right; left; rfl
    · right; right; rfl

theorem run_split (L : Nat) (st : St) (l l' : Line) (ps : List Line) (hl' : l' = l ∨ l' = lstrip l)
    (hs : SplitShape L (lineType l) l' ps) (hsafe : safeLine st l = true) : run st ps = step st l := by
  obtain ⟨q1, qs, hl'eq, hps, ⟨key, hkey, hklen, hksuf⟩, _, hseg, hqs0⟩ := hs
  have hkne : key ≠ [] := by
    have : ∀ t, ∀ key ∈ Gen.keyList t, key ≠ [] := by
      intro t
      match t with
      | 0 | 1 | 2 | 3 => decide
      | (n + 4) => simp [Gen.keyList]
    exact this _ key hkey
  have hq1 : fnw l' + 2 ≤ q1.length := by
    have : 0 < key.length := List.length_pos_iff.mpr hkne
    omega
  have hstrip : lstrip l' = lstrip l := by rcases hl' with rfl | rfl; rfl; exact lstrip_idem l
  have hstep : step st l' = step st l := by rcases hl' with rfl | rfl; rfl; exact step_lstrip st l
  have hclseq : classify l' = classify l := by rw [classify_eq, classify_eq, hstrip]
  have hcont : content st l' = content st l := by unfold content; rw [hstrip]
  have hsegne := Segs_nonempty _ _ _ _ _ hseg
  have hlen2 : 2 ≤ (lstrip l).length := by
    rw [← hstrip, lstrip_length]
    have : q1.length ≤ l'.length := by rw [hl'eq]; simp
    omega
  have hlast' : lastNonWs l = true → lastNonWs l' = true := by
    intro h
    rcases hl' with rfl | rfl
    · exact h
    · obtain ⟨w, hw⟩ := lstrip_suffix l
      rw [hw, lastNonWs_append _ _ (by intro h0; rw [h0] at hlen2; simp at hlen2)] at h
      exact h
  rw [← hstep]
  cases hlr : lstrip l with
  | nil => rw [hlr] at hlen2; simp at hlen2
  | cons c r =>
    by_cases hc : c = 33
    · subst hc
      have hlt := lineType_of_bang l r hlr
      have hcl : classify l = classifyS (33 :: r) := by rw [classify_eq, hlr]
      rcases classifyS_vals r with h1 | h1 | h1
      · -- !$omp
        rw [h1] at hlt hcl
        rw [hlt] at hps hkey hseg hqs0
        have hqs : qs ≠ [] := fun h0 => by have := hqs0 h0; simp [Gen.contEnd] at this
        simp only [safeLine, hcl, Bool.and_eq_true, Option.isNone_iff_eq_none] at hsafe
        obtain ⟨⟨hbang, hnc⟩, hlast⟩ := hsafe
        have hnc' : noCompoundEq l' = true := by
          rcases hl' with rfl | rfl
          · exact hnc
          · obtain ⟨w, hw⟩ := lstrip_suffix l
            rw [hw] at hnc; exact noCompoundEq_suffix _ _ hnc
        obtain ⟨p, k0, hpk, hk0⟩ := key_dir 1 (Or.inl rfl) key q1 hkey hksuf
        rw [hps]
        have : Gen.contStart 1 = sent 1 ++ [38, 32] := rfl
        rw [this]
        apply run_dir_line st 1 (Or.inl rfl) l' q1 p k0 qs hl'eq hq1 (by rw [hclseq, hcl]) hpk hk0 _ hqs hsegne
          (Segs_dir 1 (Or.inl rfl) _ _ _ _ hseg (by rw [hl'eq] at hnc'; exact noCompoundEq_suffix _ _ hnc'))
          (by rw [hstrip]; exact hbang) (hlast' hlast)
        intro c r hcr
        rw [hl'eq, hpk, hcr] at hnc'
        simp only [List.append_assoc, List.cons_append, List.nil_append] at hnc'
        exact noCompoundEq_mid p k0 c r hnc'
      · -- !$acc
        rw [h1] at hlt hcl
        rw [hlt] at hps hkey hseg hqs0
        have hqs : qs ≠ [] := fun h0 => by have := hqs0 h0; simp [Gen.contEnd] at this
        simp only [safeLine, hcl, Bool.and_eq_true, Option.isNone_iff_eq_none] at hsafe
        obtain ⟨⟨hbang, hnc⟩, hlast⟩ := hsafe
        have hnc' : noCompoundEq l' = true := by
          rcases hl' with rfl | rfl
          · exact hnc
          · obtain ⟨w, hw⟩ := lstrip_suffix l
            rw [hw] at hnc; exact noCompoundEq_suffix _ _ hnc
        obtain ⟨p, k0, hpk, hk0⟩ := key_dir 2 (Or.inr rfl) key q1 hkey hksuf
        rw [hps]
        have : Gen.contStart 2 = sent 2 ++ [38, 32] := rfl
        rw [this]
        apply run_dir_line st 2 (Or.inr rfl) l' q1 p k0 qs hl'eq hq1 (by rw [hclseq, hcl]) hpk hk0 _ hqs hsegne
          (Segs_dir 2 (Or.inr rfl) _ _ _ _ hseg (by rw [hl'eq] at hnc'; exact noCompoundEq_suffix _ _ hnc'))
          (by rw [hstrip]; exact hbang) (hlast' hlast)
        intro c r hcr
        rw [hl'eq, hpk, hcr] at hnc'
        simp only [List.append_assoc, List.cons_append, List.nil_append] at hnc'
        exact noCompoundEq_mid p k0 c r hnc'
      · -- comment
        rw [h1] at hlt hcl
        rw [hlt] at hps hkey
        rw [hps]
        have e1 : Gen.contStart 3 = [33, 38, 32] := rfl
        have e2 : Gen.contEnd 3 = [] := rfl
        rw [e1, e2, List.append_nil]
        apply run_comment_line st l' q1 qs hl'eq hq1 (by rw [hclseq, hcl])
        intro h0
        obtain ⟨w, hw⟩ := lstrip_suffix q1
        obtain ⟨pk, hpk⟩ := hksuf
        have hk3 : key = [32] ∨ key = [46] ∨ key = [44] := by simpa [Gen.keyList] using hkey
        rw [h0] at hw
        rw [hw] at hpk
        have hpk' : pk ++ key = (w ++ [33]) ++ [38] := by rw [hpk]; simp
        rcases hk3 with rfl | rfl | rfl <;>
          · have := List.append_inj_right' hpk' rfl
            simp at this
    · -- statement / unknown
      have hcl : classify l = 4 := classify_code l c r hlr hc
      have ht : Gen.contStart (lineType l) = [38] ∧ Gen.contEnd (lineType l) = [38] := by
        rcases lineType_of_code l c r hlr hc with h | h <;> rw [h] <;> exact ⟨rfl, rfl⟩
      rw [ht.1, ht.2] at hps
      rw [ht.2] at hqs0
      have hqs : qs ≠ [] := fun h0 => by have := hqs0 h0; simp at this
      simp only [safeLine, hcl, Bool.and_eq_true, Option.isNone_iff_eq_none] at hsafe
      rw [hps]
      exact run_code_line st l' q1 qs hl'eq hq1 (by rw [hclseq, hcl]) hqs hsegne (by rw [hcont]; exact hsafe.1)
        (hlast' hsafe.2)

end C18
