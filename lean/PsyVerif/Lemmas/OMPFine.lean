import PsyVerif.Model.OMPFine
import PsyVerif.Lemmas.OMPSem
/-! # Statement-granularity interleavings: footprints of statement lists and the invariant of
the fine-grained run.  Core Lean only. -/
namespace C09
open MiniF

theorem execList_append (a b : List Stmt) (σ : Store) :
    execList (a ++ b) σ = execList b (execList a σ) := by
  induction a generalizing σ with
  | nil => rfl
  | cons s a ih => simp only [List.cons_append, execList, ih]

theorem exec_seqs (ss : List Stmt) (σ : Store) : exec (seqs ss) σ = execList ss σ := by
  induction ss generalizing σ with
  | nil => rfl
  | cons s r ih =>
    cases r with
    | nil => rfl
    | cons s' r' => simp only [seqs, exec, execList] at ih ⊢; rw [ih]

theorem fpSeq_nil_right (a : Fp) : fpSeq a ([], []) = a := by
  simp [fpSeq]

theorem fp_seqs (ss : List Stmt) (σ : Store) : fp (seqs ss) σ = fpList ss σ := by
  induction ss generalizing σ with
  | nil => rfl
  | cons s r ih =>
    cases r with
    | nil => simp only [seqs, fpList, fpSeq_nil_right]
    | cons s' r' =>
      have := ih (exec s σ)
      simp only [seqs, fp, fpList] at this ⊢
      rw [this]

theorem sound_list (ss : List Stmt) : Sound (execList ss) (fpList ss) := by
  induction ss with
  | nil => exact Sound.skip.congr (fun _ => rfl) (fun _ => rfl)
  | cons s r ih => exact ((fp_sound s).seq ih).congr (fun _ => rfl) (fun _ => rfl)

theorem mem_fpList_append_writes (a b : List Stmt) (σ : Store) (l : Loc) :
    l ∈ (fpList (a ++ b) σ).2 ↔ l ∈ (fpList a σ).2 ∨ l ∈ (fpList b (execList a σ)).2 := by
  induction a generalizing σ with
  | nil => simp [fpList, execList]
  | cons s a ih =>
    simp only [List.cons_append, fpList, execList, mem_fpSeq_writes, ih]
    exact or_assoc.symm

theorem mem_fpList_append_reads (a b : List Stmt) (σ : Store) (l : Loc) :
    l ∈ (fpList (a ++ b) σ).1 ↔
      l ∈ (fpList a σ).1 ∨ (l ∈ (fpList b (execList a σ)).1 ∧ l ∉ (fpList a σ).2) := by
  induction a generalizing σ with
  | nil => simp [fpList, execList]
  | cons s a ih =>
    simp only [List.cons_append, fpList, execList, mem_fpSeq_reads, mem_fpSeq_writes, ih]
    grind

/-! ## the program of one iteration -/

/-- micro-steps of iteration `k` of the loop `P` entered from `σ₀`, body statements `ss` -/
def progOf (P : ParDo) (σ₀ : Store) (ss : List Stmt) (k : Nat) : List Stmt :=
  iterProg P.v (eval P.lo σ₀) (eval P.step σ₀) ss k

theorem exec_progOf (P : ParDo) (σ₀ : Store) (ss : List Stmt) (hb : P.body = seqs ss) (k : Nat) :
    execList (progOf P σ₀ ss k) σ₀ = exec P.body (P.iterStore σ₀ k) := by
  simp [progOf, iterProg, execList, exec, eval, hb, exec_seqs, ParDo.iterStore]

theorem fp_progOf (P : ParDo) (σ₀ : Store) (ss : List Stmt) (hb : P.body = seqs ss) (k : Nat) :
    fpList (progOf P σ₀ ss k) σ₀ = fpSeq ([], [(P.v, 0, 0)]) (P.iterFp σ₀ k) := by
  simp [progOf, iterProg, fpList, fp, erd, exec, eval, hb, fp_seqs, ParDo.iterFp, ParDo.iterStore]

theorem mem_progOf_writes (P : ParDo) (σ₀ : Store) (ss : List Stmt) (hb : P.body = seqs ss) (k : Nat) (l : Loc) :
    l ∈ (fpList (progOf P σ₀ ss k) σ₀).2 ↔ l = (P.v, 0, 0) ∨ l ∈ (P.iterFp σ₀ k).2 := by
  rw [fp_progOf P σ₀ ss hb, mem_fpSeq_writes]; simp

theorem mem_progOf_reads (P : ParDo) (σ₀ : Store) (ss : List Stmt) (hb : P.body = seqs ss) (k : Nat) (l : Loc) :
    l ∈ (fpList (progOf P σ₀ ss k) σ₀).1 ↔ l ∈ (P.iterFp σ₀ k).1 ∧ l ≠ (P.v, 0, 0) := by
  rw [fp_progOf P σ₀ ss hb, mem_fpSeq_reads]; simp

theorem threadMem_cons (σ₀ : Store) (U : List Nat) (thr : List (Nat × PStore)) (t u : Nat) (T : PStore) :
    threadMem σ₀ U ((t, T) :: thr) u = if u = t then T else threadMem σ₀ U thr u := by
  by_cases h : u = t
  · subst h; simp [threadMem]
  · have : (u == t) = false := by simpa using h
    simp [threadMem, List.lookup_cons, this, h]

/-! ## the invariant of the fine-grained run -/

/-- `pre k` is the part of iteration `k`'s program that has been executed.  On shared locations
the store holds, for every location an iteration writes, the value that iteration's executed
prefix computes from the ENTRY store; the private memory of a thread in the middle of an
iteration holds what the prefix wrote. -/
structure FInvWith (P : ParDo) (σ₀ : Store) (ss : List Stmt) (pre : Nat → List Stmt) (s : FState) : Prop where
  split : ∀ k, k < P.trips σ₀ → progOf P σ₀ ss k = pre k ++ s.rem k
  out : ∀ k, ¬ k < P.trips σ₀ → s.rem k = []
  own : ∀ t k, s.cur t = some k → pre k ≠ [] ∧ s.rem k ≠ []
  uniq : ∀ t t' k, s.cur t = some k → s.cur t' = some k → t = t'
  sh : ∀ l : Loc, l.1 ∉ P.privs →
    (∀ k, k < P.trips σ₀ → l ∈ (P.iterFp σ₀ k).2 → s.shared l = execList (pre k) σ₀ l) ∧
    ((∀ k, k < P.trips σ₀ → l ∉ (P.iterFp σ₀ k).2) → s.shared l = σ₀ l)
  priv : ∀ t k, s.cur t = some k →
    (∀ l : Loc, l.1 ∈ P.privs → l ∈ (fpList (pre k) σ₀).2 →
        (threadMem σ₀ P.undef0 s.thr t).st l = execList (pre k) σ₀ l) ∧
    (∀ x ∈ (threadMem σ₀ P.undef0 s.thr t).undef, ((x, 0, 0) : Loc) ∉ (fpList (pre k) σ₀).2)
  und : ∀ t, ∀ x ∈ (threadMem σ₀ P.undef0 s.thr t).undef, x ∈ P.privs

/-- what one micro-step does to the stores: thread view `V` (shared part `S`, private part `T`)
against the sequential execution `ρ` of the iteration's prefix from the entry store -/
theorem micro_step (P : ParDo) (σ₀ : Store) (ss : List Stmt) (hb : P.body = seqs ss)
    (hI : IterIndep P σ₀) (hS : ScalarsUnconditional P σ₀)
    {k : Nat} (hk : k < P.trips σ₀) {pre r : List Stmt} {st : Stmt}
    (hsplit : progOf P σ₀ ss k = pre ++ st :: r)
    {S T V : Store} (hVs : ∀ l : Loc, l.1 ∉ P.privs → V l = S l) (hVp : ∀ l : Loc, l.1 ∈ P.privs → V l = T l)
    (hSk : ∀ l : Loc, l.1 ∉ P.privs → l ∈ (P.iterFp σ₀ k).2 → S l = execList pre σ₀ l)
    (hSo : ∀ l : Loc, l.1 ∉ P.privs → (∀ k', k' < P.trips σ₀ → k' ≠ k → l ∉ (P.iterFp σ₀ k').2) →
        l ∉ (P.iterFp σ₀ k).2 → S l = σ₀ l)
    (hT : ∀ l : Loc, l.1 ∈ P.privs → l ∈ (fpList pre σ₀).2 → T l = execList pre σ₀ l) :
    fp st V = fp st (execList pre σ₀) ∧
    (∀ l, l ∈ (fp st (execList pre σ₀)).1 → l ∈ (fpList pre σ₀).2 ∨
        (l ∈ (P.iterFp σ₀ k).1 ∧ l ≠ (P.v, 0, 0))) ∧
    (∀ l, l ∈ (fp st (execList pre σ₀)).2 → l = (P.v, 0, 0) ∨ l ∈ (P.iterFp σ₀ k).2) ∧
    (∀ l, l ∈ (fp st (execList pre σ₀)).2 → exec st V l = exec st (execList pre σ₀) l) := by
  have hWpre : ∀ l, l ∈ (fpList pre σ₀).2 → l = (P.v, 0, 0) ∨ l ∈ (P.iterFp σ₀ k).2 := by
    intro l hl
    rw [← mem_progOf_writes P σ₀ ss hb, hsplit, mem_fpList_append_writes]
    exact Or.inl hl
  have hWst : ∀ l, l ∈ (fp st (execList pre σ₀)).2 → l = (P.v, 0, 0) ∨ l ∈ (P.iterFp σ₀ k).2 := by
    intro l hl
    rw [← mem_progOf_writes P σ₀ ss hb, hsplit, mem_fpList_append_writes]
    refine Or.inr ?_
    simp only [fpList, mem_fpSeq_writes]
    exact Or.inl hl
  have hmid : ∀ l, l ∈ (fp st (execList pre σ₀)).1 → l ∈ (fpList pre σ₀).2 ∨
      (l ∈ (P.iterFp σ₀ k).1 ∧ l ≠ (P.v, 0, 0)) := by
    intro l hl
    by_cases hw : l ∈ (fpList pre σ₀).2
    · exact Or.inl hw
    · refine Or.inr ?_
      rw [← mem_progOf_reads P σ₀ ss hb, hsplit, mem_fpList_append_reads]
      refine Or.inr ⟨?_, hw⟩
      simp only [fpList, mem_fpSeq_reads]
      exact Or.inl hl
  have hag : AgreeL (fun l => l ∈ (fp st (execList pre σ₀)).1) (execList pre σ₀) V := by
    intro l hl
    rcases hmid l hl with hw | ⟨hr, hnv⟩
    · by_cases hp : l.1 ∈ P.privs
      · rw [hVp l hp, hT l hp hw]
      · rcases hWpre l hw with h | h
        · subst h; exact absurd (by simp [ParDo.privs]) hp
        · rw [hVs l hp, hSk l hp h]
    · have hp : l.1 ∉ P.privs := by
        rcases hS k hk l hr with h | h
        · exact absurd h hnv
        · exact h
      rw [hVs l hp]
      by_cases hwk : l ∈ (P.iterFp σ₀ k).2
      · rw [hSk l hp hwk]
      · have hnw : l ∉ (fpList pre σ₀).2 := fun h => by
          rcases hWpre l h with h | h
          · exact hnv h
          · exact hwk h
        rw [(sound_list pre).frame σ₀ l hnw]
        refine (hSo l hp (fun k' hk' hne hw' => ?_) hwk).symm
        exact (hI k' hk' k hk hne l hw' hp).1 hr
  obtain ⟨e, a⟩ := (fp_sound st).loc (execList pre σ₀) V _ (fun l hl => hl) hag
  exact ⟨e, hmid, hWst, fun l hl => (a l (Or.inr hl)).symm⟩

/-- outcome of a run that is acceptable: never `poison`; an `ok` state satisfies the invariant -/
def FGood (P : ParDo) (σ₀ : Store) (ss : List Stmt) : FOut → Prop
  | .poison => False
  | .invalid => True
  | .ok s => ∃ pre, FInvWith P σ₀ ss pre s

theorem stepFine_inv (P : ParDo) (σ₀ : Store) (ss : List Stmt) (hb : P.body = seqs ss)
    (hI : IterIndep P σ₀) (hS : ScalarsUnconditional P σ₀)
    {pre : Nat → List Stmt} {s : FState} (h : FInvWith P σ₀ ss pre s) (t k : Nat) :
    FGood P σ₀ ss (stepFine P σ₀ (progOf P σ₀ ss) s t k) := by
  unfold stepFine
  cases hrem : s.rem k with
  | nil => exact trivial
  | cons st r =>
    simp only
    split
    case isFalse => exact trivial
    case isTrue hen =>
    have hk : k < P.trips σ₀ := by
      apply Classical.byContradiction; intro hn
      rw [h.out k hn] at hrem; cases hrem
    have hsplit : progOf P σ₀ ss k = pre k ++ st :: r := by rw [h.split k hk, hrem]
    -- facts about thread t's private memory relative to the executed prefix of iteration k
    have hF : (∀ l : Loc, l.1 ∈ P.privs → l ∈ (fpList (pre k) σ₀).2 →
          (threadMem σ₀ P.undef0 s.thr t).st l = execList (pre k) σ₀ l) ∧
        (∀ x ∈ (threadMem σ₀ P.undef0 s.thr t).undef, ((x, 0, 0) : Loc) ∉ (fpList (pre k) σ₀).2) := by
      rcases hen with hc | ⟨_, hfresh⟩
      · exact h.priv t k hc
      · have hnil : pre k = [] := by
          have := hsplit
          rw [hfresh] at this
          exact List.append_left_eq_self.mp this.symm
        rw [hnil]
        exact ⟨fun l _ hl => by simp [fpList] at hl, fun x _ hl => by simp [fpList] at hl⟩
    -- nobody else is in the middle of iteration k
    have hother : ∀ u, u ≠ t → s.cur u ≠ some k := by
      intro u hu hcu
      rcases hen with hc | ⟨_, hfresh⟩
      · exact hu (h.uniq u t k hcu hc)
      · have := hsplit
        rw [hfresh] at this
        exact (h.own u k hcu).1 (List.append_left_eq_self.mp this.symm)
    have hVs : ∀ l : Loc, l.1 ∉ P.privs →
        (view P.privs s.shared (threadMem σ₀ P.undef0 s.thr t)).st l = s.shared l := by
      intro l hl; simp [view, hl]
    have hVp : ∀ l : Loc, l.1 ∈ P.privs →
        (view P.privs s.shared (threadMem σ₀ P.undef0 s.thr t)).st l
          = (threadMem σ₀ P.undef0 s.thr t).st l := by
      intro l hl; simp [view, hl]
    obtain ⟨efp, hmid, hWst, hval⟩ := micro_step P σ₀ ss hb hI hS hk hsplit hVs hVp
      (fun l hl hw => (h.sh l hl).1 k hk hw)
      (fun l hl ho hw => (h.sh l hl).2 (fun k' hk' => by
        by_cases hkk : k' = k
        · subst hkk; exact hw
        · exact ho k' hk' hkk))
      hF.1
    -- no undefined copy is read
    obtain ⟨U', eP, sub, hU'⟩ := execP_sound st
      (view P.privs s.shared (threadMem σ₀ P.undef0 s.thr t)).st
      (threadMem σ₀ P.undef0 s.thr t).undef (by
        intro x hx hm
        rw [efp] at hm
        rcases hmid _ hm with hw | ⟨hr, hnv⟩
        · exact hF.2 x hx hw
        · rcases hS k hk _ hr with h' | h'
          · exact hnv h'
          · exact h' (h.und t x hx))
    have eP' : execP st (view P.privs s.shared (threadMem σ₀ P.undef0 s.thr t)) =
        some ⟨exec st (view P.privs s.shared (threadMem σ₀ P.undef0 s.thr t)).st, U'⟩ := eP
    rw [eP']
    simp only [FGood]
    rw [efp] at hU'
    -- frame of the step in the view
    have hfr : ∀ l : Loc, l ∉ (fp st (execList (pre k) σ₀)).2 →
        exec st (view P.privs s.shared (threadMem σ₀ P.undef0 s.thr t)).st l
          = (view P.privs s.shared (threadMem σ₀ P.undef0 s.thr t)).st l := by
      intro l hl
      exact (fp_sound st).frame _ l (by rw [efp]; exact hl)
    have hfrρ : ∀ l : Loc, l ∉ (fp st (execList (pre k) σ₀)).2 →
        exec st (execList (pre k) σ₀) l = execList (pre k) σ₀ l :=
      fun l hl => (fp_sound st).frame _ l hl
    have hexec : execList (pre k ++ [st]) σ₀ = exec st (execList (pre k) σ₀) := by
      rw [execList_append]; rfl
    have hWapp : ∀ l, l ∈ (fpList (pre k ++ [st]) σ₀).2 ↔
        l ∈ (fpList (pre k) σ₀).2 ∨ l ∈ (fp st (execList (pre k) σ₀)).2 := by
      intro l
      rw [mem_fpList_append_writes]
      simp [fpList, fpSeq_nil_right]
    refine ⟨fun j => if j = k then pre k ++ [st] else pre j, ?_, ?_, ?_, ?_, ?_, ?_, ?_⟩
    · -- split
      intro j hj
      by_cases hjk : j = k
      · subst hjk; simp [hsplit]
      · simp [hjk, h.split j hj]
    · -- out
      intro j hj
      have hjk : j ≠ k := fun e => hj (e ▸ hk)
      simp [hjk, h.out j hj]
    · -- own
      intro u j hc
      by_cases hu : u = t
      · subst hu
        simp only [if_true] at hc
        by_cases hr : r = []
        · simp [hr] at hc
        · simp only [hr, if_false, Option.some.injEq] at hc
          subst hc
          simp [hr]
      · simp only [hu, if_false] at hc
        have hjk : j ≠ k := fun e => hother u hu (e ▸ hc)
        simp only [hjk, if_false]
        exact h.own u j hc
    · -- uniq
      intro u u' j hc hc'
      by_cases hu : u = t <;> by_cases hu' : u' = t
      · rw [hu, hu']
      · subst hu
        simp only [if_true] at hc
        simp only [hu', if_false] at hc'
        by_cases hr : r = []
        · simp [hr] at hc
        · simp only [hr, if_false, Option.some.injEq] at hc
          exact absurd (hc ▸ hc') (hother u' hu')
      · subst hu'
        simp only [if_true] at hc'
        simp only [hu, if_false] at hc
        by_cases hr : r = []
        · simp [hr] at hc'
        · simp only [hr, if_false, Option.some.injEq] at hc'
          exact absurd (hc' ▸ hc) (hother u hu)
      · simp only [hu, if_false] at hc
        simp only [hu', if_false] at hc'
        exact h.uniq u u' j hc hc'
    · -- shared store
      intro l hl
      have hnv : l ≠ (P.v, 0, 0) := fun e => hl (by rw [e]; simp [ParDo.privs])
      have hsh' : (unview P.privs s.shared
          (exec st (view P.privs s.shared (threadMem σ₀ P.undef0 s.thr t)).st)) l
          = exec st (view P.privs s.shared (threadMem σ₀ P.undef0 s.thr t)).st l := by
        simp [unview, hl]
      have hWk : l ∈ (fp st (execList (pre k) σ₀)).2 → l ∈ (P.iterFp σ₀ k).2 := fun hw => by
        rcases hWst l hw with h' | h'
        · exact absurd h' hnv
        · exact h'
      show _ ∧ _
      rw [hsh']
      constructor
      · intro j hj hw
        by_cases hjk : j = k
        · subst hjk
          simp only [if_true, hexec]
          by_cases hws : l ∈ (fp st (execList (pre j) σ₀)).2
          · exact hval l hws
          · rw [hfr l hws, hVs l hl, hfrρ l hws]
            exact (h.sh l hl).1 j hj hw
        · simp only [hjk, if_false]
          have hws : l ∉ (fp st (execList (pre k) σ₀)).2 := fun hws =>
            (hI j hj k hk hjk l hw hl).2 (hWk hws)
          rw [hfr l hws, hVs l hl]
          exact (h.sh l hl).1 j hj hw
      · intro hno
        have hws : l ∉ (fp st (execList (pre k) σ₀)).2 := fun hws => hno k hk (hWk hws)
        rw [hfr l hws, hVs l hl]
        exact (h.sh l hl).2 hno
    · -- private memories
      intro u j hc
      by_cases hu : u = t
      · subst hu
        simp only [if_true] at hc
        by_cases hr : r = []
        · simp [hr] at hc
        · simp only [hr, if_false, Option.some.injEq] at hc
          subst hc
          simp only [threadMem_cons, if_true, hexec]
          constructor
          · intro l hp hw
            by_cases hws : l ∈ (fp st (execList (pre k) σ₀)).2
            · exact hval l hws
            · have hwp : l ∈ (fpList (pre k) σ₀).2 := by
                rcases (hWapp l).mp hw with h' | h'
                · exact h'
                · exact absurd h' hws
              rw [hfr l hws, hVp l hp, hfrρ l hws]
              exact hF.1 l hp hwp
          · intro x hx hw
            rcases (hWapp _).mp hw with h' | h'
            · exact hF.2 x (sub x hx) h'
            · exact hU' x hx h'
      · simp only [hu, if_false] at hc
        have hjk : j ≠ k := fun e => hother u hu (e ▸ hc)
        simp only [threadMem_cons, hu, hjk, if_false]
        exact h.priv u j hc
    · -- undefined copies are privatised variables
      intro u x hx
      simp only [threadMem_cons] at hx
      by_cases hu : u = t
      · simp only [hu, if_true] at hx
        exact h.und t x (sub x hx)
      · simp only [hu, if_false] at hx
        exact h.und u x hx

theorem runFine_inv (P : ParDo) (σ₀ : Store) (ss : List Stmt) (hb : P.body = seqs ss)
    (hI : IterIndep P σ₀) (hS : ScalarsUnconditional P σ₀) :
    ∀ (events : List (Nat × Nat)) (s : FState), (∃ pre, FInvWith P σ₀ ss pre s) →
      FGood P σ₀ ss (runFine P σ₀ (progOf P σ₀ ss) events s) := by
  intro events
  induction events with
  | nil => intro s h; exact h
  | cons e rest ih =>
    intro s ⟨pre, h⟩
    obtain ⟨t, k⟩ := e
    have hstep := stepFine_inv P σ₀ ss hb hI hS h t k
    simp only [runFine]
    cases hst : stepFine P σ₀ (progOf P σ₀ ss) s t k with
    | poison => rw [hst] at hstep; exact hstep.elim
    | invalid => exact trivial
    | ok s' => rw [hst] at hstep; exact ih s' hstep

/-- the initial state satisfies the invariant (nothing executed) -/
theorem init_inv (P : ParDo) (σ₀ : Store) (ss : List Stmt) :
    FInvWith P σ₀ ss (fun _ => [])
      ⟨σ₀, [], fun k => if k < P.trips σ₀ then progOf P σ₀ ss k else [], fun _ => none⟩ where
  split := fun k hk => by simp [hk]
  out := fun k hk => by simp [hk]
  own := fun _ _ h => by simp at h
  uniq := fun _ _ _ h => by simp at h
  sh := fun l _ => ⟨fun _ _ _ => rfl, fun _ => rfl⟩
  priv := fun _ _ h => by simp at h
  und := fun t x hx => by
    simp only [threadMem, List.lookup_nil, ParDo.undef0] at hx
    exact (List.mem_filter.mp hx).1

end C09
