def hello := "world"
