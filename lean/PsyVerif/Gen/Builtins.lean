import PsyVerif.Model.Builtins
/-! GENERATED on every run by harness/props/c20.py from the live PSyclone tree
(lfric_builtins.py lowered inside one-built-in invokes, lfric_loop.py bounds, the generated PSy-layer
text, and the `::` formula blocks of doc/user_guide/dynamo0p3.rst).  DO NOT EDIT. -/

namespace C20.Gen
open C20

/-- `X_plus_Y`: code `x0(df) = (x1(df) + x2(df))` — doc `field3(:) = field1(:) + field2(:)` -/
def code_X_plus_Y : Code := ⟨[], 1, (.fassign 0 (.add (.fld 1) (.fld 2)))⟩
def doc_X_plus_Y : Doc := (.arrayAssign 0 (.add (.fld 1) (.fld 2)))
def b_X_plus_Y : Builtin := ⟨0, [⟨0, 0, 1⟩, ⟨0, 0, 0⟩, ⟨0, 0, 0⟩], code_X_plus_Y, doc_X_plus_Y, [.undf, .undf, .owned, .annexed], [⟨[], 1, (.fassign 0 (.add (.fld 1) (.fld 2)))⟩, ⟨[], 1, (.fassign 0 (.add (.fld 1) (.fld 2)))⟩, ⟨[], 1, (.fassign 0 (.add (.fld 1) (.fld 2)))⟩, ⟨[], 1, (.fassign 0 (.add (.fld 1) (.fld 2)))⟩]⟩

/-- `inc_X_plus_Y`: code `x0(df) = (x0(df) + x1(df))` — doc `field1(:) = field1(:) + field2(:)` -/
def code_inc_X_plus_Y : Code := ⟨[], 1, (.fassign 0 (.add (.fld 0) (.fld 1)))⟩
def doc_inc_X_plus_Y : Doc := (.arrayAssign 0 (.add (.fld 0) (.fld 1)))
def b_inc_X_plus_Y : Builtin := ⟨1, [⟨0, 0, 2⟩, ⟨0, 0, 0⟩], code_inc_X_plus_Y, doc_inc_X_plus_Y, [.undf, .undf, .owned, .annexed], [⟨[], 1, (.fassign 0 (.add (.fld 0) (.fld 1)))⟩, ⟨[], 1, (.fassign 0 (.add (.fld 0) (.fld 1)))⟩, ⟨[], 1, (.fassign 0 (.add (.fld 0) (.fld 1)))⟩, ⟨[], 1, (.fassign 0 (.add (.fld 0) (.fld 1)))⟩]⟩

/-- `a_plus_X`: code `x0(df) = (s1 + x2(df))` — doc `field2(:) = rscalar + field1(:)` -/
def code_a_plus_X : Code := ⟨[], 1, (.fassign 0 (.add (.scal 1) (.fld 2)))⟩
def doc_a_plus_X : Doc := (.arrayAssign 0 (.add (.scal 1) (.fld 2)))
def b_a_plus_X : Builtin := ⟨2, [⟨0, 0, 1⟩, ⟨1, 0, 0⟩, ⟨0, 0, 0⟩], code_a_plus_X, doc_a_plus_X, [.undf, .undf, .owned, .annexed], [⟨[], 1, (.fassign 0 (.add (.scal 1) (.fld 2)))⟩, ⟨[], 1, (.fassign 0 (.add (.scal 1) (.fld 2)))⟩, ⟨[], 1, (.fassign 0 (.add (.scal 1) (.fld 2)))⟩, ⟨[], 1, (.fassign 0 (.add (.scal 1) (.fld 2)))⟩]⟩

/-- `inc_a_plus_X`: code `x1(df) = (s0 + x1(df))` — doc `field(:) = rscalar + field(:)` -/
def code_inc_a_plus_X : Code := ⟨[], 1, (.fassign 1 (.add (.scal 0) (.fld 1)))⟩
def doc_inc_a_plus_X : Doc := (.arrayAssign 1 (.add (.scal 0) (.fld 1)))
def b_inc_a_plus_X : Builtin := ⟨3, [⟨1, 0, 0⟩, ⟨0, 0, 2⟩], code_inc_a_plus_X, doc_inc_a_plus_X, [.undf, .undf, .owned, .annexed], [⟨[], 1, (.fassign 1 (.add (.scal 0) (.fld 1)))⟩, ⟨[], 1, (.fassign 1 (.add (.scal 0) (.fld 1)))⟩, ⟨[], 1, (.fassign 1 (.add (.scal 0) (.fld 1)))⟩, ⟨[], 1, (.fassign 1 (.add (.scal 0) (.fld 1)))⟩]⟩

/-- `aX_plus_Y`: code `x0(df) = ((s1 * x2(df)) + x3(df))` — doc `field3(:) = rscalar*field1(:) + field2(:)` -/
def code_aX_plus_Y : Code := ⟨[], 1, (.fassign 0 (.add (.mul (.scal 1) (.fld 2)) (.fld 3)))⟩
def doc_aX_plus_Y : Doc := (.arrayAssign 0 (.add (.mul (.scal 1) (.fld 2)) (.fld 3)))
def b_aX_plus_Y : Builtin := ⟨4, [⟨0, 0, 1⟩, ⟨1, 0, 0⟩, ⟨0, 0, 0⟩, ⟨0, 0, 0⟩], code_aX_plus_Y, doc_aX_plus_Y, [.undf, .undf, .owned, .annexed], [⟨[], 1, (.fassign 0 (.add (.mul (.scal 1) (.fld 2)) (.fld 3)))⟩, ⟨[], 1, (.fassign 0 (.add (.mul (.scal 1) (.fld 2)) (.fld 3)))⟩, ⟨[], 1, (.fassign 0 (.add (.mul (.scal 1) (.fld 2)) (.fld 3)))⟩, ⟨[], 1, (.fassign 0 (.add (.mul (.scal 1) (.fld 2)) (.fld 3)))⟩]⟩

/-- `inc_aX_plus_Y`: code `x1(df) = ((s0 * x1(df)) + x2(df))` — doc `field1(:) = rscalar*field1(:) + field2(:)` -/
def code_inc_aX_plus_Y : Code := ⟨[], 1, (.fassign 1 (.add (.mul (.scal 0) (.fld 1)) (.fld 2)))⟩
def doc_inc_aX_plus_Y : Doc := (.arrayAssign 1 (.add (.mul (.scal 0) (.fld 1)) (.fld 2)))
def b_inc_aX_plus_Y : Builtin := ⟨5, [⟨1, 0, 0⟩, ⟨0, 0, 2⟩, ⟨0, 0, 0⟩], code_inc_aX_plus_Y, doc_inc_aX_plus_Y, [.undf, .undf, .owned, .annexed], [⟨[], 1, (.fassign 1 (.add (.mul (.scal 0) (.fld 1)) (.fld 2)))⟩, ⟨[], 1, (.fassign 1 (.add (.mul (.scal 0) (.fld 1)) (.fld 2)))⟩, ⟨[], 1, (.fassign 1 (.add (.mul (.scal 0) (.fld 1)) (.fld 2)))⟩, ⟨[], 1, (.fassign 1 (.add (.mul (.scal 0) (.fld 1)) (.fld 2)))⟩]⟩

/-- `inc_X_plus_bY`: code `x0(df) = (x0(df) + (s1 * x2(df)))` — doc `field1(:) = field1(:) + rscalar*field2(:)` -/
def code_inc_X_plus_bY : Code := ⟨[], 1, (.fassign 0 (.add (.fld 0) (.mul (.scal 1) (.fld 2))))⟩
def doc_inc_X_plus_bY : Doc := (.arrayAssign 0 (.add (.fld 0) (.mul (.scal 1) (.fld 2))))
def b_inc_X_plus_bY : Builtin := ⟨6, [⟨0, 0, 2⟩, ⟨1, 0, 0⟩, ⟨0, 0, 0⟩], code_inc_X_plus_bY, doc_inc_X_plus_bY, [.undf, .undf, .owned, .annexed], [⟨[], 1, (.fassign 0 (.add (.fld 0) (.mul (.scal 1) (.fld 2))))⟩, ⟨[], 1, (.fassign 0 (.add (.fld 0) (.mul (.scal 1) (.fld 2))))⟩, ⟨[], 1, (.fassign 0 (.add (.fld 0) (.mul (.scal 1) (.fld 2))))⟩, ⟨[], 1, (.fassign 0 (.add (.fld 0) (.mul (.scal 1) (.fld 2))))⟩]⟩

/-- `aX_plus_bY`: code `x0(df) = ((s1 * x2(df)) + (s3 * x4(df)))` — doc `field3(:) = rscalar1*field1(:) + rscalar2*field2(:)` -/
def code_aX_plus_bY : Code := ⟨[], 1, (.fassign 0 (.add (.mul (.scal 1) (.fld 2)) (.mul (.scal 3) (.fld 4))))⟩
def doc_aX_plus_bY : Doc := (.arrayAssign 0 (.add (.mul (.scal 1) (.fld 2)) (.mul (.scal 3) (.fld 4))))
def b_aX_plus_bY : Builtin := ⟨7, [⟨0, 0, 1⟩, ⟨1, 0, 0⟩, ⟨0, 0, 0⟩, ⟨1, 0, 0⟩, ⟨0, 0, 0⟩], code_aX_plus_bY, doc_aX_plus_bY, [.undf, .undf, .owned, .annexed], [⟨[], 1, (.fassign 0 (.add (.mul (.scal 1) (.fld 2)) (.mul (.scal 3) (.fld 4))))⟩, ⟨[], 1, (.fassign 0 (.add (.mul (.scal 1) (.fld 2)) (.mul (.scal 3) (.fld 4))))⟩, ⟨[], 1, (.fassign 0 (.add (.mul (.scal 1) (.fld 2)) (.mul (.scal 3) (.fld 4))))⟩, ⟨[], 1, (.fassign 0 (.add (.mul (.scal 1) (.fld 2)) (.mul (.scal 3) (.fld 4))))⟩]⟩

/-- `inc_aX_plus_bY`: code `x1(df) = ((s0 * x1(df)) + (s2 * x3(df)))` — doc `field1(:) = rscalar1*field1(:) + rscalar2*field2(:)` -/
def code_inc_aX_plus_bY : Code := ⟨[], 1, (.fassign 1 (.add (.mul (.scal 0) (.fld 1)) (.mul (.scal 2) (.fld 3))))⟩
def doc_inc_aX_plus_bY : Doc := (.arrayAssign 1 (.add (.mul (.scal 0) (.fld 1)) (.mul (.scal 2) (.fld 3))))
def b_inc_aX_plus_bY : Builtin := ⟨8, [⟨1, 0, 0⟩, ⟨0, 0, 2⟩, ⟨1, 0, 0⟩, ⟨0, 0, 0⟩], code_inc_aX_plus_bY, doc_inc_aX_plus_bY, [.undf, .undf, .owned, .annexed], [⟨[], 1, (.fassign 1 (.add (.mul (.scal 0) (.fld 1)) (.mul (.scal 2) (.fld 3))))⟩, ⟨[], 1, (.fassign 1 (.add (.mul (.scal 0) (.fld 1)) (.mul (.scal 2) (.fld 3))))⟩, ⟨[], 1, (.fassign 1 (.add (.mul (.scal 0) (.fld 1)) (.mul (.scal 2) (.fld 3))))⟩, ⟨[], 1, (.fassign 1 (.add (.mul (.scal 0) (.fld 1)) (.mul (.scal 2) (.fld 3))))⟩]⟩

/-- `aX_plus_aY`: code `x0(df) = (s1 * (x2(df) + x3(df)))` — doc `field3(:) = rscalar*(field1(:) + field2(:))` -/
def code_aX_plus_aY : Code := ⟨[], 1, (.fassign 0 (.mul (.scal 1) (.add (.fld 2) (.fld 3))))⟩
def doc_aX_plus_aY : Doc := (.arrayAssign 0 (.mul (.scal 1) (.add (.fld 2) (.fld 3))))
def b_aX_plus_aY : Builtin := ⟨9, [⟨0, 0, 1⟩, ⟨1, 0, 0⟩, ⟨0, 0, 0⟩, ⟨0, 0, 0⟩], code_aX_plus_aY, doc_aX_plus_aY, [.undf, .undf, .owned, .annexed], [⟨[], 1, (.fassign 0 (.mul (.scal 1) (.add (.fld 2) (.fld 3))))⟩, ⟨[], 1, (.fassign 0 (.mul (.scal 1) (.add (.fld 2) (.fld 3))))⟩, ⟨[], 1, (.fassign 0 (.mul (.scal 1) (.add (.fld 2) (.fld 3))))⟩, ⟨[], 1, (.fassign 0 (.mul (.scal 1) (.add (.fld 2) (.fld 3))))⟩]⟩

/-- `X_minus_Y`: code `x0(df) = (x1(df) - x2(df))` — doc `field3(:) = field1(:) - field2(:)` -/
def code_X_minus_Y : Code := ⟨[], 1, (.fassign 0 (.sub (.fld 1) (.fld 2)))⟩
def doc_X_minus_Y : Doc := (.arrayAssign 0 (.sub (.fld 1) (.fld 2)))
def b_X_minus_Y : Builtin := ⟨10, [⟨0, 0, 1⟩, ⟨0, 0, 0⟩, ⟨0, 0, 0⟩], code_X_minus_Y, doc_X_minus_Y, [.undf, .undf, .owned, .annexed], [⟨[], 1, (.fassign 0 (.sub (.fld 1) (.fld 2)))⟩, ⟨[], 1, (.fassign 0 (.sub (.fld 1) (.fld 2)))⟩, ⟨[], 1, (.fassign 0 (.sub (.fld 1) (.fld 2)))⟩, ⟨[], 1, (.fassign 0 (.sub (.fld 1) (.fld 2)))⟩]⟩

/-- `inc_X_minus_Y`: code `x0(df) = (x0(df) - x1(df))` — doc `field1(:) = field1(:) - field2(:)` -/
def code_inc_X_minus_Y : Code := ⟨[], 1, (.fassign 0 (.sub (.fld 0) (.fld 1)))⟩
def doc_inc_X_minus_Y : Doc := (.arrayAssign 0 (.sub (.fld 0) (.fld 1)))
def b_inc_X_minus_Y : Builtin := ⟨11, [⟨0, 0, 2⟩, ⟨0, 0, 0⟩], code_inc_X_minus_Y, doc_inc_X_minus_Y, [.undf, .undf, .owned, .annexed], [⟨[], 1, (.fassign 0 (.sub (.fld 0) (.fld 1)))⟩, ⟨[], 1, (.fassign 0 (.sub (.fld 0) (.fld 1)))⟩, ⟨[], 1, (.fassign 0 (.sub (.fld 0) (.fld 1)))⟩, ⟨[], 1, (.fassign 0 (.sub (.fld 0) (.fld 1)))⟩]⟩

/-- `a_minus_X`: code `x0(df) = (s1 - x2(df))` — doc `field2(:) = rscalar - field1(:)` -/
def code_a_minus_X : Code := ⟨[], 1, (.fassign 0 (.sub (.scal 1) (.fld 2)))⟩
def doc_a_minus_X : Doc := (.arrayAssign 0 (.sub (.scal 1) (.fld 2)))
def b_a_minus_X : Builtin := ⟨12, [⟨0, 0, 1⟩, ⟨1, 0, 0⟩, ⟨0, 0, 0⟩], code_a_minus_X, doc_a_minus_X, [.undf, .undf, .owned, .annexed], [⟨[], 1, (.fassign 0 (.sub (.scal 1) (.fld 2)))⟩, ⟨[], 1, (.fassign 0 (.sub (.scal 1) (.fld 2)))⟩, ⟨[], 1, (.fassign 0 (.sub (.scal 1) (.fld 2)))⟩, ⟨[], 1, (.fassign 0 (.sub (.scal 1) (.fld 2)))⟩]⟩

/-- `inc_a_minus_X`: code `x1(df) = (s0 - x1(df))` — doc `field(:) = rscalar - field(:)` -/
def code_inc_a_minus_X : Code := ⟨[], 1, (.fassign 1 (.sub (.scal 0) (.fld 1)))⟩
def doc_inc_a_minus_X : Doc := (.arrayAssign 1 (.sub (.scal 0) (.fld 1)))
def b_inc_a_minus_X : Builtin := ⟨13, [⟨1, 0, 0⟩, ⟨0, 0, 2⟩], code_inc_a_minus_X, doc_inc_a_minus_X, [.undf, .undf, .owned, .annexed], [⟨[], 1, (.fassign 1 (.sub (.scal 0) (.fld 1)))⟩, ⟨[], 1, (.fassign 1 (.sub (.scal 0) (.fld 1)))⟩, ⟨[], 1, (.fassign 1 (.sub (.scal 0) (.fld 1)))⟩, ⟨[], 1, (.fassign 1 (.sub (.scal 0) (.fld 1)))⟩]⟩

/-- `X_minus_a`: code `x0(df) = (x1(df) - s2)` — doc `field2(:) = field1(:) - rscalar` -/
def code_X_minus_a : Code := ⟨[], 1, (.fassign 0 (.sub (.fld 1) (.scal 2)))⟩
def doc_X_minus_a : Doc := (.arrayAssign 0 (.sub (.fld 1) (.scal 2)))
def b_X_minus_a : Builtin := ⟨14, [⟨0, 0, 1⟩, ⟨0, 0, 0⟩, ⟨1, 0, 0⟩], code_X_minus_a, doc_X_minus_a, [.undf, .undf, .owned, .annexed], [⟨[], 1, (.fassign 0 (.sub (.fld 1) (.scal 2)))⟩, ⟨[], 1, (.fassign 0 (.sub (.fld 1) (.scal 2)))⟩, ⟨[], 1, (.fassign 0 (.sub (.fld 1) (.scal 2)))⟩, ⟨[], 1, (.fassign 0 (.sub (.fld 1) (.scal 2)))⟩]⟩

/-- `inc_X_minus_a`: code `x0(df) = (x0(df) - s1)` — doc `field(:) = field(:) - rscalar` -/
def code_inc_X_minus_a : Code := ⟨[], 1, (.fassign 0 (.sub (.fld 0) (.scal 1)))⟩
def doc_inc_X_minus_a : Doc := (.arrayAssign 0 (.sub (.fld 0) (.scal 1)))
def b_inc_X_minus_a : Builtin := ⟨15, [⟨0, 0, 2⟩, ⟨1, 0, 0⟩], code_inc_X_minus_a, doc_inc_X_minus_a, [.undf, .undf, .owned, .annexed], [⟨[], 1, (.fassign 0 (.sub (.fld 0) (.scal 1)))⟩, ⟨[], 1, (.fassign 0 (.sub (.fld 0) (.scal 1)))⟩, ⟨[], 1, (.fassign 0 (.sub (.fld 0) (.scal 1)))⟩, ⟨[], 1, (.fassign 0 (.sub (.fld 0) (.scal 1)))⟩]⟩

/-- `aX_minus_Y`: code `x0(df) = ((s1 * x2(df)) - x3(df))` — doc `field3(:) = rscalar*field1(:) - field2(:)` -/
def code_aX_minus_Y : Code := ⟨[], 1, (.fassign 0 (.sub (.mul (.scal 1) (.fld 2)) (.fld 3)))⟩
def doc_aX_minus_Y : Doc := (.arrayAssign 0 (.sub (.mul (.scal 1) (.fld 2)) (.fld 3)))
def b_aX_minus_Y : Builtin := ⟨16, [⟨0, 0, 1⟩, ⟨1, 0, 0⟩, ⟨0, 0, 0⟩, ⟨0, 0, 0⟩], code_aX_minus_Y, doc_aX_minus_Y, [.undf, .undf, .owned, .annexed], [⟨[], 1, (.fassign 0 (.sub (.mul (.scal 1) (.fld 2)) (.fld 3)))⟩, ⟨[], 1, (.fassign 0 (.sub (.mul (.scal 1) (.fld 2)) (.fld 3)))⟩, ⟨[], 1, (.fassign 0 (.sub (.mul (.scal 1) (.fld 2)) (.fld 3)))⟩, ⟨[], 1, (.fassign 0 (.sub (.mul (.scal 1) (.fld 2)) (.fld 3)))⟩]⟩

/-- `X_minus_bY`: code `x0(df) = (x1(df) - (s2 * x3(df)))` — doc `field3(:) = field1(:) - rscalar*field2(:)` -/
def code_X_minus_bY : Code := ⟨[], 1, (.fassign 0 (.sub (.fld 1) (.mul (.scal 2) (.fld 3))))⟩
def doc_X_minus_bY : Doc := (.arrayAssign 0 (.sub (.fld 1) (.mul (.scal 2) (.fld 3))))
def b_X_minus_bY : Builtin := ⟨17, [⟨0, 0, 1⟩, ⟨0, 0, 0⟩, ⟨1, 0, 0⟩, ⟨0, 0, 0⟩], code_X_minus_bY, doc_X_minus_bY, [.undf, .undf, .owned, .annexed], [⟨[], 1, (.fassign 0 (.sub (.fld 1) (.mul (.scal 2) (.fld 3))))⟩, ⟨[], 1, (.fassign 0 (.sub (.fld 1) (.mul (.scal 2) (.fld 3))))⟩, ⟨[], 1, (.fassign 0 (.sub (.fld 1) (.mul (.scal 2) (.fld 3))))⟩, ⟨[], 1, (.fassign 0 (.sub (.fld 1) (.mul (.scal 2) (.fld 3))))⟩]⟩

/-- `inc_X_minus_bY`: code `x0(df) = (x0(df) - (s1 * x2(df)))` — doc `field1(:) = field1(:) - rscalar*field2(:)` -/
def code_inc_X_minus_bY : Code := ⟨[], 1, (.fassign 0 (.sub (.fld 0) (.mul (.scal 1) (.fld 2))))⟩
def doc_inc_X_minus_bY : Doc := (.arrayAssign 0 (.sub (.fld 0) (.mul (.scal 1) (.fld 2))))
def b_inc_X_minus_bY : Builtin := ⟨18, [⟨0, 0, 2⟩, ⟨1, 0, 0⟩, ⟨0, 0, 0⟩], code_inc_X_minus_bY, doc_inc_X_minus_bY, [.undf, .undf, .owned, .annexed], [⟨[], 1, (.fassign 0 (.sub (.fld 0) (.mul (.scal 1) (.fld 2))))⟩, ⟨[], 1, (.fassign 0 (.sub (.fld 0) (.mul (.scal 1) (.fld 2))))⟩, ⟨[], 1, (.fassign 0 (.sub (.fld 0) (.mul (.scal 1) (.fld 2))))⟩, ⟨[], 1, (.fassign 0 (.sub (.fld 0) (.mul (.scal 1) (.fld 2))))⟩]⟩

/-- `aX_minus_bY`: code `x0(df) = ((s1 * x2(df)) - (s3 * x4(df)))` — doc `field3(:) = rscalar1*field1(:) - rscalar2*field2(:)` -/
def code_aX_minus_bY : Code := ⟨[], 1, (.fassign 0 (.sub (.mul (.scal 1) (.fld 2)) (.mul (.scal 3) (.fld 4))))⟩
def doc_aX_minus_bY : Doc := (.arrayAssign 0 (.sub (.mul (.scal 1) (.fld 2)) (.mul (.scal 3) (.fld 4))))
def b_aX_minus_bY : Builtin := ⟨19, [⟨0, 0, 1⟩, ⟨1, 0, 0⟩, ⟨0, 0, 0⟩, ⟨1, 0, 0⟩, ⟨0, 0, 0⟩], code_aX_minus_bY, doc_aX_minus_bY, [.undf, .undf, .owned, .annexed], [⟨[], 1, (.fassign 0 (.sub (.mul (.scal 1) (.fld 2)) (.mul (.scal 3) (.fld 4))))⟩, ⟨[], 1, (.fassign 0 (.sub (.mul (.scal 1) (.fld 2)) (.mul (.scal 3) (.fld 4))))⟩, ⟨[], 1, (.fassign 0 (.sub (.mul (.scal 1) (.fld 2)) (.mul (.scal 3) (.fld 4))))⟩, ⟨[], 1, (.fassign 0 (.sub (.mul (.scal 1) (.fld 2)) (.mul (.scal 3) (.fld 4))))⟩]⟩

/-- `X_times_Y`: code `x0(df) = (x1(df) * x2(df))` — doc `field3(:) = field1(:)*field2(:)` -/
def code_X_times_Y : Code := ⟨[], 1, (.fassign 0 (.mul (.fld 1) (.fld 2)))⟩
def doc_X_times_Y : Doc := (.arrayAssign 0 (.mul (.fld 1) (.fld 2)))
def b_X_times_Y : Builtin := ⟨20, [⟨0, 0, 1⟩, ⟨0, 0, 0⟩, ⟨0, 0, 0⟩], code_X_times_Y, doc_X_times_Y, [.undf, .undf, .owned, .annexed], [⟨[], 1, (.fassign 0 (.mul (.fld 1) (.fld 2)))⟩, ⟨[], 1, (.fassign 0 (.mul (.fld 1) (.fld 2)))⟩, ⟨[], 1, (.fassign 0 (.mul (.fld 1) (.fld 2)))⟩, ⟨[], 1, (.fassign 0 (.mul (.fld 1) (.fld 2)))⟩]⟩

/-- `inc_X_times_Y`: code `x0(df) = (x0(df) * x1(df))` — doc `field1(:) = field1(:)*field2(:)` -/
def code_inc_X_times_Y : Code := ⟨[], 1, (.fassign 0 (.mul (.fld 0) (.fld 1)))⟩
def doc_inc_X_times_Y : Doc := (.arrayAssign 0 (.mul (.fld 0) (.fld 1)))
def b_inc_X_times_Y : Builtin := ⟨21, [⟨0, 0, 2⟩, ⟨0, 0, 0⟩], code_inc_X_times_Y, doc_inc_X_times_Y, [.undf, .undf, .owned, .annexed], [⟨[], 1, (.fassign 0 (.mul (.fld 0) (.fld 1)))⟩, ⟨[], 1, (.fassign 0 (.mul (.fld 0) (.fld 1)))⟩, ⟨[], 1, (.fassign 0 (.mul (.fld 0) (.fld 1)))⟩, ⟨[], 1, (.fassign 0 (.mul (.fld 0) (.fld 1)))⟩]⟩

/-- `inc_aX_times_Y`: code `x1(df) = ((s0 * x1(df)) * x2(df))` — doc `field1(:) = rscalar*field1(:)*field2(:)` -/
def code_inc_aX_times_Y : Code := ⟨[], 1, (.fassign 1 (.mul (.mul (.scal 0) (.fld 1)) (.fld 2)))⟩
def doc_inc_aX_times_Y : Doc := (.arrayAssign 1 (.mul (.mul (.scal 0) (.fld 1)) (.fld 2)))
def b_inc_aX_times_Y : Builtin := ⟨22, [⟨1, 0, 0⟩, ⟨0, 0, 2⟩, ⟨0, 0, 0⟩], code_inc_aX_times_Y, doc_inc_aX_times_Y, [.undf, .undf, .owned, .annexed], [⟨[], 1, (.fassign 1 (.mul (.mul (.scal 0) (.fld 1)) (.fld 2)))⟩, ⟨[], 1, (.fassign 1 (.mul (.mul (.scal 0) (.fld 1)) (.fld 2)))⟩, ⟨[], 1, (.fassign 1 (.mul (.mul (.scal 0) (.fld 1)) (.fld 2)))⟩, ⟨[], 1, (.fassign 1 (.mul (.mul (.scal 0) (.fld 1)) (.fld 2)))⟩]⟩

/-- `a_times_X`: code `x0(df) = (s1 * x2(df))` — doc `field2(:) = rscalar*field1(:)` -/
def code_a_times_X : Code := ⟨[], 1, (.fassign 0 (.mul (.scal 1) (.fld 2)))⟩
def doc_a_times_X : Doc := (.arrayAssign 0 (.mul (.scal 1) (.fld 2)))
def b_a_times_X : Builtin := ⟨23, [⟨0, 0, 1⟩, ⟨1, 0, 0⟩, ⟨0, 0, 0⟩], code_a_times_X, doc_a_times_X, [.undf, .undf, .owned, .annexed], [⟨[], 1, (.fassign 0 (.mul (.scal 1) (.fld 2)))⟩, ⟨[], 1, (.fassign 0 (.mul (.scal 1) (.fld 2)))⟩, ⟨[], 1, (.fassign 0 (.mul (.scal 1) (.fld 2)))⟩, ⟨[], 1, (.fassign 0 (.mul (.scal 1) (.fld 2)))⟩]⟩

/-- `inc_a_times_X`: code `x1(df) = (s0 * x1(df))` — doc `field(:) = rscalar*field(:)` -/
def code_inc_a_times_X : Code := ⟨[], 1, (.fassign 1 (.mul (.scal 0) (.fld 1)))⟩
def doc_inc_a_times_X : Doc := (.arrayAssign 1 (.mul (.scal 0) (.fld 1)))
def b_inc_a_times_X : Builtin := ⟨24, [⟨1, 0, 0⟩, ⟨0, 0, 2⟩], code_inc_a_times_X, doc_inc_a_times_X, [.undf, .undf, .owned, .annexed], [⟨[], 1, (.fassign 1 (.mul (.scal 0) (.fld 1)))⟩, ⟨[], 1, (.fassign 1 (.mul (.scal 0) (.fld 1)))⟩, ⟨[], 1, (.fassign 1 (.mul (.scal 0) (.fld 1)))⟩, ⟨[], 1, (.fassign 1 (.mul (.scal 0) (.fld 1)))⟩]⟩

/-- `X_divideby_Y`: code `x0(df) = (x1(df) / x2(df))` — doc `field3(:) = field1(:)/field2(:)` -/
def code_X_divideby_Y : Code := ⟨[], 1, (.fassign 0 (.div (.fld 1) (.fld 2)))⟩
def doc_X_divideby_Y : Doc := (.arrayAssign 0 (.div (.fld 1) (.fld 2)))
def b_X_divideby_Y : Builtin := ⟨25, [⟨0, 0, 1⟩, ⟨0, 0, 0⟩, ⟨0, 0, 0⟩], code_X_divideby_Y, doc_X_divideby_Y, [.undf, .undf, .owned, .annexed], [⟨[], 1, (.fassign 0 (.div (.fld 1) (.fld 2)))⟩, ⟨[], 1, (.fassign 0 (.div (.fld 1) (.fld 2)))⟩, ⟨[], 1, (.fassign 0 (.div (.fld 1) (.fld 2)))⟩, ⟨[], 1, (.fassign 0 (.div (.fld 1) (.fld 2)))⟩]⟩

/-- `inc_X_divideby_Y`: code `x0(df) = (x0(df) / x1(df))` — doc `field1(:) = field1(:)/field2(:)` -/
def code_inc_X_divideby_Y : Code := ⟨[], 1, (.fassign 0 (.div (.fld 0) (.fld 1)))⟩
def doc_inc_X_divideby_Y : Doc := (.arrayAssign 0 (.div (.fld 0) (.fld 1)))
def b_inc_X_divideby_Y : Builtin := ⟨26, [⟨0, 0, 2⟩, ⟨0, 0, 0⟩], code_inc_X_divideby_Y, doc_inc_X_divideby_Y, [.undf, .undf, .owned, .annexed], [⟨[], 1, (.fassign 0 (.div (.fld 0) (.fld 1)))⟩, ⟨[], 1, (.fassign 0 (.div (.fld 0) (.fld 1)))⟩, ⟨[], 1, (.fassign 0 (.div (.fld 0) (.fld 1)))⟩, ⟨[], 1, (.fassign 0 (.div (.fld 0) (.fld 1)))⟩]⟩

/-- `X_divideby_a`: code `x0(df) = (x1(df) / s2)` — doc `field2(:) = field1(:)/rscalar` -/
def code_X_divideby_a : Code := ⟨[], 1, (.fassign 0 (.div (.fld 1) (.scal 2)))⟩
def doc_X_divideby_a : Doc := (.arrayAssign 0 (.div (.fld 1) (.scal 2)))
def b_X_divideby_a : Builtin := ⟨27, [⟨0, 0, 1⟩, ⟨0, 0, 0⟩, ⟨1, 0, 0⟩], code_X_divideby_a, doc_X_divideby_a, [.undf, .undf, .owned, .annexed], [⟨[], 1, (.fassign 0 (.div (.fld 1) (.scal 2)))⟩, ⟨[], 1, (.fassign 0 (.div (.fld 1) (.scal 2)))⟩, ⟨[], 1, (.fassign 0 (.div (.fld 1) (.scal 2)))⟩, ⟨[], 1, (.fassign 0 (.div (.fld 1) (.scal 2)))⟩]⟩

/-- `inc_X_divideby_a`: code `x0(df) = (x0(df) / s1)` — doc `field(:) = field(:)/rscalar` -/
def code_inc_X_divideby_a : Code := ⟨[], 1, (.fassign 0 (.div (.fld 0) (.scal 1)))⟩
def doc_inc_X_divideby_a : Doc := (.arrayAssign 0 (.div (.fld 0) (.scal 1)))
def b_inc_X_divideby_a : Builtin := ⟨28, [⟨0, 0, 2⟩, ⟨1, 0, 0⟩], code_inc_X_divideby_a, doc_inc_X_divideby_a, [.undf, .undf, .owned, .annexed], [⟨[], 1, (.fassign 0 (.div (.fld 0) (.scal 1)))⟩, ⟨[], 1, (.fassign 0 (.div (.fld 0) (.scal 1)))⟩, ⟨[], 1, (.fassign 0 (.div (.fld 0) (.scal 1)))⟩, ⟨[], 1, (.fassign 0 (.div (.fld 0) (.scal 1)))⟩]⟩

/-- `a_divideby_X`: code `x0(df) = (s1 / x2(df))` — doc `field2(:) = rscalar/field1(:)` -/
def code_a_divideby_X : Code := ⟨[], 1, (.fassign 0 (.div (.scal 1) (.fld 2)))⟩
def doc_a_divideby_X : Doc := (.arrayAssign 0 (.div (.scal 1) (.fld 2)))
def b_a_divideby_X : Builtin := ⟨29, [⟨0, 0, 1⟩, ⟨1, 0, 0⟩, ⟨0, 0, 0⟩], code_a_divideby_X, doc_a_divideby_X, [.undf, .undf, .owned, .annexed], [⟨[], 1, (.fassign 0 (.div (.scal 1) (.fld 2)))⟩, ⟨[], 1, (.fassign 0 (.div (.scal 1) (.fld 2)))⟩, ⟨[], 1, (.fassign 0 (.div (.scal 1) (.fld 2)))⟩, ⟨[], 1, (.fassign 0 (.div (.scal 1) (.fld 2)))⟩]⟩

/-- `inc_a_divideby_X`: code `x1(df) = (s0 / x1(df))` — doc `field(:) = rscalar/field(:)` -/
def code_inc_a_divideby_X : Code := ⟨[], 1, (.fassign 1 (.div (.scal 0) (.fld 1)))⟩
def doc_inc_a_divideby_X : Doc := (.arrayAssign 1 (.div (.scal 0) (.fld 1)))
def b_inc_a_divideby_X : Builtin := ⟨30, [⟨1, 0, 0⟩, ⟨0, 0, 2⟩], code_inc_a_divideby_X, doc_inc_a_divideby_X, [.undf, .undf, .owned, .annexed], [⟨[], 1, (.fassign 1 (.div (.scal 0) (.fld 1)))⟩, ⟨[], 1, (.fassign 1 (.div (.scal 0) (.fld 1)))⟩, ⟨[], 1, (.fassign 1 (.div (.scal 0) (.fld 1)))⟩, ⟨[], 1, (.fassign 1 (.div (.scal 0) (.fld 1)))⟩]⟩

/-- `inc_X_powreal_a`: code `x0(df) = (x0(df) ** s1)` — doc `field(:) = field(:)**rscalar` -/
def code_inc_X_powreal_a : Code := ⟨[], 1, (.fassign 0 (.pow (.fld 0) (.scal 1)))⟩
def doc_inc_X_powreal_a : Doc := (.arrayAssign 0 (.pow (.fld 0) (.scal 1)))
def b_inc_X_powreal_a : Builtin := ⟨31, [⟨0, 0, 2⟩, ⟨1, 0, 0⟩], code_inc_X_powreal_a, doc_inc_X_powreal_a, [.undf, .undf, .owned, .annexed], [⟨[], 1, (.fassign 0 (.pow (.fld 0) (.scal 1)))⟩, ⟨[], 1, (.fassign 0 (.pow (.fld 0) (.scal 1)))⟩, ⟨[], 1, (.fassign 0 (.pow (.fld 0) (.scal 1)))⟩, ⟨[], 1, (.fassign 0 (.pow (.fld 0) (.scal 1)))⟩]⟩

/-- `inc_X_powint_n`: code `x0(df) = (x0(df) ** s1)` — doc `field(:) = field(:)**iscalar` -/
def code_inc_X_powint_n : Code := ⟨[], 1, (.fassign 0 (.pow (.fld 0) (.scal 1)))⟩
def doc_inc_X_powint_n : Doc := (.arrayAssign 0 (.pow (.fld 0) (.scal 1)))
def b_inc_X_powint_n : Builtin := ⟨32, [⟨0, 0, 2⟩, ⟨1, 1, 0⟩], code_inc_X_powint_n, doc_inc_X_powint_n, [.undf, .undf, .owned, .annexed], [⟨[], 1, (.fassign 0 (.pow (.fld 0) (.scal 1)))⟩, ⟨[], 1, (.fassign 0 (.pow (.fld 0) (.scal 1)))⟩, ⟨[], 1, (.fassign 0 (.pow (.fld 0) (.scal 1)))⟩, ⟨[], 1, (.fassign 0 (.pow (.fld 0) (.scal 1)))⟩]⟩

/-- `setval_c`: code `x0(df) = s1` — doc `field(:) = constant` -/
def code_setval_c : Code := ⟨[], 1, (.fassign 0 (.scal 1))⟩
def doc_setval_c : Doc := (.arrayAssign 0 (.scal 1))
def b_setval_c : Builtin := ⟨33, [⟨0, 0, 1⟩, ⟨1, 0, 0⟩], code_setval_c, doc_setval_c, [.undf, .undf, .owned, .annexed], [⟨[], 1, (.fassign 0 (.scal 1))⟩, ⟨[], 1, (.fassign 0 (.scal 1))⟩, ⟨[], 1, (.fassign 0 (.scal 1))⟩, ⟨[], 1, (.fassign 0 (.scal 1))⟩]⟩

/-- `setval_X`: code `x0(df) = x1(df)` — doc `field2(:) = field1(:)` -/
def code_setval_X : Code := ⟨[], 1, (.fassign 0 (.fld 1))⟩
def doc_setval_X : Doc := (.arrayAssign 0 (.fld 1))
def b_setval_X : Builtin := ⟨34, [⟨0, 0, 1⟩, ⟨0, 0, 0⟩], code_setval_X, doc_setval_X, [.undf, .undf, .owned, .annexed], [⟨[], 1, (.fassign 0 (.fld 1))⟩, ⟨[], 1, (.fassign 0 (.fld 1))⟩, ⟨[], 1, (.fassign 0 (.fld 1))⟩, ⟨[], 1, (.fassign 0 (.fld 1))⟩]⟩

/-- `setval_random`: code `call random_number(x0(df))` — doc `do df = 1, ndofs / field(df) = RAND() / end do` -/
def code_setval_random : Code := ⟨[], 1, (.rand 0)⟩
def doc_setval_random : Doc := (.randomFill 0)
def b_setval_random : Builtin := ⟨35, [⟨0, 0, 1⟩], code_setval_random, doc_setval_random, [.undf, .undf, .owned, .annexed], [⟨[], 1, (.rand 0)⟩, ⟨[], 1, (.rand 0)⟩, ⟨[], 1, (.rand 0)⟩, ⟨[], 1, (.rand 0)⟩]⟩

/-- `X_innerproduct_Y`: code `s0 = 0; s0 = (s0 + (x1(df) * x2(df)))` — doc `innprod = SUM(field1(:)*field2(:))` -/
def code_X_innerproduct_Y : Code := ⟨[(.sassign 0 (.lit (0) 1))], 1, (.sassign 0 (.add (.scal 0) (.mul (.fld 1) (.fld 2))))⟩
def doc_X_innerproduct_Y : Doc := (.sum 0 (.mul (.fld 1) (.fld 2)))
def b_X_innerproduct_Y : Builtin := ⟨36, [⟨1, 0, 3⟩, ⟨0, 0, 0⟩, ⟨0, 0, 0⟩], code_X_innerproduct_Y, doc_X_innerproduct_Y, [.undf, .undf, .owned, .owned], [⟨[(.sassign 0 (.lit (0) 1))], 1, (.sassign 0 (.add (.scal 0) (.mul (.fld 1) (.fld 2))))⟩, ⟨[(.sassign 0 (.lit (0) 1))], 1, (.sassign 0 (.add (.scal 0) (.mul (.fld 1) (.fld 2))))⟩, ⟨[(.sassign 0 (.lit (0) 1))], 1, (.sassign 0 (.add (.scal 0) (.mul (.fld 1) (.fld 2))))⟩, ⟨[(.sassign 0 (.lit (0) 1))], 1, (.sassign 0 (.add (.scal 0) (.mul (.fld 1) (.fld 2))))⟩]⟩

/-- `X_innerproduct_X`: code `s0 = 0; s0 = (s0 + (x1(df) * x1(df)))` — doc `innprod = SUM(field(:)*field(:))` -/
def code_X_innerproduct_X : Code := ⟨[(.sassign 0 (.lit (0) 1))], 1, (.sassign 0 (.add (.scal 0) (.mul (.fld 1) (.fld 1))))⟩
def doc_X_innerproduct_X : Doc := (.sum 0 (.mul (.fld 1) (.fld 1)))
def b_X_innerproduct_X : Builtin := ⟨37, [⟨1, 0, 3⟩, ⟨0, 0, 0⟩], code_X_innerproduct_X, doc_X_innerproduct_X, [.undf, .undf, .owned, .owned], [⟨[(.sassign 0 (.lit (0) 1))], 1, (.sassign 0 (.add (.scal 0) (.mul (.fld 1) (.fld 1))))⟩, ⟨[(.sassign 0 (.lit (0) 1))], 1, (.sassign 0 (.add (.scal 0) (.mul (.fld 1) (.fld 1))))⟩, ⟨[(.sassign 0 (.lit (0) 1))], 1, (.sassign 0 (.add (.scal 0) (.mul (.fld 1) (.fld 1))))⟩, ⟨[(.sassign 0 (.lit (0) 1))], 1, (.sassign 0 (.add (.scal 0) (.mul (.fld 1) (.fld 1))))⟩]⟩

/-- `sum_X`: code `s0 = 0; s0 = (s0 + x1(df))` — doc `sumfld = SUM(field(:))` -/
def code_sum_X : Code := ⟨[(.sassign 0 (.lit (0) 1))], 1, (.sassign 0 (.add (.scal 0) (.fld 1)))⟩
def doc_sum_X : Doc := (.sum 0 (.fld 1))
def b_sum_X : Builtin := ⟨38, [⟨1, 0, 3⟩, ⟨0, 0, 0⟩], code_sum_X, doc_sum_X, [.undf, .undf, .owned, .owned], [⟨[(.sassign 0 (.lit (0) 1))], 1, (.sassign 0 (.add (.scal 0) (.fld 1)))⟩, ⟨[(.sassign 0 (.lit (0) 1))], 1, (.sassign 0 (.add (.scal 0) (.fld 1)))⟩, ⟨[(.sassign 0 (.lit (0) 1))], 1, (.sassign 0 (.add (.scal 0) (.fld 1)))⟩, ⟨[(.sassign 0 (.lit (0) 1))], 1, (.sassign 0 (.add (.scal 0) (.fld 1)))⟩]⟩

/-- `sign_X`: code `x0(df) = SIGN(s1, x2(df))` — doc `field2(:) = SIGN(rscalar, field1(:))` -/
def code_sign_X : Code := ⟨[], 1, (.fassign 0 (.sign (.scal 1) (.fld 2)))⟩
def doc_sign_X : Doc := (.arrayAssign 0 (.sign (.scal 1) (.fld 2)))
def b_sign_X : Builtin := ⟨39, [⟨0, 0, 1⟩, ⟨1, 0, 0⟩, ⟨0, 0, 0⟩], code_sign_X, doc_sign_X, [.undf, .undf, .owned, .annexed], [⟨[], 1, (.fassign 0 (.sign (.scal 1) (.fld 2)))⟩, ⟨[], 1, (.fassign 0 (.sign (.scal 1) (.fld 2)))⟩, ⟨[], 1, (.fassign 0 (.sign (.scal 1) (.fld 2)))⟩, ⟨[], 1, (.fassign 0 (.sign (.scal 1) (.fld 2)))⟩]⟩

/-- `max_aX`: code `x0(df) = MAX(s1, x2(df))` — doc `field2(:) = MAX(rscalar, field1(:))` -/
def code_max_aX : Code := ⟨[], 1, (.fassign 0 (.max (.scal 1) (.fld 2)))⟩
def doc_max_aX : Doc := (.arrayAssign 0 (.max (.scal 1) (.fld 2)))
def b_max_aX : Builtin := ⟨40, [⟨0, 0, 1⟩, ⟨1, 0, 0⟩, ⟨0, 0, 0⟩], code_max_aX, doc_max_aX, [.undf, .undf, .owned, .annexed], [⟨[], 1, (.fassign 0 (.max (.scal 1) (.fld 2)))⟩, ⟨[], 1, (.fassign 0 (.max (.scal 1) (.fld 2)))⟩, ⟨[], 1, (.fassign 0 (.max (.scal 1) (.fld 2)))⟩, ⟨[], 1, (.fassign 0 (.max (.scal 1) (.fld 2)))⟩]⟩

/-- `inc_max_aX`: code `x1(df) = MAX(s0, x1(df))` — doc `field(:) = MAX(rscalar, field(:))` -/
def code_inc_max_aX : Code := ⟨[], 1, (.fassign 1 (.max (.scal 0) (.fld 1)))⟩
def doc_inc_max_aX : Doc := (.arrayAssign 1 (.max (.scal 0) (.fld 1)))
def b_inc_max_aX : Builtin := ⟨41, [⟨1, 0, 0⟩, ⟨0, 0, 2⟩], code_inc_max_aX, doc_inc_max_aX, [.undf, .undf, .owned, .annexed], [⟨[], 1, (.fassign 1 (.max (.scal 0) (.fld 1)))⟩, ⟨[], 1, (.fassign 1 (.max (.scal 0) (.fld 1)))⟩, ⟨[], 1, (.fassign 1 (.max (.scal 0) (.fld 1)))⟩, ⟨[], 1, (.fassign 1 (.max (.scal 0) (.fld 1)))⟩]⟩

/-- `min_aX`: code `x0(df) = MIN(s1, x2(df))` — doc `field2(:) = MIN(rscalar, field1(:))` -/
def code_min_aX : Code := ⟨[], 1, (.fassign 0 (.min (.scal 1) (.fld 2)))⟩
def doc_min_aX : Doc := (.arrayAssign 0 (.min (.scal 1) (.fld 2)))
def b_min_aX : Builtin := ⟨42, [⟨0, 0, 1⟩, ⟨1, 0, 0⟩, ⟨0, 0, 0⟩], code_min_aX, doc_min_aX, [.undf, .undf, .owned, .annexed], [⟨[], 1, (.fassign 0 (.min (.scal 1) (.fld 2)))⟩, ⟨[], 1, (.fassign 0 (.min (.scal 1) (.fld 2)))⟩, ⟨[], 1, (.fassign 0 (.min (.scal 1) (.fld 2)))⟩, ⟨[], 1, (.fassign 0 (.min (.scal 1) (.fld 2)))⟩]⟩

/-- `inc_min_aX`: code `x1(df) = MIN(s0, x1(df))` — doc `field(:) = MIN(rscalar, field(:))` -/
def code_inc_min_aX : Code := ⟨[], 1, (.fassign 1 (.min (.scal 0) (.fld 1)))⟩
def doc_inc_min_aX : Doc := (.arrayAssign 1 (.min (.scal 0) (.fld 1)))
def b_inc_min_aX : Builtin := ⟨43, [⟨1, 0, 0⟩, ⟨0, 0, 2⟩], code_inc_min_aX, doc_inc_min_aX, [.undf, .undf, .owned, .annexed], [⟨[], 1, (.fassign 1 (.min (.scal 0) (.fld 1)))⟩, ⟨[], 1, (.fassign 1 (.min (.scal 0) (.fld 1)))⟩, ⟨[], 1, (.fassign 1 (.min (.scal 0) (.fld 1)))⟩, ⟨[], 1, (.fassign 1 (.min (.scal 0) (.fld 1)))⟩]⟩

/-- `real_to_int_X`: code `x0(df) = TOINT(x1(df))` — doc `ifield2(:) = INT(field1(:), kind=i_<prec>)` -/
def code_real_to_int_X : Code := ⟨[], 1, (.fassign 0 (.toInt (.fld 1)))⟩
def doc_real_to_int_X : Doc := (.arrayAssign 0 (.toInt (.fld 1)))
def b_real_to_int_X : Builtin := ⟨44, [⟨0, 1, 1⟩, ⟨0, 0, 0⟩], code_real_to_int_X, doc_real_to_int_X, [.undf, .undf, .owned, .annexed], [⟨[], 1, (.fassign 0 (.toInt (.fld 1)))⟩, ⟨[], 1, (.fassign 0 (.toInt (.fld 1)))⟩, ⟨[], 1, (.fassign 0 (.toInt (.fld 1)))⟩, ⟨[], 1, (.fassign 0 (.toInt (.fld 1)))⟩]⟩

/-- `real_to_real_X`: code `x0(df) = TOREAL(x1(df))` — doc `field2(:) = REAL(field1(:), kind=r_<prec>)` -/
def code_real_to_real_X : Code := ⟨[], 1, (.fassign 0 (.toReal (.fld 1)))⟩
def doc_real_to_real_X : Doc := (.arrayAssign 0 (.toReal (.fld 1)))
def b_real_to_real_X : Builtin := ⟨45, [⟨0, 0, 1⟩, ⟨0, 0, 0⟩], code_real_to_real_X, doc_real_to_real_X, [.undf, .undf, .owned, .annexed], [⟨[], 1, (.fassign 0 (.toReal (.fld 1)))⟩, ⟨[], 1, (.fassign 0 (.toReal (.fld 1)))⟩, ⟨[], 1, (.fassign 0 (.toReal (.fld 1)))⟩, ⟨[], 1, (.fassign 0 (.toReal (.fld 1)))⟩]⟩

/-- `int_X_plus_Y`: code `x0(df) = (x1(df) + x2(df))` — doc `ifield3(:) = ifield1(:) + ifield2(:)` -/
def code_int_X_plus_Y : Code := ⟨[], 1, (.fassign 0 (.add (.fld 1) (.fld 2)))⟩
def doc_int_X_plus_Y : Doc := (.arrayAssign 0 (.add (.fld 1) (.fld 2)))
def b_int_X_plus_Y : Builtin := ⟨46, [⟨0, 1, 1⟩, ⟨0, 1, 0⟩, ⟨0, 1, 0⟩], code_int_X_plus_Y, doc_int_X_plus_Y, [.undf, .undf, .owned, .annexed], [⟨[], 1, (.fassign 0 (.add (.fld 1) (.fld 2)))⟩, ⟨[], 1, (.fassign 0 (.add (.fld 1) (.fld 2)))⟩, ⟨[], 1, (.fassign 0 (.add (.fld 1) (.fld 2)))⟩, ⟨[], 1, (.fassign 0 (.add (.fld 1) (.fld 2)))⟩]⟩

/-- `int_inc_X_plus_Y`: code `x0(df) = (x0(df) + x1(df))` — doc `ifield1(:) = ifield1(:) + ifield2(:)` -/
def code_int_inc_X_plus_Y : Code := ⟨[], 1, (.fassign 0 (.add (.fld 0) (.fld 1)))⟩
def doc_int_inc_X_plus_Y : Doc := (.arrayAssign 0 (.add (.fld 0) (.fld 1)))
def b_int_inc_X_plus_Y : Builtin := ⟨47, [⟨0, 1, 2⟩, ⟨0, 1, 0⟩], code_int_inc_X_plus_Y, doc_int_inc_X_plus_Y, [.undf, .undf, .owned, .annexed], [⟨[], 1, (.fassign 0 (.add (.fld 0) (.fld 1)))⟩, ⟨[], 1, (.fassign 0 (.add (.fld 0) (.fld 1)))⟩, ⟨[], 1, (.fassign 0 (.add (.fld 0) (.fld 1)))⟩, ⟨[], 1, (.fassign 0 (.add (.fld 0) (.fld 1)))⟩]⟩

/-- `int_a_plus_X`: code `x0(df) = (s1 + x2(df))` — doc `ifield2(:) = iscalar + ifield1(:)` -/
def code_int_a_plus_X : Code := ⟨[], 1, (.fassign 0 (.add (.scal 1) (.fld 2)))⟩
def doc_int_a_plus_X : Doc := (.arrayAssign 0 (.add (.scal 1) (.fld 2)))
def b_int_a_plus_X : Builtin := ⟨48, [⟨0, 1, 1⟩, ⟨1, 1, 0⟩, ⟨0, 1, 0⟩], code_int_a_plus_X, doc_int_a_plus_X, [.undf, .undf, .owned, .annexed], [⟨[], 1, (.fassign 0 (.add (.scal 1) (.fld 2)))⟩, ⟨[], 1, (.fassign 0 (.add (.scal 1) (.fld 2)))⟩, ⟨[], 1, (.fassign 0 (.add (.scal 1) (.fld 2)))⟩, ⟨[], 1, (.fassign 0 (.add (.scal 1) (.fld 2)))⟩]⟩

/-- `int_inc_a_plus_X`: code `x1(df) = (s0 + x1(df))` — doc `ifield(:) = iscalar + ifield(:)` -/
def code_int_inc_a_plus_X : Code := ⟨[], 1, (.fassign 1 (.add (.scal 0) (.fld 1)))⟩
def doc_int_inc_a_plus_X : Doc := (.arrayAssign 1 (.add (.scal 0) (.fld 1)))
def b_int_inc_a_plus_X : Builtin := ⟨49, [⟨1, 1, 0⟩, ⟨0, 1, 2⟩], code_int_inc_a_plus_X, doc_int_inc_a_plus_X, [.undf, .undf, .owned, .annexed], [⟨[], 1, (.fassign 1 (.add (.scal 0) (.fld 1)))⟩, ⟨[], 1, (.fassign 1 (.add (.scal 0) (.fld 1)))⟩, ⟨[], 1, (.fassign 1 (.add (.scal 0) (.fld 1)))⟩, ⟨[], 1, (.fassign 1 (.add (.scal 0) (.fld 1)))⟩]⟩

/-- `int_X_minus_Y`: code `x0(df) = (x1(df) - x2(df))` — doc `ifield3(:) = ifield1(:) - ifield2(:)` -/
def code_int_X_minus_Y : Code := ⟨[], 1, (.fassign 0 (.sub (.fld 1) (.fld 2)))⟩
def doc_int_X_minus_Y : Doc := (.arrayAssign 0 (.sub (.fld 1) (.fld 2)))
def b_int_X_minus_Y : Builtin := ⟨50, [⟨0, 1, 1⟩, ⟨0, 1, 0⟩, ⟨0, 1, 0⟩], code_int_X_minus_Y, doc_int_X_minus_Y, [.undf, .undf, .owned, .annexed], [⟨[], 1, (.fassign 0 (.sub (.fld 1) (.fld 2)))⟩, ⟨[], 1, (.fassign 0 (.sub (.fld 1) (.fld 2)))⟩, ⟨[], 1, (.fassign 0 (.sub (.fld 1) (.fld 2)))⟩, ⟨[], 1, (.fassign 0 (.sub (.fld 1) (.fld 2)))⟩]⟩

/-- `int_inc_X_minus_Y`: code `x0(df) = (x0(df) - x1(df))` — doc `ifield1(:) = ifield1(:) - ifield2(:)` -/
def code_int_inc_X_minus_Y : Code := ⟨[], 1, (.fassign 0 (.sub (.fld 0) (.fld 1)))⟩
def doc_int_inc_X_minus_Y : Doc := (.arrayAssign 0 (.sub (.fld 0) (.fld 1)))
def b_int_inc_X_minus_Y : Builtin := ⟨51, [⟨0, 1, 2⟩, ⟨0, 1, 0⟩], code_int_inc_X_minus_Y, doc_int_inc_X_minus_Y, [.undf, .undf, .owned, .annexed], [⟨[], 1, (.fassign 0 (.sub (.fld 0) (.fld 1)))⟩, ⟨[], 1, (.fassign 0 (.sub (.fld 0) (.fld 1)))⟩, ⟨[], 1, (.fassign 0 (.sub (.fld 0) (.fld 1)))⟩, ⟨[], 1, (.fassign 0 (.sub (.fld 0) (.fld 1)))⟩]⟩

/-- `int_a_minus_X`: code `x0(df) = (s1 - x2(df))` — doc `ifield2(:) = iscalar - ifield1(:)` -/
def code_int_a_minus_X : Code := ⟨[], 1, (.fassign 0 (.sub (.scal 1) (.fld 2)))⟩
def doc_int_a_minus_X : Doc := (.arrayAssign 0 (.sub (.scal 1) (.fld 2)))
def b_int_a_minus_X : Builtin := ⟨52, [⟨0, 1, 1⟩, ⟨1, 1, 0⟩, ⟨0, 1, 0⟩], code_int_a_minus_X, doc_int_a_minus_X, [.undf, .undf, .owned, .annexed], [⟨[], 1, (.fassign 0 (.sub (.scal 1) (.fld 2)))⟩, ⟨[], 1, (.fassign 0 (.sub (.scal 1) (.fld 2)))⟩, ⟨[], 1, (.fassign 0 (.sub (.scal 1) (.fld 2)))⟩, ⟨[], 1, (.fassign 0 (.sub (.scal 1) (.fld 2)))⟩]⟩

/-- `int_inc_a_minus_X`: code `x1(df) = (s0 - x1(df))` — doc `ifield(:) = iscalar - ifield(:)` -/
def code_int_inc_a_minus_X : Code := ⟨[], 1, (.fassign 1 (.sub (.scal 0) (.fld 1)))⟩
def doc_int_inc_a_minus_X : Doc := (.arrayAssign 1 (.sub (.scal 0) (.fld 1)))
def b_int_inc_a_minus_X : Builtin := ⟨53, [⟨1, 1, 0⟩, ⟨0, 1, 2⟩], code_int_inc_a_minus_X, doc_int_inc_a_minus_X, [.undf, .undf, .owned, .annexed], [⟨[], 1, (.fassign 1 (.sub (.scal 0) (.fld 1)))⟩, ⟨[], 1, (.fassign 1 (.sub (.scal 0) (.fld 1)))⟩, ⟨[], 1, (.fassign 1 (.sub (.scal 0) (.fld 1)))⟩, ⟨[], 1, (.fassign 1 (.sub (.scal 0) (.fld 1)))⟩]⟩

/-- `int_X_minus_a`: code `x0(df) = (x1(df) - s2)` — doc `ifield2(:) =  ifield1(:) - iscalar` -/
def code_int_X_minus_a : Code := ⟨[], 1, (.fassign 0 (.sub (.fld 1) (.scal 2)))⟩
def doc_int_X_minus_a : Doc := (.arrayAssign 0 (.sub (.fld 1) (.scal 2)))
def b_int_X_minus_a : Builtin := ⟨54, [⟨0, 1, 1⟩, ⟨0, 1, 0⟩, ⟨1, 1, 0⟩], code_int_X_minus_a, doc_int_X_minus_a, [.undf, .undf, .owned, .annexed], [⟨[], 1, (.fassign 0 (.sub (.fld 1) (.scal 2)))⟩, ⟨[], 1, (.fassign 0 (.sub (.fld 1) (.scal 2)))⟩, ⟨[], 1, (.fassign 0 (.sub (.fld 1) (.scal 2)))⟩, ⟨[], 1, (.fassign 0 (.sub (.fld 1) (.scal 2)))⟩]⟩

/-- `int_inc_X_minus_a`: code `x0(df) = (x0(df) - s1)` — doc `ifield(:) =  ifield(:) - iscalar` -/
def code_int_inc_X_minus_a : Code := ⟨[], 1, (.fassign 0 (.sub (.fld 0) (.scal 1)))⟩
def doc_int_inc_X_minus_a : Doc := (.arrayAssign 0 (.sub (.fld 0) (.scal 1)))
def b_int_inc_X_minus_a : Builtin := ⟨55, [⟨0, 1, 2⟩, ⟨1, 1, 0⟩], code_int_inc_X_minus_a, doc_int_inc_X_minus_a, [.undf, .undf, .owned, .annexed], [⟨[], 1, (.fassign 0 (.sub (.fld 0) (.scal 1)))⟩, ⟨[], 1, (.fassign 0 (.sub (.fld 0) (.scal 1)))⟩, ⟨[], 1, (.fassign 0 (.sub (.fld 0) (.scal 1)))⟩, ⟨[], 1, (.fassign 0 (.sub (.fld 0) (.scal 1)))⟩]⟩

/-- `int_X_times_Y`: code `x0(df) = (x1(df) * x2(df))` — doc `ifield3(:) = ifield1(:)*ifield2(:)` -/
def code_int_X_times_Y : Code := ⟨[], 1, (.fassign 0 (.mul (.fld 1) (.fld 2)))⟩
def doc_int_X_times_Y : Doc := (.arrayAssign 0 (.mul (.fld 1) (.fld 2)))
def b_int_X_times_Y : Builtin := ⟨56, [⟨0, 1, 1⟩, ⟨0, 1, 0⟩, ⟨0, 1, 0⟩], code_int_X_times_Y, doc_int_X_times_Y, [.undf, .undf, .owned, .annexed], [⟨[], 1, (.fassign 0 (.mul (.fld 1) (.fld 2)))⟩, ⟨[], 1, (.fassign 0 (.mul (.fld 1) (.fld 2)))⟩, ⟨[], 1, (.fassign 0 (.mul (.fld 1) (.fld 2)))⟩, ⟨[], 1, (.fassign 0 (.mul (.fld 1) (.fld 2)))⟩]⟩

/-- `int_inc_X_times_Y`: code `x0(df) = (x0(df) * x1(df))` — doc `ifield1(:) = ifield1(:)*ifield2(:)` -/
def code_int_inc_X_times_Y : Code := ⟨[], 1, (.fassign 0 (.mul (.fld 0) (.fld 1)))⟩
def doc_int_inc_X_times_Y : Doc := (.arrayAssign 0 (.mul (.fld 0) (.fld 1)))
def b_int_inc_X_times_Y : Builtin := ⟨57, [⟨0, 1, 2⟩, ⟨0, 1, 0⟩], code_int_inc_X_times_Y, doc_int_inc_X_times_Y, [.undf, .undf, .owned, .annexed], [⟨[], 1, (.fassign 0 (.mul (.fld 0) (.fld 1)))⟩, ⟨[], 1, (.fassign 0 (.mul (.fld 0) (.fld 1)))⟩, ⟨[], 1, (.fassign 0 (.mul (.fld 0) (.fld 1)))⟩, ⟨[], 1, (.fassign 0 (.mul (.fld 0) (.fld 1)))⟩]⟩

/-- `int_a_times_X`: code `x0(df) = (s1 * x2(df))` — doc `ifield2(:) = iscalar*ifield1(:)` -/
def code_int_a_times_X : Code := ⟨[], 1, (.fassign 0 (.mul (.scal 1) (.fld 2)))⟩
def doc_int_a_times_X : Doc := (.arrayAssign 0 (.mul (.scal 1) (.fld 2)))
def b_int_a_times_X : Builtin := ⟨58, [⟨0, 1, 1⟩, ⟨1, 1, 0⟩, ⟨0, 1, 0⟩], code_int_a_times_X, doc_int_a_times_X, [.undf, .undf, .owned, .annexed], [⟨[], 1, (.fassign 0 (.mul (.scal 1) (.fld 2)))⟩, ⟨[], 1, (.fassign 0 (.mul (.scal 1) (.fld 2)))⟩, ⟨[], 1, (.fassign 0 (.mul (.scal 1) (.fld 2)))⟩, ⟨[], 1, (.fassign 0 (.mul (.scal 1) (.fld 2)))⟩]⟩

/-- `int_inc_a_times_X`: code `x1(df) = (s0 * x1(df))` — doc `ifield(:) = iscalar*ifield(:)` -/
def code_int_inc_a_times_X : Code := ⟨[], 1, (.fassign 1 (.mul (.scal 0) (.fld 1)))⟩
def doc_int_inc_a_times_X : Doc := (.arrayAssign 1 (.mul (.scal 0) (.fld 1)))
def b_int_inc_a_times_X : Builtin := ⟨59, [⟨1, 1, 0⟩, ⟨0, 1, 2⟩], code_int_inc_a_times_X, doc_int_inc_a_times_X, [.undf, .undf, .owned, .annexed], [⟨[], 1, (.fassign 1 (.mul (.scal 0) (.fld 1)))⟩, ⟨[], 1, (.fassign 1 (.mul (.scal 0) (.fld 1)))⟩, ⟨[], 1, (.fassign 1 (.mul (.scal 0) (.fld 1)))⟩, ⟨[], 1, (.fassign 1 (.mul (.scal 0) (.fld 1)))⟩]⟩

/-- `int_setval_c`: code `x0(df) = s1` — doc `ifield(:) = constant` -/
def code_int_setval_c : Code := ⟨[], 1, (.fassign 0 (.scal 1))⟩
def doc_int_setval_c : Doc := (.arrayAssign 0 (.scal 1))
def b_int_setval_c : Builtin := ⟨60, [⟨0, 1, 1⟩, ⟨1, 1, 0⟩], code_int_setval_c, doc_int_setval_c, [.undf, .undf, .owned, .annexed], [⟨[], 1, (.fassign 0 (.scal 1))⟩, ⟨[], 1, (.fassign 0 (.scal 1))⟩, ⟨[], 1, (.fassign 0 (.scal 1))⟩, ⟨[], 1, (.fassign 0 (.scal 1))⟩]⟩

/-- `int_setval_X`: code `x0(df) = x1(df)` — doc `ifield2(:) = ifield1(:)` -/
def code_int_setval_X : Code := ⟨[], 1, (.fassign 0 (.fld 1))⟩
def doc_int_setval_X : Doc := (.arrayAssign 0 (.fld 1))
def b_int_setval_X : Builtin := ⟨61, [⟨0, 1, 1⟩, ⟨0, 1, 0⟩], code_int_setval_X, doc_int_setval_X, [.undf, .undf, .owned, .annexed], [⟨[], 1, (.fassign 0 (.fld 1))⟩, ⟨[], 1, (.fassign 0 (.fld 1))⟩, ⟨[], 1, (.fassign 0 (.fld 1))⟩, ⟨[], 1, (.fassign 0 (.fld 1))⟩]⟩

/-- `int_sign_X`: code `x0(df) = SIGN(s1, x2(df))` — doc `ifield2(:) = SIGN(iscalar, ifield1(:))` -/
def code_int_sign_X : Code := ⟨[], 1, (.fassign 0 (.sign (.scal 1) (.fld 2)))⟩
def doc_int_sign_X : Doc := (.arrayAssign 0 (.sign (.scal 1) (.fld 2)))
def b_int_sign_X : Builtin := ⟨62, [⟨0, 1, 1⟩, ⟨1, 1, 0⟩, ⟨0, 1, 0⟩], code_int_sign_X, doc_int_sign_X, [.undf, .undf, .owned, .annexed], [⟨[], 1, (.fassign 0 (.sign (.scal 1) (.fld 2)))⟩, ⟨[], 1, (.fassign 0 (.sign (.scal 1) (.fld 2)))⟩, ⟨[], 1, (.fassign 0 (.sign (.scal 1) (.fld 2)))⟩, ⟨[], 1, (.fassign 0 (.sign (.scal 1) (.fld 2)))⟩]⟩

/-- `int_max_aX`: code `x0(df) = MAX(s1, x2(df))` — doc `ifield2(:) = MAX(iscalar, ifield1(:))` -/
def code_int_max_aX : Code := ⟨[], 1, (.fassign 0 (.max (.scal 1) (.fld 2)))⟩
def doc_int_max_aX : Doc := (.arrayAssign 0 (.max (.scal 1) (.fld 2)))
def b_int_max_aX : Builtin := ⟨63, [⟨0, 1, 1⟩, ⟨1, 1, 0⟩, ⟨0, 1, 0⟩], code_int_max_aX, doc_int_max_aX, [.undf, .undf, .owned, .annexed], [⟨[], 1, (.fassign 0 (.max (.scal 1) (.fld 2)))⟩, ⟨[], 1, (.fassign 0 (.max (.scal 1) (.fld 2)))⟩, ⟨[], 1, (.fassign 0 (.max (.scal 1) (.fld 2)))⟩, ⟨[], 1, (.fassign 0 (.max (.scal 1) (.fld 2)))⟩]⟩

/-- `int_inc_max_aX`: code `x1(df) = MAX(s0, x1(df))` — doc `ifield(:) = MAX(iscalar, ifield(:))` -/
def code_int_inc_max_aX : Code := ⟨[], 1, (.fassign 1 (.max (.scal 0) (.fld 1)))⟩
def doc_int_inc_max_aX : Doc := (.arrayAssign 1 (.max (.scal 0) (.fld 1)))
def b_int_inc_max_aX : Builtin := ⟨64, [⟨1, 1, 0⟩, ⟨0, 1, 2⟩], code_int_inc_max_aX, doc_int_inc_max_aX, [.undf, .undf, .owned, .annexed], [⟨[], 1, (.fassign 1 (.max (.scal 0) (.fld 1)))⟩, ⟨[], 1, (.fassign 1 (.max (.scal 0) (.fld 1)))⟩, ⟨[], 1, (.fassign 1 (.max (.scal 0) (.fld 1)))⟩, ⟨[], 1, (.fassign 1 (.max (.scal 0) (.fld 1)))⟩]⟩

/-- `int_min_aX`: code `x0(df) = MIN(s1, x2(df))` — doc `ifield2(:) = MIN(iscalar, ifield1(:))` -/
def code_int_min_aX : Code := ⟨[], 1, (.fassign 0 (.min (.scal 1) (.fld 2)))⟩
def doc_int_min_aX : Doc := (.arrayAssign 0 (.min (.scal 1) (.fld 2)))
def b_int_min_aX : Builtin := ⟨65, [⟨0, 1, 1⟩, ⟨1, 1, 0⟩, ⟨0, 1, 0⟩], code_int_min_aX, doc_int_min_aX, [.undf, .undf, .owned, .annexed], [⟨[], 1, (.fassign 0 (.min (.scal 1) (.fld 2)))⟩, ⟨[], 1, (.fassign 0 (.min (.scal 1) (.fld 2)))⟩, ⟨[], 1, (.fassign 0 (.min (.scal 1) (.fld 2)))⟩, ⟨[], 1, (.fassign 0 (.min (.scal 1) (.fld 2)))⟩]⟩

/-- `int_inc_min_aX`: code `x1(df) = MIN(s0, x1(df))` — doc `ifield(:) = MIN(iscalar, ifield(:))` -/
def code_int_inc_min_aX : Code := ⟨[], 1, (.fassign 1 (.min (.scal 0) (.fld 1)))⟩
def doc_int_inc_min_aX : Doc := (.arrayAssign 1 (.min (.scal 0) (.fld 1)))
def b_int_inc_min_aX : Builtin := ⟨66, [⟨1, 1, 0⟩, ⟨0, 1, 2⟩], code_int_inc_min_aX, doc_int_inc_min_aX, [.undf, .undf, .owned, .annexed], [⟨[], 1, (.fassign 1 (.min (.scal 0) (.fld 1)))⟩, ⟨[], 1, (.fassign 1 (.min (.scal 0) (.fld 1)))⟩, ⟨[], 1, (.fassign 1 (.min (.scal 0) (.fld 1)))⟩, ⟨[], 1, (.fassign 1 (.min (.scal 0) (.fld 1)))⟩]⟩

/-- `int_to_real_X`: code `x0(df) = TOREAL(x1(df))` — doc `field2(:) = REAL(ifield1(:), kind=r_<prec>)` -/
def code_int_to_real_X : Code := ⟨[], 1, (.fassign 0 (.toReal (.fld 1)))⟩
def doc_int_to_real_X : Doc := (.arrayAssign 0 (.toReal (.fld 1)))
def b_int_to_real_X : Builtin := ⟨67, [⟨0, 0, 1⟩, ⟨0, 1, 0⟩], code_int_to_real_X, doc_int_to_real_X, [.undf, .undf, .owned, .annexed], [⟨[], 1, (.fassign 0 (.toReal (.fld 1)))⟩, ⟨[], 1, (.fassign 0 (.toReal (.fld 1)))⟩, ⟨[], 1, (.fassign 0 (.toReal (.fld 1)))⟩, ⟨[], 1, (.fassign 0 (.toReal (.fld 1)))⟩]⟩

def table : List Builtin := [b_X_plus_Y, b_inc_X_plus_Y, b_a_plus_X, b_inc_a_plus_X, b_aX_plus_Y, b_inc_aX_plus_Y, b_inc_X_plus_bY, b_aX_plus_bY, b_inc_aX_plus_bY, b_aX_plus_aY, b_X_minus_Y, b_inc_X_minus_Y, b_a_minus_X, b_inc_a_minus_X, b_X_minus_a, b_inc_X_minus_a, b_aX_minus_Y, b_X_minus_bY, b_inc_X_minus_bY, b_aX_minus_bY, b_X_times_Y, b_inc_X_times_Y, b_inc_aX_times_Y, b_a_times_X, b_inc_a_times_X, b_X_divideby_Y, b_inc_X_divideby_Y, b_X_divideby_a, b_inc_X_divideby_a, b_a_divideby_X, b_inc_a_divideby_X, b_inc_X_powreal_a, b_inc_X_powint_n, b_setval_c, b_setval_X, b_setval_random, b_X_innerproduct_Y, b_X_innerproduct_X, b_sum_X, b_sign_X, b_max_aX, b_inc_max_aX, b_min_aX, b_inc_min_aX, b_real_to_int_X, b_real_to_real_X, b_int_X_plus_Y, b_int_inc_X_plus_Y, b_int_a_plus_X, b_int_inc_a_plus_X, b_int_X_minus_Y, b_int_inc_X_minus_Y, b_int_a_minus_X, b_int_inc_a_minus_X, b_int_X_minus_a, b_int_inc_X_minus_a, b_int_X_times_Y, b_int_inc_X_times_Y, b_int_a_times_X, b_int_inc_a_times_X, b_int_setval_c, b_int_setval_X, b_int_sign_X, b_int_max_aX, b_int_inc_max_aX, b_int_min_aX, b_int_inc_min_aX, b_int_to_real_X]

end C20.Gen
