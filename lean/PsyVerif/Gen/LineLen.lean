/-! GENERATED on every run by harness/props/c18_gen.py from a live `FortLineLength` instance
(`_cont_start`, `_cont_end`, `_key_lists`, the four classifier regexes).  Do not edit. -/
namespace C18.Gen

def contStart : Nat → List Nat
  | 0 => [38]
  | 1 => [33, 36, 111, 109, 112, 38, 32]
  | 2 => [33, 36, 97, 99, 99, 38, 32]
  | 3 => [33, 38, 32]
  | _ => [38]

def contEnd : Nat → List Nat
  | 0 => [38]
  | 1 => [32, 38]
  | 2 => [32, 38]
  | 3 => []
  | _ => [38]

def keyList : Nat → List (List Nat)
  | 0 => [[44, 32], [44], [32]]
  | 1 => [[32], [44], [41], [61]]
  | 2 => [[32], [44], [41], [61]]
  | 3 => [[32], [46], [44]]
  | _ => [[32], [44], [61], [43], [41]]

/-- prefixes accepted (after leading white space) by the `stat` regex; compared case-insensitively, stored in lower case -/
def statPrefixes : List (List Nat) := [[105, 110, 116, 101, 103, 101, 114], [114, 101, 97, 108], [116, 121, 112, 101], [99, 97, 108, 108], [115, 117, 98, 114, 111, 117, 116, 105, 110, 101], [117, 115, 101]]
def statIgnoreCase : Bool := true

/-- prefixes accepted (after leading white space) by the `omp` regex; compared case-insensitively, stored in lower case -/
def ompPrefixes : List (List Nat) := [[33, 36, 111, 109, 112]]
def ompIgnoreCase : Bool := true

/-- prefixes accepted (after leading white space) by the `acc` regex; compared case-insensitively, stored in lower case -/
def accPrefixes : List (List Nat) := [[33, 36, 97, 99, 99]]
def accIgnoreCase : Bool := true

/-- prefixes accepted (after leading white space) by the `comment` regex -/
def commentPrefixes : List (List Nat) := [[33]]
def commentIgnoreCase : Bool := false

end C18.Gen
