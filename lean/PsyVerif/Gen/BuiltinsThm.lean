import PsyVerif.Gen.Builtins
import PsyVerif.Lemmas.Builtins
/-! GENERATED on every run by harness/props/c20.py from the live PSyclone tree
(lfric_builtins.py lowered inside one-built-in invokes, lfric_loop.py bounds, the generated PSy-layer
text, and the `::` formula blocks of doc/user_guide/dynamo0p3.rst).  DO NOT EDIT. -/

namespace C20.Gen
open C20

theorem impl_X_plus_Y : Implements code_X_plus_Y doc_X_plus_Y := implements_assign (by c20_pointwise)
theorem bounds_X_plus_Y : ∀ dm annexed, (b_X_plus_Y).bound dm annexed = docBound dm annexed (b_X_plus_Y).isReduction := by decide
theorem meta_X_plus_Y : ((b_X_plus_Y).written = [(b_X_plus_Y).doc.target] ∧ (b_X_plus_Y).code.body.target = (b_X_plus_Y).doc.target) := by decide
theorem variants_X_plus_Y : ∀ c ∈ (b_X_plus_Y).variants, c = (b_X_plus_Y).code := by decide
theorem domain_X_plus_Y : SameDomain code_X_plus_Y doc_X_plus_Y := by c20_domain
theorem correct_X_plus_Y : Correct b_X_plus_Y :=
  ⟨impl_X_plus_Y, bounds_X_plus_Y, meta_X_plus_Y, by decide, domain_X_plus_Y, variants_X_plus_Y⟩

theorem impl_inc_X_plus_Y : Implements code_inc_X_plus_Y doc_inc_X_plus_Y := implements_assign (by c20_pointwise)
theorem bounds_inc_X_plus_Y : ∀ dm annexed, (b_inc_X_plus_Y).bound dm annexed = docBound dm annexed (b_inc_X_plus_Y).isReduction := by decide
theorem meta_inc_X_plus_Y : ((b_inc_X_plus_Y).written = [(b_inc_X_plus_Y).doc.target] ∧ (b_inc_X_plus_Y).code.body.target = (b_inc_X_plus_Y).doc.target) := by decide
theorem variants_inc_X_plus_Y : ∀ c ∈ (b_inc_X_plus_Y).variants, c = (b_inc_X_plus_Y).code := by decide
theorem domain_inc_X_plus_Y : SameDomain code_inc_X_plus_Y doc_inc_X_plus_Y := by c20_domain
theorem correct_inc_X_plus_Y : Correct b_inc_X_plus_Y :=
  ⟨impl_inc_X_plus_Y, bounds_inc_X_plus_Y, meta_inc_X_plus_Y, by decide, domain_inc_X_plus_Y, variants_inc_X_plus_Y⟩

theorem impl_a_plus_X : Implements code_a_plus_X doc_a_plus_X := implements_assign (by c20_pointwise)
theorem bounds_a_plus_X : ∀ dm annexed, (b_a_plus_X).bound dm annexed = docBound dm annexed (b_a_plus_X).isReduction := by decide
theorem meta_a_plus_X : ((b_a_plus_X).written = [(b_a_plus_X).doc.target] ∧ (b_a_plus_X).code.body.target = (b_a_plus_X).doc.target) := by decide
theorem variants_a_plus_X : ∀ c ∈ (b_a_plus_X).variants, c = (b_a_plus_X).code := by decide
theorem domain_a_plus_X : SameDomain code_a_plus_X doc_a_plus_X := by c20_domain
theorem correct_a_plus_X : Correct b_a_plus_X :=
  ⟨impl_a_plus_X, bounds_a_plus_X, meta_a_plus_X, by decide, domain_a_plus_X, variants_a_plus_X⟩

theorem impl_inc_a_plus_X : Implements code_inc_a_plus_X doc_inc_a_plus_X := implements_assign (by c20_pointwise)
theorem bounds_inc_a_plus_X : ∀ dm annexed, (b_inc_a_plus_X).bound dm annexed = docBound dm annexed (b_inc_a_plus_X).isReduction := by decide
theorem meta_inc_a_plus_X : ((b_inc_a_plus_X).written = [(b_inc_a_plus_X).doc.target] ∧ (b_inc_a_plus_X).code.body.target = (b_inc_a_plus_X).doc.target) := by decide
theorem variants_inc_a_plus_X : ∀ c ∈ (b_inc_a_plus_X).variants, c = (b_inc_a_plus_X).code := by decide
theorem domain_inc_a_plus_X : SameDomain code_inc_a_plus_X doc_inc_a_plus_X := by c20_domain
theorem correct_inc_a_plus_X : Correct b_inc_a_plus_X :=
  ⟨impl_inc_a_plus_X, bounds_inc_a_plus_X, meta_inc_a_plus_X, by decide, domain_inc_a_plus_X, variants_inc_a_plus_X⟩

theorem impl_aX_plus_Y : Implements code_aX_plus_Y doc_aX_plus_Y := implements_assign (by c20_pointwise)
theorem bounds_aX_plus_Y : ∀ dm annexed, (b_aX_plus_Y).bound dm annexed = docBound dm annexed (b_aX_plus_Y).isReduction := by decide
theorem meta_aX_plus_Y : ((b_aX_plus_Y).written = [(b_aX_plus_Y).doc.target] ∧ (b_aX_plus_Y).code.body.target = (b_aX_plus_Y).doc.target) := by decide
theorem variants_aX_plus_Y : ∀ c ∈ (b_aX_plus_Y).variants, c = (b_aX_plus_Y).code := by decide
theorem domain_aX_plus_Y : SameDomain code_aX_plus_Y doc_aX_plus_Y := by c20_domain
theorem correct_aX_plus_Y : Correct b_aX_plus_Y :=
  ⟨impl_aX_plus_Y, bounds_aX_plus_Y, meta_aX_plus_Y, by decide, domain_aX_plus_Y, variants_aX_plus_Y⟩

theorem impl_inc_aX_plus_Y : Implements code_inc_aX_plus_Y doc_inc_aX_plus_Y := implements_assign (by c20_pointwise)
theorem bounds_inc_aX_plus_Y : ∀ dm annexed, (b_inc_aX_plus_Y).bound dm annexed = docBound dm annexed (b_inc_aX_plus_Y).isReduction := by decide
theorem meta_inc_aX_plus_Y : ((b_inc_aX_plus_Y).written = [(b_inc_aX_plus_Y).doc.target] ∧ (b_inc_aX_plus_Y).code.body.target = (b_inc_aX_plus_Y).doc.target) := by decide
theorem variants_inc_aX_plus_Y : ∀ c ∈ (b_inc_aX_plus_Y).variants, c = (b_inc_aX_plus_Y).code := by decide
theorem domain_inc_aX_plus_Y : SameDomain code_inc_aX_plus_Y doc_inc_aX_plus_Y := by c20_domain
theorem correct_inc_aX_plus_Y : Correct b_inc_aX_plus_Y :=
  ⟨impl_inc_aX_plus_Y, bounds_inc_aX_plus_Y, meta_inc_aX_plus_Y, by decide, domain_inc_aX_plus_Y, variants_inc_aX_plus_Y⟩

theorem impl_inc_X_plus_bY : Implements code_inc_X_plus_bY doc_inc_X_plus_bY := implements_assign (by c20_pointwise)
theorem bounds_inc_X_plus_bY : ∀ dm annexed, (b_inc_X_plus_bY).bound dm annexed = docBound dm annexed (b_inc_X_plus_bY).isReduction := by decide
theorem meta_inc_X_plus_bY : ((b_inc_X_plus_bY).written = [(b_inc_X_plus_bY).doc.target] ∧ (b_inc_X_plus_bY).code.body.target = (b_inc_X_plus_bY).doc.target) := by decide
theorem variants_inc_X_plus_bY : ∀ c ∈ (b_inc_X_plus_bY).variants, c = (b_inc_X_plus_bY).code := by decide
theorem domain_inc_X_plus_bY : SameDomain code_inc_X_plus_bY doc_inc_X_plus_bY := by c20_domain
theorem correct_inc_X_plus_bY : Correct b_inc_X_plus_bY :=
  ⟨impl_inc_X_plus_bY, bounds_inc_X_plus_bY, meta_inc_X_plus_bY, by decide, domain_inc_X_plus_bY, variants_inc_X_plus_bY⟩

theorem impl_aX_plus_bY : Implements code_aX_plus_bY doc_aX_plus_bY := implements_assign (by c20_pointwise)
theorem bounds_aX_plus_bY : ∀ dm annexed, (b_aX_plus_bY).bound dm annexed = docBound dm annexed (b_aX_plus_bY).isReduction := by decide
theorem meta_aX_plus_bY : ((b_aX_plus_bY).written = [(b_aX_plus_bY).doc.target] ∧ (b_aX_plus_bY).code.body.target = (b_aX_plus_bY).doc.target) := by decide
theorem variants_aX_plus_bY : ∀ c ∈ (b_aX_plus_bY).variants, c = (b_aX_plus_bY).code := by decide
theorem domain_aX_plus_bY : SameDomain code_aX_plus_bY doc_aX_plus_bY := by c20_domain
theorem correct_aX_plus_bY : Correct b_aX_plus_bY :=
  ⟨impl_aX_plus_bY, bounds_aX_plus_bY, meta_aX_plus_bY, by decide, domain_aX_plus_bY, variants_aX_plus_bY⟩

theorem impl_inc_aX_plus_bY : Implements code_inc_aX_plus_bY doc_inc_aX_plus_bY := implements_assign (by c20_pointwise)
theorem bounds_inc_aX_plus_bY : ∀ dm annexed, (b_inc_aX_plus_bY).bound dm annexed = docBound dm annexed (b_inc_aX_plus_bY).isReduction := by decide
theorem meta_inc_aX_plus_bY : ((b_inc_aX_plus_bY).written = [(b_inc_aX_plus_bY).doc.target] ∧ (b_inc_aX_plus_bY).code.body.target = (b_inc_aX_plus_bY).doc.target) := by decide
theorem variants_inc_aX_plus_bY : ∀ c ∈ (b_inc_aX_plus_bY).variants, c = (b_inc_aX_plus_bY).code := by decide
theorem domain_inc_aX_plus_bY : SameDomain code_inc_aX_plus_bY doc_inc_aX_plus_bY := by c20_domain
theorem correct_inc_aX_plus_bY : Correct b_inc_aX_plus_bY :=
  ⟨impl_inc_aX_plus_bY, bounds_inc_aX_plus_bY, meta_inc_aX_plus_bY, by decide, domain_inc_aX_plus_bY, variants_inc_aX_plus_bY⟩

theorem impl_aX_plus_aY : Implements code_aX_plus_aY doc_aX_plus_aY := implements_assign (by c20_pointwise)
theorem bounds_aX_plus_aY : ∀ dm annexed, (b_aX_plus_aY).bound dm annexed = docBound dm annexed (b_aX_plus_aY).isReduction := by decide
theorem meta_aX_plus_aY : ((b_aX_plus_aY).written = [(b_aX_plus_aY).doc.target] ∧ (b_aX_plus_aY).code.body.target = (b_aX_plus_aY).doc.target) := by decide
theorem variants_aX_plus_aY : ∀ c ∈ (b_aX_plus_aY).variants, c = (b_aX_plus_aY).code := by decide
theorem domain_aX_plus_aY : SameDomain code_aX_plus_aY doc_aX_plus_aY := by c20_domain
theorem correct_aX_plus_aY : Correct b_aX_plus_aY :=
  ⟨impl_aX_plus_aY, bounds_aX_plus_aY, meta_aX_plus_aY, by decide, domain_aX_plus_aY, variants_aX_plus_aY⟩

theorem impl_X_minus_Y : Implements code_X_minus_Y doc_X_minus_Y := implements_assign (by c20_pointwise)
theorem bounds_X_minus_Y : ∀ dm annexed, (b_X_minus_Y).bound dm annexed = docBound dm annexed (b_X_minus_Y).isReduction := by decide
theorem meta_X_minus_Y : ((b_X_minus_Y).written = [(b_X_minus_Y).doc.target] ∧ (b_X_minus_Y).code.body.target = (b_X_minus_Y).doc.target) := by decide
theorem variants_X_minus_Y : ∀ c ∈ (b_X_minus_Y).variants, c = (b_X_minus_Y).code := by decide
theorem domain_X_minus_Y : SameDomain code_X_minus_Y doc_X_minus_Y := by c20_domain
theorem correct_X_minus_Y : Correct b_X_minus_Y :=
  ⟨impl_X_minus_Y, bounds_X_minus_Y, meta_X_minus_Y, by decide, domain_X_minus_Y, variants_X_minus_Y⟩

theorem impl_inc_X_minus_Y : Implements code_inc_X_minus_Y doc_inc_X_minus_Y := implements_assign (by c20_pointwise)
theorem bounds_inc_X_minus_Y : ∀ dm annexed, (b_inc_X_minus_Y).bound dm annexed = docBound dm annexed (b_inc_X_minus_Y).isReduction := by decide
theorem meta_inc_X_minus_Y : ((b_inc_X_minus_Y).written = [(b_inc_X_minus_Y).doc.target] ∧ (b_inc_X_minus_Y).code.body.target = (b_inc_X_minus_Y).doc.target) := by decide
theorem variants_inc_X_minus_Y : ∀ c ∈ (b_inc_X_minus_Y).variants, c = (b_inc_X_minus_Y).code := by decide
theorem domain_inc_X_minus_Y : SameDomain code_inc_X_minus_Y doc_inc_X_minus_Y := by c20_domain
theorem correct_inc_X_minus_Y : Correct b_inc_X_minus_Y :=
  ⟨impl_inc_X_minus_Y, bounds_inc_X_minus_Y, meta_inc_X_minus_Y, by decide, domain_inc_X_minus_Y, variants_inc_X_minus_Y⟩

theorem impl_a_minus_X : Implements code_a_minus_X doc_a_minus_X := implements_assign (by c20_pointwise)
theorem bounds_a_minus_X : ∀ dm annexed, (b_a_minus_X).bound dm annexed = docBound dm annexed (b_a_minus_X).isReduction := by decide
theorem meta_a_minus_X : ((b_a_minus_X).written = [(b_a_minus_X).doc.target] ∧ (b_a_minus_X).code.body.target = (b_a_minus_X).doc.target) := by decide
theorem variants_a_minus_X : ∀ c ∈ (b_a_minus_X).variants, c = (b_a_minus_X).code := by decide
theorem domain_a_minus_X : SameDomain code_a_minus_X doc_a_minus_X := by c20_domain
theorem correct_a_minus_X : Correct b_a_minus_X :=
  ⟨impl_a_minus_X, bounds_a_minus_X, meta_a_minus_X, by decide, domain_a_minus_X, variants_a_minus_X⟩

theorem impl_inc_a_minus_X : Implements code_inc_a_minus_X doc_inc_a_minus_X := implements_assign (by c20_pointwise)
theorem bounds_inc_a_minus_X : ∀ dm annexed, (b_inc_a_minus_X).bound dm annexed = docBound dm annexed (b_inc_a_minus_X).isReduction := by decide
theorem meta_inc_a_minus_X : ((b_inc_a_minus_X).written = [(b_inc_a_minus_X).doc.target] ∧ (b_inc_a_minus_X).code.body.target = (b_inc_a_minus_X).doc.target) := by decide
theorem variants_inc_a_minus_X : ∀ c ∈ (b_inc_a_minus_X).variants, c = (b_inc_a_minus_X).code := by decide
theorem domain_inc_a_minus_X : SameDomain code_inc_a_minus_X doc_inc_a_minus_X := by c20_domain
theorem correct_inc_a_minus_X : Correct b_inc_a_minus_X :=
  ⟨impl_inc_a_minus_X, bounds_inc_a_minus_X, meta_inc_a_minus_X, by decide, domain_inc_a_minus_X, variants_inc_a_minus_X⟩

theorem impl_X_minus_a : Implements code_X_minus_a doc_X_minus_a := implements_assign (by c20_pointwise)
theorem bounds_X_minus_a : ∀ dm annexed, (b_X_minus_a).bound dm annexed = docBound dm annexed (b_X_minus_a).isReduction := by decide
theorem meta_X_minus_a : ((b_X_minus_a).written = [(b_X_minus_a).doc.target] ∧ (b_X_minus_a).code.body.target = (b_X_minus_a).doc.target) := by decide
theorem variants_X_minus_a : ∀ c ∈ (b_X_minus_a).variants, c = (b_X_minus_a).code := by decide
theorem domain_X_minus_a : SameDomain code_X_minus_a doc_X_minus_a := by c20_domain
theorem correct_X_minus_a : Correct b_X_minus_a :=
  ⟨impl_X_minus_a, bounds_X_minus_a, meta_X_minus_a, by decide, domain_X_minus_a, variants_X_minus_a⟩

theorem impl_inc_X_minus_a : Implements code_inc_X_minus_a doc_inc_X_minus_a := implements_assign (by c20_pointwise)
theorem bounds_inc_X_minus_a : ∀ dm annexed, (b_inc_X_minus_a).bound dm annexed = docBound dm annexed (b_inc_X_minus_a).isReduction := by decide
theorem meta_inc_X_minus_a : ((b_inc_X_minus_a).written = [(b_inc_X_minus_a).doc.target] ∧ (b_inc_X_minus_a).code.body.target = (b_inc_X_minus_a).doc.target) := by decide
theorem variants_inc_X_minus_a : ∀ c ∈ (b_inc_X_minus_a).variants, c = (b_inc_X_minus_a).code := by decide
theorem domain_inc_X_minus_a : SameDomain code_inc_X_minus_a doc_inc_X_minus_a := by c20_domain
theorem correct_inc_X_minus_a : Correct b_inc_X_minus_a :=
  ⟨impl_inc_X_minus_a, bounds_inc_X_minus_a, meta_inc_X_minus_a, by decide, domain_inc_X_minus_a, variants_inc_X_minus_a⟩

theorem impl_aX_minus_Y : Implements code_aX_minus_Y doc_aX_minus_Y := implements_assign (by c20_pointwise)
theorem bounds_aX_minus_Y : ∀ dm annexed, (b_aX_minus_Y).bound dm annexed = docBound dm annexed (b_aX_minus_Y).isReduction := by decide
theorem meta_aX_minus_Y : ((b_aX_minus_Y).written = [(b_aX_minus_Y).doc.target] ∧ (b_aX_minus_Y).code.body.target = (b_aX_minus_Y).doc.target) := by decide
theorem variants_aX_minus_Y : ∀ c ∈ (b_aX_minus_Y).variants, c = (b_aX_minus_Y).code := by decide
theorem domain_aX_minus_Y : SameDomain code_aX_minus_Y doc_aX_minus_Y := by c20_domain
theorem correct_aX_minus_Y : Correct b_aX_minus_Y :=
  ⟨impl_aX_minus_Y, bounds_aX_minus_Y, meta_aX_minus_Y, by decide, domain_aX_minus_Y, variants_aX_minus_Y⟩

theorem impl_X_minus_bY : Implements code_X_minus_bY doc_X_minus_bY := implements_assign (by c20_pointwise)
theorem bounds_X_minus_bY : ∀ dm annexed, (b_X_minus_bY).bound dm annexed = docBound dm annexed (b_X_minus_bY).isReduction := by decide
theorem meta_X_minus_bY : ((b_X_minus_bY).written = [(b_X_minus_bY).doc.target] ∧ (b_X_minus_bY).code.body.target = (b_X_minus_bY).doc.target) := by decide
theorem variants_X_minus_bY : ∀ c ∈ (b_X_minus_bY).variants, c = (b_X_minus_bY).code := by decide
theorem domain_X_minus_bY : SameDomain code_X_minus_bY doc_X_minus_bY := by c20_domain
theorem correct_X_minus_bY : Correct b_X_minus_bY :=
  ⟨impl_X_minus_bY, bounds_X_minus_bY, meta_X_minus_bY, by decide, domain_X_minus_bY, variants_X_minus_bY⟩

theorem impl_inc_X_minus_bY : Implements code_inc_X_minus_bY doc_inc_X_minus_bY := implements_assign (by c20_pointwise)
theorem bounds_inc_X_minus_bY : ∀ dm annexed, (b_inc_X_minus_bY).bound dm annexed = docBound dm annexed (b_inc_X_minus_bY).isReduction := by decide
theorem meta_inc_X_minus_bY : ((b_inc_X_minus_bY).written = [(b_inc_X_minus_bY).doc.target] ∧ (b_inc_X_minus_bY).code.body.target = (b_inc_X_minus_bY).doc.target) := by decide
theorem variants_inc_X_minus_bY : ∀ c ∈ (b_inc_X_minus_bY).variants, c = (b_inc_X_minus_bY).code := by decide
theorem domain_inc_X_minus_bY : SameDomain code_inc_X_minus_bY doc_inc_X_minus_bY := by c20_domain
theorem correct_inc_X_minus_bY : Correct b_inc_X_minus_bY :=
  ⟨impl_inc_X_minus_bY, bounds_inc_X_minus_bY, meta_inc_X_minus_bY, by decide, domain_inc_X_minus_bY, variants_inc_X_minus_bY⟩

theorem impl_aX_minus_bY : Implements code_aX_minus_bY doc_aX_minus_bY := implements_assign (by c20_pointwise)
theorem bounds_aX_minus_bY : ∀ dm annexed, (b_aX_minus_bY).bound dm annexed = docBound dm annexed (b_aX_minus_bY).isReduction := by decide
theorem meta_aX_minus_bY : ((b_aX_minus_bY).written = [(b_aX_minus_bY).doc.target] ∧ (b_aX_minus_bY).code.body.target = (b_aX_minus_bY).doc.target) := by decide
theorem variants_aX_minus_bY : ∀ c ∈ (b_aX_minus_bY).variants, c = (b_aX_minus_bY).code := by decide
theorem domain_aX_minus_bY : SameDomain code_aX_minus_bY doc_aX_minus_bY := by c20_domain
theorem correct_aX_minus_bY : Correct b_aX_minus_bY :=
  ⟨impl_aX_minus_bY, bounds_aX_minus_bY, meta_aX_minus_bY, by decide, domain_aX_minus_bY, variants_aX_minus_bY⟩

theorem impl_X_times_Y : Implements code_X_times_Y doc_X_times_Y := implements_assign (by c20_pointwise)
theorem bounds_X_times_Y : ∀ dm annexed, (b_X_times_Y).bound dm annexed = docBound dm annexed (b_X_times_Y).isReduction := by decide
theorem meta_X_times_Y : ((b_X_times_Y).written = [(b_X_times_Y).doc.target] ∧ (b_X_times_Y).code.body.target = (b_X_times_Y).doc.target) := by decide
theorem variants_X_times_Y : ∀ c ∈ (b_X_times_Y).variants, c = (b_X_times_Y).code := by decide
theorem domain_X_times_Y : SameDomain code_X_times_Y doc_X_times_Y := by c20_domain
theorem correct_X_times_Y : Correct b_X_times_Y :=
  ⟨impl_X_times_Y, bounds_X_times_Y, meta_X_times_Y, by decide, domain_X_times_Y, variants_X_times_Y⟩

theorem impl_inc_X_times_Y : Implements code_inc_X_times_Y doc_inc_X_times_Y := implements_assign (by c20_pointwise)
theorem bounds_inc_X_times_Y : ∀ dm annexed, (b_inc_X_times_Y).bound dm annexed = docBound dm annexed (b_inc_X_times_Y).isReduction := by decide
theorem meta_inc_X_times_Y : ((b_inc_X_times_Y).written = [(b_inc_X_times_Y).doc.target] ∧ (b_inc_X_times_Y).code.body.target = (b_inc_X_times_Y).doc.target) := by decide
theorem variants_inc_X_times_Y : ∀ c ∈ (b_inc_X_times_Y).variants, c = (b_inc_X_times_Y).code := by decide
theorem domain_inc_X_times_Y : SameDomain code_inc_X_times_Y doc_inc_X_times_Y := by c20_domain
theorem correct_inc_X_times_Y : Correct b_inc_X_times_Y :=
  ⟨impl_inc_X_times_Y, bounds_inc_X_times_Y, meta_inc_X_times_Y, by decide, domain_inc_X_times_Y, variants_inc_X_times_Y⟩

theorem impl_inc_aX_times_Y : Implements code_inc_aX_times_Y doc_inc_aX_times_Y := implements_assign (by c20_pointwise)
theorem bounds_inc_aX_times_Y : ∀ dm annexed, (b_inc_aX_times_Y).bound dm annexed = docBound dm annexed (b_inc_aX_times_Y).isReduction := by decide
theorem meta_inc_aX_times_Y : ((b_inc_aX_times_Y).written = [(b_inc_aX_times_Y).doc.target] ∧ (b_inc_aX_times_Y).code.body.target = (b_inc_aX_times_Y).doc.target) := by decide
theorem variants_inc_aX_times_Y : ∀ c ∈ (b_inc_aX_times_Y).variants, c = (b_inc_aX_times_Y).code := by decide
theorem domain_inc_aX_times_Y : SameDomain code_inc_aX_times_Y doc_inc_aX_times_Y := by c20_domain
theorem correct_inc_aX_times_Y : Correct b_inc_aX_times_Y :=
  ⟨impl_inc_aX_times_Y, bounds_inc_aX_times_Y, meta_inc_aX_times_Y, by decide, domain_inc_aX_times_Y, variants_inc_aX_times_Y⟩

theorem impl_a_times_X : Implements code_a_times_X doc_a_times_X := implements_assign (by c20_pointwise)
theorem bounds_a_times_X : ∀ dm annexed, (b_a_times_X).bound dm annexed = docBound dm annexed (b_a_times_X).isReduction := by decide
theorem meta_a_times_X : ((b_a_times_X).written = [(b_a_times_X).doc.target] ∧ (b_a_times_X).code.body.target = (b_a_times_X).doc.target) := by decide
theorem variants_a_times_X : ∀ c ∈ (b_a_times_X).variants, c = (b_a_times_X).code := by decide
theorem domain_a_times_X : SameDomain code_a_times_X doc_a_times_X := by c20_domain
theorem correct_a_times_X : Correct b_a_times_X :=
  ⟨impl_a_times_X, bounds_a_times_X, meta_a_times_X, by decide, domain_a_times_X, variants_a_times_X⟩

theorem impl_inc_a_times_X : Implements code_inc_a_times_X doc_inc_a_times_X := implements_assign (by c20_pointwise)
theorem bounds_inc_a_times_X : ∀ dm annexed, (b_inc_a_times_X).bound dm annexed = docBound dm annexed (b_inc_a_times_X).isReduction := by decide
theorem meta_inc_a_times_X : ((b_inc_a_times_X).written = [(b_inc_a_times_X).doc.target] ∧ (b_inc_a_times_X).code.body.target = (b_inc_a_times_X).doc.target) := by decide
theorem variants_inc_a_times_X : ∀ c ∈ (b_inc_a_times_X).variants, c = (b_inc_a_times_X).code := by decide
theorem domain_inc_a_times_X : SameDomain code_inc_a_times_X doc_inc_a_times_X := by c20_domain
theorem correct_inc_a_times_X : Correct b_inc_a_times_X :=
  ⟨impl_inc_a_times_X, bounds_inc_a_times_X, meta_inc_a_times_X, by decide, domain_inc_a_times_X, variants_inc_a_times_X⟩

theorem impl_X_divideby_Y : Implements code_X_divideby_Y doc_X_divideby_Y := implements_assign (by c20_pointwise)
theorem bounds_X_divideby_Y : ∀ dm annexed, (b_X_divideby_Y).bound dm annexed = docBound dm annexed (b_X_divideby_Y).isReduction := by decide
theorem meta_X_divideby_Y : ((b_X_divideby_Y).written = [(b_X_divideby_Y).doc.target] ∧ (b_X_divideby_Y).code.body.target = (b_X_divideby_Y).doc.target) := by decide
theorem variants_X_divideby_Y : ∀ c ∈ (b_X_divideby_Y).variants, c = (b_X_divideby_Y).code := by decide
theorem domain_X_divideby_Y : SameDomain code_X_divideby_Y doc_X_divideby_Y := by c20_domain
theorem correct_X_divideby_Y : Correct b_X_divideby_Y :=
  ⟨impl_X_divideby_Y, bounds_X_divideby_Y, meta_X_divideby_Y, by decide, domain_X_divideby_Y, variants_X_divideby_Y⟩

theorem impl_inc_X_divideby_Y : Implements code_inc_X_divideby_Y doc_inc_X_divideby_Y := implements_assign (by c20_pointwise)
theorem bounds_inc_X_divideby_Y : ∀ dm annexed, (b_inc_X_divideby_Y).bound dm annexed = docBound dm annexed (b_inc_X_divideby_Y).isReduction := by decide
theorem meta_inc_X_divideby_Y : ((b_inc_X_divideby_Y).written = [(b_inc_X_divideby_Y).doc.target] ∧ (b_inc_X_divideby_Y).code.body.target = (b_inc_X_divideby_Y).doc.target) := by decide
theorem variants_inc_X_divideby_Y : ∀ c ∈ (b_inc_X_divideby_Y).variants, c = (b_inc_X_divideby_Y).code := by decide
theorem domain_inc_X_divideby_Y : SameDomain code_inc_X_divideby_Y doc_inc_X_divideby_Y := by c20_domain
theorem correct_inc_X_divideby_Y : Correct b_inc_X_divideby_Y :=
  ⟨impl_inc_X_divideby_Y, bounds_inc_X_divideby_Y, meta_inc_X_divideby_Y, by decide, domain_inc_X_divideby_Y, variants_inc_X_divideby_Y⟩

theorem impl_X_divideby_a : Implements code_X_divideby_a doc_X_divideby_a := implements_assign (by c20_pointwise)
theorem bounds_X_divideby_a : ∀ dm annexed, (b_X_divideby_a).bound dm annexed = docBound dm annexed (b_X_divideby_a).isReduction := by decide
theorem meta_X_divideby_a : ((b_X_divideby_a).written = [(b_X_divideby_a).doc.target] ∧ (b_X_divideby_a).code.body.target = (b_X_divideby_a).doc.target) := by decide
theorem variants_X_divideby_a : ∀ c ∈ (b_X_divideby_a).variants, c = (b_X_divideby_a).code := by decide
theorem domain_X_divideby_a : SameDomain code_X_divideby_a doc_X_divideby_a := by c20_domain
theorem correct_X_divideby_a : Correct b_X_divideby_a :=
  ⟨impl_X_divideby_a, bounds_X_divideby_a, meta_X_divideby_a, by decide, domain_X_divideby_a, variants_X_divideby_a⟩

theorem impl_inc_X_divideby_a : Implements code_inc_X_divideby_a doc_inc_X_divideby_a := implements_assign (by c20_pointwise)
theorem bounds_inc_X_divideby_a : ∀ dm annexed, (b_inc_X_divideby_a).bound dm annexed = docBound dm annexed (b_inc_X_divideby_a).isReduction := by decide
theorem meta_inc_X_divideby_a : ((b_inc_X_divideby_a).written = [(b_inc_X_divideby_a).doc.target] ∧ (b_inc_X_divideby_a).code.body.target = (b_inc_X_divideby_a).doc.target) := by decide
theorem variants_inc_X_divideby_a : ∀ c ∈ (b_inc_X_divideby_a).variants, c = (b_inc_X_divideby_a).code := by decide
theorem domain_inc_X_divideby_a : SameDomain code_inc_X_divideby_a doc_inc_X_divideby_a := by c20_domain
theorem correct_inc_X_divideby_a : Correct b_inc_X_divideby_a :=
  ⟨impl_inc_X_divideby_a, bounds_inc_X_divideby_a, meta_inc_X_divideby_a, by decide, domain_inc_X_divideby_a, variants_inc_X_divideby_a⟩

theorem impl_a_divideby_X : Implements code_a_divideby_X doc_a_divideby_X := implements_assign (by c20_pointwise)
theorem bounds_a_divideby_X : ∀ dm annexed, (b_a_divideby_X).bound dm annexed = docBound dm annexed (b_a_divideby_X).isReduction := by decide
theorem meta_a_divideby_X : ((b_a_divideby_X).written = [(b_a_divideby_X).doc.target] ∧ (b_a_divideby_X).code.body.target = (b_a_divideby_X).doc.target) := by decide
theorem variants_a_divideby_X : ∀ c ∈ (b_a_divideby_X).variants, c = (b_a_divideby_X).code := by decide
theorem domain_a_divideby_X : SameDomain code_a_divideby_X doc_a_divideby_X := by c20_domain
theorem correct_a_divideby_X : Correct b_a_divideby_X :=
  ⟨impl_a_divideby_X, bounds_a_divideby_X, meta_a_divideby_X, by decide, domain_a_divideby_X, variants_a_divideby_X⟩

theorem impl_inc_a_divideby_X : Implements code_inc_a_divideby_X doc_inc_a_divideby_X := implements_assign (by c20_pointwise)
theorem bounds_inc_a_divideby_X : ∀ dm annexed, (b_inc_a_divideby_X).bound dm annexed = docBound dm annexed (b_inc_a_divideby_X).isReduction := by decide
theorem meta_inc_a_divideby_X : ((b_inc_a_divideby_X).written = [(b_inc_a_divideby_X).doc.target] ∧ (b_inc_a_divideby_X).code.body.target = (b_inc_a_divideby_X).doc.target) := by decide
theorem variants_inc_a_divideby_X : ∀ c ∈ (b_inc_a_divideby_X).variants, c = (b_inc_a_divideby_X).code := by decide
theorem domain_inc_a_divideby_X : SameDomain code_inc_a_divideby_X doc_inc_a_divideby_X := by c20_domain
theorem correct_inc_a_divideby_X : Correct b_inc_a_divideby_X :=
  ⟨impl_inc_a_divideby_X, bounds_inc_a_divideby_X, meta_inc_a_divideby_X, by decide, domain_inc_a_divideby_X, variants_inc_a_divideby_X⟩

theorem impl_inc_X_powreal_a : Implements code_inc_X_powreal_a doc_inc_X_powreal_a := implements_assign (by c20_pointwise)
theorem bounds_inc_X_powreal_a : ∀ dm annexed, (b_inc_X_powreal_a).bound dm annexed = docBound dm annexed (b_inc_X_powreal_a).isReduction := by decide
theorem meta_inc_X_powreal_a : ((b_inc_X_powreal_a).written = [(b_inc_X_powreal_a).doc.target] ∧ (b_inc_X_powreal_a).code.body.target = (b_inc_X_powreal_a).doc.target) := by decide
theorem variants_inc_X_powreal_a : ∀ c ∈ (b_inc_X_powreal_a).variants, c = (b_inc_X_powreal_a).code := by decide
theorem domain_inc_X_powreal_a : SameDomain code_inc_X_powreal_a doc_inc_X_powreal_a := by c20_domain
theorem correct_inc_X_powreal_a : Correct b_inc_X_powreal_a :=
  ⟨impl_inc_X_powreal_a, bounds_inc_X_powreal_a, meta_inc_X_powreal_a, by decide, domain_inc_X_powreal_a, variants_inc_X_powreal_a⟩

theorem impl_inc_X_powint_n : Implements code_inc_X_powint_n doc_inc_X_powint_n := implements_assign (by c20_pointwise)
theorem bounds_inc_X_powint_n : ∀ dm annexed, (b_inc_X_powint_n).bound dm annexed = docBound dm annexed (b_inc_X_powint_n).isReduction := by decide
theorem meta_inc_X_powint_n : ((b_inc_X_powint_n).written = [(b_inc_X_powint_n).doc.target] ∧ (b_inc_X_powint_n).code.body.target = (b_inc_X_powint_n).doc.target) := by decide
theorem variants_inc_X_powint_n : ∀ c ∈ (b_inc_X_powint_n).variants, c = (b_inc_X_powint_n).code := by decide
theorem domain_inc_X_powint_n : SameDomain code_inc_X_powint_n doc_inc_X_powint_n := by c20_domain
theorem correct_inc_X_powint_n : Correct b_inc_X_powint_n :=
  ⟨impl_inc_X_powint_n, bounds_inc_X_powint_n, meta_inc_X_powint_n, by decide, domain_inc_X_powint_n, variants_inc_X_powint_n⟩

theorem impl_setval_c : Implements code_setval_c doc_setval_c := implements_assign (by c20_pointwise)
theorem bounds_setval_c : ∀ dm annexed, (b_setval_c).bound dm annexed = docBound dm annexed (b_setval_c).isReduction := by decide
theorem meta_setval_c : ((b_setval_c).written = [(b_setval_c).doc.target] ∧ (b_setval_c).code.body.target = (b_setval_c).doc.target) := by decide
theorem variants_setval_c : ∀ c ∈ (b_setval_c).variants, c = (b_setval_c).code := by decide
theorem domain_setval_c : SameDomain code_setval_c doc_setval_c := by c20_domain
theorem correct_setval_c : Correct b_setval_c :=
  ⟨impl_setval_c, bounds_setval_c, meta_setval_c, by decide, domain_setval_c, variants_setval_c⟩

theorem impl_setval_X : Implements code_setval_X doc_setval_X := implements_assign (by c20_pointwise)
theorem bounds_setval_X : ∀ dm annexed, (b_setval_X).bound dm annexed = docBound dm annexed (b_setval_X).isReduction := by decide
theorem meta_setval_X : ((b_setval_X).written = [(b_setval_X).doc.target] ∧ (b_setval_X).code.body.target = (b_setval_X).doc.target) := by decide
theorem variants_setval_X : ∀ c ∈ (b_setval_X).variants, c = (b_setval_X).code := by decide
theorem domain_setval_X : SameDomain code_setval_X doc_setval_X := by c20_domain
theorem correct_setval_X : Correct b_setval_X :=
  ⟨impl_setval_X, bounds_setval_X, meta_setval_X, by decide, domain_setval_X, variants_setval_X⟩

theorem impl_setval_random : Implements code_setval_random doc_setval_random := implements_rand
theorem bounds_setval_random : ∀ dm annexed, (b_setval_random).bound dm annexed = docBound dm annexed (b_setval_random).isReduction := by decide
theorem meta_setval_random : ((b_setval_random).written = [(b_setval_random).doc.target] ∧ (b_setval_random).code.body.target = (b_setval_random).doc.target) := by decide
theorem variants_setval_random : ∀ c ∈ (b_setval_random).variants, c = (b_setval_random).code := by decide
theorem domain_setval_random : SameDomain code_setval_random doc_setval_random := by c20_domain
theorem correct_setval_random : Correct b_setval_random :=
  ⟨impl_setval_random, bounds_setval_random, meta_setval_random, by decide, domain_setval_random, variants_setval_random⟩

theorem impl_X_innerproduct_Y : Implements code_X_innerproduct_Y doc_X_innerproduct_Y := implements_sum (by c20_zero) (by c20_pointwise) (by decide)
theorem bounds_X_innerproduct_Y : ∀ dm annexed, (b_X_innerproduct_Y).bound dm annexed = docBound dm annexed (b_X_innerproduct_Y).isReduction := by decide
theorem meta_X_innerproduct_Y : ((b_X_innerproduct_Y).written = [(b_X_innerproduct_Y).doc.target] ∧ (b_X_innerproduct_Y).code.body.target = (b_X_innerproduct_Y).doc.target) := by decide
theorem variants_X_innerproduct_Y : ∀ c ∈ (b_X_innerproduct_Y).variants, c = (b_X_innerproduct_Y).code := by decide
theorem domain_X_innerproduct_Y : SameDomain code_X_innerproduct_Y doc_X_innerproduct_Y := by c20_domain
theorem correct_X_innerproduct_Y : Correct b_X_innerproduct_Y :=
  ⟨impl_X_innerproduct_Y, bounds_X_innerproduct_Y, meta_X_innerproduct_Y, by decide, domain_X_innerproduct_Y, variants_X_innerproduct_Y⟩

theorem impl_X_innerproduct_X : Implements code_X_innerproduct_X doc_X_innerproduct_X := implements_sum (by c20_zero) (by c20_pointwise) (by decide)
theorem bounds_X_innerproduct_X : ∀ dm annexed, (b_X_innerproduct_X).bound dm annexed = docBound dm annexed (b_X_innerproduct_X).isReduction := by decide
theorem meta_X_innerproduct_X : ((b_X_innerproduct_X).written = [(b_X_innerproduct_X).doc.target] ∧ (b_X_innerproduct_X).code.body.target = (b_X_innerproduct_X).doc.target) := by decide
theorem variants_X_innerproduct_X : ∀ c ∈ (b_X_innerproduct_X).variants, c = (b_X_innerproduct_X).code := by decide
theorem domain_X_innerproduct_X : SameDomain code_X_innerproduct_X doc_X_innerproduct_X := by c20_domain
theorem correct_X_innerproduct_X : Correct b_X_innerproduct_X :=
  ⟨impl_X_innerproduct_X, bounds_X_innerproduct_X, meta_X_innerproduct_X, by decide, domain_X_innerproduct_X, variants_X_innerproduct_X⟩

theorem impl_sum_X : Implements code_sum_X doc_sum_X := implements_sum (by c20_zero) (by c20_pointwise) (by decide)
theorem bounds_sum_X : ∀ dm annexed, (b_sum_X).bound dm annexed = docBound dm annexed (b_sum_X).isReduction := by decide
theorem meta_sum_X : ((b_sum_X).written = [(b_sum_X).doc.target] ∧ (b_sum_X).code.body.target = (b_sum_X).doc.target) := by decide
theorem variants_sum_X : ∀ c ∈ (b_sum_X).variants, c = (b_sum_X).code := by decide
theorem domain_sum_X : SameDomain code_sum_X doc_sum_X := by c20_domain
theorem correct_sum_X : Correct b_sum_X :=
  ⟨impl_sum_X, bounds_sum_X, meta_sum_X, by decide, domain_sum_X, variants_sum_X⟩

theorem impl_sign_X : Implements code_sign_X doc_sign_X := implements_assign (by c20_pointwise)
theorem bounds_sign_X : ∀ dm annexed, (b_sign_X).bound dm annexed = docBound dm annexed (b_sign_X).isReduction := by decide
theorem meta_sign_X : ((b_sign_X).written = [(b_sign_X).doc.target] ∧ (b_sign_X).code.body.target = (b_sign_X).doc.target) := by decide
theorem variants_sign_X : ∀ c ∈ (b_sign_X).variants, c = (b_sign_X).code := by decide
theorem domain_sign_X : SameDomain code_sign_X doc_sign_X := by c20_domain
theorem correct_sign_X : Correct b_sign_X :=
  ⟨impl_sign_X, bounds_sign_X, meta_sign_X, by decide, domain_sign_X, variants_sign_X⟩

theorem impl_max_aX : Implements code_max_aX doc_max_aX := implements_assign (by c20_pointwise)
theorem bounds_max_aX : ∀ dm annexed, (b_max_aX).bound dm annexed = docBound dm annexed (b_max_aX).isReduction := by decide
theorem meta_max_aX : ((b_max_aX).written = [(b_max_aX).doc.target] ∧ (b_max_aX).code.body.target = (b_max_aX).doc.target) := by decide
theorem variants_max_aX : ∀ c ∈ (b_max_aX).variants, c = (b_max_aX).code := by decide
theorem domain_max_aX : SameDomain code_max_aX doc_max_aX := by c20_domain
theorem correct_max_aX : Correct b_max_aX :=
  ⟨impl_max_aX, bounds_max_aX, meta_max_aX, by decide, domain_max_aX, variants_max_aX⟩

theorem impl_inc_max_aX : Implements code_inc_max_aX doc_inc_max_aX := implements_assign (by c20_pointwise)
theorem bounds_inc_max_aX : ∀ dm annexed, (b_inc_max_aX).bound dm annexed = docBound dm annexed (b_inc_max_aX).isReduction := by decide
theorem meta_inc_max_aX : ((b_inc_max_aX).written = [(b_inc_max_aX).doc.target] ∧ (b_inc_max_aX).code.body.target = (b_inc_max_aX).doc.target) := by decide
theorem variants_inc_max_aX : ∀ c ∈ (b_inc_max_aX).variants, c = (b_inc_max_aX).code := by decide
theorem domain_inc_max_aX : SameDomain code_inc_max_aX doc_inc_max_aX := by c20_domain
theorem correct_inc_max_aX : Correct b_inc_max_aX :=
  ⟨impl_inc_max_aX, bounds_inc_max_aX, meta_inc_max_aX, by decide, domain_inc_max_aX, variants_inc_max_aX⟩

theorem impl_min_aX : Implements code_min_aX doc_min_aX := implements_assign (by c20_pointwise)
theorem bounds_min_aX : ∀ dm annexed, (b_min_aX).bound dm annexed = docBound dm annexed (b_min_aX).isReduction := by decide
theorem meta_min_aX : ((b_min_aX).written = [(b_min_aX).doc.target] ∧ (b_min_aX).code.body.target = (b_min_aX).doc.target) := by decide
theorem variants_min_aX : ∀ c ∈ (b_min_aX).variants, c = (b_min_aX).code := by decide
theorem domain_min_aX : SameDomain code_min_aX doc_min_aX := by c20_domain
theorem correct_min_aX : Correct b_min_aX :=
  ⟨impl_min_aX, bounds_min_aX, meta_min_aX, by decide, domain_min_aX, variants_min_aX⟩

theorem impl_inc_min_aX : Implements code_inc_min_aX doc_inc_min_aX := implements_assign (by c20_pointwise)
theorem bounds_inc_min_aX : ∀ dm annexed, (b_inc_min_aX).bound dm annexed = docBound dm annexed (b_inc_min_aX).isReduction := by decide
theorem meta_inc_min_aX : ((b_inc_min_aX).written = [(b_inc_min_aX).doc.target] ∧ (b_inc_min_aX).code.body.target = (b_inc_min_aX).doc.target) := by decide
theorem variants_inc_min_aX : ∀ c ∈ (b_inc_min_aX).variants, c = (b_inc_min_aX).code := by decide
theorem domain_inc_min_aX : SameDomain code_inc_min_aX doc_inc_min_aX := by c20_domain
theorem correct_inc_min_aX : Correct b_inc_min_aX :=
  ⟨impl_inc_min_aX, bounds_inc_min_aX, meta_inc_min_aX, by decide, domain_inc_min_aX, variants_inc_min_aX⟩

theorem impl_real_to_int_X : Implements code_real_to_int_X doc_real_to_int_X := implements_assign (by c20_pointwise)
theorem bounds_real_to_int_X : ∀ dm annexed, (b_real_to_int_X).bound dm annexed = docBound dm annexed (b_real_to_int_X).isReduction := by decide
theorem meta_real_to_int_X : ((b_real_to_int_X).written = [(b_real_to_int_X).doc.target] ∧ (b_real_to_int_X).code.body.target = (b_real_to_int_X).doc.target) := by decide
theorem variants_real_to_int_X : ∀ c ∈ (b_real_to_int_X).variants, c = (b_real_to_int_X).code := by decide
theorem domain_real_to_int_X : SameDomain code_real_to_int_X doc_real_to_int_X := by c20_domain
theorem correct_real_to_int_X : Correct b_real_to_int_X :=
  ⟨impl_real_to_int_X, bounds_real_to_int_X, meta_real_to_int_X, by decide, domain_real_to_int_X, variants_real_to_int_X⟩

theorem impl_real_to_real_X : Implements code_real_to_real_X doc_real_to_real_X := implements_assign (by c20_pointwise)
theorem bounds_real_to_real_X : ∀ dm annexed, (b_real_to_real_X).bound dm annexed = docBound dm annexed (b_real_to_real_X).isReduction := by decide
theorem meta_real_to_real_X : ((b_real_to_real_X).written = [(b_real_to_real_X).doc.target] ∧ (b_real_to_real_X).code.body.target = (b_real_to_real_X).doc.target) := by decide
theorem variants_real_to_real_X : ∀ c ∈ (b_real_to_real_X).variants, c = (b_real_to_real_X).code := by decide
theorem domain_real_to_real_X : SameDomain code_real_to_real_X doc_real_to_real_X := by c20_domain
theorem correct_real_to_real_X : Correct b_real_to_real_X :=
  ⟨impl_real_to_real_X, bounds_real_to_real_X, meta_real_to_real_X, by decide, domain_real_to_real_X, variants_real_to_real_X⟩

theorem impl_int_X_plus_Y : Implements code_int_X_plus_Y doc_int_X_plus_Y := implements_assign (by c20_pointwise)
theorem bounds_int_X_plus_Y : ∀ dm annexed, (b_int_X_plus_Y).bound dm annexed = docBound dm annexed (b_int_X_plus_Y).isReduction := by decide
theorem meta_int_X_plus_Y : ((b_int_X_plus_Y).written = [(b_int_X_plus_Y).doc.target] ∧ (b_int_X_plus_Y).code.body.target = (b_int_X_plus_Y).doc.target) := by decide
theorem variants_int_X_plus_Y : ∀ c ∈ (b_int_X_plus_Y).variants, c = (b_int_X_plus_Y).code := by decide
theorem domain_int_X_plus_Y : SameDomain code_int_X_plus_Y doc_int_X_plus_Y := by c20_domain
theorem correct_int_X_plus_Y : Correct b_int_X_plus_Y :=
  ⟨impl_int_X_plus_Y, bounds_int_X_plus_Y, meta_int_X_plus_Y, by decide, domain_int_X_plus_Y, variants_int_X_plus_Y⟩

theorem impl_int_inc_X_plus_Y : Implements code_int_inc_X_plus_Y doc_int_inc_X_plus_Y := implements_assign (by c20_pointwise)
theorem bounds_int_inc_X_plus_Y : ∀ dm annexed, (b_int_inc_X_plus_Y).bound dm annexed = docBound dm annexed (b_int_inc_X_plus_Y).isReduction := by decide
theorem meta_int_inc_X_plus_Y : ((b_int_inc_X_plus_Y).written = [(b_int_inc_X_plus_Y).doc.target] ∧ (b_int_inc_X_plus_Y).code.body.target = (b_int_inc_X_plus_Y).doc.target) := by decide
theorem variants_int_inc_X_plus_Y : ∀ c ∈ (b_int_inc_X_plus_Y).variants, c = (b_int_inc_X_plus_Y).code := by decide
theorem domain_int_inc_X_plus_Y : SameDomain code_int_inc_X_plus_Y doc_int_inc_X_plus_Y := by c20_domain
theorem correct_int_inc_X_plus_Y : Correct b_int_inc_X_plus_Y :=
  ⟨impl_int_inc_X_plus_Y, bounds_int_inc_X_plus_Y, meta_int_inc_X_plus_Y, by decide, domain_int_inc_X_plus_Y, variants_int_inc_X_plus_Y⟩

theorem impl_int_a_plus_X : Implements code_int_a_plus_X doc_int_a_plus_X := implements_assign (by c20_pointwise)
theorem bounds_int_a_plus_X : ∀ dm annexed, (b_int_a_plus_X).bound dm annexed = docBound dm annexed (b_int_a_plus_X).isReduction := by decide
theorem meta_int_a_plus_X : ((b_int_a_plus_X).written = [(b_int_a_plus_X).doc.target] ∧ (b_int_a_plus_X).code.body.target = (b_int_a_plus_X).doc.target) := by decide
theorem variants_int_a_plus_X : ∀ c ∈ (b_int_a_plus_X).variants, c = (b_int_a_plus_X).code := by decide
theorem domain_int_a_plus_X : SameDomain code_int_a_plus_X doc_int_a_plus_X := by c20_domain
theorem correct_int_a_plus_X : Correct b_int_a_plus_X :=
  ⟨impl_int_a_plus_X, bounds_int_a_plus_X, meta_int_a_plus_X, by decide, domain_int_a_plus_X, variants_int_a_plus_X⟩

theorem impl_int_inc_a_plus_X : Implements code_int_inc_a_plus_X doc_int_inc_a_plus_X := implements_assign (by c20_pointwise)
theorem bounds_int_inc_a_plus_X : ∀ dm annexed, (b_int_inc_a_plus_X).bound dm annexed = docBound dm annexed (b_int_inc_a_plus_X).isReduction := by decide
theorem meta_int_inc_a_plus_X : ((b_int_inc_a_plus_X).written = [(b_int_inc_a_plus_X).doc.target] ∧ (b_int_inc_a_plus_X).code.body.target = (b_int_inc_a_plus_X).doc.target) := by decide
theorem variants_int_inc_a_plus_X : ∀ c ∈ (b_int_inc_a_plus_X).variants, c = (b_int_inc_a_plus_X).code := by decide
theorem domain_int_inc_a_plus_X : SameDomain code_int_inc_a_plus_X doc_int_inc_a_plus_X := by c20_domain
theorem correct_int_inc_a_plus_X : Correct b_int_inc_a_plus_X :=
  ⟨impl_int_inc_a_plus_X, bounds_int_inc_a_plus_X, meta_int_inc_a_plus_X, by decide, domain_int_inc_a_plus_X, variants_int_inc_a_plus_X⟩

theorem impl_int_X_minus_Y : Implements code_int_X_minus_Y doc_int_X_minus_Y := implements_assign (by c20_pointwise)
theorem bounds_int_X_minus_Y : ∀ dm annexed, (b_int_X_minus_Y).bound dm annexed = docBound dm annexed (b_int_X_minus_Y).isReduction := by decide
theorem meta_int_X_minus_Y : ((b_int_X_minus_Y).written = [(b_int_X_minus_Y).doc.target] ∧ (b_int_X_minus_Y).code.body.target = (b_int_X_minus_Y).doc.target) := by decide
theorem variants_int_X_minus_Y : ∀ c ∈ (b_int_X_minus_Y).variants, c = (b_int_X_minus_Y).code := by decide
theorem domain_int_X_minus_Y : SameDomain code_int_X_minus_Y doc_int_X_minus_Y := by c20_domain
theorem correct_int_X_minus_Y : Correct b_int_X_minus_Y :=
  ⟨impl_int_X_minus_Y, bounds_int_X_minus_Y, meta_int_X_minus_Y, by decide, domain_int_X_minus_Y, variants_int_X_minus_Y⟩

theorem impl_int_inc_X_minus_Y : Implements code_int_inc_X_minus_Y doc_int_inc_X_minus_Y := implements_assign (by c20_pointwise)
theorem bounds_int_inc_X_minus_Y : ∀ dm annexed, (b_int_inc_X_minus_Y).bound dm annexed = docBound dm annexed (b_int_inc_X_minus_Y).isReduction := by decide
theorem meta_int_inc_X_minus_Y : ((b_int_inc_X_minus_Y).written = [(b_int_inc_X_minus_Y).doc.target] ∧ (b_int_inc_X_minus_Y).code.body.target = (b_int_inc_X_minus_Y).doc.target) := by decide
theorem variants_int_inc_X_minus_Y : ∀ c ∈ (b_int_inc_X_minus_Y).variants, c = (b_int_inc_X_minus_Y).code := by decide
theorem domain_int_inc_X_minus_Y : SameDomain code_int_inc_X_minus_Y doc_int_inc_X_minus_Y := by c20_domain
theorem correct_int_inc_X_minus_Y : Correct b_int_inc_X_minus_Y :=
  ⟨impl_int_inc_X_minus_Y, bounds_int_inc_X_minus_Y, meta_int_inc_X_minus_Y, by decide, domain_int_inc_X_minus_Y, variants_int_inc_X_minus_Y⟩

theorem impl_int_a_minus_X : Implements code_int_a_minus_X doc_int_a_minus_X := implements_assign (by c20_pointwise)
theorem bounds_int_a_minus_X : ∀ dm annexed, (b_int_a_minus_X).bound dm annexed = docBound dm annexed (b_int_a_minus_X).isReduction := by decide
theorem meta_int_a_minus_X : ((b_int_a_minus_X).written = [(b_int_a_minus_X).doc.target] ∧ (b_int_a_minus_X).code.body.target = (b_int_a_minus_X).doc.target) := by decide
theorem variants_int_a_minus_X : ∀ c ∈ (b_int_a_minus_X).variants, c = (b_int_a_minus_X).code := by decide
theorem domain_int_a_minus_X : SameDomain code_int_a_minus_X doc_int_a_minus_X := by c20_domain
theorem correct_int_a_minus_X : Correct b_int_a_minus_X :=
  ⟨impl_int_a_minus_X, bounds_int_a_minus_X, meta_int_a_minus_X, by decide, domain_int_a_minus_X, variants_int_a_minus_X⟩

theorem impl_int_inc_a_minus_X : Implements code_int_inc_a_minus_X doc_int_inc_a_minus_X := implements_assign (by c20_pointwise)
theorem bounds_int_inc_a_minus_X : ∀ dm annexed, (b_int_inc_a_minus_X).bound dm annexed = docBound dm annexed (b_int_inc_a_minus_X).isReduction := by decide
theorem meta_int_inc_a_minus_X : ((b_int_inc_a_minus_X).written = [(b_int_inc_a_minus_X).doc.target] ∧ (b_int_inc_a_minus_X).code.body.target = (b_int_inc_a_minus_X).doc.target) := by decide
theorem variants_int_inc_a_minus_X : ∀ c ∈ (b_int_inc_a_minus_X).variants, c = (b_int_inc_a_minus_X).code := by decide
theorem domain_int_inc_a_minus_X : SameDomain code_int_inc_a_minus_X doc_int_inc_a_minus_X := by c20_domain
theorem correct_int_inc_a_minus_X : Correct b_int_inc_a_minus_X :=
  ⟨impl_int_inc_a_minus_X, bounds_int_inc_a_minus_X, meta_int_inc_a_minus_X, by decide, domain_int_inc_a_minus_X, variants_int_inc_a_minus_X⟩

theorem impl_int_X_minus_a : Implements code_int_X_minus_a doc_int_X_minus_a := implements_assign (by c20_pointwise)
theorem bounds_int_X_minus_a : ∀ dm annexed, (b_int_X_minus_a).bound dm annexed = docBound dm annexed (b_int_X_minus_a).isReduction := by decide
theorem meta_int_X_minus_a : ((b_int_X_minus_a).written = [(b_int_X_minus_a).doc.target] ∧ (b_int_X_minus_a).code.body.target = (b_int_X_minus_a).doc.target) := by decide
theorem variants_int_X_minus_a : ∀ c ∈ (b_int_X_minus_a).variants, c = (b_int_X_minus_a).code := by decide
theorem domain_int_X_minus_a : SameDomain code_int_X_minus_a doc_int_X_minus_a := by c20_domain
theorem correct_int_X_minus_a : Correct b_int_X_minus_a :=
  ⟨impl_int_X_minus_a, bounds_int_X_minus_a, meta_int_X_minus_a, by decide, domain_int_X_minus_a, variants_int_X_minus_a⟩

theorem impl_int_inc_X_minus_a : Implements code_int_inc_X_minus_a doc_int_inc_X_minus_a := implements_assign (by c20_pointwise)
theorem bounds_int_inc_X_minus_a : ∀ dm annexed, (b_int_inc_X_minus_a).bound dm annexed = docBound dm annexed (b_int_inc_X_minus_a).isReduction := by decide
theorem meta_int_inc_X_minus_a : ((b_int_inc_X_minus_a).written = [(b_int_inc_X_minus_a).doc.target] ∧ (b_int_inc_X_minus_a).code.body.target = (b_int_inc_X_minus_a).doc.target) := by decide
theorem variants_int_inc_X_minus_a : ∀ c ∈ (b_int_inc_X_minus_a).variants, c = (b_int_inc_X_minus_a).code := by decide
theorem domain_int_inc_X_minus_a : SameDomain code_int_inc_X_minus_a doc_int_inc_X_minus_a := by c20_domain
theorem correct_int_inc_X_minus_a : Correct b_int_inc_X_minus_a :=
  ⟨impl_int_inc_X_minus_a, bounds_int_inc_X_minus_a, meta_int_inc_X_minus_a, by decide, domain_int_inc_X_minus_a, variants_int_inc_X_minus_a⟩

theorem impl_int_X_times_Y : Implements code_int_X_times_Y doc_int_X_times_Y := implements_assign (by c20_pointwise)
theorem bounds_int_X_times_Y : ∀ dm annexed, (b_int_X_times_Y).bound dm annexed = docBound dm annexed (b_int_X_times_Y).isReduction := by decide
theorem meta_int_X_times_Y : ((b_int_X_times_Y).written = [(b_int_X_times_Y).doc.target] ∧ (b_int_X_times_Y).code.body.target = (b_int_X_times_Y).doc.target) := by decide
theorem variants_int_X_times_Y : ∀ c ∈ (b_int_X_times_Y).variants, c = (b_int_X_times_Y).code := by decide
theorem domain_int_X_times_Y : SameDomain code_int_X_times_Y doc_int_X_times_Y := by c20_domain
theorem correct_int_X_times_Y : Correct b_int_X_times_Y :=
  ⟨impl_int_X_times_Y, bounds_int_X_times_Y, meta_int_X_times_Y, by decide, domain_int_X_times_Y, variants_int_X_times_Y⟩

theorem impl_int_inc_X_times_Y : Implements code_int_inc_X_times_Y doc_int_inc_X_times_Y := implements_assign (by c20_pointwise)
theorem bounds_int_inc_X_times_Y : ∀ dm annexed, (b_int_inc_X_times_Y).bound dm annexed = docBound dm annexed (b_int_inc_X_times_Y).isReduction := by decide
theorem meta_int_inc_X_times_Y : ((b_int_inc_X_times_Y).written = [(b_int_inc_X_times_Y).doc.target] ∧ (b_int_inc_X_times_Y).code.body.target = (b_int_inc_X_times_Y).doc.target) := by decide
theorem variants_int_inc_X_times_Y : ∀ c ∈ (b_int_inc_X_times_Y).variants, c = (b_int_inc_X_times_Y).code := by decide
theorem domain_int_inc_X_times_Y : SameDomain code_int_inc_X_times_Y doc_int_inc_X_times_Y := by c20_domain
theorem correct_int_inc_X_times_Y : Correct b_int_inc_X_times_Y :=
  ⟨impl_int_inc_X_times_Y, bounds_int_inc_X_times_Y, meta_int_inc_X_times_Y, by decide, domain_int_inc_X_times_Y, variants_int_inc_X_times_Y⟩

theorem impl_int_a_times_X : Implements code_int_a_times_X doc_int_a_times_X := implements_assign (by c20_pointwise)
theorem bounds_int_a_times_X : ∀ dm annexed, (b_int_a_times_X).bound dm annexed = docBound dm annexed (b_int_a_times_X).isReduction := by decide
theorem meta_int_a_times_X : ((b_int_a_times_X).written = [(b_int_a_times_X).doc.target] ∧ (b_int_a_times_X).code.body.target = (b_int_a_times_X).doc.target) := by decide
theorem variants_int_a_times_X : ∀ c ∈ (b_int_a_times_X).variants, c = (b_int_a_times_X).code := by decide
theorem domain_int_a_times_X : SameDomain code_int_a_times_X doc_int_a_times_X := by c20_domain
theorem correct_int_a_times_X : Correct b_int_a_times_X :=
  ⟨impl_int_a_times_X, bounds_int_a_times_X, meta_int_a_times_X, by decide, domain_int_a_times_X, variants_int_a_times_X⟩

theorem impl_int_inc_a_times_X : Implements code_int_inc_a_times_X doc_int_inc_a_times_X := implements_assign (by c20_pointwise)
theorem bounds_int_inc_a_times_X : ∀ dm annexed, (b_int_inc_a_times_X).bound dm annexed = docBound dm annexed (b_int_inc_a_times_X).isReduction := by decide
theorem meta_int_inc_a_times_X : ((b_int_inc_a_times_X).written = [(b_int_inc_a_times_X).doc.target] ∧ (b_int_inc_a_times_X).code.body.target = (b_int_inc_a_times_X).doc.target) := by decide
theorem variants_int_inc_a_times_X : ∀ c ∈ (b_int_inc_a_times_X).variants, c = (b_int_inc_a_times_X).code := by decide
theorem domain_int_inc_a_times_X : SameDomain code_int_inc_a_times_X doc_int_inc_a_times_X := by c20_domain
theorem correct_int_inc_a_times_X : Correct b_int_inc_a_times_X :=
  ⟨impl_int_inc_a_times_X, bounds_int_inc_a_times_X, meta_int_inc_a_times_X, by decide, domain_int_inc_a_times_X, variants_int_inc_a_times_X⟩

theorem impl_int_setval_c : Implements code_int_setval_c doc_int_setval_c := implements_assign (by c20_pointwise)
theorem bounds_int_setval_c : ∀ dm annexed, (b_int_setval_c).bound dm annexed = docBound dm annexed (b_int_setval_c).isReduction := by decide
theorem meta_int_setval_c : ((b_int_setval_c).written = [(b_int_setval_c).doc.target] ∧ (b_int_setval_c).code.body.target = (b_int_setval_c).doc.target) := by decide
theorem variants_int_setval_c : ∀ c ∈ (b_int_setval_c).variants, c = (b_int_setval_c).code := by decide
theorem domain_int_setval_c : SameDomain code_int_setval_c doc_int_setval_c := by c20_domain
theorem correct_int_setval_c : Correct b_int_setval_c :=
  ⟨impl_int_setval_c, bounds_int_setval_c, meta_int_setval_c, by decide, domain_int_setval_c, variants_int_setval_c⟩

theorem impl_int_setval_X : Implements code_int_setval_X doc_int_setval_X := implements_assign (by c20_pointwise)
theorem bounds_int_setval_X : ∀ dm annexed, (b_int_setval_X).bound dm annexed = docBound dm annexed (b_int_setval_X).isReduction := by decide
theorem meta_int_setval_X : ((b_int_setval_X).written = [(b_int_setval_X).doc.target] ∧ (b_int_setval_X).code.body.target = (b_int_setval_X).doc.target) := by decide
theorem variants_int_setval_X : ∀ c ∈ (b_int_setval_X).variants, c = (b_int_setval_X).code := by decide
theorem domain_int_setval_X : SameDomain code_int_setval_X doc_int_setval_X := by c20_domain
theorem correct_int_setval_X : Correct b_int_setval_X :=
  ⟨impl_int_setval_X, bounds_int_setval_X, meta_int_setval_X, by decide, domain_int_setval_X, variants_int_setval_X⟩

theorem impl_int_sign_X : Implements code_int_sign_X doc_int_sign_X := implements_assign (by c20_pointwise)
theorem bounds_int_sign_X : ∀ dm annexed, (b_int_sign_X).bound dm annexed = docBound dm annexed (b_int_sign_X).isReduction := by decide
theorem meta_int_sign_X : ((b_int_sign_X).written = [(b_int_sign_X).doc.target] ∧ (b_int_sign_X).code.body.target = (b_int_sign_X).doc.target) := by decide
theorem variants_int_sign_X : ∀ c ∈ (b_int_sign_X).variants, c = (b_int_sign_X).code := by decide
theorem domain_int_sign_X : SameDomain code_int_sign_X doc_int_sign_X := by c20_domain
theorem correct_int_sign_X : Correct b_int_sign_X :=
  ⟨impl_int_sign_X, bounds_int_sign_X, meta_int_sign_X, by decide, domain_int_sign_X, variants_int_sign_X⟩

theorem impl_int_max_aX : Implements code_int_max_aX doc_int_max_aX := implements_assign (by c20_pointwise)
theorem bounds_int_max_aX : ∀ dm annexed, (b_int_max_aX).bound dm annexed = docBound dm annexed (b_int_max_aX).isReduction := by decide
theorem meta_int_max_aX : ((b_int_max_aX).written = [(b_int_max_aX).doc.target] ∧ (b_int_max_aX).code.body.target = (b_int_max_aX).doc.target) := by decide
theorem variants_int_max_aX : ∀ c ∈ (b_int_max_aX).variants, c = (b_int_max_aX).code := by decide
theorem domain_int_max_aX : SameDomain code_int_max_aX doc_int_max_aX := by c20_domain
theorem correct_int_max_aX : Correct b_int_max_aX :=
  ⟨impl_int_max_aX, bounds_int_max_aX, meta_int_max_aX, by decide, domain_int_max_aX, variants_int_max_aX⟩

theorem impl_int_inc_max_aX : Implements code_int_inc_max_aX doc_int_inc_max_aX := implements_assign (by c20_pointwise)
theorem bounds_int_inc_max_aX : ∀ dm annexed, (b_int_inc_max_aX).bound dm annexed = docBound dm annexed (b_int_inc_max_aX).isReduction := by decide
theorem meta_int_inc_max_aX : ((b_int_inc_max_aX).written = [(b_int_inc_max_aX).doc.target] ∧ (b_int_inc_max_aX).code.body.target = (b_int_inc_max_aX).doc.target) := by decide
theorem variants_int_inc_max_aX : ∀ c ∈ (b_int_inc_max_aX).variants, c = (b_int_inc_max_aX).code := by decide
theorem domain_int_inc_max_aX : SameDomain code_int_inc_max_aX doc_int_inc_max_aX := by c20_domain
theorem correct_int_inc_max_aX : Correct b_int_inc_max_aX :=
  ⟨impl_int_inc_max_aX, bounds_int_inc_max_aX, meta_int_inc_max_aX, by decide, domain_int_inc_max_aX, variants_int_inc_max_aX⟩

theorem impl_int_min_aX : Implements code_int_min_aX doc_int_min_aX := implements_assign (by c20_pointwise)
theorem bounds_int_min_aX : ∀ dm annexed, (b_int_min_aX).bound dm annexed = docBound dm annexed (b_int_min_aX).isReduction := by decide
theorem meta_int_min_aX : ((b_int_min_aX).written = [(b_int_min_aX).doc.target] ∧ (b_int_min_aX).code.body.target = (b_int_min_aX).doc.target) := by decide
theorem variants_int_min_aX : ∀ c ∈ (b_int_min_aX).variants, c = (b_int_min_aX).code := by decide
theorem domain_int_min_aX : SameDomain code_int_min_aX doc_int_min_aX := by c20_domain
theorem correct_int_min_aX : Correct b_int_min_aX :=
  ⟨impl_int_min_aX, bounds_int_min_aX, meta_int_min_aX, by decide, domain_int_min_aX, variants_int_min_aX⟩

theorem impl_int_inc_min_aX : Implements code_int_inc_min_aX doc_int_inc_min_aX := implements_assign (by c20_pointwise)
theorem bounds_int_inc_min_aX : ∀ dm annexed, (b_int_inc_min_aX).bound dm annexed = docBound dm annexed (b_int_inc_min_aX).isReduction := by decide
theorem meta_int_inc_min_aX : ((b_int_inc_min_aX).written = [(b_int_inc_min_aX).doc.target] ∧ (b_int_inc_min_aX).code.body.target = (b_int_inc_min_aX).doc.target) := by decide
theorem variants_int_inc_min_aX : ∀ c ∈ (b_int_inc_min_aX).variants, c = (b_int_inc_min_aX).code := by decide
theorem domain_int_inc_min_aX : SameDomain code_int_inc_min_aX doc_int_inc_min_aX := by c20_domain
theorem correct_int_inc_min_aX : Correct b_int_inc_min_aX :=
  ⟨impl_int_inc_min_aX, bounds_int_inc_min_aX, meta_int_inc_min_aX, by decide, domain_int_inc_min_aX, variants_int_inc_min_aX⟩

theorem impl_int_to_real_X : Implements code_int_to_real_X doc_int_to_real_X := implements_assign (by c20_pointwise)
theorem bounds_int_to_real_X : ∀ dm annexed, (b_int_to_real_X).bound dm annexed = docBound dm annexed (b_int_to_real_X).isReduction := by decide
theorem meta_int_to_real_X : ((b_int_to_real_X).written = [(b_int_to_real_X).doc.target] ∧ (b_int_to_real_X).code.body.target = (b_int_to_real_X).doc.target) := by decide
theorem variants_int_to_real_X : ∀ c ∈ (b_int_to_real_X).variants, c = (b_int_to_real_X).code := by decide
theorem domain_int_to_real_X : SameDomain code_int_to_real_X doc_int_to_real_X := by c20_domain
theorem correct_int_to_real_X : Correct b_int_to_real_X :=
  ⟨impl_int_to_real_X, bounds_int_to_real_X, meta_int_to_real_X, by decide, domain_int_to_real_X, variants_int_to_real_X⟩

set_option maxRecDepth 4096 in
theorem all_correct : ∀ b ∈ table, Correct b :=
  List.forall_mem_cons.mpr ⟨correct_X_plus_Y, List.forall_mem_cons.mpr ⟨correct_inc_X_plus_Y, List.forall_mem_cons.mpr ⟨correct_a_plus_X, List.forall_mem_cons.mpr ⟨correct_inc_a_plus_X, List.forall_mem_cons.mpr ⟨correct_aX_plus_Y, List.forall_mem_cons.mpr ⟨correct_inc_aX_plus_Y, List.forall_mem_cons.mpr ⟨correct_inc_X_plus_bY, List.forall_mem_cons.mpr ⟨correct_aX_plus_bY, List.forall_mem_cons.mpr ⟨correct_inc_aX_plus_bY, List.forall_mem_cons.mpr ⟨correct_aX_plus_aY, List.forall_mem_cons.mpr ⟨correct_X_minus_Y, List.forall_mem_cons.mpr ⟨correct_inc_X_minus_Y, List.forall_mem_cons.mpr ⟨correct_a_minus_X, List.forall_mem_cons.mpr ⟨correct_inc_a_minus_X, List.forall_mem_cons.mpr ⟨correct_X_minus_a, List.forall_mem_cons.mpr ⟨correct_inc_X_minus_a, List.forall_mem_cons.mpr ⟨correct_aX_minus_Y, List.forall_mem_cons.mpr ⟨correct_X_minus_bY, List.forall_mem_cons.mpr ⟨correct_inc_X_minus_bY, List.forall_mem_cons.mpr ⟨correct_aX_minus_bY, List.forall_mem_cons.mpr ⟨correct_X_times_Y, List.forall_mem_cons.mpr ⟨correct_inc_X_times_Y, List.forall_mem_cons.mpr ⟨correct_inc_aX_times_Y, List.forall_mem_cons.mpr ⟨correct_a_times_X, List.forall_mem_cons.mpr ⟨correct_inc_a_times_X, List.forall_mem_cons.mpr ⟨correct_X_divideby_Y, List.forall_mem_cons.mpr ⟨correct_inc_X_divideby_Y, List.forall_mem_cons.mpr ⟨correct_X_divideby_a, List.forall_mem_cons.mpr ⟨correct_inc_X_divideby_a, List.forall_mem_cons.mpr ⟨correct_a_divideby_X, List.forall_mem_cons.mpr ⟨correct_inc_a_divideby_X, List.forall_mem_cons.mpr ⟨correct_inc_X_powreal_a, List.forall_mem_cons.mpr ⟨correct_inc_X_powint_n, List.forall_mem_cons.mpr ⟨correct_setval_c, List.forall_mem_cons.mpr ⟨correct_setval_X, List.forall_mem_cons.mpr ⟨correct_setval_random, List.forall_mem_cons.mpr ⟨correct_X_innerproduct_Y, List.forall_mem_cons.mpr ⟨correct_X_innerproduct_X, List.forall_mem_cons.mpr ⟨correct_sum_X, List.forall_mem_cons.mpr ⟨correct_sign_X, List.forall_mem_cons.mpr ⟨correct_max_aX, List.forall_mem_cons.mpr ⟨correct_inc_max_aX, List.forall_mem_cons.mpr ⟨correct_min_aX, List.forall_mem_cons.mpr ⟨correct_inc_min_aX, List.forall_mem_cons.mpr ⟨correct_real_to_int_X, List.forall_mem_cons.mpr ⟨correct_real_to_real_X, List.forall_mem_cons.mpr ⟨correct_int_X_plus_Y, List.forall_mem_cons.mpr ⟨correct_int_inc_X_plus_Y, List.forall_mem_cons.mpr ⟨correct_int_a_plus_X, List.forall_mem_cons.mpr ⟨correct_int_inc_a_plus_X, List.forall_mem_cons.mpr ⟨correct_int_X_minus_Y, List.forall_mem_cons.mpr ⟨correct_int_inc_X_minus_Y, List.forall_mem_cons.mpr ⟨correct_int_a_minus_X, List.forall_mem_cons.mpr ⟨correct_int_inc_a_minus_X, List.forall_mem_cons.mpr ⟨correct_int_X_minus_a, List.forall_mem_cons.mpr ⟨correct_int_inc_X_minus_a, List.forall_mem_cons.mpr ⟨correct_int_X_times_Y, List.forall_mem_cons.mpr ⟨correct_int_inc_X_times_Y, List.forall_mem_cons.mpr ⟨correct_int_a_times_X, List.forall_mem_cons.mpr ⟨correct_int_inc_a_times_X, List.forall_mem_cons.mpr ⟨correct_int_setval_c, List.forall_mem_cons.mpr ⟨correct_int_setval_X, List.forall_mem_cons.mpr ⟨correct_int_sign_X, List.forall_mem_cons.mpr ⟨correct_int_max_aX, List.forall_mem_cons.mpr ⟨correct_int_inc_max_aX, List.forall_mem_cons.mpr ⟨correct_int_min_aX, List.forall_mem_cons.mpr ⟨correct_int_inc_min_aX, List.forall_mem_cons.mpr ⟨correct_int_to_real_X, List.forall_mem_nil _⟩⟩⟩⟩⟩⟩⟩⟩⟩⟩⟩⟩⟩⟩⟩⟩⟩⟩⟩⟩⟩⟩⟩⟩⟩⟩⟩⟩⟩⟩⟩⟩⟩⟩⟩⟩⟩⟩⟩⟩⟩⟩⟩⟩⟩⟩⟩⟩⟩⟩⟩⟩⟩⟩⟩⟩⟩⟩⟩⟩⟩⟩⟩⟩⟩⟩⟩⟩

end C20.Gen
