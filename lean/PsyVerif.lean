-- Root of the PsyVerif library: models (core Lean only).  Property files are built
-- individually (`lake build PsyVerif.Props.Cxx`) by the checks and all together by setup.
import PsyVerif.Model.Proto
import PsyVerif.Model.Topo
